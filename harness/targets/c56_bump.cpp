// C56 — Fee bumping replaces the original safely.
// Oracle on every successful CreateRateBumpTransaction (amounts / ownership from the harness' own bookkeeping and WalletSim's script set):
//   the replacement spends every input of the original; unless the caller supplied outputs, every non-change output of the original is
//   present unchanged; fee(new) >= fee(old) + incremental relay feerate x final signed vsize, and >= requested feerate x vsize; after
//   signing + committing, the node mempool accepts it and reports the original among the replaced transactions. Originals that are
//   confirmed or already bumped (and, per the bumpfee contract, originals with wallet/mempool descendants) must be refused, and a
//   refusal must leave a digest of the wallet (transaction states, replaced-by links, locked coins, key pool) unchanged.
#include <engine/verif.h>
#include <kits/walletsim.h>

#include <addresstype.h>
#include <consensus/validation.h>
#include <policy/feerate.h>
#include <test/util/script.h>
#include <util/time.h>
#include <wallet/coincontrol.h>
#include <wallet/feebumper.h>
#include <wallet/spend.h>

#include <algorithm>
#include <map>
#include <set>

using namespace verif;

namespace {

constexpr int64_t REGTEST_GENESIS_TIME = 1296688602;
const OutputType TYPES[] = {OutputType::BECH32, OutputType::LEGACY, OutputType::P2SH_SEGWIT, OutputType::BECH32M};

int64_t own_vsize(const CTransaction& tx)
{
    int64_t stripped = int64_t(GetSerializeSize(TX_NO_WITNESS(tx)));
    int64_t total = int64_t(GetSerializeSize(TX_WITH_WITNESS(tx)));
    return (3 * stripped + total + 3) / 4;
}

std::string WalletDigest(WalletSim& ws)
{
    std::string d;
    LOCK(ws.w->cs_wallet);
    std::map<Txid, std::string> rows;
    for (const auto& [id, wtx] : ws.w->mapWallet) {
        rows[id] = strprintf("%d%d%d%d%d|%s|%s", wtx.isConfirmed(), wtx.InMempool(), wtx.isAbandoned(), wtx.isBlockConflicted(), wtx.isMempoolConflicted(),
                             wtx.m_replaced_by_txid ? wtx.m_replaced_by_txid->ToString() : "-", wtx.m_replaces_txid ? wtx.m_replaces_txid->ToString() : "-");
    }
    for (auto& [id, r] : rows) d += id.ToString().substr(0, 16) + ":" + r + ";";
    std::vector<COutPoint> lockedv;
    ws.w->ListLockedCoins(lockedv);
    d += strprintf("locked=%u;keypool=%u;addrbook=%u", lockedv.size(), ws.w->GetKeyPoolSize(), ws.w->m_address_book.size());
    return d;
}

struct Orig {
    CTransactionRef tx;
    bool all_mine{true};
    bool bumped{false}; //!< a replacement was committed for it
};

void run_case(verif::Src& s, verif::Stats& st, const bool literal)
{
    SetMockTime(REGTEST_GENESIS_TIME + 3600);
    ChainSimOpts o;
    o.immediate_signals = false; // see kits/walletsim.h
    auto simp = std::make_unique<ChainSim>(o);
    ChainSim& sim = *simp;
    LoadWalletBase(sim, 104);
    auto wsp = std::make_unique<WalletSim>(sim, WalletSimOpts{});
    WalletSim& ws = *wsp;
    const CAmount incremental = sim.mempool().m_opts.incremental_relay_feerate.GetFeePerK();

    WsLedger L = ws.Ledger();
    // ------------------------------------------------------------------ funding: confirmed coins of several types
    {
        unsigned nfund = s.range<unsigned>(1, 2);
        for (unsigned f = 0; f < nfund; ++f) {
            RefUtxo view = WsUtxoWithMempool(L);
            std::vector<std::pair<COutPoint, RefCoin>> fc;
            for (auto& [op, c] : view) if (c.spk == P2WSH_OP_TRUE && !(c.coinbase && L.tip_height + 1 - c.height < 100) && c.value >= 1000000) fc.emplace_back(op, c);
            if (fc.empty()) break;
            auto coin = fc[s.index(fc.size())];
            std::vector<CTxOut> outs;
            CAmount rest = coin.second.value - 5000;
            unsigned nout = s.range<unsigned>(2, 5);
            for (unsigned k = 0; k < nout; ++k) {
                CAmount v = s.pick<CAmount>({10000000, 1000000, 100000000, 300000, 50000000});
                v = std::min(v, rest / 3);
                outs.emplace_back(v, ws.NewScript(TYPES[s.index(std::size(TYPES))]));
                rest -= v;
            }
            outs.emplace_back(rest, P2WSH_OP_TRUE);
            auto mtx = ws.MakeTx({coin}, outs);
            VCHECK(mtx.has_value(), "c56.harness", "cannot build funding tx");
            ws.Submit(MakeTransactionRef(*mtx));
            L = ws.Ledger();
        }
        auto m = ws.Mine(sim.TipHash(), L.mempool_txs, {}, 100, &L.chain_utxo);
        VCHECK(m.delivery.processed && sim.TipHash() == m.block->GetHash(), "c56.harness", "funding block rejected");
        L = ws.Ledger();
    }
    auto value_of = [&](const COutPoint& op) -> std::optional<CAmount> {
        auto it = L.chain_utxo.find(op);
        if (it != L.chain_utxo.end()) return it->second.value;
        auto tit = ws.Tracked().find(op.hash);
        if (tit != ws.Tracked().end() && op.n < tit->second->vout.size()) return tit->second->vout[op.n].nValue;
        return std::nullopt;
    };
    auto fee_of = [&](const CTransaction& tx) -> std::optional<CAmount> {
        CAmount in = 0, out = 0;
        for (auto& i : tx.vin) { auto v = value_of(i.prevout); if (!v) return std::nullopt; in += *v; }
        for (auto& o2 : tx.vout) out += o2.nValue;
        return in - out;
    };
    auto is_change = [&](const CTxOut& out) { auto info = ws.ModelScriptInfo(out.scriptPubKey); return info && info->internal; };
    auto foreign_dest = [&](unsigned k) {
        CScript spk = k == 0 ? CScript(P2WSH_OP_TRUE) : k == 1 ? sim.keys.Script(SpkType::P2WPKH, 1) : sim.keys.Script(SpkType::P2TR, 2);
        CTxDestination d;
        ExtractDestination(spk, d);
        return d;
    };

    std::vector<Orig> origs;
    bool f_accepted = false, f_refused = false;
    unsigned nops = s.range<unsigned>(2, 12);
    for (unsigned op = 0; op < nops && !s.exhausted(); ++op) {
        unsigned kind = s.range<unsigned>(0, 11);
        L = ws.Ledger();
        st.mix(uint64_t(kind));
        const bool had_origs = !origs.empty();
        size_t forced_bump = SIZE_MAX; // drain+exact op: bump the changeless payment right away
        if (kind <= 1 || origs.empty()) {
            // wallet-created payment
            wallet::CCoinControl cc;
            cc.m_feerate = CFeeRate{s.pick<CAmount>({2000, 1000, 10000, 25000})};
            if (s.chance(128)) cc.m_signal_bip125_rbf = s.boolean();
            unsigned nr = s.range<unsigned>(1, 2);
            std::vector<wallet::CRecipient> rcp;
            for (unsigned k = 0; k < nr; ++k) {
                CTxDestination d = s.chance(40) ? ws.NewDestination(TYPES[s.index(std::size(TYPES))]) : foreign_dest(s.range<unsigned>(0, 2));
                CAmount a = s.pick<CAmount>({500000, 100000, 5000000, 20000000, 30000});
                rcp.push_back({d, a, false});
            }
            if (s.chance(30) && nr == 1) rcp[0].fSubtractFeeFromAmount = true;
            auto res = wallet::CreateTransaction(*ws.w, rcp, std::nullopt, cc, true);
            if (!res) { st.cls("payment-failed"); continue; }
            ws.w->CommitTransaction(res->tx);
            auto r2 = ws.Submit(res->tx);
            if (r2.m_result_type != MempoolAcceptResult::ResultType::VALID) { ws.AbandonFloating(); st.cls("payment-rejected"); continue; }
            origs.push_back({res->tx, true, false});
            st.cls("payment");
            st.note("pay ", res->tx->GetHash().ToString().substr(0, 8), " in=", res->tx->vin.size(), " out=", res->tx->vout.size(), " fee=", res->fee);
        } else if (kind == 3) {
            // harness-built payment mixing a wallet coin with a foreign coin
            RefUtxo view = WsUtxoWithMempool(L);
            std::vector<std::pair<COutPoint, RefCoin>> ins;
            for (auto& [op2, c] : L.coins) if (c.depth >= 1 && !c.immature && c.value >= 200000) { ins.push_back({op2, RefCoin{c.value, c.spk, c.height, c.coinbase}}); break; }
            for (auto& [op2, c] : view) if (c.spk == P2WSH_OP_TRUE && c.height > 0 && !(c.coinbase && L.tip_height + 1 - c.height < 100) && c.value >= 1000000) { ins.push_back({op2, c}); break; }
            if (ins.size() != 2) continue;
            CAmount total = ins[0].second.value + ins[1].second.value;
            std::vector<CTxOut> outs{CTxOut(total / 2, P2WSH_OP_TRUE), CTxOut(total - total / 2 - 3000, ws.NewScript(OutputType::BECH32, /*internal=*/true))};
            auto mtx = ws.MakeTx(ins, outs);
            if (!mtx) continue;
            CTransactionRef tx = MakeTransactionRef(*mtx);
            if (ws.Submit(tx).m_result_type != MempoolAcceptResult::ResultType::VALID) continue;
            origs.push_back({tx, false, false});
            st.cls("mixed-payment");
        } else if (kind == 4) {
            // child of an original: spend one of its outputs that pays the wallet
            const Orig& og = origs[s.index(origs.size())];
            std::optional<COutPoint> child_in;
            for (uint32_t i = 0; i < og.tx->vout.size(); ++i) if (L.coins.count(COutPoint(og.tx->GetHash(), i))) { child_in = COutPoint(og.tx->GetHash(), i); break; }
            if (!child_in) continue;
            wallet::CCoinControl cc;
            cc.m_feerate = CFeeRate{3000};
            cc.Select(*child_in);
            cc.m_allow_other_inputs = false;
            std::vector<wallet::CRecipient> rcp{{foreign_dest(0), L.coins.at(*child_in).value, true}};
            auto res = wallet::CreateTransaction(*ws.w, rcp, std::nullopt, cc, true);
            if (!res) continue;
            ws.w->CommitTransaction(res->tx);
            if (ws.Submit(res->tx).m_result_type != MempoolAcceptResult::ResultType::VALID) { ws.AbandonFloating(); continue; }
            st.cls("child-of-original");
            st.note("child of ", og.tx->GetHash().ToString().substr(0, 8));
        } else if (kind == 5 || kind == 2) {
            std::vector<CTransactionRef> cands;
            for (auto& tx : L.mempool_txs) if (s.chance(170)) cands.push_back(tx);
            auto m = ws.Mine(sim.TipHash(), cands, {}, 200 + op, &L.chain_utxo);
            VCHECK(m.delivery.processed, "c56.harness", "block rejected");
            st.cls("mine");
            st.note("mine txs=", m.txs.size());
        } else if (kind >= 10) {
            // drain + exact payment: P1 (1 sat/vB) spends the confirmed coins except X (kind 11: and a spare Y) and leaves a large unconfirmed change;
            // P2 pays away X completely (no change, higher feerate). Bumping P2 needs an ADDITIONAL input: a confirmed spare if there is one; the
            // unconfirmed change of P1 must not be used (feebumper demands confirmed inputs: "We cannot source new unconfirmed inputs (bip125 rule 2)").
            std::vector<std::pair<COutPoint, CAmount>> conf;
            for (auto& [op2, c] : L.coins) if (c.depth >= 1 && c.trusted && !c.immature && c.value >= 200000) conf.emplace_back(op2, c.value);
            if (conf.size() < 2) continue;
            size_t xi = s.index(conf.size());
            auto X = conf[xi];
            conf.erase(conf.begin() + xi);
            if (kind == 11 && conf.size() >= 2) conf.erase(conf.begin() + s.index(conf.size())); // spare Y stays confirmed and unspent
            {
                wallet::CCoinControl cc;
                cc.m_feerate = CFeeRate{1000};
                cc.m_allow_other_inputs = false;
                CAmount sum = 0;
                for (auto& [op2, v] : conf) { cc.Select(op2); sum += v; }
                std::vector<wallet::CRecipient> rcp{{foreign_dest(0), sum * 3 / 10, false}};
                auto res = wallet::CreateTransaction(*ws.w, rcp, std::nullopt, cc, true);
                if (!res) { st.cls("payment-failed"); continue; }
                ws.w->CommitTransaction(res->tx);
                if (ws.Submit(res->tx).m_result_type != MempoolAcceptResult::ResultType::VALID) { ws.AbandonFloating(); st.cls("payment-rejected"); continue; }
                origs.push_back({res->tx, true, false});
                st.note("drain ", res->tx->GetHash().ToString().substr(0, 8), " in=", res->tx->vin.size(), " fee=", res->fee);
            }
            {
                wallet::CCoinControl cc;
                cc.m_feerate = CFeeRate{s.pick<CAmount>({25000, 10000, 5000})};
                cc.m_allow_other_inputs = false;
                cc.Select(X.first);
                std::vector<wallet::CRecipient> rcp{{foreign_dest(s.range<unsigned>(0, 2)), X.second, true}};
                auto res = wallet::CreateTransaction(*ws.w, rcp, std::nullopt, cc, true);
                if (!res) { st.cls("payment-failed"); continue; }
                ws.w->CommitTransaction(res->tx);
                if (ws.Submit(res->tx).m_result_type != MempoolAcceptResult::ResultType::VALID) { ws.AbandonFloating(); st.cls("payment-rejected"); continue; }
                origs.push_back({res->tx, true, false});
                st.cls("drain+exact-payment");
                st.note("exact ", res->tx->GetHash().ToString().substr(0, 8), " out=", res->tx->vout.size(), " fee=", res->fee);
                if (s.chance(200)) forced_bump = origs.size() - 1;
            }
            L = ws.Ledger();
        }
        if ((kind >= 6 && kind <= 9 && had_origs) || forced_bump != SIZE_MAX) {
            // ---------------------------------------------------------------- bump
            size_t oi = forced_bump != SIZE_MAX ? forced_bump : s.index(origs.size());
            if (forced_bump == SIZE_MAX && s.chance(70)) { // prefer an original that is already confirmed
                for (size_t k = 0; k < origs.size(); ++k) if (L.in_chain.count(origs[k].tx->GetHash())) { oi = k; break; }
            }
            Orig& og = origs[oi];
            const Txid txid = og.tx->GetHash();
            const bool confirmed = L.in_chain.count(txid) > 0;
            bool has_desc = false; // a live descendant: a mempool transaction spending one of its outputs
            for (auto& t : L.mempool_txs) for (auto& in : t->vin) if (in.prevout.hash == txid) has_desc = true;
            const bool in_mempool = L.mempool.count(txid) > 0;
            unsigned mode = forced_bump != SIZE_MAX ? s.range<unsigned>(0, 1) : s.range<unsigned>(0, 3);
            // does the bump have to ADD inputs (no change output to take the higher fee from), and which spare coins does the wallet hold?
            bool orig_has_change = false;
            for (auto& out : og.tx->vout) if (is_change(out)) orig_has_change = true;
            bool spare_confirmed = false, spare_unconfirmed = false;
            for (auto& [op2, c] : L.coins) {
                if (c.immature || !c.trusted || c.value < 20000 || op2.hash == txid) continue;
                (c.depth >= 1 ? spare_confirmed : spare_unconfirmed) = true;
            }
            if (!orig_has_change && !confirmed && !og.bumped) {
                st.cls("bump-must-add-inputs");
                if (spare_unconfirmed) st.cls("bump-added-unconfirmed-input-available");
                if (spare_unconfirmed && !spare_confirmed) st.cls("bump-only-unconfirmed-spare");
            }
            wallet::CCoinControl cc;
            std::optional<CAmount> rate;
            std::vector<CTxOut> new_outputs;
            std::optional<uint32_t> change_index;
            const auto old_fee_model = fee_of(*og.tx);
            const int64_t old_vsize = own_vsize(*og.tx);
            if (mode == 1 && old_fee_model) {
                CAmount old_rate = *old_fee_model * 1000 / old_vsize;
                rate = s.pick<CAmount>({old_rate * 2, old_rate + incremental + 1000, old_rate * 4, old_rate + 1, old_rate / 2, 50000});
                cc.m_feerate = CFeeRate{*rate};
            } else if (mode == 2) {
                // caller-supplied outputs: the original payments with a changed amount on the first one, optionally one more payment.
                // (literal target only: keep just the first payment, i.e. a SMALLER replacement.)
                bool first = true;
                for (auto& out : og.tx->vout) {
                    if (is_change(out)) continue;
                    if (first) new_outputs.emplace_back(out.nValue + s.pick<CAmount>({0, 10000, -1000}), out.scriptPubKey);
                    else if (!literal) new_outputs.push_back(out);
                    first = false;
                }
                if (s.boolean()) new_outputs.emplace_back(70000, sim.keys.Script(SpkType::P2WPKH, 3));
                if (new_outputs.empty()) mode = 0;
            } else if (mode == 3) {
                for (uint32_t i = 0; i < og.tx->vout.size(); ++i) if (is_change(og.tx->vout[i])) change_index = i;
                if (!change_index) mode = 0;
            }
            const bool require_mine = !s.chance(40);
            const std::string before = WalletDigest(ws);
            std::vector<bilingual_str> errors;
            CAmount old_fee = 0, new_fee = 0;
            CMutableTransaction mtx;
            auto result = wallet::feebumper::CreateRateBumpTransaction(*ws.w, txid, cc, errors, old_fee, new_fee, mtx, require_mine, new_outputs, change_index);
            const bool ok = result == wallet::feebumper::Result::OK;
            st.mix(uint64_t(mode)); st.mix(uint64_t(ok));
            st.steps++;
            std::string errs;
            for (auto& e : errors) errs += e.original + "; ";
            st.note("bump ", txid.ToString().substr(0, 8), " mode=", mode, rate ? strprintf(" rate=%d", *rate) : "", confirmed ? " [confirmed]" : "", og.bumped ? " [already bumped]" : "",
                    has_desc ? " [has descendants]" : "", !og.all_mine ? " [not all ours]" : "", ok ? " -> ok" : " -> refused: " + errs);
            if (confirmed || og.bumped || has_desc) {
                VCHECK(!ok, confirmed ? "c56.bumped-confirmed" : og.bumped ? "c56.bumped-already-replaced" : "c56.bumped-with-descendants", "unbumpable original was bumped", txid.ToString(), "| history:", st.sample);
                VCHECK(WalletDigest(ws) == before, "c56.refusal-changed-wallet", "wallet digest changed by a refused bump");
                f_refused = true;
                st.cls(confirmed ? "refused-confirmed" : og.bumped ? "refused-already-bumped" : "refused-has-descendants");
                continue;
            }
            if (!ok) {
                st.cls(!og.all_mine && require_mine ? "refused-not-all-ours" : "refused-other");
                continue;
            }
            // ---- successful bump: invariants
            VCHECK(in_mempool, "c56.harness", "bumped an original that is neither confirmed nor in the mempool", "| history:", st.sample);
            std::set<COutPoint> new_ins;
            for (auto& in : mtx.vin) new_ins.insert(in.prevout);
            for (auto& in : og.tx->vin) VCHECK(new_ins.count(in.prevout), "c56.inputs-dropped", "replacement does not spend original input", in.prevout.ToString());
            if (new_ins.size() > og.tx->vin.size()) st.cls("bump-added-inputs");
            if (new_outputs.empty()) {
                std::multiset<std::pair<CScript, CAmount>> have;
                for (auto& out : mtx.vout) have.insert({out.scriptPubKey, out.nValue});
                for (uint32_t i = 0; i < og.tx->vout.size(); ++i) {
                    const CTxOut& out = og.tx->vout[i];
                    if (change_index ? *change_index == i : is_change(out)) continue;
                    auto it = have.find({out.scriptPubKey, out.nValue});
                    VCHECK(it != have.end(), "c56.payment-changed", "non-change output", i, "of the original is missing or altered in the replacement; value", out.nValue, "| history:", st.sample);
                    have.erase(it);
                }
            }
            bool signed_ok;
            if (og.all_mine) {
                signed_ok = wallet::feebumper::SignTransaction(*ws.w, mtx);
            } else {
                // psbtbumpfee flow: the foreign input (anyone-can-spend template / harness key) first, then the wallet's inputs with every coin supplied
                std::map<COutPoint, RefCoin> spent;
                std::map<COutPoint, Coin> cmap;
                for (auto& in : mtx.vin) {
                    auto it = L.chain_utxo.find(in.prevout);
                    if (it == L.chain_utxo.end()) continue;
                    spent[in.prevout] = it->second;
                    cmap[in.prevout] = Coin(CTxOut(it->second.value, it->second.spk), it->second.height, it->second.coinbase);
                }
                sim.keys.Sign(mtx, spent);
                std::map<int, bilingual_str> errs;
                signed_ok = ws.w->SignTransaction(mtx, cmap, SIGHASH_DEFAULT, errs);
            }
            VCHECK(signed_ok, "c56.harness", "could not sign the replacement");
            const CTransaction newtx(mtx);
            const auto new_fee_model = fee_of(newtx);
            VCHECK(old_fee_model && new_fee_model, "c56.harness", "unknown input value");
            const int64_t vsize = own_vsize(newtx);
            VCHECK((__int128)*new_fee_model * 1000 >= (__int128)*old_fee_model * 1000 + (__int128)incremental * vsize, "c56.fee-increment", "new fee", *new_fee_model, "old fee", *old_fee_model,
                   "incremental", incremental, "sat/kvB x", vsize, "vB", "mode", mode, "| history:", st.sample);
            if (rate) VCHECK((__int128)*new_fee_model * 1000 >= (__int128)*rate * vsize, "c56.fee-below-requested", "new fee", *new_fee_model, "requested", *rate, "sat/kvB x", vsize, "vB");
            // commit + submit: the mempool must take it as a replacement of the original. (A replacement with a foreign input is the psbtbumpfee
            // flow: it is never committed through the wallet -- CWallet::CommitTransaction requires every input's parent in the wallet.)
            if (og.all_mine) {
                Txid bumped;
                std::vector<bilingual_str> cerr;
                auto cres = wallet::feebumper::CommitTransaction(*ws.w, txid, CMutableTransaction(newtx), cerr, bumped);
                VCHECK(cres == wallet::feebumper::Result::OK, "c56.harness", "feebumper::CommitTransaction failed");
            } else {
                st.cls("bump-with-foreign-input");
            }
            auto sub = ws.Submit(MakeTransactionRef(newtx));
            VCHECK(sub.m_result_type == MempoolAcceptResult::ResultType::VALID, "c56.not-accepted", "mempool rejects the replacement:", sub.m_state.ToString(), "new fee", *new_fee_model, "old fee",
                   *old_fee_model, "vsize", vsize, "mode", mode, "| history:", st.sample);
            bool replaced_orig = false;
            for (auto& r : sub.m_replaced_transactions) if (r->GetHash() == txid) replaced_orig = true;
            VCHECK(replaced_orig, "c56.not-a-replacement", "accepted, but the original is not among the replaced transactions");
            og.bumped = true;
            origs.push_back({MakeTransactionRef(newtx), og.all_mine, false}); // bump of a bump later
            f_accepted = true;
            st.cls(mode == 0 ? "bump-default" : mode == 1 ? "bump-explicit-rate" : mode == 2 ? "bump-new-outputs" : "bump-reduce-change");
            st.mix(uint64_t(newtx.vin.size())); st.mix(uint64_t(newtx.vout.size()));
            st.note("replacement ", newtx.GetHash().ToString().substr(0, 8), " fee ", *old_fee_model, "->", *new_fee_model, " vsize=", vsize);
        }
    }
    st.nontrivial = f_accepted && f_refused;
    wsp.reset();
    simp.reset();
    SetMockTime(0);
}

} // namespace

VERIF_TARGET(c56_bump, nullptr, 96, 700,
             "a funded descriptor wallet on a regtest node; ops (<=12): drain+exact payment pair (a 1 sat/vB payment spending the confirmed coins and leaving unconfirmed change, then a changeless payment whose bump must add an input), wallet-created payment (1-2 recipients, with/without change, signalling or not, "
             "committed + broadcast), harness-built payment mixing a wallet coin with a foreign coin, child spending an original's unconfirmed change, mine a "
             "subset of the mempool, bump an original (also confirmed / already bumped / with descendants / not-all-ours ones) in one of four modes: default, "
             "explicit feerate (from too low to 4x), caller-supplied outputs, fee taken from a designated change output; successful bumps are signed, "
             "committed and submitted. non-trivial = at least one accepted replacement and at least one refusal of a confirmed / already bumped / "
             "has-descendants original; distinct = op sequence + per-bump (mode, verdict, inputs added, change kept)")
{
    run_case(s, st, /*literal=*/false);
}

// Not registered in bin/props.d/C56.py: same generator, but caller-supplied outputs may DROP payments of the original, which makes the
// replacement smaller. Without an explicit feerate the wallet derives the new feerate from the old one and never compares absolute fees,
// so the replacement can pay LESS than the original and the mempool refuses it (see corpus/C56/SENSITIVITY.md).
VERIF_TARGET(c56_bump_literal, nullptr, 96, 700,
             "same generator as c56_bump; caller-supplied outputs may drop payments of the original (smaller replacement)")
{
    run_case(s, st, /*literal=*/true);
}
