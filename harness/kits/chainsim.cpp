#include <kits/chainsim.h>

#include <addresstype.h>
#include <chainparams.h>
#include <common/args.h>
#include <consensus/merkle.h>
#include <kernel/coinstats.h>
#include <node/caches.h>
#include <node/chainstate.h>
#include <node/kernel_notifications.h>
#include <node/warnings.h>
#include <pow.h>
#include <scheduler.h>
#include <script/sign.h>
#include <script/solver.h>
#include <test/util/script.h>
#include <test/util/txmempool.h>
#include <txdb.h>
#include <util/task_runner.h>
#include <util/thread.h>
#include <util/vector.h>

#include <algorithm>
#include <future>

namespace verif {

std::string StateStr(const BlockValidationState& s)
{
    if (s.IsValid()) return "valid";
    return s.GetRejectReason() + (s.GetDebugMessage().empty() ? "" : " (" + s.GetDebugMessage() + ")");
}

// ---------------------------------------------------------------- RefLedger

void RefLedger::SetGenesis(const CBlock& g)
{
    RefBlock b;
    b.hash = g.GetHash(); b.prev = uint256{}; b.height = 0; b.time = g.nTime; b.version = g.nVersion; b.bits = g.nBits; b.vtx = g.vtx; b.work_units = 1;
    genesis = b.hash;
    blocks[b.hash] = b;
}

const RefBlock& RefLedger::Add(const CBlock& blk)
{
    uint256 h = blk.GetHash();
    auto it = blocks.find(h);
    if (it != blocks.end()) return it->second;
    const RefBlock& p = blocks.at(blk.hashPrevBlock);
    RefBlock b;
    b.hash = h; b.prev = blk.hashPrevBlock; b.height = p.height + 1; b.time = blk.nTime; b.version = blk.nVersion; b.bits = blk.nBits; b.vtx = blk.vtx;
    b.work_units = p.work_units + 1;
    return blocks[h] = b;
}

int64_t RefLedger::MedianTimePast(const uint256& h) const
{
    std::vector<int64_t> t;
    uint256 cur = h;
    for (int i = 0; i < 11; ++i) {
        const RefBlock& b = blocks.at(cur);
        t.push_back(b.time);
        if (b.height == 0) break;
        cur = b.prev;
    }
    std::sort(t.begin(), t.end());
    return t[t.size() / 2];
}

std::vector<uint256> RefLedger::Path(const uint256& tip) const
{
    std::vector<uint256> p;
    uint256 cur = tip;
    while (true) {
        const RefBlock& b = blocks.at(cur);
        p.push_back(cur);
        if (b.height == 0) break;
        cur = b.prev;
    }
    std::reverse(p.begin(), p.end());
    return p;
}

bool RefLedger::IsAncestor(const uint256& anc, const uint256& desc) const
{
    const RefBlock& a = blocks.at(anc);
    uint256 cur = desc;
    while (true) {
        const RefBlock& b = blocks.at(cur);
        if (b.height < a.height) return false;
        if (cur == anc) return true;
        if (b.height == 0) return false;
        cur = b.prev;
    }
}

uint256 RefLedger::AncestorAt(const uint256& tip, int height) const
{
    uint256 cur = tip;
    while (blocks.at(cur).height > height) cur = blocks.at(cur).prev;
    return cur;
}

CAmount RefLedger::Subsidy(int height, int interval)
{
    int halvings = height / interval;
    if (halvings >= 64) return 0;
    uint64_t v = 5000000000ULL;
    for (int i = 0; i < halvings; ++i) v /= 2;
    return CAmount(v);
}

static bool ModelUnspendable(const CScript& spk)
{
    // statement level: provably unspendable outputs (OP_RETURN-prefixed or oversized scripts) never enter the UTXO set
    return (spk.size() > 0 && spk[0] == 0x6a) || spk.size() > 10000;
}

RefReplay RefLedger::Replay(const uint256& tip, bool keep_snapshots) const
{
    RefReplay r;
    const CAmount MAXM = 2100000000000000LL;
    RefUtxo& u = r.utxo; // modified in place; a per-block undo log restores it if the block turns out invalid
    std::vector<std::pair<COutPoint, std::optional<RefCoin>>> undo;
    auto fail = [&](const std::string& why, const uint256& blk) {
        r.ok = false; r.why = why; r.bad_block = blk;
        for (auto it = undo.rbegin(); it != undo.rend(); ++it) { if (it->second) u[it->first] = *it->second; else u.erase(it->first); }
        r.total = 0;
        for (auto& [k, c] : u) r.total += c.value;
    };
    for (const uint256& bh : Path(tip)) {
        const RefBlock& b = blocks.at(bh);
        if (b.height == 0) { if (keep_snapshots) r.utxo_at[bh] = r.utxo; continue; } // genesis coinbase is not in the UTXO set
        undo.clear();
        __int128 fees = 0;
        if (b.vtx.empty()) { fail("no-coinbase", bh); return r; }
        // BIP30-style rule: no transaction may overwrite an existing unspent output (checked against the pre-block set)
        if (enforce_bip30) {
            for (const auto& tx : b.vtx) {
                for (uint32_t o = 0; o < tx->vout.size(); ++o) {
                    if (u.count(COutPoint(tx->GetHash(), o))) { fail("bip30-overwrite", bh); return r; }
                }
            }
        }
        for (size_t ti = 0; ti < b.vtx.size(); ++ti) {
            const CTransaction& tx = *b.vtx[ti];
            __int128 in = 0, out = 0;
            for (const auto& o : tx.vout) {
                if (o.nValue < 0 || o.nValue > MAXM) { fail("value-out-of-range", bh); return r; }
                out += o.nValue;
            }
            if (out > MAXM) { fail("value-out-of-range", bh); return r; }
            if (ti > 0) {
                std::set<COutPoint> seen;
                for (const auto& i : tx.vin) {
                    if (!seen.insert(i.prevout).second) { fail("duplicate-input", bh); return r; }
                    auto it = u.find(i.prevout);
                    if (it == u.end()) { fail("missing-or-spent-input", bh); return r; }
                    if (it->second.coinbase && b.height - it->second.height < coinbase_maturity) { fail("immature-coinbase-spend", bh); return r; }
                    in += it->second.value;
                    if (in > MAXM) { fail("value-out-of-range", bh); return r; }
                    undo.emplace_back(it->first, it->second);
                    u.erase(it);
                }
                if (in < out) { fail("in-below-out", bh); return r; }
                fees += in - out;
                if (fees > MAXM) { fail("value-out-of-range", bh); return r; }
            }
            for (uint32_t o = 0; o < tx.vout.size(); ++o) {
                if (ModelUnspendable(tx.vout[o].scriptPubKey)) continue;
                COutPoint op(tx.GetHash(), o);
                auto it = u.find(op);
                undo.emplace_back(op, it == u.end() ? std::nullopt : std::optional<RefCoin>(it->second));
                u[op] = RefCoin{tx.vout[o].nValue, tx.vout[o].scriptPubKey, b.height, ti == 0};
            }
        }
        __int128 cbout = 0;
        for (const auto& o : b.vtx[0]->vout) cbout += o.nValue;
        CAmount sub = Subsidy(b.height, halving_interval);
        if (cbout > fees + sub) { fail("coinbase-overpays", bh); return r; }
        r.fees[bh] = CAmount(fees);
        r.subsidy_sum += sub;
        if (keep_snapshots) r.utxo_at[bh] = r.utxo;
    }
    r.total = 0;
    for (auto& [k, c] : r.utxo) r.total += c.value;
    return r;
}

// ---------------------------------------------------------------- KeyRing

KeyRing::KeyRing()
{
    for (int i = 0; i < 8; ++i) {
        std::array<unsigned char, 32> raw{};
        raw[0] = 0x11; raw[31] = uint8_t(i + 1); raw[15] = 0x42;
        CKey k;
        k.Set(raw.begin(), raw.end(), /*fCompressedIn=*/true);
        keys.push_back(k);
        CPubKey pk = k.GetPubKey();
        provider.keys[pk.GetID()] = k;
        provider.pubkeys[pk.GetID()] = pk;
        // P2SH-P2WPKH redeem script
        CScript redeem = GetScriptForDestination(WitnessV0KeyHash(pk));
        provider.scripts[CScriptID(redeem)] = redeem;
        // taproot key-path (no script tree)
        TaprootBuilder builder;
        builder.Finalize(XOnlyPubKey(pk));
        provider.tr_trees[builder.GetOutput()] = builder;
    }
}

CScript KeyRing::Script(SpkType t, size_t ki) const
{
    const CPubKey pk = keys[ki % keys.size()].GetPubKey();
    switch (t) {
    case SpkType::ANYONE_P2WSH: return P2WSH_OP_TRUE;
    case SpkType::P2WPKH: return GetScriptForDestination(WitnessV0KeyHash(pk));
    case SpkType::P2PKH: return GetScriptForDestination(PKHash(pk));
    case SpkType::P2PK: return GetScriptForRawPubKey(pk);
    case SpkType::P2SH_P2WPKH: return GetScriptForDestination(ScriptHash(GetScriptForDestination(WitnessV0KeyHash(pk))));
    case SpkType::P2TR: {
        TaprootBuilder builder;
        builder.Finalize(XOnlyPubKey(pk));
        return GetScriptForDestination(builder.GetOutput());
    }
    case SpkType::OP_RETURN: return CScript() << OP_RETURN << std::vector<unsigned char>{0x76, 0x68};
    case SpkType::BARE_TRUE: return CScript() << OP_TRUE;
    }
    return CScript();
}

bool KeyRing::Sign(CMutableTransaction& tx, const std::map<COutPoint, RefCoin>& spent, int sighash) const
{
    std::map<COutPoint, Coin> coins;
    for (auto& [op, c] : spent) coins[op] = Coin(CTxOut(c.value, c.spk), c.height, c.coinbase);
    // anyone-can-spend templates first (the signer cannot solve them)
    bool need_sign = false;
    for (auto& in : tx.vin) {
        auto it = spent.find(in.prevout);
        if (it == spent.end()) continue;
        if (it->second.spk == P2WSH_OP_TRUE) {
            in.scriptWitness.stack = {WITNESS_STACK_ELEM_OP_TRUE};
        } else if (it->second.spk == (CScript() << OP_TRUE)) {
            // nothing needed
        } else {
            need_sign = true;
        }
    }
    if (!need_sign) return true;
    // SignTransaction wants every input's coin; give dummies for unknown ones and restore anyone-can-spend witnesses afterwards
    std::map<int, bilingual_str> errors;
    std::vector<CScriptWitness> saved;
    for (auto& in : tx.vin) saved.push_back(in.scriptWitness);
    // taproot sighash needs all spent outputs; unknown ones make those inputs fail, which is reported to the caller
    SignTransaction(tx, &provider, coins, SignOptions{.sighash_type = sighash}, errors);
    bool ok = true;
    for (size_t i = 0; i < tx.vin.size(); ++i) {
        auto it = spent.find(tx.vin[i].prevout);
        if (it == spent.end()) continue;
        if (it->second.spk == P2WSH_OP_TRUE || it->second.spk == (CScript() << OP_TRUE)) { tx.vin[i].scriptWitness = saved[i]; continue; }
        if (errors.count(int(i))) ok = false;
    }
    return ok;
}

// ---------------------------------------------------------------- ChainSim

static std::vector<const char*> SimArgs(const ChainSimOpts& o)
{
    std::vector<const char*> a{"-nodebuglogfile", "-nodebug"};
    for (auto x : o.extra_args) a.push_back(x);
    return a;
}

ChainSim::ChainSim(ChainSimOpts opts)
    : BasicTestingSetup(ChainType::REGTEST, TestOpts{.extra_args = SimArgs(opts)}), m_opts(opts)
{
    const CChainParams& chainparams = Params();
    if (opts.immediate_signals) {
        m_node.validation_signals = std::make_unique<ValidationSignals>(std::make_unique<util::ImmediateTaskRunner>());
    } else {
        m_node.scheduler = std::make_unique<CScheduler>();
        m_node.scheduler->m_service_thread = std::thread(util::TraceThread, "scheduler", [&] { m_node.scheduler->serviceQueue(); });
        m_node.validation_signals = std::make_unique<ValidationSignals>(std::make_unique<SerialTaskRunner>(*m_node.scheduler));
    }
    bilingual_str error{};
    CTxMemPool::Options mopts = MemPoolOptionsForTest(m_node);
    if (!opts.with_mempool_checks) mopts.check_ratio = 0;
    m_node.mempool = std::make_unique<CTxMemPool>(mopts, error);
    Assert(error.empty());
    m_node.warnings = std::make_unique<node::Warnings>();
    m_node.notifications = std::make_unique<node::KernelNotifications>(Assert(m_node.shutdown_request), m_node.exit_status, *Assert(m_node.warnings));

    ChainstateManager::Options chainman_opts{
        .chainparams = chainparams,
        .datadir = m_args.GetDataDirNet(),
        .check_block_index = opts.check_block_index,
        .minimum_chain_work = opts.minimum_chain_work,
        .assumed_valid_block = opts.assumed_valid,
        .notifications = *m_node.notifications,
        .signals = m_node.validation_signals.get(),
        .worker_threads_num = opts.worker_threads,
        .prevoutfetch_threads_num = opts.prevout_threads,
    };
    chainman_opts.script_execution_cache_bytes = opts.validation_cache_bytes;
    chainman_opts.signature_cache_bytes = opts.validation_cache_bytes;
    if (opts.min_validation_cache) {
        chainman_opts.script_execution_cache_bytes = 0;
        chainman_opts.signature_cache_bytes = 0;
    }
    if (opts.tweak_chainman) opts.tweak_chainman(chainman_opts);
    kernel::CacheSizes cache_sizes{node::CalculateCacheSizes(m_args).kernel};
    if (opts.coins_cache_bytes) cache_sizes.coins = *opts.coins_cache_bytes;
    const node::BlockManager::Options blockman_opts{
        .chainparams = chainman_opts.chainparams,
        .prune_target = opts.prune_target,
        .fast_prune = opts.fast_prune,
        .blocks_dir = m_args.GetBlocksDirPath(),
        .notifications = chainman_opts.notifications,
        .block_tree_db_params = DBParams{
            .path = m_args.GetDataDirNet() / "blocks" / "index",
            .cache_bytes = cache_sizes.block_tree_db,
            .memory_only = opts.block_tree_db_in_memory,
        },
    };
    if (opts.before_load) opts.before_load(m_args.GetDataDirNet());
    m_node.chainman = std::make_unique<ChainstateManager>(*Assert(m_node.shutdown_signal), chainman_opts, blockman_opts);

    auto& chainman{*m_node.chainman};
    node::ChainstateLoadOptions options;
    options.mempool = m_node.mempool.get();
    options.coins_db_in_memory = opts.coins_db_in_memory;
    options.prune = chainman.m_blockman.IsPruneMode();
    options.check_blocks = opts.check_blocks;
    options.check_level = opts.check_level;
    try {
        auto [status, err] = node::LoadChainstate(chainman, cache_sizes, options);
        if (status != node::ChainstateLoadStatus::SUCCESS) { load_ok = false; load_stage = "load"; load_error = err.original; }
        if (load_ok) {
            std::tie(status, err) = node::VerifyLoadedChainstate(chainman, options);
            if (status != node::ChainstateLoadStatus::SUCCESS) { load_ok = false; load_stage = "verify"; load_error = err.original; }
        }
        if (load_ok) {
            m_node.notifications->setChainstateLoaded(true);
            if (opts.activate_on_load) {
                BlockValidationState state;
                if (!chainman.ActiveChainstate().ActivateBestChain(state)) { load_ok = false; load_stage = "activate"; load_error = state.ToString(); }
            }
        }
    } catch (const std::exception& e) {
        load_ok = false; load_stage = "exception"; load_error = e.what();
    }
    if (opts.assert_load && !load_ok) {
        fprintf(stderr, "ChainSim: chainstate load failed at stage %s: %s\n", load_stage.c_str(), load_error.c_str());
        assert(load_ok);
    }

    catcher = std::make_shared<VerdictCatcher>();
    m_node.validation_signals->RegisterSharedValidationInterface(catcher);
    ledger.SetGenesis(chainparams.GenesisBlock());
    ledger.halving_interval = chainparams.GetConsensus().nSubsidyHalvingInterval;
}

ChainSim::~ChainSim()
{
    if (m_node.validation_signals && catcher) m_node.validation_signals->UnregisterSharedValidationInterface(catcher);
    if (m_node.scheduler) m_node.scheduler->stop();
    if (m_node.validation_signals) m_node.validation_signals->FlushBackgroundCallbacks();
    m_node.args = nullptr;
    m_node.mempool.reset();
    m_node.chainman.reset();
    m_node.validation_signals.reset();
    m_node.scheduler.reset();
}

void ChainSim::SyncSignals()
{
    if (m_node.validation_signals) m_node.validation_signals->SyncWithValidationInterfaceQueue();
}

uint256 ChainSim::TipHash() { LOCK(cs_main); return chainman().ActiveChain().Tip()->GetBlockHash(); }
int ChainSim::TipHeight() { LOCK(cs_main); return chainman().ActiveChain().Height(); }

void ChainSim::Register(const std::shared_ptr<const CBlock>& b)
{
    ledger.Add(*b);
    block_store[b->GetHash()] = b;
}

// witness commitment, written from BIP141 (not calling GenerateCoinbaseCommitment so that the builder works for any parent)
static void CommitWitness(CBlock& b)
{
    CMutableTransaction cb(*b.vtx[0]);
    // remove an existing commitment output
    for (size_t i = 0; i < cb.vout.size();) {
        const CScript& s = cb.vout[i].scriptPubKey;
        if (s.size() >= 38 && s[0] == OP_RETURN && s[1] == 0x24 && s[2] == 0xaa && s[3] == 0x21 && s[4] == 0xa9 && s[5] == 0xed) cb.vout.erase(cb.vout.begin() + i);
        else ++i;
    }
    cb.vin[0].scriptWitness.stack = {std::vector<unsigned char>(32, 0x00)};
    b.vtx[0] = MakeTransactionRef(cb);
    uint256 witroot = BlockWitnessMerkleRoot(b);
    uint256 commit;
    CHash256().Write(witroot).Write(cb.vin[0].scriptWitness.stack[0]).Finalize(commit);
    CTxOut out;
    out.nValue = 0;
    out.scriptPubKey.resize(38);
    out.scriptPubKey[0] = OP_RETURN; out.scriptPubKey[1] = 0x24; out.scriptPubKey[2] = 0xaa; out.scriptPubKey[3] = 0x21; out.scriptPubKey[4] = 0xa9; out.scriptPubKey[5] = 0xed;
    memcpy(&out.scriptPubKey[6], commit.begin(), 32);
    cb.vout.push_back(out);
    b.vtx[0] = MakeTransactionRef(cb);
}

void ChainSim::Finalize(CBlock& b, bool commit_witness, bool regrind)
{
    if (commit_witness && !b.vtx.empty()) CommitWitness(b);
    b.hashMerkleRoot = BlockMerkleRoot(b);
    if (regrind) {
        const auto& consensus = Params().GetConsensus();
        while (!CheckProofOfWork(b.GetHash(), b.nBits, consensus)) ++b.nNonce;
    }
}

std::shared_ptr<CBlock> ChainSim::Build(const BlockSpec& spec)
{
    const RefBlock& p = ledger.At(spec.prev);
    auto b = std::make_shared<CBlock>();
    b->nVersion = spec.version;
    b->hashPrevBlock = spec.prev;
    b->nTime = spec.time ? *spec.time : uint32_t(std::max<int64_t>(ledger.MedianTimePast(spec.prev) + 1, int64_t(p.time) + 1));
    b->nBits = spec.bits ? *spec.bits : Params().GenesisBlock().nBits;
    b->nNonce = 0;
    int height = p.height + 1;
    CMutableTransaction cb;
    cb.version = 2;
    cb.vin.resize(1);
    cb.vin[0].prevout.SetNull();
    cb.vin[0].scriptSig = spec.coinbase_scriptsig ? *spec.coinbase_scriptsig : (CScript() << height << CScriptNum(int64_t(spec.extra_nonce)) << OP_0);
    cb.vin[0].nSequence = CTxIn::MAX_SEQUENCE_NONFINAL;
    cb.nLockTime = uint32_t(height - 1);
    CAmount value = spec.coinbase_value ? *spec.coinbase_value : RefLedger::Subsidy(height, ledger.halving_interval) + spec.fees;
    CAmount extra = 0;
    for (auto& o : spec.extra_coinbase_outputs) extra += o.nValue;
    cb.vout.emplace_back(value - extra, spec.coinbase_spk.empty() ? P2WSH_OP_TRUE : spec.coinbase_spk);
    for (auto& o : spec.extra_coinbase_outputs) cb.vout.push_back(o);
    b->vtx.push_back(MakeTransactionRef(cb));
    for (auto& t : spec.txs) b->vtx.push_back(t);
    Finalize(*b, spec.commit_witness, true);
    Register(b);
    return b;
}

ChainSim::Delivery ChainSim::Deliver(const std::shared_ptr<const CBlock>& b, bool force, bool min_pow_checked)
{
    Delivery d;
    uint256 h = b->GetHash();
    catcher->states.erase(h);
    d.processed = chainman().ProcessNewBlock(b, force, min_pow_checked, &d.new_block);
    SyncSignals();
    auto it = catcher->states.find(h);
    if (it != catcher->states.end()) d.verdict = it->second;
    return d;
}

BlockValidationState ChainSim::TestValidity(const CBlock& b, bool check_pow, bool check_merkle)
{
    LOCK(cs_main);
    return TestBlockValidity(chainstate(), b, check_pow, check_merkle);
}

std::vector<uint256> ChainSim::MineEmpty(int n)
{
    std::vector<uint256> out;
    for (int i = 0; i < n; ++i) {
        BlockSpec s;
        s.prev = TipHash();
        auto b = Build(s);
        auto d = Deliver(b);
        assert(d.processed);
        assert(TipHash() == b->GetHash());
        out.push_back(b->GetHash());
    }
    return out;
}

std::vector<uint256> ChainSim::LoadBase(int n)
{
    static std::vector<std::shared_ptr<const CBlock>> cache; // built once per process: deterministic blocks over genesis
    std::vector<uint256> out;
    for (int i = 0; i < n; ++i) {
        if (size_t(i) < cache.size()) {
            Register(cache[i]);
            auto d = Deliver(cache[i]);
            assert(d.processed);
        } else {
            BlockSpec s;
            s.prev = TipHash();
            auto b = Build(s);
            auto d = Deliver(b);
            assert(d.processed);
            cache.push_back(b);
        }
        assert(TipHash() == cache[i]->GetHash());
        out.push_back(cache[i]->GetHash());
    }
    return out;
}

RefUtxo ChainSim::DumpUtxo()
{
    RefUtxo u;
    LOCK(cs_main);
    chainstate().ForceFlushStateToDisk(/*wipe_cache=*/false);
    std::unique_ptr<CCoinsViewCursor> cur = chainstate().CoinsDB().Cursor();
    while (cur->Valid()) {
        COutPoint k;
        Coin c;
        if (cur->GetKey(k) && cur->GetValue(c)) u[k] = RefCoin{c.out.nValue, c.out.scriptPubKey, int(c.nHeight), bool(c.fCoinBase)};
        cur->Next();
    }
    return u;
}

uint256 ChainSim::UtxoHash()
{
    LOCK(cs_main);
    chainstate().ForceFlushStateToDisk(/*wipe_cache=*/false);
    auto stats = kernel::ComputeUTXOStats(kernel::CoinStatsHashType::HASH_SERIALIZED, chainstate().CoinsDB(), chainman().m_blockman);
    assert(stats);
    return stats->hashSerialized;
}

std::string ChainSim::CompareUtxoWithModel()
{
    RefReplay r = ledger.Replay(TipHash());
    if (!r.ok) return "model rejects the active chain: " + r.why + " at " + r.bad_block.ToString();
    RefUtxo node = DumpUtxo();
    if (node == r.utxo) return "";
    for (auto& [k, c] : r.utxo) {
        auto it = node.find(k);
        if (it == node.end()) return "coin missing from node: " + k.ToString();
        if (!(it->second == c)) return "coin differs: " + k.ToString() + strprintf(" node(value=%d,h=%d,cb=%d) model(value=%d,h=%d,cb=%d)", it->second.value, it->second.height, it->second.coinbase, c.value, c.height, c.coinbase);
    }
    for (auto& [k, c] : node) if (!r.utxo.count(k)) return "extra coin in node: " + k.ToString();
    return "unknown difference";
}

CMutableTransaction ChainSim::MakeTx(const std::vector<std::pair<COutPoint, RefCoin>>& coins, const std::vector<CTxOut>& outs,
                                     uint32_t locktime, uint32_t sequence, uint32_t version)
{
    CMutableTransaction tx;
    tx.version = version;
    tx.nLockTime = locktime;
    std::map<COutPoint, RefCoin> spent;
    for (auto& [op, c] : coins) {
        tx.vin.emplace_back(op, CScript(), sequence);
        spent[op] = c;
    }
    tx.vout = outs;
    keys.Sign(tx, spent);
    return tx;
}

} // namespace verif
