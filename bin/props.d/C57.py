# C57: stage list (what ./check C57 quick|thorough runs) and manifest text. Helpers gen()/enum()/hyp()/custom() come from props.py.
SPEC = {'level': 'exploration',
 'assumptions': ['regtest (600 s target spacing, constant difficulty): "two weeks of work" = 2016 blocks; the boundary is probed at 2016 +-2 blocks on top',
                 'the long header tails (2030 / 2040 headers) are crafted header-only with real regtest proof of work; block data exists only for the funding block and '
                 'the bad-signature blocks; ties between the two header chains are never generated',
                 'the statement is "skipped only if"; the converse (all conditions hold => the bad-signature block is accepted) is taken from the DESIGN entry and '
                 'reported under its own oracle id c57.skip-expected'],
 'stages': [{'kind': 'gen',
             'binary': 'vh_c57',
             'target': 'c57_assumevalid',
             'cases_quick': 800,
             'cases_thorough': 12000,
             'min_cases_quick': 250,
             'floors': {'skip-all-conditions': 0.06, 'only-within-two-weeks': 0.03, 'only-not-ancestor': 0.03, 'only-not-best-chain': 0.02,
                        'only-below-minwork': 0.02, 'two-weeks-just-passed': 0.05, 'two-weeks-not-yet': 0.03, 'rejected': 0.5},
             'rule': 'assumed-valid configurations x header trees; non-trivial = a bad-signature verdict decided with at most one of the five conditions false'}]}

META = {'level_text': 'Generated configurations (assumed-valid hash below / at / above the bad blocks, on a competing chain, undelivered or random; minimum chain '
               'work at best-header work -1/0/+1; 2016+-2 or few headers on top; competing header chain with more or less work) on an in-process regtest node with '
               'a 4000-header tree. Blocks carrying a corrupted signature are delivered and an own five-condition predicate with exact cpp_int work decides '
               'whether they may be accepted; a genuine-signature twin is the control. Exploration over the configuration space named in the statement.',
 'technique': 'property-based testing with an explicit predicate oracle over generated configurations (metamorphic control: genuine-signature twin)'}
