#!/bin/bash
# setup_cmd: configure and build the san tree (repo libs + every harness binary) from files on disk only.
set -e
V=$(cd "$(dirname "$0")/.." && pwd)
cd "$V"
export CCACHE_DIR=$V/build/ccache
mkdir -p build/work/tmp
[ -f build/san/build.ninja ] || bin/configure.sh san > build/configure-san.log 2>&1 || { tail -50 build/configure-san.log; exit 1; }
ninja -C build/san vh_all > build/build-san.log 2>&1 || { tail -80 build/build-san.log; exit 1; }
echo "setup ok: $(ls build/san/vh | wc -l) harness binaries"
