// C18 — UTXO database encoding preserves every spendable coin exactly.
// Oracles:
//   c18.amount-ref / c18.amount-roundtrip : CompressAmount == reference written from the format description on the *decimal string*
//                                            of the amount; DecompressAmount(CompressAmount(x)) == x on [0, 21M BTC]
//   c18.script-ref / c18.script-roundtrip : CompressScript output == reference special encoding (types 0..5; curve membership of 04-keys
//                                            decided by y^2 == x^3 + 7 mod p in cpp_int); DecompressScript inverts it
//   c18.coin-bytes / c18.coin-roundtrip   : Coin::Serialize bytes == reference encoder (own VARINT, own amount/script encoders); Unserialize gives the coin back
//   c18.undo-bytes / c18.undo-roundtrip   : same for TxInUndoFormatter / CTxUndo
//   c18.db-roundtrip                      : coin written through CCoinsViewCache -> CCoinsViewDB (flush) is read back unchanged
#include <engine/verif.h>

#include <coins.h>
#include <compressor.h>
#include <consensus/amount.h>
#include <primitives/transaction.h>
#include <script/script.h>
#include <serialize.h>
#include <streams.h>
#include <txdb.h>
#include <undo.h>
#include <util/byte_units.h>

#include <boost/multiprecision/cpp_int.hpp>

#include <memory>
#include <string>
#include <vector>

namespace {
using boost::multiprecision::cpp_int;
using Bytes = std::vector<uint8_t>;

constexpr uint64_t REF_MAX_MONEY = 2100000000000000ULL; // 21M BTC in satoshi, from the statement

// ---- reference encoders ------------------------------------------------------------------------------------------
/** Bitcoin VARINT (serialize.h documentation): k-byte encodings cover the contiguous range [off_k, off_k + 128^k), off_1 = 0,
 *  off_{k+1} = off_k + 128^k; the offset-reduced number is written as k base-128 digits, most significant first, with the
 *  continuation bit 0x80 on all but the last. */
void ref_varint(Bytes& out, uint64_t n)
{
    unsigned __int128 off = 0, span = 128;
    int k = 1;
    while ((unsigned __int128)n >= off + span) { off += span; span *= 128; ++k; }
    unsigned __int128 r = (unsigned __int128)n - off;
    for (int i = k - 1; i >= 0; --i) out.push_back(uint8_t((r >> (7 * i)) & 0x7f) | (i ? 0x80 : 0));
}

/** amount compression from the format description, on the decimal representation */
uint64_t ref_compress_amount(uint64_t x)
{
    if (x == 0) return 0;
    std::string dec = std::to_string(x);
    int e = 0;
    while (e < 9 && dec.size() > 1 && dec.back() == '0') { dec.pop_back(); ++e; }
    unsigned __int128 out;
    if (e < 9) {
        int d = dec.back() - '0'; // non-zero by construction
        dec.pop_back();
        unsigned __int128 n = 0;
        for (char c : dec) n = n * 10 + unsigned(c - '0');
        out = 1 + 10 * (9 * n + unsigned(d) - 1) + unsigned(e);
    } else {
        unsigned __int128 n = 0;
        for (char c : dec) n = n * 10 + unsigned(c - '0');
        out = 1 + 10 * (n - 1) + 9;
    }
    return uint64_t(out);
}

const cpp_int FIELD_P = (cpp_int(1) << 256) - (cpp_int(1) << 32) - 977;

cpp_int be_int(const uint8_t* p, size_t n) { cpp_int v = 0; for (size_t i = 0; i < n; ++i) v = (v << 8) | p[i]; return v; }
void put_be32(uint8_t* p, cpp_int v) { for (int i = 31; i >= 0; --i) { p[i] = uint8_t(cpp_int(v & 0xff).convert_to<unsigned>()); v >>= 8; } }

/** (x, y) is a point of secp256k1 in affine coordinates with canonical field elements */
bool ref_on_curve(const cpp_int& x, const cpp_int& y)
{
    if (x >= FIELD_P || y >= FIELD_P) return false;
    return (y * y) % FIELD_P == (x * x * x + 7) % FIELD_P;
}

/** special script encodings 0..5 or "size + 6, raw"; returns the type (0..5) or -1 */
int ref_script_special(const Bytes& sc, Bytes& payload)
{
    payload.clear();
    if (sc.size() == 25 && sc[0] == 0x76 && sc[1] == 0xa9 && sc[2] == 0x14 && sc[23] == 0x88 && sc[24] == 0xac) { payload.assign(sc.begin() + 3, sc.begin() + 23); return 0; }
    if (sc.size() == 23 && sc[0] == 0xa9 && sc[1] == 0x14 && sc[22] == 0x87) { payload.assign(sc.begin() + 2, sc.begin() + 22); return 1; }
    if (sc.size() == 35 && sc[0] == 0x21 && sc[34] == 0xac && (sc[1] == 2 || sc[1] == 3)) { payload.assign(sc.begin() + 2, sc.begin() + 34); return sc[1]; }
    if (sc.size() == 67 && sc[0] == 0x41 && sc[66] == 0xac && sc[1] == 4) {
        cpp_int x = be_int(&sc[2], 32), y = be_int(&sc[34], 32);
        if (ref_on_curve(x, y)) { payload.assign(sc.begin() + 2, sc.begin() + 34); return 4 + (sc[65] & 1); }
    }
    return -1;
}

void ref_script(Bytes& out, const Bytes& sc)
{
    Bytes payload;
    int t = ref_script_special(sc, payload);
    if (t >= 0) { out.push_back(uint8_t(t)); out.insert(out.end(), payload.begin(), payload.end()); return; }
    ref_varint(out, sc.size() + 6);
    out.insert(out.end(), sc.begin(), sc.end());
}

struct RefCoin { uint64_t amount; Bytes script; uint32_t height; bool coinbase; };

void ref_txout(Bytes& out, const RefCoin& c) { ref_varint(out, ref_compress_amount(c.amount)); ref_script(out, c.script); }
void ref_coin(Bytes& out, const RefCoin& c) { ref_varint(out, uint64_t(c.height) * 2 + (c.coinbase ? 1 : 0)); ref_txout(out, c); }
void ref_undo(Bytes& out, const RefCoin& c)
{
    ref_varint(out, uint64_t(c.height) * 2 + (c.coinbase ? 1 : 0));
    if (c.height > 0) out.push_back(0); // compatibility dummy (old "version" field)
    ref_txout(out, c);
}
void ref_compactsize(Bytes& out, uint64_t n)
{
    if (n < 253) out.push_back(uint8_t(n));
    else if (n <= 0xffff) { out.push_back(253); out.push_back(uint8_t(n)); out.push_back(uint8_t(n >> 8)); }
    else { out.push_back(254); for (int i = 0; i < 4; ++i) out.push_back(uint8_t(n >> (8 * i))); }
}

std::unique_ptr<CCoinsViewDB> g_db;
std::unique_ptr<CCoinsViewCache> g_cache; // one cache per process: its constructor allocates a 256 KiB pool chunk
void init_points();

void init_c18()
{
    // reference self-test against the vectors in the serialize.h documentation of VARINT
    struct V { uint64_t n; Bytes b; };
    for (const V& v : {V{0, {0x00}}, V{1, {0x01}}, V{127, {0x7f}}, V{128, {0x80, 0x00}}, V{255, {0x80, 0x7f}}, V{256, {0x81, 0x00}}, V{16383, {0xfe, 0x7f}},
                       V{16384, {0xff, 0x00}}, V{16511, {0xff, 0x7f}}, V{65535, {0x82, 0xfe, 0x7f}}, V{uint64_t{1} << 32, {0x8e, 0xfe, 0xfe, 0xff, 0x00}}}) {
        Bytes o; ref_varint(o, v.n);
        if (o != v.b) { fprintf(stderr, "c18 reference varint self-test failed for %llu\n", (unsigned long long)v.n); exit(2); }
    }
    if (!g_db) {
        g_db = std::make_unique<CCoinsViewDB>(DBParams{.path = "", .cache_bytes = 1_MiB, .memory_only = true}, CoinsViewOptions{});
        g_cache = std::make_unique<CCoinsViewCache>(g_db.get());
    }
    init_points();
}

// ---- generators --------------------------------------------------------------------------------------------------
uint64_t pow10u(int e) { uint64_t v = 1; while (e-- > 0) v *= 10; return v; }

uint64_t gen_amount(verif::Src& s, std::string& kind)
{
    unsigned mode = s.range<unsigned>(0, 7);
    uint64_t v;
    switch (mode) {
    case 0: case 1: case 2: {
        uint64_t d = s.range<uint64_t>(1, 9); int e = s.range<int>(0, 15); int k = s.range<int>(-3, 3);
        if (mode == 2) d = s.range<uint64_t>(1, 2100); // multi-digit leading part, e.g. 2099 * 10^12
        unsigned __int128 w = (unsigned __int128)d * pow10u(e);
        if (k < 0 && w < (unsigned)(-k)) k = 0;
        w += k;
        v = w > REF_MAX_MONEY ? REF_MAX_MONEY - uint64_t(s.range<int>(0, 3)) : uint64_t(w);
        kind = k == 0 ? "round" : "near-round";
        break;
    }
    case 3: { int b = s.range<int>(0, 50); int k = s.range<int>(-1, 1); v = (uint64_t{1} << b) + k; if (v > REF_MAX_MONEY) v = REF_MAX_MONEY; kind = "pow2"; break; }
    case 4: v = s.pick<uint64_t>({0, 1, 9, 10, 11, 99, 100, 999999999, 1000000000, 1000000001, 9999999999ULL, 10000000000ULL, REF_MAX_MONEY, REF_MAX_MONEY - 1, 5000000000ULL, 2099999997690000ULL}); kind = "dictionary"; break;
    default: v = s.range<uint64_t>(0, REF_MAX_MONEY); kind = "random"; break;
    }
    return v;
}

/** smallest x' >= x (cyclically) such that x'^3 + 7 is a square mod p, with one of its square roots */
void lift_x(cpp_int& x, cpp_int& y)
{
    for (;;) {
        cpp_int rhs = (x * x * x + 7) % FIELD_P;
        y = boost::multiprecision::powm(rhs, (FIELD_P + 1) / 4, FIELD_P);
        if ((y * y) % FIELD_P == rhs) break;
        x = (x + 1) % FIELD_P;
    }
}

std::vector<std::pair<cpp_int, cpp_int>> g_points; // curve points computed once per process (square roots in cpp_int are slow under ASan)

void init_points()
{
    if (!g_points.empty()) return;
    std::vector<cpp_int> starts = {1, 2, 0xff, 0x100, cpp_int(1) << 32, cpp_int(1) << 64, cpp_int(1) << 128, cpp_int(1) << 200, cpp_int(1) << 248, cpp_int(1) << 255,
                                   (cpp_int(1) << 255) - 1, FIELD_P - 1, FIELD_P - 1000, (cpp_int(1) << 256) - (cpp_int(1) << 33), FIELD_P / 2, FIELD_P / 3};
    uint64_t z = 0xc18c18c18c18c18ULL;
    while (starts.size() < 160) {
        cpp_int v = 0;
        for (int k = 0; k < 4; ++k) { z += 0x9e3779b97f4a7c15ULL; uint64_t t = z; t = (t ^ (t >> 30)) * 0xbf58476d1ce4e5b9ULL; t = (t ^ (t >> 27)) * 0x94d049bb133111ebULL; t ^= t >> 31; v = (v << 64) | t; }
        starts.push_back(v % FIELD_P);
    }
    for (auto& x0 : starts) { cpp_int x = x0 % FIELD_P, y; lift_x(x, y); g_points.emplace_back(x, y); }
}

/** a point on the curve: usually from the per-process table, sometimes derived from 32 generated bytes */
void gen_point(verif::Src& s, cpp_int& x, cpp_int& y)
{
    if (s.chance(16)) {
        Bytes xb = s.bytes(32);
        xb.resize(32, 0x00);
        x = be_int(xb.data(), 32) % FIELD_P;
        lift_x(x, y);
    } else {
        auto& p = g_points[s.index(g_points.size())];
        x = p.first; y = p.second;
    }
    if (s.boolean()) y = FIELD_P - y; // either parity (y != 0 on this curve)
}

Bytes gen_script(verif::Src& s, std::string& kind, bool allow_big)
{
    unsigned k = s.range<unsigned>(0, 11);
    Bytes sc;
    auto rnd = [&](size_t n) { Bytes b = s.bytes(n); b.resize(n, 0x00); return b; };
    switch (k) {
    case 0: case 1: { // P2PKH exact / near miss
        sc = {0x76, 0xa9, 0x14}; Bytes h = rnd(20); sc.insert(sc.end(), h.begin(), h.end()); sc.push_back(0x88); sc.push_back(0xac);
        kind = "p2pkh";
        if (k == 1) {
            unsigned m = s.range<unsigned>(0, 6);
            if (m <= 4) { size_t pos = std::vector<size_t>{0, 1, 2, 23, 24}[m]; sc[pos] ^= uint8_t(1u << s.range<unsigned>(0, 7)); }
            else if (m == 5) sc.push_back(s.pick<uint8_t>({0xac, 0x00, 0x61}));
            else sc.pop_back();
            kind = "p2pkh-near-miss";
        }
        break;
    }
    case 2: case 3: { // P2SH
        sc = {0xa9, 0x14}; Bytes h = rnd(20); sc.insert(sc.end(), h.begin(), h.end()); sc.push_back(0x87);
        kind = "p2sh";
        if (k == 3) {
            unsigned m = s.range<unsigned>(0, 4);
            if (m <= 2) { size_t pos = std::vector<size_t>{0, 1, 22}[m]; sc[pos] ^= uint8_t(1u << s.range<unsigned>(0, 7)); }
            else if (m == 3) sc.push_back(0x87);
            else sc.pop_back();
            kind = "p2sh-near-miss";
        }
        break;
    }
    case 4: case 5: { // P2PK compressed (any x: compressed keys are not checked for validity)
        sc = {0x21, s.pick<uint8_t>({2, 3})}; Bytes x = rnd(32); sc.insert(sc.end(), x.begin(), x.end()); sc.push_back(0xac);
        kind = "p2pk-compressed";
        if (k == 5) {
            unsigned m = s.range<unsigned>(0, 4);
            if (m == 0) sc[1] = s.pick<uint8_t>({0, 1, 4, 5, 6, 7, 0x82});
            else if (m == 1) sc[0] = s.pick<uint8_t>({0x20, 0x22, 0x41});
            else if (m == 2) sc[34] = s.pick<uint8_t>({0xad, 0xab, 0x00});
            else if (m == 3) sc.push_back(0xac);
            else sc.pop_back();
            kind = "p2pk-compressed-near-miss";
        }
        break;
    }
    case 6: case 7: case 8: { // P2PK uncompressed: valid point / invalid point / hybrid / malformed
        cpp_int x, y;
        gen_point(s, x, y);
        sc.assign(67, 0);
        sc[0] = 0x41; sc[1] = 0x04; sc[66] = 0xac;
        kind = "p2pk-uncompressed-valid";
        if (k >= 7) {
            unsigned m = s.range<unsigned>(0, 7);
            switch (m) {
            case 0: y = (y + 1) % FIELD_P; kind = "p2pk-uncompressed-offcurve"; break;
            case 1: y = y == 0 ? cpp_int(1) : cpp_int(y - 1); kind = "p2pk-uncompressed-offcurve"; break;
            case 2: y = FIELD_P - y; kind = "p2pk-uncompressed-valid"; break; // negated point is valid too
            case 3: if (y + FIELD_P < (cpp_int(1) << 256)) { y += FIELD_P; kind = "p2pk-uncompressed-noncanonical-y"; } break; // y >= p: not a canonical encoding
            case 4: sc[1] = s.pick<uint8_t>({6, 7}); kind = "p2pk-hybrid"; break;
            case 5: x = (x + 1) % FIELD_P; kind = "p2pk-uncompressed-offcurve"; break; // (x+1, y) is on the curve only with negligible probability; the reference decides
            case 6: sc[0] = s.pick<uint8_t>({0x40, 0x42, 0x21}); kind = "p2pk-uncompressed-malformed"; break;
            default: sc[66] = s.pick<uint8_t>({0xad, 0x00}); kind = "p2pk-uncompressed-malformed"; break;
            }
        }
        put_be32(&sc[2], x); put_be32(&sc[34], y);
        if (k == 8 && s.chance(64)) { if (s.boolean()) sc.push_back(0xac); else sc.pop_back(); kind = "p2pk-uncompressed-malformed"; }
        if (k == 8 && s.chance(32)) { std::fill(sc.begin() + 2, sc.begin() + 66, 0); kind = "p2pk-uncompressed-offcurve"; }
        break;
    }
    default: { // generic
        size_t len;
        unsigned m = s.range<unsigned>(0, 7);
        if (m <= 2) len = s.range<size_t>(0, 10);
        else if (m == 3) len = s.pick<size_t>({22, 23, 24, 25, 26, 33, 34, 35, 36, 65, 66, 67, 68, 121, 122, 123});
        else if (m == 4) len = s.range<size_t>(115, 130);
        else if (m == 5 && allow_big) len = s.pick<size_t>({9999, 10000, 10001, 10010, 16377, 16378, 16379});
        else len = s.range<size_t>(0, 300);
        sc = s.bytes(std::min<size_t>(len, 300));
        sc.resize(len, uint8_t(0x51 + (len & 7)));
        if (!sc.empty() && s.chance(24)) sc[0] = 0x6a; // OP_RETURN first: unspendable
        kind = len > 10000 ? "generic-oversize" : "generic";
        break;
    }
    }
    return sc;
}

uint32_t gen_height(verif::Src& s)
{
    unsigned m = s.range<unsigned>(0, 3);
    if (m == 0) return s.pick<uint32_t>({0, 1, 2, 63, 64, 8191, 8192, 8255, 8256, 0x3fffffff, 0x40000000, 0x7ffffffe, 0x7fffffff});
    if (m == 1) return s.range<uint32_t>(0, 1000000);
    if (m == 2) return (uint32_t{1} << s.range<unsigned>(0, 30)) - s.range<uint32_t>(0, 1);
    return s.range<uint32_t>(0, 0x7fffffff);
}

bool ref_unspendable(const Bytes& sc) { return (!sc.empty() && sc[0] == 0x6a) || sc.size() > 10000; }

Bytes stream_bytes(const DataStream& ds) { Bytes b(ds.size()); if (!b.empty()) memcpy(b.data(), ds.data(), ds.size()); return b; }

bool coin_equals(const Coin& c, const RefCoin& r)
{
    return c.out.nValue == int64_t(r.amount) && c.nHeight == r.height && bool(c.fCoinBase) == r.coinbase && c.out.scriptPubKey.size() == r.script.size() &&
           std::equal(r.script.begin(), r.script.end(), c.out.scriptPubKey.begin());
}
Coin make_coin(const RefCoin& r) { return Coin(CTxOut(CAmount(r.amount), CScript(r.script.begin(), r.script.end())), int(r.height), r.coinbase); }

void amount_checks(uint64_t v, verif::Stats& st)
{
    uint64_t c = CompressAmount(v), rc = ref_compress_amount(v);
    st.steps++;
    VCHECK(c == rc, "c18.amount-ref", "amount", v, "impl", c, "ref", rc);
    uint64_t back = DecompressAmount(c);
    VCHECK(back == v, "c18.amount-roundtrip", "amount", v, "compressed", c, "decompressed", back);
}
} // namespace

VERIF_TARGET(c18_coincodec, init_c18, 48, 400,
             "coin = amount (d*10^e +- k, multi-digit*10^e, 2^b +- 1, dictionary, random in [0, 21M BTC]) x script (P2PKH/P2SH/P2PK-compressed exact and "
             "near misses: wrong byte at each template position, length +-1; P2PK-uncompressed with valid curve points, off-curve, non-canonical y, hybrid "
             "06/07, malformed; generic scripts of length 0..300, at the special sizes, at the VARINT boundary 121/122, at 9999..10010/16378) x height "
             "boundary set x coinbase flag. Serialized Coin / TxInUndo / CTxUndo bytes == independent reference encoder, unserialize == original, "
             "CompressScript/DecompressScript and CompressAmount/DecompressAmount vs reference, CCoinsViewDB write-flush-read for spendable coins. "
             "non-trivial = special-case or near-miss script, or amount with >= 1 trailing zero or within +-3 of d*10^e; "
             "distinct = (script kind, special type, amount kind, exponent, height class, coinbase, db)")
{
    RefCoin r;
    std::string akind, skind;
    r.amount = gen_amount(s, akind);
    r.script = gen_script(s, skind, true);
    r.height = gen_height(s);
    r.coinbase = s.boolean();
    bool do_db = s.chance(64);
    size_t n_extra = s.chance(64) ? s.range<size_t>(1, 3) : 0;

    amount_checks(r.amount, st);

    // script compression
    Bytes payload;
    int special = ref_script_special(r.script, payload);
    CScript script(r.script.begin(), r.script.end());
    {
        CompressedScript out;
        bool ok = CompressScript(script, out);
        st.steps++;
        VCHECK(ok == (special >= 0), "c18.script-ref", "special-case decision: kind", skind, "impl", ok, "ref_type", special, "script", verif::hex(r.script));
        if (ok) {
            Bytes got(out.begin(), out.end()), want;
            want.push_back(uint8_t(special)); want.insert(want.end(), payload.begin(), payload.end());
            VCHECK(got == want, "c18.script-ref", "special encoding: kind", skind, "impl", verif::hex(got), "ref", verif::hex(want));
            VCHECK(GetSpecialScriptSize(out[0]) + 1 == out.size(), "c18.script-ref", "special size table", int(out[0]), out.size());
            CompressedScript in(out.begin() + 1, out.end());
            CScript back;
            bool dok = DecompressScript(back, out[0], in);
            VCHECK(dok && back == script, "c18.script-roundtrip", "kind", skind, "type", int(out[0]), "script", verif::hex(r.script));
        }
    }
    // coin record
    bool unspendable = ref_unspendable(r.script);
    {
        Coin coin = make_coin(r);
        DataStream ds;
        ds << coin;
        Bytes got = stream_bytes(ds), want;
        ref_coin(want, r);
        st.steps++;
        VCHECK(got == want, "c18.coin-bytes", "kind", skind, "amount", r.amount, "height", r.height, "cb", r.coinbase, "impl", verif::hex(got.data(), std::min<size_t>(got.size(), 80)),
               "ref", verif::hex(want.data(), std::min<size_t>(want.size(), 80)));
        if (r.script.size() <= 10000) { // above MAX_SCRIPT_SIZE the loader substitutes an unspendable script by design
            Coin back;
            ds >> back;
            VCHECK(ds.empty(), "c18.coin-roundtrip", "trailing bytes after unserialize", ds.size());
            VCHECK(coin_equals(back, r), "c18.coin-roundtrip", "kind", skind, "amount", r.amount, "got_amount", back.out.nValue, "height", r.height, "got_height", back.nHeight,
                   "cb", r.coinbase, "script", verif::hex(r.script.data(), std::min<size_t>(r.script.size(), 80)));
        }
    }
    // undo record(s)
    {
        std::vector<RefCoin> rs{r};
        for (size_t i = 0; i < n_extra; ++i) {
            RefCoin e; std::string k1, k2;
            e.amount = gen_amount(s, k1); e.script = gen_script(s, k2, false); e.height = gen_height(s); e.coinbase = s.boolean();
            rs.push_back(std::move(e));
        }
        bool all_loadable = true;
        CTxUndo undo;
        Bytes want;
        ref_compactsize(want, rs.size());
        for (auto& e : rs) { undo.vprevout.push_back(make_coin(e)); ref_undo(want, e); all_loadable = all_loadable && e.script.size() <= 10000; }
        DataStream ds;
        ds << undo;
        Bytes got = stream_bytes(ds);
        st.steps++;
        VCHECK(got == want, "c18.undo-bytes", "n", rs.size(), "height0", r.height, "impl", verif::hex(got.data(), std::min<size_t>(got.size(), 80)), "ref",
               verif::hex(want.data(), std::min<size_t>(want.size(), 80)));
        if (all_loadable) {
            CTxUndo back;
            ds >> back;
            VCHECK(ds.empty() && back.vprevout.size() == rs.size(), "c18.undo-roundtrip", "count/trailing", back.vprevout.size(), ds.size());
            for (size_t i = 0; i < rs.size(); ++i) VCHECK(coin_equals(back.vprevout[i], rs[i]), "c18.undo-roundtrip", "entry", i, "height", rs[i].height, "amount", rs[i].amount);
        }
    }
    // real coins database
    if (do_db && !unspendable) {
        Bytes tb = s.bytes(8);
        tb.resize(32, 0x5a);
        COutPoint op(Txid::FromUint256(uint256(std::span<const unsigned char>(tb.data(), 32))), s.range<uint32_t>(0, 5));
        {
            CCoinsViewCache& cache = *g_cache; // empty after every flush
            cache.AddCoin(op, make_coin(r), /*possible_overwrite=*/true);
            cache.SetBestBlock(uint256::ONE);
            cache.Flush(/*reallocate_cache=*/false);
        }
        std::optional<Coin> back = g_db->GetCoin(op);
        st.steps++;
        VCHECK(back.has_value(), "c18.db-roundtrip", "coin missing after flush: kind", skind, "amount", r.amount);
        VCHECK(coin_equals(*back, r), "c18.db-roundtrip", "kind", skind, "amount", r.amount, "got_amount", back->out.nValue, "height", r.height, "got_height", back->nHeight);
        {
            CCoinsViewCache& cache = *g_cache; // leave the database empty for the next case
            cache.SpendCoin(op);
            cache.SetBestBlock(uint256::ONE);
            cache.Flush(/*reallocate_cache=*/false);
        }
        st.cls("db-roundtrip");
    }

    // trailing zeros / near-round classification of the amount (decimal)
    int tz = 0; { uint64_t v = r.amount; while (v && v % 10 == 0) { v /= 10; ++tz; } }
    bool near_round = akind == "near-round" || akind == "round";
    bool near_miss = skind.find("near-miss") != std::string::npos || skind.find("offcurve") != std::string::npos || skind.find("hybrid") != std::string::npos ||
                     skind.find("noncanonical") != std::string::npos || skind.find("malformed") != std::string::npos;
    st.nontrivial = special >= 0 || near_miss || (r.amount && tz >= 1) || near_round;
    st.mix(skind); st.mix(uint64_t(special + 1)); st.mix(akind); st.mix(uint64_t(std::min(tz, 10))); st.mix(uint64_t(r.coinbase)); st.mix(uint64_t(do_db && !unspendable));
    st.mix(uint64_t(r.height == 0 ? 0 : 64 - __builtin_clzll(uint64_t(r.height)))); st.mix(uint64_t(n_extra));
    st.mix(uint64_t(r.script.size() > 121) | uint64_t(r.script.size() > 10000) << 1);
    st.cls("script:" + skind);
    if (special >= 0) { st.cls("special-script"); st.cls("special:" + std::to_string(special)); }
    if (near_miss) st.cls("script-near-miss");
    st.cls("amount:" + akind);
    if (tz >= 9) st.cls("amount:e=9"); else if (tz >= 1) st.cls("amount:e=1..8"); else st.cls("amount:e=0");
    if (r.height == 0) st.cls("height=0");
    if (r.height >= 0x40000000u) st.cls("height>=2^30");
    if (unspendable) st.cls("unspendable-script");
    if (n_extra) st.cls("multi-undo");
    st.note("amount=", r.amount, " [", akind, " tz=", tz, "] script=", skind, " len=", r.script.size(), " special=", special, " height=", r.height, " cb=", r.coinbase,
            " db=", (do_db && !unspendable), " extra_undo=", n_extra);
}

VERIF_TARGET(c18_amounts_small, init_c18, 0, 8,
             "exhaustive: every amount in [0, 2,000,000] satoshi plus every k*10^8 (k in [0, 21,000,000], whole-coin amounts around e=8/9) in chunks of 8192 "
             "values: CompressAmount == decimal-string reference, DecompressAmount inverts it; non-trivial = every chunk")
{
    const uint64_t SMALL = 2000001, COINS = 21000001, CH = 8192;
    const uint64_t TOTAL = (SMALL + CH - 1) / CH + (COINS + CH - 1) / CH;
    verif::set_enum_total(TOTAL);
    int64_t idx = verif::enum_index();
    if (idx < 0) idx = int64_t(s.range<uint64_t>(0, TOTAL - 1));
    if (uint64_t(idx) >= TOTAL) return;
    uint64_t small_chunks = (SMALL + CH - 1) / CH;
    bool coins = uint64_t(idx) >= small_chunks;
    uint64_t lo = (coins ? uint64_t(idx) - small_chunks : uint64_t(idx)) * CH, hi = std::min(lo + CH, coins ? COINS : SMALL);
    for (uint64_t v = lo; v < hi; ++v) amount_checks(coins ? v * 100000000ULL : v, st);
    st.mix(uint64_t(idx));
    st.nontrivial = true;
    st.cls(coins ? "whole-coin-chunk" : "small-amount-chunk");
    st.note(coins ? "k*1e8 for k in [" : "amounts in [", lo, ",", hi, ")");
}
