# Harness targets, built inside the repo's ninja graph (see DESIGN.md 3.1).
set(VH_DIR ${CMAKE_CURRENT_LIST_DIR}/..)
set(VH_REPO ${CMAKE_SOURCE_DIR})

set(VH_LINK_LIBS
  core_interface
  test_util
  bitcoin_cli
  bitcoin_node
  $<TARGET_NAME_IF_EXISTS:bitcoin_wallet>
  bitcoin_common
  bitcoin_consensus
  bitcoin_util
  bitcoin_crypto
  minisketch
  leveldb
  univalue
  secp256k1
  Boost::headers
)

# engine: driver main + test-util glue + upstream fuzz helper functions (FuzzedDataProvider consumers)
add_library(vh_glue STATIC EXCLUDE_FROM_ALL
  ${VH_DIR}/engine/glue.cpp
  ${VH_REPO}/src/test/fuzz/util.cpp
  ${VH_REPO}/src/test/fuzz/util/descriptor.cpp
  ${VH_REPO}/src/test/fuzz/util/mempool.cpp
  ${VH_REPO}/src/test/fuzz/util/net.cpp
  ${VH_REPO}/src/test/fuzz/util/threadinterrupt.cpp
)
target_include_directories(vh_glue PUBLIC ${VH_REPO}/src ${CMAKE_BINARY_DIR}/src ${VH_DIR})
target_link_libraries(vh_glue PUBLIC ${VH_LINK_LIBS})
add_library(vh_engine STATIC EXCLUDE_FROM_ALL ${VH_DIR}/engine/driver.cpp)
target_include_directories(vh_engine PUBLIC ${VH_REPO}/src ${CMAKE_BINARY_DIR}/src ${VH_DIR})
target_link_libraries(vh_engine PUBLIC vh_glue ${VH_LINK_LIBS})
if(VH_FUZZ_BUILD)
  # fz tree: the driver provides LLVMFuzzerTestOneInput instead of main(); libFuzzer's runtime supplies main()
  target_compile_definitions(vh_engine PRIVATE VH_LIBFUZZER)
  target_link_libraries(vh_engine PUBLIC ${VH_FUZZ_RT})
endif()

# kits: shared simulation substrate (ChainSim, RefLedger, ...)
file(GLOB VH_KIT_SRCS CONFIGURE_DEPENDS ${VH_DIR}/kits/*.cpp)
if(VH_KIT_SRCS)
  add_library(vh_kits STATIC EXCLUDE_FROM_ALL ${VH_KIT_SRCS})
  target_include_directories(vh_kits PUBLIC ${VH_REPO}/src ${CMAKE_BINARY_DIR}/src ${VH_DIR})
  target_link_libraries(vh_kits PUBLIC vh_glue ${VH_LINK_LIBS})
endif()

# one executable per property: harness/targets/cNN_*.cpp -> vh_cNN
file(GLOB VH_TARGET_SRCS CONFIGURE_DEPENDS ${VH_DIR}/targets/c[0-9][0-9]*.cpp)
# re-run cmake when a cNN.upstream list appears or disappears
file(GLOB VH_UPSTREAM_FILES CONFIGURE_DEPENDS ${VH_DIR}/targets/*.upstream)
set(VH_PROPS)
foreach(src IN LISTS VH_TARGET_SRCS)
  get_filename_component(base ${src} NAME_WE)
  string(SUBSTRING ${base} 0 3 prop)
  list(APPEND VH_PROPS ${prop})
  list(APPEND VH_SRCS_${prop} ${src})
endforeach()
list(REMOVE_DUPLICATES VH_PROPS)
foreach(prop IN LISTS VH_PROPS)
  # optional harness/targets/cNN.upstream: repo-relative upstream fuzz sources to compile in (run as targets up_<name>)
  set(VH_UP_${prop})
  if(EXISTS ${VH_DIR}/targets/${prop}.upstream)
    set_property(DIRECTORY APPEND PROPERTY CMAKE_CONFIGURE_DEPENDS ${VH_DIR}/targets/${prop}.upstream)
    file(STRINGS ${VH_DIR}/targets/${prop}.upstream _up_lines)
    foreach(l IN LISTS _up_lines)
      string(STRIP "${l}" l)
      if(l AND NOT l MATCHES "^#")
        list(APPEND VH_UP_${prop} ${VH_REPO}/${l})
      endif()
    endforeach()
    if(VH_UP_${prop})
      list(APPEND VH_UP_${prop} ${VH_DIR}/engine/upstream_bridge.cpp)
    endif()
  endif()
  add_executable(vh_${prop} EXCLUDE_FROM_ALL ${VH_SRCS_${prop}} ${VH_UP_${prop}})
  target_include_directories(vh_${prop} PRIVATE ${VH_REPO}/src ${CMAKE_BINARY_DIR}/src ${VH_DIR})
  # --whole-archive not needed: targets self-register from the executable's own objects
  target_link_libraries(vh_${prop} PRIVATE vh_engine $<TARGET_NAME_IF_EXISTS:vh_kits> ${VH_LINK_LIBS})
  set_target_properties(vh_${prop} PROPERTIES RUNTIME_OUTPUT_DIRECTORY ${CMAKE_BINARY_DIR}/vh)
endforeach()
# sutd: persistent system-under-test daemon for engine E2 (line-delimited JSON over stdin/stdout); own main()
file(GLOB VH_SUTD_SRCS CONFIGURE_DEPENDS ${VH_DIR}/sutd/*.cpp)
add_custom_target(vh_all DEPENDS)
if(VH_SUTD_SRCS)
  add_executable(sutd EXCLUDE_FROM_ALL ${VH_SUTD_SRCS})
  target_include_directories(sutd PRIVATE ${VH_REPO}/src ${CMAKE_BINARY_DIR}/src ${VH_DIR})
  target_link_libraries(sutd PRIVATE vh_glue ${VH_LINK_LIBS})
  set_target_properties(sutd PROPERTIES RUNTIME_OUTPUT_DIRECTORY ${CMAKE_BINARY_DIR}/vh)
  add_dependencies(vh_all sutd)
endif()
foreach(prop IN LISTS VH_PROPS)
  add_dependencies(vh_all vh_${prop})
endforeach()
