#!/bin/bash
# Configure a build tree of /repo (+ harness targets injected from /verif/harness) under /verif/build/<cfg>.
set -e
cfg=${1:-san}
V=$(cd "$(dirname "$0")/.." && pwd)
B=$V/build/$cfg
mkdir -p "$V/build/work/tmp"
export CCACHE_DIR=$V/build/ccache
COMMON=(-S /repo -B "$B" -G Ninja
  -DCMAKE_PROJECT_INCLUDE=$V/harness/cmake/inject.cmake
  -DCMAKE_BUILD_TYPE=RelWithDebInfo "-DCMAKE_CXX_FLAGS_RELWITHDEBINFO=-O1 -g1" "-DCMAKE_C_FLAGS_RELWITHDEBINFO=-O1 -g1"
  -DBUILD_TESTS=ON -DBUILD_BENCH=OFF -DBUILD_GUI=OFF -DBUILD_FUZZ_BINARY=OFF -DENABLE_IPC=OFF -DENABLE_WALLET=ON -DWITH_ZMQ=OFF
  -DBUILD_DAEMON=OFF -DBUILD_CLI=OFF -DBUILD_TX=OFF -DBUILD_UTIL=OFF -DBUILD_WALLET_TOOL=OFF -DBUILD_BITCOIN_BIN=OFF -DWITH_CCACHE=ON)
case $cfg in
  san)
    cmake "${COMMON[@]}" -DSANITIZERS=address,undefined \
      "-DAPPEND_CPPFLAGS=-DABORT_ON_FAILED_ASSUME -DBITCOIN_VERIF_HOOKS" \
      "-DAPPEND_CXXFLAGS=-fno-sanitize-recover=undefined" "-DAPPEND_LDFLAGS=-fuse-ld=lld" ;;
  tsan)
    cmake "${COMMON[@]}" -DSANITIZERS=thread \
      "-DAPPEND_CPPFLAGS=-DABORT_ON_FAILED_ASSUME -DBITCOIN_VERIF_HOOKS -DDEBUG_LOCKORDER" \
      "-DAPPEND_LDFLAGS=-fuse-ld=lld" ;;
  fz)
    # coverage-guided tier: g++ trace-pc/trace-cmp instrumentation + covshim + clang's libFuzzer runtime (DESIGN.md §2)
    mkdir -p "$B"
    gcc -O2 -c "$V/harness/engine/covshim.c" -o "$B/covshim.o"
    cp /usr/lib/llvm-14/lib/clang/14.0.6/lib/linux/libclang_rt.fuzzer-x86_64.a "$B/libvhfuzzer.a"
    objcopy --weaken-symbol=__sanitizer_cov_trace_pc "$B/libvhfuzzer.a"
    cmake "${COMMON[@]}" -DSANITIZERS=address,undefined -DVH_FUZZ_BUILD=ON "-DVH_FUZZ_RT=$B/libvhfuzzer.a" \
      "-DAPPEND_CPPFLAGS=-DABORT_ON_FAILED_ASSUME -DBITCOIN_VERIF_HOOKS" \
      "-DAPPEND_CXXFLAGS=-fno-sanitize-recover=undefined -fsanitize-coverage=trace-pc,trace-cmp" \
      "-DAPPEND_CFLAGS=-fsanitize-coverage=trace-pc,trace-cmp" "-DAPPEND_LDFLAGS=-fuse-ld=lld $B/covshim.o" ;;
  *) echo "unknown cfg $cfg"; exit 2 ;;
esac
