#!/usr/bin/env python3
"""C48 (part 2) -- text encodings: hex, base58(check), base64, base32, money amounts, integer strings (engine E2).

Oracles (references: bytes.hex/fromhex, base64 module (RFC 4648), a big-integer base58 written from the definition, decimal
arithmetic, Python int parsing):
  enc      Encode(x) == reference encoding;   Decode(Encode(x)) == x   for arbitrary bytes x
  dec      for strings near the valid set: malformed (bad character, bad length, bad padding, embedded NUL/space, bad checksum,
           over-long) => rejected; canonical => decoded to the reference bytes; anything accepted re-encodes to the canonical form
           of the input (so only canonical strings are accepted)
  money    ParseMoney(FormatMoney(n)) == n for 0 <= n <= MAX_MONEY and FormatMoney(n) is the exact decimal expansion of n / 1e8
           (also for negative n); ParseMoney accepts exactly <ws> digits{0,10} [ '.' digits{0,8} ] <ws> (non-empty, in money range)
  int      ToIntegral<T>(s) == int(s) iff s matches -?[0-9]+ (no '-' for unsigned) and fits T, else nullopt (base 16 likewise);
           LocaleIndependentAtoi follows atoi with saturation
Non-trivial = non-empty payload / a string that is not the plain canonical case. Shape = codec + direction + length + mutation kind.
"""
import base64
import hashlib
import re
from decimal import Decimal

from hypothesis import strategies as st

import e2

B58 = "123456789ABCDEFGHJKLMNPQRSTUVWXYZabcdefghijkmnopqrstuvwxyz"
B64 = "ABCDEFGHIJKLMNOPQRSTUVWXYZabcdefghijklmnopqrstuvwxyz0123456789+/"
B32 = "abcdefghijklmnopqrstuvwxyz234567"
WS = " \t\n\v\f\r"
COIN = 100_000_000
MAX_MONEY = 21_000_000 * COIN

# ----------------------------------------------------------------------------------------------------------------
# references

def b58enc(b):
    n = int.from_bytes(b, "big")
    s = ""
    while n:
        n, r = divmod(n, 58)
        s = B58[r] + s
    return "1" * (len(b) - len(b.lstrip(b"\0"))) + s


def b58dec(s):
    """strict definition: optional surrounding whitespace (documented: leading/trailing spaces are skipped), alphabet only"""
    s = s.strip(WS)
    if any(ch not in B58 for ch in s):
        return None
    n = 0
    for ch in s:
        n = n * 58 + B58.index(ch)
    z = len(s) - len(s.lstrip("1"))
    return bytes(z) + (n.to_bytes((n.bit_length() + 7) // 8, "big") if n else b"")


def sha256d(b):
    return hashlib.sha256(hashlib.sha256(b).digest()).digest()


def ref_b64dec(s):
    """RFC 4648 strict: length % 4 == 0, alphabet, '=' only as final padding (1 or 2)"""
    if len(s) % 4 or not re.fullmatch(r"[A-Za-z0-9+/]*={0,2}", s):
        return None
    try:
        return base64.b64decode(s, validate=True)
    except Exception:
        return None


def ref_b32dec(s):
    if len(s) % 8 or not re.fullmatch(r"[A-Za-z2-7]*=*", s):
        return None
    pad = len(s) - len(s.rstrip("="))
    if pad not in (0, 1, 3, 4, 6):
        return None
    try:
        return base64.b32decode(s.upper())
    except Exception:
        return None


# ----------------------------------------------------------------------------------------------------------------
# strategies

@st.composite
def payload(draw, maxn=80):
    n = draw(st.one_of(st.integers(0, 12), st.integers(0, maxn)))
    k = draw(st.sampled_from(["rand", "rand", "zeros", "ff", "lead0"]))
    if k == "zeros":
        return bytes(n)
    if k == "ff":
        return b"\xff" * n
    b = draw(st.binary(min_size=n, max_size=n))
    if k == "lead0" and n:
        z = draw(st.integers(0, n))
        b = bytes(z) + b[z:]
    return b


MUT = ["none", "none", "badchar", "drop", "dup", "swapcase", "ws_lead", "ws_trail", "ws_mid", "nul", "pad_drop", "pad_add", "lastchar", "neighbor"]


@st.composite
def k_codec(draw):
    name = draw(st.sampled_from(["hex", "base58", "base58check", "base64", "base32"]))
    return {"kind": "codec", "name": name, "data": draw(payload()), "pad": draw(st.booleans()), "mut": draw(st.sampled_from(MUT)), "pos": draw(st.integers(0, 1 << 20)),
            "ch": draw(st.sampled_from(list("0OIl+/-_=. \t\n!gGzZ1a2A7819\x00\x7f\x80\xff"))), "max_len": draw(st.one_of(st.none(), st.integers(0, 90)))}


@st.composite
def k_randstr(draw):
    name = draw(st.sampled_from(["hex", "base58", "base58check", "base64", "base32"]))
    alpha = {"hex": "0123456789abcdefABCDEF \n", "base58": B58 + " 0", "base58check": B58 + " ", "base64": B64 + "==", "base32": B32 + "ABC7=="}[name]
    s = "".join(draw(st.lists(st.sampled_from(list(alpha)), max_size=24)))
    return {"kind": "randstr", "name": name, "s": s}


@st.composite
def k_money(draw):
    n = draw(st.one_of(st.sampled_from([0, 1, COIN - 1, COIN, COIN + 1, MAX_MONEY - 1, MAX_MONEY, MAX_MONEY + 1, 10 * COIN, 123456789, -1, -COIN, -(1 << 63), (1 << 63) - 1]),
                       st.integers(0, MAX_MONEY), st.integers(0, MAX_MONEY).map(lambda x: x // COIN * COIN), st.integers(0, 10 ** 6).map(lambda x: x * 10 ** 4),
                       st.integers(-(1 << 63), (1 << 63) - 1)))
    whole = draw(st.one_of(st.just(""), st.integers(0, 99).map(str), st.integers(0, 22_000_000).map(str), st.sampled_from(["21000000", "20999999", "0", "00", "0000000001", "9999999999", "92233720368"])))
    frac = draw(st.one_of(st.none(), st.just(""), st.integers(0, 8).flatmap(lambda k: st.text("0123456789", min_size=k, max_size=k)), st.sampled_from(["00000001", "000000001", "99999999", "999999999", "0", "00000000", "000000000"])))
    s = whole + ("" if frac is None else "." + frac)
    mut = draw(st.sampled_from(["none", "none", "none", "ws", "ws_mid", "sign", "nul", "junk", "twodots", "exp"]))
    return {"kind": "money", "n": n, "s": s, "mut": mut, "pos": draw(st.integers(0, 40)), "wsl": draw(st.text(WS, max_size=2)), "wsr": draw(st.text(WS, max_size=2))}


INT_TYPES = {"i8": (-(1 << 7), (1 << 7) - 1), "u8": (0, (1 << 8) - 1), "i16": (-(1 << 15), (1 << 15) - 1), "u16": (0, (1 << 16) - 1),
             "i32": (-(1 << 31), (1 << 31) - 1), "u32": (0, (1 << 32) - 1), "i64": (-(1 << 63), (1 << 63) - 1), "u64": (0, (1 << 64) - 1)}


@st.composite
def k_int(draw):
    t = draw(st.sampled_from(sorted(INT_TYPES) + ["atoi32", "atoi64"]))
    lo, hi = INT_TYPES.get(t, INT_TYPES["i32" if t == "atoi32" else "i64"])
    v = draw(st.one_of(st.sampled_from([lo, lo - 1, lo + 1, hi, hi + 1, hi - 1, 0, -1, 1]), st.integers(lo - 5, hi + 5), st.integers(-(1 << 70), 1 << 70)))
    base = draw(st.sampled_from([10, 10, 10, 16])) if t in INT_TYPES else 10
    digits = format(abs(v), "x" if base == 16 else "d")
    if base == 16 and draw(st.booleans()):
        digits = digits.upper()
    s = ("-" if v < 0 else "") + "0" * draw(st.sampled_from([0, 0, 0, 1, 3])) + digits
    mut = draw(st.sampled_from(["none", "none", "none", "plus", "ws_lead", "ws_trail", "junk_trail", "empty", "minus_only", "neg_zero", "plusminus", "mid_space", "nul", "hexprefix"]))
    return {"kind": "int", "type": t, "base": base, "s": s, "mut": mut, "ws": draw(st.text(WS, min_size=1, max_size=2)), "junk": draw(st.sampled_from(list("xg. e+-_\x00")))}


def cases():
    return st.one_of(k_codec(), k_codec(), k_codec(), k_randstr(), k_money(), k_int(), k_int())


# ----------------------------------------------------------------------------------------------------------------
# checks

def ref_encode(name, x, pad=True):
    if name == "hex":
        return x.hex()
    if name == "base58":
        return b58enc(x)
    if name == "base58check":
        return b58enc(x + sha256d(x)[:4])
    if name == "base64":
        return base64.b64encode(x).decode()
    s = base64.b32encode(x).decode().lower()
    return s if pad else s.rstrip("=")


def ref_decode(name, s, max_len=None):
    """-> (verdict, data): verdict True = must decode to data, False = must be rejected, None = no claim"""
    if "\x00" in s and name != "hex":
        return False, None
    if name == "hex":
        try:
            return True, bytes.fromhex(s)                 # documented: whitespace between bytes is ignored (same set as IsSpace)
        except ValueError:
            return False, None
    if name in ("base58", "base58check"):
        d = b58dec(s)
        if d is None:
            return False, None
        if name == "base58check":
            if len(d) < 4 or sha256d(d[:-4])[:4] != d[-4:]:
                return False, None
            d = d[:-4]
        if max_len is not None and len(d) > max_len:
            return False, None
        return True, d
    d = ref_b64dec(s) if name == "base64" else ref_b32dec(s)
    if d is None:
        return False, None
    canon = ref_encode(name, d)
    if (s if name == "base64" else s.lower()) == canon:
        return True, d
    return None, d          # well-formed but with non-zero padding bits: RFC 4648 3.5 lets a decoder reject; only "accepted => canonical" is claimed


def sut_decode(sut, name, s, max_len=None):
    raw = s.encode("latin-1")
    return sut.call("codec", name=name, dir="dec", str_hex=raw, max_len=max_len)


def mutate(s, mut, pos, ch, name):
    if mut == "none" or (not s and mut not in ("badchar", "ws_lead", "ws_trail", "nul", "pad_add")):
        return s, "none"
    i = pos % (len(s) + 1)
    j = pos % len(s) if s else 0
    if mut == "badchar":
        return s[:i] + ch + s[i:], mut
    if mut == "drop":
        return s[:j] + s[j + 1:], mut
    if mut == "dup":
        return s[:j] + s[j] + s[j:], mut
    if mut == "swapcase":
        return s[:j] + s[j].swapcase() + s[j + 1:], mut
    if mut == "ws_lead":
        return " " + s, mut
    if mut == "ws_trail":
        return s + " ", mut
    if mut == "ws_mid":
        k = 1 + pos % max(1, len(s) - 1)
        return s[:k] + " " + s[k:], mut
    if mut == "nul":
        return s[:i] + "\x00" + s[i:], mut
    if mut == "pad_drop":
        return (s[:-1], mut) if s.endswith("=") else (s, "none")
    if mut == "pad_add":
        return s + "=", mut
    if mut == "lastchar":
        alpha = {"hex": "0123456789abcdef", "base58": B58, "base58check": B58, "base64": B64, "base32": B32}[name]
        body = s.rstrip("=")
        if not body:
            return s, "none"
        return body[:-1] + alpha[(alpha.index(body[-1]) + 1 + pos) % len(alpha)] + s[len(body):], mut
    if mut == "neighbor":
        alpha = {"hex": "0123456789abcdef", "base58": B58, "base58check": B58, "base64": B64, "base32": B32}[name]
        return s[:j] + (alpha[(alpha.index(s[j]) + 1) % len(alpha)] if s[j] in alpha else s[j]) + s[j + 1:], mut
    return s, "none"


def c_codec(sut, ex, c):
    name, x, pad = ex["name"], ex["data"], ex["pad"]
    want = ref_encode(name, x, pad)
    enc = sut.call("codec", name=name, dir="enc", data=x, pad=pad)["str"]
    c.eq(enc, want, "c48.encode-" + name, "encoding differs from the reference", data=x)
    full = ref_encode(name, x)            # decoders want the padded form
    r = sut_decode(sut, name, full)
    c.expect(r["ok"] and r["data"] == x.hex(), "c48.roundtrip-" + name, "Decode(Encode(x)) != x", data=x, enc=full, reply=r)
    if name == "hex":
        c.expect(r["parsehex"] == x.hex() and r["is_hex"] == (len(x) > 0), "c48.roundtrip-hex", "ParseHex/IsHex disagree", reply=r)
    s, mut = mutate(full, ex["mut"], ex["pos"], ex["ch"], name)
    ml = ex["max_len"] if name.startswith("base58") else None
    verdict, data = ref_decode(name, s, ml)
    r = sut_decode(sut, name, s, ml)
    if verdict is True:
        c.expect(r["ok"] and r["data"] == data.hex(), "c48.decode-" + name, "valid string rejected or decoded differently", s=s, want=data, reply=r, max_len=ml)
    elif verdict is False:
        c.expect(not r["ok"], "c48.malformed-" + name, "malformed string accepted", s=repr(s), mut=mut, reply=r, max_len=ml)
        if name == "hex":
            c.expect(r["parsehex"] == "" and not r["is_hex"], "c48.malformed-hex", "ParseHex/IsHex accept malformed input", s=repr(s), reply=r)
    if r["ok"] and name in ("base64", "base32"):
        re_enc = ref_encode(name, bytes.fromhex(r["data"]))
        c.eq(re_enc, s if name == "base64" else s.lower(), "c48.canonical-" + name, "accepted string is not the canonical encoding of its decoding", s=s)
    c.nontrivial(len(x) > 0 or mut != "none")
    c.mix(name, len(x), mut, verdict, pad, ml is not None and ml < len(x))
    c.cls("codec:" + name)
    c.cls("mut:" + mut)
    c.cls("verdict:" + str(verdict))
    c.note(f"{name} len={len(x)} mut={mut} verdict={verdict} s={s[:60]!r}")


def c_randstr(sut, ex, c):
    name, s = ex["name"], ex["s"]
    verdict, data = ref_decode(name, s)
    r = sut_decode(sut, name, s)
    if verdict is True:
        c.expect(r["ok"] and r["data"] == data.hex(), "c48.decode-" + name, "valid string rejected or decoded differently", s=s, want=data, reply=r)
    elif verdict is False:
        c.expect(not r["ok"], "c48.malformed-" + name, "malformed string accepted", s=repr(s), reply=r)
    if r["ok"] and name in ("base64", "base32"):
        c.eq(ref_encode(name, bytes.fromhex(r["data"])), s if name == "base64" else s.lower(), "c48.canonical-" + name, "accepted string is not canonical", s=s)
    if r["ok"] and name == "base58":
        c.eq(ref_encode(name, bytes.fromhex(r["data"])), s.strip(WS), "c48.canonical-base58", "Encode(Decode(s)) != s", s=s)
    c.nontrivial(len(s) > 0)
    c.mix(name, len(s), verdict)
    c.cls("verdict:" + str(verdict))
    c.note(f"{name} random string {s!r} verdict={verdict}")


def c_money(sut, ex, c):
    n = ex["n"]
    f = sut.call("money", dir="format", n=n)["str"]
    # exact decimal expansion, at least 2 and at most 8 decimals, no other trimming
    c.expect(re.fullmatch(r"-?\d+\.\d{2,8}", f) is not None and Decimal(f) * COIN == n and (len(f.split(".")[1]) == 2 or not f.endswith("0")),
             "c48.formatmoney", "FormatMoney is not the trimmed exact decimal expansion", n=n, got=f)
    p = sut.call("money", dir="parse", str=f)
    if 0 <= n <= MAX_MONEY:
        c.expect(p["ok"] and p["n"] == n, "c48.money-roundtrip", "ParseMoney(FormatMoney(n)) != n", n=n, s=f, reply=p)
    else:
        c.expect(not p["ok"], "c48.money-range", "amount outside 0..MAX_MONEY accepted", n=n, s=f, reply=p)
    # grammar
    s, mut = ex["s"], ex["mut"]
    forced_bad = False
    if mut == "ws":
        s = ex["wsl"] + s + ex["wsr"]
    elif mut == "ws_mid" and len(s) >= 2:
        k = 1 + ex["pos"] % (len(s) - 1)
        s, forced_bad = s[:k] + " " + s[k:], True
    elif mut == "sign":
        s, forced_bad = "+-"[ex["pos"] % 2] + s, True
    elif mut == "nul":
        k = ex["pos"] % (len(s) + 1)
        s, forced_bad = s[:k] + "\x00" + s[k:], True
    elif mut == "junk":
        k = ex["pos"] % (len(s) + 1)
        s, forced_bad = s[:k] + "x,e-_"[ex["pos"] % 5] + s[k:], True
    elif mut == "twodots":
        s = s + "."
    elif mut == "exp":
        s, forced_bad = s + "e2", True
    else:
        mut = "none"
    # grammar fixed by the unit tests (util_ParseMoney): surrounding whitespace ignored; "." "0." ".5" "5." are amounts; <= 8 decimals
    core = s.strip(WS)
    val = None
    if not forced_bad and core != "" and re.fullmatch(r"\d{0,10}(\.\d{0,8})?", core):
        whole, _, frac = core.partition(".")
        val = int(whole or "0") * COIN + int((frac + "0" * 8)[:8])
        if val > MAX_MONEY:
            val = None
    p = sut.call("money", dir="parse", str_hex=s.encode("latin-1"))
    if val is None:
        c.expect(not p["ok"], "c48.parsemoney-malformed", "malformed / out-of-range amount string accepted", s=repr(s), reply=p)
    else:
        c.expect(p["ok"] and p["n"] == val, "c48.parsemoney", "valid amount string rejected or mis-parsed", s=repr(s), want=val, reply=p)
    c.nontrivial(n != 0)
    c.mix(n.bit_length(), n < 0, n > MAX_MONEY, len(f), mut, val is None, len(s))
    c.cls("money-valid" if val is not None else "money-rejected")
    c.note(f"money n={n} -> {f}; parse {s!r} -> {val}")


def c_int(sut, ex, c):
    t, base, s, mut = ex["type"], ex["base"], ex["s"], ex["mut"]
    if mut == "plus":
        s = "+" + s
    elif mut == "ws_lead":
        s = ex["ws"] + s
    elif mut == "ws_trail":
        s = s + ex["ws"]
    elif mut == "junk_trail":
        s = s + ex["junk"]
    elif mut == "empty":
        s = ""
    elif mut == "minus_only":
        s = "-"
    elif mut == "neg_zero":
        s = "-0"
    elif mut == "plusminus":
        s = "+-" + s.lstrip("-")
    elif mut == "mid_space" and len(s) >= 2:
        s = s[:1] + " " + s[1:]
    elif mut == "nul":
        s = s + "\x00"
    elif mut == "hexprefix":
        s = "0x" + s.lstrip("-")
    r = sut.call("parse_int", type=t, str_hex=s.encode("latin-1"), base=base)
    if t in INT_TYPES:
        lo, hi = INT_TYPES[t]
        pat = r"-?[0-9a-fA-F]+" if base == 16 else r"-?[0-9]+"
        want = None
        if re.fullmatch(pat, s) and not (lo == 0 and s.startswith("-")):
            v = int(s, base)
            if lo <= v <= hi:
                want = v
        if want is None:
            c.expect(not r["ok"], "c48.toint-malformed", "ToIntegral accepted a malformed / out-of-range string", type=t, s=repr(s), base=base, reply=r)
        else:
            c.expect(r["ok"] and r["n"] == want, "c48.toint", "ToIntegral rejected or mis-parsed a valid string", type=t, s=repr(s), base=base, want=want, reply=r)
        c.cls("int-valid" if want is not None else "int-rejected")
    else:
        # atoi: skip surrounding whitespace, optional sign ("+-" => 0), longest digit prefix, saturating
        lo, hi = INT_TYPES["i32" if t == "atoi32" else "i64"]
        core = s.strip(WS)
        mm = re.match(r"(\+(?!-)|-)?([0-9]+)", core) if not core.startswith("+-") else None
        want = 0
        if mm:
            v = int(mm.group(2)) * (-1 if mm.group(1) == "-" else 1)
            want = min(hi, max(lo, v))
        c.eq(r["n"], want, "c48.atoi", "LocaleIndependentAtoi differs from atoi-with-saturation", type=t, s=repr(s))
        c.cls("int-atoi")
    c.nontrivial(mut != "none" or len(s) > 1)
    c.mix(t, base, mut, len(s), s[:1])
    c.note(f"{t} base={base} {s!r} mut={mut}")


check = e2.dispatch({"codec": c_codec, "randstr": c_randstr, "money": c_money, "int": c_int})

if __name__ == "__main__":
    e2.main(__file__, strategy=cases(), check=check)
