// C07 — Headers need real proof of work and the exact required difficulty (pure targets).
// Oracles (all in boost::multiprecision::cpp_int, written from the documented definitions, sharing no code with
// arith_uint256.cpp / pow.cpp):
//   c07.compact-decode / -encode : N = mantissa * 256^(exponent-3) (floor), sign bit 0x00800000, overflow <=> N >= 2^256;
//                                  canonical encoding = smallest exponent whose mantissa fits 23 bits
//   c07.derive-target / c07.check-pow : target valid <=> not negative, non-zero, no overflow, <= powLimit; pow ok <=> hash <= target
//   c07.retarget-ref : next work = encode(min(floor(decode(base) * clamp(t_last - t_first, T/4, 4T) / T), powLimit)); testnet
//                      min-difficulty rule and BIP94 (base = first block of the period) as documented
//   c07.required-permitted : whatever GetNextWorkRequired returns passes PermittedDifficultyTransition (subset relation)
//   c07.permitted-ref : PermittedDifficultyTransition == [round(min(old/4)), round(min(old*4))] window reference
#include <engine/verif.h>

#include <arith_uint256.h>
#include <chain.h>
#include <chainparams.h>
#include <common/args.h>
#include <consensus/params.h>
#include <kernel/chainparams.h>
#include <pow.h>
#include <primitives/block.h>
#include <uint256.h>
#include <util/chaintype.h>

#include <boost/multiprecision/cpp_int.hpp>

#include <memory>
#include <optional>
#include <string>
#include <vector>

namespace {
using boost::multiprecision::cpp_int;

const cpp_int TWO256 = cpp_int(1) << 256;

cpp_int from_u256(const uint256& u)
{
    cpp_int v = 0;
    for (int i = 31; i >= 0; --i) { v <<= 8; v += u.data()[i]; } // byte 0 is least significant
    return v;
}
uint256 to_u256(cpp_int v) // requires v < 2^256
{
    uint256 u;
    for (int i = 0; i < 32; ++i) { u.data()[i] = static_cast<unsigned char>(cpp_int(v & 0xff).convert_to<unsigned>()); v >>= 8; }
    return u;
}
cpp_int from_arith(const arith_uint256& a) { return from_u256(ArithToUint256(a)); }
arith_uint256 to_arith(const cpp_int& v) { return UintToArith256(to_u256(v)); }
std::string hexv(const cpp_int& v) { std::ostringstream os; os << std::hex << v; return os.str(); }
std::string hex32(uint32_t v) { char b[16]; snprintf(b, sizeof b, "%08x", v); return b; }

// ---- reference: compact format -----------------------------------------------------------------------------------
struct RefCompact { cpp_int mag; bool neg; bool overflow; };

RefCompact ref_decode(uint32_t c)
{
    unsigned e = c >> 24;
    cpp_int m = c & 0x007fffffu;
    RefCompact r;
    r.mag = e >= 3 ? cpp_int(m << (8 * (e - 3))) : cpp_int(m >> (8 * (3 - e))); // floor(mantissa * 256^(e-3))
    r.neg = (c & 0x00800000u) != 0 && r.mag != 0;
    r.overflow = r.mag >= TWO256;
    return r;
}

/** canonical encoding: the smallest exponent s such that floor(v / 256^(s-3)) fits the 23-bit mantissa */
uint32_t ref_encode(const cpp_int& v)
{
    for (unsigned s = 0; s < 256; ++s) {
        cpp_int m = s >= 3 ? cpp_int(v >> (8 * (s - 3))) : cpp_int(v << (8 * (3 - s)));
        if (m <= 0x7fffff) return (s << 24) | static_cast<uint32_t>(m);
    }
    return 0xffffffffu; // unreachable for v < 2^256
}

bool ref_valid_target(const RefCompact& r, const cpp_int& limit) { return !r.neg && !r.overflow && r.mag != 0 && r.mag <= limit; }

// ---- chains ------------------------------------------------------------------------------------------------------
struct ChainP {
    std::string name;
    std::unique_ptr<const CChainParams> params;
    cpp_int limit;
    int64_t T, spacing, interval;
    bool allow_min, no_retarget, bip94;
    const Consensus::Params& cp() const { return params->GetConsensus(); }
};
std::vector<ChainP> g_chains;
std::unique_ptr<Consensus::Params> g_custom; // copy of main's consensus params with a generated powLimit
constexpr int N_IDX = 2 * 2016 + 8;
std::unique_ptr<CBlockIndex[]> g_idx;        // static block-index chain, heights 0..N-1

void init_c07()
{
    if (!g_chains.empty()) return;
    ArgsManager args;
    for (auto [name, type] : {std::pair{"main", ChainType::MAIN}, std::pair{"testnet3", ChainType::TESTNET}, std::pair{"testnet4", ChainType::TESTNET4},
                              std::pair{"signet", ChainType::SIGNET}, std::pair{"regtest", ChainType::REGTEST}}) {
        ChainP c;
        c.name = name;
        c.params = CreateChainParams(args, type);
        const Consensus::Params& p = c.params->GetConsensus();
        c.limit = from_u256(p.powLimit);
        c.T = p.nPowTargetTimespan; c.spacing = p.nPowTargetSpacing; c.interval = c.T / c.spacing;
        c.allow_min = p.fPowAllowMinDifficultyBlocks; c.no_retarget = p.fPowNoRetargeting; c.bip94 = p.enforce_BIP94;
        g_chains.push_back(std::move(c));
    }
    g_custom = std::make_unique<Consensus::Params>(g_chains[0].cp());
    g_idx.reset(new CBlockIndex[N_IDX]);
    for (int h = 0; h < N_IDX; ++h) {
        g_idx[h].nHeight = h;
        g_idx[h].pprev = h ? &g_idx[h - 1] : nullptr;
        g_idx[h].BuildSkip();
    }
}

// ---- generators --------------------------------------------------------------------------------------------------
const std::vector<uint32_t> MANT_BOUNDARY = {0, 1, 2, 0x7f, 0x80, 0xff, 0x100, 0x101, 0x7fff, 0x8000, 0x8001, 0xffff, 0x10000, 0x10001,
                                             0x7ffffe, 0x7fffff, 0x400000, 0x3fffff, 0x00ffff, 0x00ff00, 0x123456, 0x00c0de};

uint32_t gen_nbits(verif::Src& s)
{
    unsigned mode = s.range<unsigned>(0, 3);
    if (mode == 3) return s.ConsumeIntegral<uint32_t>();
    uint32_t e = s.chance(160) ? s.pick<uint32_t>({0, 1, 2, 3, 4, 5, 0x1b, 0x1c, 0x1d, 0x1e, 0x1f, 0x20, 0x21, 0x22, 0x23, 0x24, 0xff}) : s.range<uint32_t>(0, 255);
    uint32_t m = s.chance(128) ? s.pick(MANT_BOUNDARY) : s.range<uint32_t>(0, 0x7fffff);
    uint32_t sign = s.chance(40) ? 0x00800000u : 0;
    return (e << 24) | sign | m;
}

/** random value below 2^256 with a chosen bit length and boundary-ish top bytes */
cpp_int gen_value(verif::Src& s)
{
    unsigned bits = s.range<unsigned>(0, 256);
    if (bits == 0) return 0;
    cpp_int v = 0;
    unsigned mode = s.range<unsigned>(0, 3);
    for (unsigned i = 0; i < 32; ++i) {
        unsigned b = mode == 0 ? 0 : mode == 1 ? 0xff : s.range<unsigned>(0, 255);
        v = (v << 8) | b;
    }
    v &= (cpp_int(1) << bits) - 1;
    v |= cpp_int(1) << (bits - 1);
    if (s.chance(64) && bits >= 24) { // force a top-3-byte pattern
        cpp_int top = s.pick<uint32_t>({0x800000, 0x7fffff, 0xffffff, 0x008000, 0x00ffff, 0x010000});
        unsigned sh = bits - 24;
        v = (v & ((cpp_int(1) << sh) - 1)) | (top << sh);
    }
    return v;
}

/** a compact value a valid chain can carry: canonical, non-zero, <= powLimit. Returns how it was made via `how`. */
uint32_t gen_reachable_bits(verif::Src& s, const ChainP& c, std::string& how)
{
    unsigned mode = s.range<unsigned>(0, 3);
    if (mode == 0) { how = "limit"; return ref_encode(c.limit); }
    if (mode <= 2) {
        // iterate the reference retarget rule from powLimit with extreme / random timespans
        unsigned steps = mode == 1 ? s.range<unsigned>(0, 12) : s.range<unsigned>(0, 125);
        uint32_t bits = ref_encode(c.limit);
        for (unsigned k = 0; k < steps; ++k) {
            unsigned w = s.range<unsigned>(0, 7);
            int64_t ts = w <= (mode == 2 ? 5u : 2u) ? c.T / 4 : w == 6 ? c.T * 4 : s.range<int64_t>(c.T / 4, c.T * 4);
            cpp_int t = ref_decode(bits).mag * ts / c.T;
            if (t > c.limit) t = c.limit;
            if (t == 0) break; // a zero target cannot be carried by a valid chain
            bits = ref_encode(t);
        }
        how = "iterated";
        return bits;
    }
    how = "random-canonical";
    cpp_int v = gen_value(s);
    if (v == 0) v = 1;
    if (v > c.limit) v = c.limit;
    return ref_encode(v);
}

} // namespace

// ==================================================================================================================
static void compact_checks(uint32_t nbits, verif::Stats& st)
{
    RefCompact r = ref_decode(nbits);
    bool neg = false, ovf = false;
    arith_uint256 a;
    a.SetCompact(nbits, &neg, &ovf);
    st.steps++;
    VCHECK(neg == r.neg, "c07.compact-decode", "negative flag: nbits", hex32(nbits), "impl", neg, "ref", r.neg);
    VCHECK(ovf == r.overflow, "c07.compact-decode", "overflow flag: nbits", hex32(nbits), "impl", ovf, "ref", r.overflow);
    if (!r.overflow) {
        VCHECK(from_arith(a) == r.mag, "c07.compact-decode", "value: nbits", hex32(nbits), "impl", hexv(from_arith(a)), "ref", hexv(r.mag));
        arith_uint256 b;
        b.SetCompact(nbits);
        VCHECK(b == a, "c07.compact-decode", "value differs without flag pointers", hex32(nbits));
        uint32_t enc = a.GetCompact(), renc = ref_encode(r.mag);
        st.steps++;
        VCHECK(enc == renc, "c07.compact-encode", "nbits", hex32(nbits), "value", hexv(r.mag), "impl", hex32(enc), "ref", hex32(renc));
        uint32_t encn = a.GetCompact(true);
        VCHECK(encn == (renc | ((renc & 0x7fffff) ? 0x00800000u : 0)), "c07.compact-encode", "negative encoding", hex32(nbits), hex32(encn));
    }
}

static void target_checks(uint32_t nbits, const Consensus::Params& cp, const cpp_int& limit, const cpp_int& hash, verif::Stats& st, bool* accepted = nullptr)
{
    RefCompact r = ref_decode(nbits);
    bool valid = ref_valid_target(r, limit);
    auto d = DeriveTarget(nbits, cp.powLimit);
    st.steps++;
    VCHECK(d.has_value() == valid, "c07.derive-target", "nbits", hex32(nbits), "limit", hexv(limit), "impl", d.has_value(), "ref", valid);
    if (valid) VCHECK(from_arith(*d) == r.mag, "c07.derive-target", "value: nbits", hex32(nbits), hexv(from_arith(*d)), hexv(r.mag));
    bool expect = valid && hash <= r.mag;
    uint256 h = to_u256(hash);
    bool got = CheckProofOfWorkImpl(h, nbits, cp);
    bool got2 = CheckProofOfWork(h, nbits, cp);
    st.steps++;
    VCHECK(got == expect, "c07.check-pow", "nbits", hex32(nbits), "limit", hexv(limit), "hash", hexv(hash), "impl", got, "ref", expect);
    VCHECK(got2 == expect, "c07.check-pow", "CheckProofOfWork wrapper: nbits", hex32(nbits), "hash", hexv(hash), "impl", got2, "ref", expect);
    if (accepted) *accepted = got;
}

VERIF_TARGET(c07_compact, init_c07, 24, 160,
             "nBits: raw 32-bit | exponent from boundary set (0..5, 0x1b..0x24, 0xff) x mantissa boundary set x sign | canonical encoding of a random "
             "256-bit value (+-1 mantissa); powLimit of a built-in chain or a generated one; hash in {target, target+-1, 0, 2^256-1, limit, random}. "
             "SetCompact value/negative/overflow, GetCompact, DeriveTarget, CheckProofOfWork(Impl) vs cpp_int reference of N = mantissa*256^(exp-3). "
             "non-trivial = negative or overflow-border (exp 32..35, mantissa != 0) or exp <= 3 or hash within +-1 of a valid target or target within one "
             "mantissa unit of powLimit; distinct = (exponent, flags, mantissa bit length, limit kind, hash relation)")
{
    uint32_t nbits;
    cpp_int limit;
    const Consensus::Params* cp;
    std::string limit_kind;
    if (s.chance(80)) {
        cpp_int l = gen_value(s);
        g_custom->powLimit = to_u256(l);
        cp = g_custom.get(); limit = l; limit_kind = "custom";
    } else {
        const ChainP& c = g_chains[s.index(g_chains.size())];
        cp = &c.cp(); limit = c.limit; limit_kind = c.name;
    }
    unsigned src = s.range<unsigned>(0, 3);
    if (src == 0) {
        // canonical encoding of a value near the limit or random, mantissa +-1
        cpp_int v = s.boolean() ? limit : gen_value(s);
        nbits = ref_encode(v);
        int d = s.range<int>(-1, 1);
        if ((nbits & 0x7fffff) + d <= 0x7fffff && int64_t(nbits & 0x7fffff) + d >= 0) nbits += d;
        if (s.chance(24)) nbits |= 0x00800000u;
    } else {
        nbits = gen_nbits(s);
    }
    RefCompact r = ref_decode(nbits);
    compact_checks(nbits, st);
    // an independently chosen value for GetCompact
    {
        cpp_int v = gen_value(s);
        uint32_t enc = to_arith(v).GetCompact(), renc = ref_encode(v);
        st.steps++;
        VCHECK(enc == renc, "c07.compact-encode", "value", hexv(v), "impl", hex32(enc), "ref", hex32(renc));
        RefCompact back = ref_decode(renc);
        unsigned e = renc >> 24;
        VCHECK(!back.neg && !back.overflow && back.mag <= v && (e <= 3 ? back.mag == v : v - back.mag < (cpp_int(1) << (8 * (e - 3)))),
               "c07.ref-selftest", "reference encoding is not the truncation of the value", hexv(v), hex32(renc));
    }
    // hash relative to the target
    unsigned hk = s.range<unsigned>(0, 7);
    cpp_int hash;
    cpp_int tgt = r.overflow ? cpp_int(0) : r.mag;
    switch (hk) {
    case 0: hash = tgt; break;
    case 1: hash = tgt + 1; break;
    case 2: hash = tgt > 0 ? cpp_int(tgt - 1) : cpp_int(0); break;
    case 3: hash = 0; break;
    case 4: hash = TWO256 - 1; break;
    case 5: hash = limit; break;
    case 6: hash = limit + 1; break;
    default: hash = gen_value(s); break;
    }
    if (hash >= TWO256) hash = TWO256 - 1;
    bool accepted = false;
    target_checks(nbits, *cp, limit, hash, st, &accepted);

    unsigned e = nbits >> 24;
    bool valid = ref_valid_target(r, limit);
    bool border = (nbits & 0x7fffff) != 0 && e >= 32 && e <= 35;
    bool near_hash = valid && (hash == r.mag || hash == r.mag + 1 || hash + 1 == r.mag);
    bool near_limit = !r.overflow && r.mag != 0 && (ref_encode(r.mag) == ref_encode(limit) || ref_encode(r.mag) == ref_encode(limit) + 1 || ref_encode(r.mag) + 1 == ref_encode(limit));
    st.nontrivial = r.neg || border || e <= 3 || near_hash || near_limit;
    st.mix(uint64_t(e)); st.mix(uint64_t(r.neg) | uint64_t(r.overflow) << 1 | uint64_t(valid) << 2 | uint64_t(near_hash) << 3 | uint64_t(near_limit) << 4);
    st.mix(uint64_t(32 - __builtin_clz((nbits & 0x7fffff) | 1))); st.mix(limit_kind); st.mix(uint64_t(hk));
    st.cls(r.neg ? "negative" : r.overflow ? "overflow" : r.mag == 0 ? "zero" : r.mag > limit ? "above-limit" : "valid-target");
    if (border) st.cls("overflow-border-exp");
    if (near_hash) st.cls("hash-at-target+-1");
    if (near_limit) st.cls("target-at-limit+-1");
    if (accepted) st.cls("pow-accepted");
    st.note("nbits=", hex32(nbits), " limit=", limit_kind, " ref{mag=", r.overflow ? std::string("overflow") : hexv(r.mag), " neg=", r.neg, " ovf=", r.overflow,
            "} hash_kind=", hk, " hash=", hexv(hash), " pow_ok=", accepted);
}

// ---- exhaustive lattice: 256 exponents x sign x 4096 mantissas --------------------------------------------------
namespace {
std::vector<uint32_t> g_lattice;
void init_lattice()
{
    init_c07();
    if (!g_lattice.empty()) return;
    std::vector<bool> seen(1 << 23, false);
    auto add = [&](uint32_t m) { m &= 0x7fffff; if (g_lattice.size() < 4096 && !seen[m]) { seen[m] = true; g_lattice.push_back(m); } };
    for (uint32_t m : MANT_BOUNDARY) add(m);
    for (int k = 0; k < 23; ++k) { add(1u << k); add((1u << k) - 1); add((1u << k) + 1); add(0x7fffffu >> k); add((0x7fffffu >> k) << k); }
    for (uint32_t b : {0xffu, 0x80u, 0x7fu, 0x01u}) { add(b); add(b << 8); add(b << 16); add(b << 8 | b); add(b << 16 | b << 8 | b); }
    // powLimit mantissas of the built-in chains +-1
    for (auto& c : g_chains) { uint32_t m = ref_encode(c.limit) & 0x7fffff; add(m); add(m + 1); add(m - 1); }
    uint64_t x = 0x0c07c07c07c07c07ULL; // fixed-constant splitmix fill
    while (g_lattice.size() < 4096) {
        x += 0x9e3779b97f4a7c15ULL; uint64_t z = x; z = (z ^ (z >> 30)) * 0xbf58476d1ce4e5b9ULL; z = (z ^ (z >> 27)) * 0x94d049bb133111ebULL; z ^= z >> 31;
        add(uint32_t(z));
    }
}
} // namespace

VERIF_TARGET(c07_lattice, init_lattice, 0, 8,
             "exhaustive: every exponent byte (256) x sign bit x a fixed 4096-value mantissa lattice (all boundary mantissas, single bits, 2^k+-1, "
             "byte patterns, powLimit mantissas +-1, pseudo-random fill) = 2,097,152 nBits; one enumeration case = one (exponent, sign) row of 4096; "
             "per value: SetCompact value+flags, GetCompact round trip, DeriveTarget for the three distinct built-in powLimits, CheckProofOfWork with "
             "hash = target and target+1; non-trivial row = exponent <= 3 or >= 29 or sign bit set")
{
    const uint64_t TOTAL = 512;
    verif::set_enum_total(TOTAL);
    int64_t idx = verif::enum_index();
    if (idx < 0) idx = int64_t(s.range<uint64_t>(0, TOTAL - 1));
    if (uint64_t(idx) >= TOTAL) return;
    uint32_t e = uint32_t(idx) >> 1, sign = (uint32_t(idx) & 1) ? 0x00800000u : 0;
    uint64_t n_valid = 0, n_neg = 0, n_ovf = 0;
    for (uint32_t m : g_lattice) {
        uint32_t nbits = (e << 24) | sign | m;
        compact_checks(nbits, st);
        RefCompact r = ref_decode(nbits);
        n_neg += r.neg; n_ovf += r.overflow;
        for (size_t ci : {size_t(0), size_t(3), size_t(4)}) { // main (= testnet3/4), signet, regtest limits
            const ChainP& c = g_chains[ci];
            bool valid = ref_valid_target(r, c.limit);
            n_valid += valid;
            cpp_int tgt = r.overflow ? cpp_int(0) : r.mag;
            target_checks(nbits, c.cp(), c.limit, tgt, st);
            if (tgt + 1 < TWO256) target_checks(nbits, c.cp(), c.limit, tgt + 1, st);
        }
    }
    st.mix(uint64_t(idx));
    st.nontrivial = e <= 3 || e >= 29 || sign;
    st.cls(sign ? "row-sign-set" : "row-sign-clear");
    if (n_valid) st.cls("row-with-valid-targets");
    if (n_ovf) st.cls("row-with-overflow");
    st.note("exponent=", e, " sign=", sign != 0, " values=", g_lattice.size(), " valid(target,chain) pairs=", n_valid, " negative=", n_neg, " overflow=", n_ovf);
}

// ==================================================================================================================
// retarget
namespace {
struct RetargetCase {
    const ChainP* c;
    int last_h;
    bool retarget_height;
    uint32_t first_bits, last_bits;
    int64_t t_first, t_last, t_new;
    int tail_min_run; // number of blocks at the end of the period (up to and including last) carrying powLimit bits
};

/** reference for GetNextWorkRequired, written from the documented rules */
uint32_t ref_next_work(const RetargetCase& k, const std::vector<uint32_t>& period_bits /* bits from period start to last */)
{
    const ChainP& c = *k.c;
    uint32_t limit_bits = ref_encode(c.limit);
    if (!k.retarget_height) {
        if (c.allow_min) {
            if (k.t_new > k.t_last + 2 * c.spacing) return limit_bits;
            // the last block that is not a min-difficulty block, but never before the first block of the period
            size_t i = period_bits.size() - 1;
            int h = k.last_h;
            while (h > 0 && h % c.interval != 0 && period_bits[i] == limit_bits) { --i; --h; }
            return period_bits[i];
        }
        return k.last_bits;
    }
    if (c.no_retarget) return k.last_bits;
    int64_t span = k.t_last - k.t_first;
    if (span < c.T / 4) span = c.T / 4;
    if (span > c.T * 4) span = c.T * 4;
    cpp_int base = ref_decode(c.bip94 ? k.first_bits : k.last_bits).mag;
    cpp_int t = base * span / c.T;
    if (t > c.limit) t = c.limit;
    return ref_encode(t);
}

bool ref_permitted(const ChainP& c, int64_t height, uint32_t old_bits, uint32_t new_bits)
{
    if (c.allow_min) return true;
    if (height % c.interval != 0) return old_bits == new_bits;
    cpp_int old = ref_decode(old_bits).mag;
    cpp_int hi = old * (c.T * 4) / c.T; if (hi > c.limit) hi = c.limit;
    cpp_int lo = old * (c.T / 4) / c.T; if (lo > c.limit) lo = c.limit;
    hi = ref_decode(ref_encode(hi)).mag; // rounded to compact precision
    lo = ref_decode(ref_encode(lo)).mag;
    cpp_int obs = ref_decode(new_bits).mag;
    return lo <= obs && obs <= hi;
}
} // namespace

VERIF_TARGET(c07_retarget, init_c07, 32, 256,
             "built-in chain x (retarget height | other height) on a static 4040-entry block index; previous nBits from the reachable set (powLimit; "
             "powLimit iterated through 0..125 reference retargets with extreme/random timespans; random canonical <= powLimit); first/last times "
             "with span in {0, +-1 around T/4, T, 4T, last<first, uint32 extremes, random}; min-difficulty tails and new-block time +-1 around "
             "last+2*spacing (testnet3/4, regtest); BIP94 first!=last bits. GetNextWorkRequired and CalculateNextWorkRequired == cpp_int reference; "
             "result passes PermittedDifficultyTransition. non-trivial = retarget on a retargeting chain with span clamped or within +-1 of a clamp "
             "bound or result limited by powLimit or BIP94 base differs; or min-difficulty rule at its time boundary / with a walk-back; "
             "distinct = (chain, kind, span class, bits source, exponent of old/new, clamp flags)")
{
    RetargetCase k{};
    const ChainP& c = g_chains[s.index(g_chains.size())];
    k.c = &c;
    const int I = int(c.interval);
    k.retarget_height = s.chance(190);
    int max_period = (N_IDX - 1) / I; // periods fully inside the static index
    int period = s.range<int>(1, std::min(max_period, 3));
    if (k.retarget_height) k.last_h = period * I - 1;
    else {
        // any height whose successor is not a retarget height; near the period edges more often
        int base = (period - 1) * I;
        int off = s.chance(128) ? s.pick<int>({0, 1, 2, I - 3, I - 2}) : s.range<int>(0, I - 2);
        k.last_h = base + off;
    }
    int period_start = k.last_h - (k.last_h % I);
    std::string how;
    uint32_t bits = gen_reachable_bits(s, c, how);
    uint32_t limit_bits = ref_encode(c.limit);
    k.first_bits = bits;
    k.last_bits = bits;
    // period contents
    std::vector<uint32_t> pb(size_t(k.last_h - period_start + 1), bits);
    k.tail_min_run = 0;
    if (c.allow_min && s.chance(140)) {
        int run = s.chance(128) ? s.range<int>(1, 4) : s.range<int>(1, int(pb.size()));
        run = std::min<int>(run, int(pb.size()));
        for (int j = 0; j < run; ++j) pb[pb.size() - 1 - j] = limit_bits;
        k.tail_min_run = run;
        if (s.chance(40) && pb.size() >= 3) pb[pb.size() - 1 - s.index(pb.size() - 1)] = bits; // a hole in the run (or re-set)
    } else if (!c.allow_min && s.chance(24) && pb.size() >= 2) {
        // not a valid chain, but the non-BIP94 rule must look at the last block only
        std::string h2; pb[0] = gen_reachable_bits(s, c, h2);
    }
    k.first_bits = pb.front();
    k.last_bits = pb.back();
    // times (block index times are uint32)
    int64_t t0 = s.chance(200) ? s.range<int64_t>(1231006505, 1231006505 + 20LL * 365 * 86400) : s.pick<int64_t>({0, 1, 0x7fffffff, 0x80000000LL, 0xffffffffLL, 0xffffffffLL - c.T});
    int64_t span;
    unsigned sk = s.range<unsigned>(0, 9);
    int d = s.range<int>(-1, 1);
    switch (sk) {
    case 0: span = c.T / 4 + d; break;
    case 1: span = c.T * 4 + d; break;
    case 2: span = c.T + d; break;
    case 3: span = d; break;
    case 4: span = -s.range<int64_t>(1, c.T * 8); break;
    case 5: span = s.range<int64_t>(c.T * 4, c.T * 40); break;
    case 6: span = s.range<int64_t>(0, c.T / 4); break;
    case 7: span = s.pick<int64_t>({0xffffffffLL, -0xffffffffLL, 0x7fffffff, -0x80000000LL}); break;
    default: span = s.range<int64_t>(c.T / 4, c.T * 4); break;
    }
    int64_t t1 = t0 + span;
    if (t1 < 0) t1 = 0;
    if (t1 > 0xffffffffLL) t1 = 0xffffffffLL;
    k.t_first = t0; k.t_last = t1;
    int nk = s.range<int>(0, 5);
    int64_t tn = nk <= 2 ? t1 + 2 * c.spacing + (nk - 1) : nk == 3 ? t1 : nk == 4 ? t1 + s.range<int64_t>(0, 4 * c.spacing) : s.range<int64_t>(0, 0xffffffffLL);
    if (tn < 0) tn = 0;
    if (tn > 0xffffffffLL) tn = 0xffffffffLL;
    k.t_new = tn;
    // install into the static index (every field the code under test may read for this case is written here)
    for (size_t j = 0; j < pb.size(); ++j) { g_idx[period_start + j].nBits = pb[j]; g_idx[period_start + j].nTime = uint32_t(t0); }
    g_idx[period_start].nTime = uint32_t(t0);
    g_idx[k.last_h].nTime = uint32_t(t1);
    if (k.last_h == period_start) k.t_first = k.t_last; // single-entry span: first == last
    CBlockHeader hdr;
    hdr.nTime = uint32_t(tn);
    const CBlockIndex* last = &g_idx[k.last_h];

    uint32_t expect = ref_next_work(k, pb);
    uint32_t got = GetNextWorkRequired(last, &hdr, c.cp());
    st.steps++;
    st.note("chain=", c.name, " last_h=", k.last_h, " retarget=", k.retarget_height, " bits_src=", how, " first_bits=", hex32(k.first_bits), " last_bits=", hex32(k.last_bits),
            " span=", k.t_last - k.t_first, " (T=", c.T, ") new_time-last=", k.t_new - k.t_last, " min_tail=", k.tail_min_run, " required=", hex32(got), " ref=", hex32(expect));
    VCHECK(got == expect, "c07.retarget-ref", "GetNextWorkRequired: chain", c.name, "last_h", k.last_h, "first_bits", hex32(k.first_bits), "last_bits", hex32(k.last_bits),
           "span", k.t_last - k.t_first, "impl", hex32(got), "ref", hex32(expect));
    if (k.retarget_height) {
        uint32_t got2 = CalculateNextWorkRequired(last, g_idx[period_start].GetBlockTime(), c.cp());
        st.steps++;
        VCHECK(got2 == expect, "c07.retarget-ref", "CalculateNextWorkRequired: chain", c.name, "impl", hex32(got2), "ref", hex32(expect));
    }
    // subset relation: required difficulty is a permitted transition (old bits are reachable: canonical, <= powLimit)
    bool permitted = PermittedDifficultyTransition(c.cp(), int64_t(k.last_h) + 1, k.last_bits, got);
    st.steps++;
    VCHECK(permitted, "c07.required-permitted", "chain", c.name, "height", k.last_h + 1, "old", hex32(k.last_bits), "required", hex32(got), "span", k.t_last - k.t_first);

    bool retargeting = k.retarget_height && !c.no_retarget;
    int64_t rspan = k.t_last - k.t_first;
    bool clamped = retargeting && (rspan < c.T / 4 || rspan > c.T * 4);
    bool at_bound = retargeting && (std::llabs(rspan - c.T / 4) <= 1 || std::llabs(rspan - c.T * 4) <= 1);
    bool limited = retargeting && got == limit_bits && rspan > c.T;
    bool bip94_diff = retargeting && c.bip94 && k.first_bits != k.last_bits;
    bool min_rule = !k.retarget_height && c.allow_min;
    bool min_boundary = min_rule && std::llabs((k.t_new - k.t_last) - 2 * c.spacing) <= 1;
    bool walk_back = min_rule && k.t_new <= k.t_last + 2 * c.spacing && k.last_bits == limit_bits && got != limit_bits;
    st.nontrivial = clamped || at_bound || limited || bip94_diff || min_boundary || walk_back;
    st.mix(c.name); st.mix(uint64_t(k.retarget_height)); st.mix(uint64_t(sk)); st.mix(how); st.mix(uint64_t(k.last_bits >> 24)); st.mix(uint64_t(got >> 24));
    st.mix(uint64_t(clamped) | uint64_t(at_bound) << 1 | uint64_t(limited) << 2 | uint64_t(bip94_diff) << 3 | uint64_t(min_boundary) << 4 | uint64_t(walk_back) << 5);
    st.mix(uint64_t(d + 1)); st.mix(uint64_t(std::min(k.tail_min_run, 5)));
    st.cls("chain:" + c.name);
    st.cls(k.retarget_height ? "retarget-height" : "other-height");
    if (retargeting) st.cls("retargeting");
    if (clamped) st.cls("span-clamped");
    if (at_bound) st.cls("span-at-clamp-bound+-1");
    if (limited) st.cls("limited-by-powlimit");
    if (bip94_diff) st.cls("bip94-first!=last");
    if (min_boundary) st.cls("min-difficulty-time-boundary");
    if (walk_back) st.cls("min-difficulty-walk-back");
    if (retargeting && got != k.last_bits) st.cls("difficulty-changed");
    st.cls("bits:" + how);
}

VERIF_TARGET(c07_permitted, init_c07, 24, 200,
             "chain x height (multiple of the interval or +-1 / random) x reachable old nBits x new nBits in {reference requirement for a generated "
             "span, compact of the upper/lower bound with mantissa +-1, one exponent up/down, old, old+-1, random canonical}; "
             "PermittedDifficultyTransition == cpp_int window reference [round(min(old*(T/4)/T, limit)), round(min(old*4T/T, limit))] at retarget "
             "heights, equality elsewhere, always true on min-difficulty chains. non-trivial = retarget height on a chain where the rule bites and "
             "new target within one mantissa unit of a bound; distinct = (chain, height kind, new kind, verdict, exponents)")
{
    const ChainP& c = s.chance(200) ? g_chains[s.pick<size_t>({0, 3})] : g_chains[s.index(g_chains.size())];
    const int64_t I = c.interval;
    int64_t height;
    unsigned hk = s.range<unsigned>(0, 3);
    int64_t mult = s.chance(64) ? s.range<int64_t>(0, 1100000) : s.range<int64_t>(0, 600);
    if (hk <= 1) height = mult * I;
    else if (hk == 2) height = mult * I + s.pick<int64_t>({1, -1, I - 1, 2});
    else height = s.range<int64_t>(0, int64_t{1} << 31);
    if (height < 0) height = 1;
    std::string how;
    uint32_t old_bits = gen_reachable_bits(s, c, how);
    cpp_int old = ref_decode(old_bits).mag;
    cpp_int hi = old * (c.T * 4) / c.T; if (hi > c.limit) hi = c.limit;
    cpp_int lo = old * (c.T / 4) / c.T; if (lo > c.limit) lo = c.limit;
    uint32_t hi_bits = ref_encode(hi), lo_bits = ref_encode(lo);
    unsigned nk = s.range<unsigned>(0, 8);
    uint32_t new_bits;
    int d = s.range<int>(-1, 1);
    switch (nk) {
    case 0: { int64_t span = s.range<int64_t>(c.T / 4, c.T * 4); cpp_int t = old * span / c.T; if (t > c.limit) t = c.limit; new_bits = ref_encode(t); break; }
    case 1: case 2: new_bits = hi_bits + d; break;
    case 3: case 4: new_bits = lo_bits + d; break;
    case 5: new_bits = old_bits + d; break;
    case 6: new_bits = s.boolean() ? hi_bits + 0x01000000u : lo_bits - 0x01000000u; break;
    case 7: { cpp_int v = gen_value(s); new_bits = ref_encode(v); break; }
    default: new_bits = old_bits; break;
    }
    RefCompact rn = ref_decode(new_bits);
    bool garbage = rn.overflow || (new_bits & 0x00800000u); // sign bit / overflow in the new bits: the statement defines no target for them
    bool got = PermittedDifficultyTransition(c.cp(), height, old_bits, new_bits);
    st.steps++;
    bool expect = ref_permitted(c, height, old_bits, new_bits);
    st.note("chain=", c.name, " height=", height, " (interval ", I, ") old=", hex32(old_bits), " [", how, "] new=", hex32(new_bits), " kind=", nk, " d=", d,
            " window=[", hex32(lo_bits), ",", hex32(hi_bits), "] permitted=", got, " ref=", expect);
    if (!garbage) VCHECK(got == expect, "c07.permitted-ref", "chain", c.name, "height", height, "old", hex32(old_bits), "new", hex32(new_bits), "impl", got, "ref", expect);
    bool bites = !c.allow_min && height % I == 0;
    bool near_bound = !garbage && ((nk >= 1 && nk <= 4));
    st.nontrivial = bites && near_bound;
    st.mix(c.name); st.mix(uint64_t(hk)); st.mix(uint64_t(nk)); st.mix(uint64_t(d + 1)); st.mix(uint64_t(got)); st.mix(uint64_t(old_bits >> 24)); st.mix(uint64_t(new_bits >> 24)); st.mix(how);
    st.cls("chain:" + c.name);
    st.cls(got ? "permitted" : "refused");
    if (bites) st.cls("retarget-height-biting");
    if (bites && near_bound) st.cls("new-at-window-bound+-1");
    if (bites && !got) st.cls("refused-at-retarget");
    if (garbage) st.cls("garbage-new-bits-unchecked");
}
