# C45: descriptors, addresses and key derivation round-trip and match the standards. Helpers gen()/enum()/hyp()/custom() come from props.py.
SPEC = {
    "level": "exploration",
    "assumptions": [
        "descriptor oracles apply to descriptors the parser ACCEPTS (grammar-generated strings, ~85% accepted); key material from a fixed pool of 64 keys / 24 "
        "extended keys (values are irrelevant to the relations checked, shapes are generated)",
        "the descriptor checksum is compared with an own BIP-380 implementation (self-tested on the BIP's vector)",
        "'never decoded for another network' is checked for networks whose documented address format differs (own table: main 0/5/bc, testnet3 = testnet4 = "
        "signet 111/196/tb, regtest 111/196/bcrt); networks sharing a format must decode to the same destination",
        "bech32 error detection: substitutions are confined to the data part (<= 88 symbols): the BCH code detects every <= 4-symbol error inside an 89-symbol "
        "window (verified once by exhaustive syndrome collision search over all weight <= 2 pairs at length 89; at length 90 weight-4 code words exist), one HRP "
        "character feeds two symbols and is therefore not substituted",
        "BIP32 reference in C++ (own scalar arithmetic in cpp_int, own message layout/serialization) shares HMAC-SHA512, SHA256/RIPEMD160 and k*G with the code "
        "under test; the Python reference (py/c45_std.py: secp256k1.py + hmac/hashlib) shares nothing; both reproduce the BIP32 test vectors at start-up",
        "Python address references: test_framework.segwit_addr (BIP173/350) and an own Base58Check; corrupted addresses contain printable non-space characters "
        "only (Base58 decoding tolerates surrounding whitespace by design)",
    ],
    "stages": [
        gen("vh_c45", "c45_descriptor", 1400, 40000, min_cases_quick=700,
            floors={"accepted": 0.6, "private-string": 0.08, "hardened": 0.1, "ranged": 0.1, "origin": 0.1, "multipath-expanded": 0.03, "miniscript": 0.05,
                    "tr": 0.04, "tr-multipath-plain-pk:expanded": 0.015, "wsh": 0.04, "sh": 0.03, "expansion-failed": 0.05, "single-char-strings": 0.6},
            rule="grammar-generated descriptor; accepted => public/private print-parse fixpoints, scripts equal at indexes 0/1/2^31-1, BIP-380 checksum reference, "
                 "every single-character substitution rejected; non-trivial = accepted with >= 2 keys or origin/range/hardened/multipath"),
        gen("vh_c45", "c45_address", 20000, 400000, min_cases_quick=10000,
            floors={"p2pkh": 0.05, "p2sh": 0.05, "p2wpkh": 0.05, "p2wsh": 0.05, "p2tr": 0.05, "p2a": 0.05, "witness-unknown": 0.05},
            rule="destination x network: round trip on its network, decoded on the 4 others (invalid unless formats coincide)"),
        gen("vh_c45", "c45_bech32", 1200, 40000, min_cases_quick=600, floors={"bech32": 0.3, "bech32m": 0.3, "len=90": 0.05},
            rule="bech32/bech32m strings <= 90 chars: all single substitutions in the data part + 60 sampled 2..4-position substitutions never pass the original checksum"),
        gen("vh_c45", "c45_bip32", 2400, 60000, min_cases_quick=1200, floors={"hardened-step": 0.2, "unhardened-step": 0.4, "deep": 0.005, "string-roundtrip": 0.5},
            rule="seed + path (depth 0..8, rarely 257): every private step vs own BIP32, neuter/derive commutation, xprv/xpub string round trip per network; "
                 "non-trivial = path mixes hardened and unhardened steps"),
        hyp("c45_std.py", 1200, 30000, needs=[("san", "sutd")], min_cases_quick=600,
            floors={"kind:bip32": 0.08, "kind:bech32dec": 0.2, "kind:bech32enc": 0.08, "kind:addr": 0.2, "corrupted:invalid": 0.1, "cross:invalid": 0.1},
            rule="sutd vs Python: BIP32 chains (own Python BIP32 on secp256k1.py), bech32 decode/encode vs segwit_addr.py incl. corrupted strings, addresses per "
                 "network vs segwit_addr/own Base58Check incl. corrupted and cross-network decoding"),
    ],
}

META = {
    "level_text": "Per quick run: ~1.4k grammar-generated descriptors (every function, key kind, origin, path, hardened marker, range, multipath, musig, miniscript "
                  "templates, tr trees) checked for print/parse fixpoints of the public and private canonical strings, script equality at derivation indexes 0, 1 "
                  "and 2^31-1, agreement of the checksum with an own BIP-380 implementation and rejection of every single-character substitution (about two million "
                  "corrupted strings); 20k destinations encoded on one network and decoded on all five; 1.2k bech32(m) strings with all single and sampled 2..4 "
                  "substitutions; 2.4k BIP32 chains against an own C++ reference plus ~0.2k chains against a fully independent Python BIP32; bech32 / address "
                  "encode/decode (also of corrupted strings) against segwit_addr.py and an own Base58Check. Exploration over generated inputs, not exhaustive.",
    "technique": "property-based testing: grammar-based generation + round-trip/fixpoint relations + differential testing against independent references "
                 "(own BIP-380 checksum, own BIP32 in C++ and Python, segwit_addr.py, own Base58Check) + deterministic error-detection property (BCH bound)",
    "level_note": "Trusted: the own references (each self-tested on the published BIP vectors at start-up), test_framework.segwit_addr / crypto.secp256k1, hashlib/hmac. "
                  "Not covered: ToNormalizedString, descriptor caches, InferDescriptor, miniscript beyond 18 templates, checksum detection of multi-character errors, "
                  "HRP-character errors of bech32 strings.",
}
