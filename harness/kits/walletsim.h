// WalletSim (DESIGN.md §3.4): a descriptor wallet attached to a ChainSim node through interfaces::Chain, fed by real blocks
// and mempool notifications, plus an INDEPENDENT wallet ledger: the set of
// wallet scripts (own expansion of the descriptors, never CWallet::IsMine) -> coins and balances recomputed from the active
// chain (RefLedger replay from genesis) and the node mempool. Shares no code with wallet/receive.cpp / wallet.cpp tracking.
//
// IMPORTANT: construct the ChainSim with `opts.immediate_signals = false` (scheduler thread, as production). With immediate
// (synchronous) signals CTxMemPool fires TransactionRemovedFromMempool BEFORE the entry is erased, so the wallet's callback still
// finds the transaction in the mempool and keeps it "in mempool" after a replacement/eviction: a harness artifact, not a wallet
// defect. Submit()/Deliver() drain the callback queue (SyncWithValidationInterfaceQueue); after any other node operation call
// sim.SyncSignals() before looking at the wallet.
//
//   SetMockTime(...);                       // the target owns the clock (WalletSim sets it if it is still unset)
//   ChainSimOpts o; o.immediate_signals = false;
//   ChainSim sim(o);  LoadWalletBase(sim);  WalletSim ws(sim);         // ws must be destroyed BEFORE sim
//   CScript spk = ws.NewScript(OutputType::BECH32);  ... sim.MakeTx / ws.SignTx / ws.Submit / ws.Deliver ...
//   std::string diff = ws.CompareWithLedger();       // balances + AvailableCoins vs the independent ledger
#ifndef VERIF_KITS_WALLETSIM_H
#define VERIF_KITS_WALLETSIM_H

#include <kits/chainsim.h>

#include <outputtype.h>
#include <wallet/context.h>
#include <wallet/wallet.h>

#include <map>
#include <memory>
#include <optional>
#include <set>
#include <string>
#include <vector>

namespace verif {

/** What the harness knows about a script of the wallet (from its own expansion of the wallet's descriptors). */
struct WsScriptInfo {
    OutputType type{OutputType::BECH32};
    bool internal{false};
    int index{0};
};

/** An unspent output paying a wallet script, as computed from the active chain + node mempool. */
struct WsCoin {
    CAmount value{0};
    CScript spk;
    int height{-1};       //!< block height; -1 = created by a mempool transaction
    bool coinbase{false};
    int depth{0};         //!< confirmations on the active chain (0 = mempool)
    bool trusted{false};  //!< confirmed, or in the mempool with every input spending a wallet output of a (recursively) trusted transaction
    bool immature{false}; //!< coinbase output with fewer than 101 confirmations (wallet's documented rule: COINBASE_MATURITY + 1)
};

struct WsLedger {
    bool ok{true};
    std::string why;                        //!< model replay failure (never expected on a chain the node accepted)
    uint256 tip;                            //!< active tip the ledger was computed for
    int tip_height{0};
    CAmount trusted{0}, untrusted_pending{0}, immature{0};
    std::map<COutPoint, WsCoin> coins;      //!< every output paying a wallet script that neither the active chain nor the mempool spends
    std::map<COutPoint, CAmount> spendable; //!< trusted, mature, value >= 1 sat: what AvailableCoins() with default arguments must list (before LockCoin)
    std::set<Txid> mempool;                 //!< transactions in the node mempool
    std::set<Txid> in_chain;                //!< transactions of the active chain
    RefUtxo chain_utxo;                     //!< the model's complete UTXO map of the active chain (RefLedger replay), for callers that build transactions
    std::vector<CTransactionRef> mempool_txs; //!< node mempool, txid order
};

/** The wallet's own answers. */
struct WsView {
    CAmount trusted{0}, untrusted_pending{0}, immature{0};
    std::map<COutPoint, CAmount> available; //!< AvailableCoins() with a default CCoinControl and default filter
};

struct WalletSimOpts {
    std::string name{"w"};
    bool on_disk{false};         //!< SQLite file <datadir>/wallets/<name>/wallet.dat instead of the mockable in-memory database
    bool unsafe_sync{false};     //!< on_disk only: skip fsync (production default is synchronous=FULL)
    bool generated_seed{false};  //!< SetupDescriptorScriptPubKeyMans() (fresh HD seed from the zero-seeded test RNG) instead of the fixed harness descriptors
    int keypool{4};              //!< look-ahead per descriptor (production default 1000 is far too slow per case)
    bool rescan{true};           //!< when attaching above genesis: scan the active chain from genesis (as CreateSyncedWallet does)
    uint64_t extra_flags{0};     //!< e.g. wallet::WALLET_FLAG_AVOID_REUSE
    CAmount fallback_fee_per_kvb{20000};
    int model_range{96};         //!< number of indices per descriptor the independent script set covers
};

/** The fixed harness descriptors (4 output types x {external, internal}) on a constant regtest tprv. */
const std::vector<std::string>& WalletSimFixedDescriptors();
/** Independent expansion of the fixed descriptors (process-wide cache, Descriptor::Expand only). */
CScript WalletSimFixedScript(OutputType type, bool internal, int index);

/** Like ChainSim::LoadBase(n) but the coinbases of heights 5, 6, 7 pay external bech32 scripts 0, 1, 2 of the FIXED descriptors:
 *  at tip 104 they have 100, 99, 98 confirmations (the wallet counts a coinbase as mature from 101). Heights 1-4 and 8.. pay the
 *  anyone-can-spend P2WSH (1-4 are spendable in block 105). Blocks are built once per process. Do not mix with LoadBase on one node. */
std::vector<uint256> LoadWalletBase(ChainSim& sim, int n = 104);

/** Chain UTXO of `L` with the node mempool applied on top (mempool-created coins get height -1). */
RefUtxo WsUtxoWithMempool(const WsLedger& L);
/** From `candidates` (any order, duplicates allowed) pick, in dependency order, the transactions the MODEL accepts on top of `utxo` in a
 *  block of `height` (inputs exist, no immature coinbase spend, in >= out, height-based nLockTime below the height); returns {txs, fees}. */
std::pair<std::vector<CTransactionRef>, CAmount> WsSelectValid(RefUtxo utxo, int height, const std::vector<CTransactionRef>& candidates);

class WalletSim
{
public:
    explicit WalletSim(ChainSim& sim, WalletSimOpts opts = {});
    ~WalletSim();
    WalletSim(const WalletSim&) = delete;

    ChainSim& sim;
    WalletSimOpts opts;
    std::shared_ptr<wallet::CWallet> w;
    wallet::CWallet& wallet() { return *w; }

    // ---- scripts --------------------------------------------------------------------------------------------------
    /** GetNewDestination / GetNewChangeDestination; the script is checked against the independent script set (assert). */
    CScript NewScript(OutputType type, bool internal = false);
    CTxDestination NewDestination(OutputType type, bool internal = false);
    /** Membership in the wallet's script set by the harness' own descriptor expansion (indices < opts.model_range). */
    bool ModelIsMine(const CScript& spk) const { return m_scripts.count(spk) > 0; }
    std::optional<WsScriptInfo> ModelScriptInfo(const CScript& spk) const;
    const std::map<CScript, WsScriptInfo>& ModelScripts() const { return m_scripts; }
    /** Public descriptor strings of the wallet (as imported / as generated). */
    std::vector<std::string> descriptors;

    // ---- node interaction -----------------------------------------------------------------------------------------
    /** ChainstateManager::ProcessTransaction (+ signal sync); remembers the transaction. */
    MempoolAcceptResult Submit(const CTransactionRef& tx, bool test_accept = false);
    /** sim.Deliver + remembers the block's transactions. */
    ChainSim::Delivery Deliver(const std::shared_ptr<const CBlock>& b);
    /** Remember a transaction that may involve the wallet (Submit / Deliver do it themselves). */
    void Track(const CTransactionRef& tx) { m_tracked[tx->GetHash()] = tx; }
    const std::map<Txid, CTransactionRef>& Tracked() const { return m_tracked; }
    /** Sign with the wallet's keys (coins looked up in the wallet, else through the chain interface). */
    bool SignTx(CMutableTransaction& mtx);
    /** Build + sign a spend of `coins` (wallet coins and/or ChainSim KeyRing / anyone-can-spend coins) paying `outs`. */
    std::optional<CMutableTransaction> MakeTx(const std::vector<std::pair<COutPoint, RefCoin>>& coins, const std::vector<CTxOut>& outs,
                                              uint32_t sequence = 0xfffffffd, uint32_t locktime = 0, uint32_t version = 2);
    /** Transactions in the node mempool (txid order). */
    std::vector<CTransactionRef> MempoolTxs() const;
    /** Build a block on `parent` holding the model-valid part of `candidates` (coinbase to `coinbase_spk`, default anyone-can-spend) and
     *  deliver it. `base` may carry the model UTXO of `parent` to save a replay. */
    struct Mined { std::shared_ptr<const CBlock> block; ChainSim::Delivery delivery; std::vector<CTransactionRef> txs; };
    Mined Mine(const uint256& parent, const std::vector<CTransactionRef>& candidates, const CScript& coinbase_spk = {}, uint32_t extra_nonce = 0, const RefUtxo* base = nullptr);

    // ---- independent ledger ---------------------------------------------------------------------------------------
    WsLedger Ledger() const;
    WsView View() const;
    /** Balances {trusted, untrusted_pending, immature} and AvailableCoins() against Ledger() (minus `locked`); "" if equal. */
    std::string CompareWithLedger(const std::set<COutPoint>& locked = {}) const;
    std::string CompareWithLedger(const WsLedger& l, const std::set<COutPoint>& locked = {}) const;

    /** Remembered transactions that are neither in the active chain nor in the mempool ("floating"). `dead` ones conflict with the
     *  active chain (an input, or an ancestor's input, is spent there by another transaction) or descend from a coinbase that is
     *  not in the active chain: the wallet must neutralise those by itself. The others keep their inputs reserved in the wallet
     *  until the user abandons them. */
    struct Floating { std::vector<Txid> dead; std::vector<Txid> alive; };
    Floating FloatingTxs() const;
    /** AbandonTransaction on every alive floating transaction the wallet holds and allows to abandon; returns how many. */
    int AbandonFloating();
    int AbandonFloating(const Floating& f);

    // ---- lifecycle (for persistence checks) ---------------------------------------------------------------------------
    /** Detach from the chain and destroy the CWallet (closes the database). */
    void Unload();
    /** on_disk only: CWallet::LoadExisting on the same file through a WalletContext (rescans from the stored best block). */
    bool Reload(std::string* error = nullptr);
    /** Scan the active chain from genesis + current mempool. */
    void Rescan();
    fs::path DbDir() const;

private:
    std::map<CScript, WsScriptInfo> m_scripts;
    std::map<Txid, CTransactionRef> m_tracked;
    std::unique_ptr<wallet::WalletContext> m_context;
    void BuildModelScripts();
    void Attach();
};

} // namespace verif

#endif // VERIF_KITS_WALLETSIM_H
