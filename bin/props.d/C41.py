# C41: stage list (what ./check C41 quick|thorough runs) and manifest text. Helpers gen()/enum()/hyp()/custom() come from props.py.
SPEC = {
    'level': 'exploration',
    'assumptions': [
        'ownership, values, depth, maturity and trust of every input come from the independent ledger of kits/walletsim (chain replay + mempool over the harness\' own descriptor expansion); locked coins are tracked by the harness',
        'spendable = unspent by chain and mempool, not an immature coinbase (< 101 confirmations), not locked, within CCoinControl m_min_depth/m_max_depth, trusted unless m_include_unsafe_inputs; preset inputs are exempt (caller supplied)',
        'subtract-fee rule: the n flagged recipients are reduced by R/n each, the first additionally by R mod n, for one common R with R <= fee. R < 0 (recipients receive MORE than requested because excess input value cannot become change) happens on the unchanged tree and is only counted (class sffo-recipients-get-more-than-requested, target c41_sffo_literal, corpus/C41/SENSITIVITY.md)',
        'fee lower bound uses the requested CCoinControl::m_feerate and the BIP141 vsize of the final signed transaction (own computation); upper bound is the wallet\'s m_default_max_tx_fee',
        'test-accept is claimed when the requested feerate is >= 1 sat/vB; all generated recipient scripts are standard and the wallet refuses dust recipients',
        'validation callbacks on the scheduler thread, drained before every wallet call',
    ],
    'stages': [
        gen('vh_c41', 'c41_createtx', 208, 4000, min_cases_quick=48, max_seconds_quick=900, max_seconds_thorough=7200,
            floors={'create-ok': 0.5, 'with-change': 0.4, 'subtract-fee': 0.25, 'subtract-fee-multi': 0.05, 'multi-input': 0.3, 'preset-inputs': 0.2,
                    'test-accepted': 0.4, 'changeless': 0.03, 'coins-of->=3-output-types': 0.4, 'committed': 0.15, 'locked-coins': 0.1},
            rule='funded wallet + 1-5 CreateTransaction calls; non-trivial = successes with change, with a subtract-fee recipient and with >=2 inputs in one case'),
        gen('vh_c41', 'up_wallet_create_transaction', 1600, 40000, workers_quick=4, rule='upstream fuzz target (supplementary)'),
        gen('vh_c41', 'up_coincontrol', 4000, 80000, workers_quick=4, rule='upstream fuzz target (supplementary)'),
        gen('vh_c41', 'up_wallet_fees', 1600, 40000, workers_quick=4, rule='upstream fuzz target (supplementary)'),
    ],
}

META = {
    'level_text': 'A descriptor wallet on a real in-process regtest node is funded by generated transactions (mixed output types, dust-adjacent to large amounts, '
                  'confirmed/unconfirmed, coinbases around the maturity boundary, locked coins) and asked to create transactions with generated recipient lists, '
                  'subtract-fee flags, feerates and coin-control options. Every successful result is checked against an independent ledger (inputs distinct and '
                  'spendable, exact recipient amounts, subtract-fee split, change to a wallet script, fee bounds on the final signed size) and against the node\'s '
                  'test-accept. Exploration over generated wallets and requests.',
    'technique': 'property-based testing: structured generator + independent ledger model + differential against the node mempool (test-accept)',
}
