# C24: stage list (what ./check C24 quick|thorough runs) and manifest text. Helpers gen()/enum()/hyp()/custom() come from props.py.
SPEC = {'level': 'exploration',
 'assumptions': ['reference graph = explicit direct-parent lists kept by the generator (kits/linref.h); chunking reference = definition (highest-feerate prefix, '
                 'repeatedly); diagram comparison = exact evaluation at all breakpoints (__int128)',
                 '"the order the node uses" = Linearize followed by PostLinearize (what txgraph Relinearize does); chunk connectivity is required of that order '
                 'and of every PostLinearize output, not of raw Linearize output',
                 'transaction sizes are >= 1; fees may be zero or negative; an input linearization declared topological is topological',
                 'optimality is checked against all topological orders for n <= 7 and against 11 sampled orders for larger clusters',
                 'tree-shaped clusters: PostLinearize result optimal (guarantee documented in cluster_linearize.h, beyond the property statement; own oracle id)'],
 'stages': [gen('vh_c24', 'c24_linearize', 12000, 200000, min_cases_quick=5000,
                floors={'>=2-components': 0.15, 'equal-feerate-tie': 0.3, 'optimal-reported': 0.3, 'not-optimal': 0.05, 'improvement-checked': 0.4, 'strictly-improved': 0.1,
                        'n:33-64': 0.03, 'input:random-permutation(non-topological-claimed)': 0.08},
                rule='clusters <= 64 txs x input linearization x budget; non-trivial = n>=4 and (>=2 components or tie)'),
            gen('vh_c24', 'c24_postlinearize', 24000, 400000, min_cases_quick=10000,
                floors={'>=2-components': 0.15, 'equal-feerate-tie': 0.3, 'strictly-improved': 0.1, 'order-changed': 0.2},
                rule='clusters <= 64 txs x topological order; PostLinearize twice'),
            gen('vh_c24', 'c24_bruteforce', 8000, 150000, min_cases_quick=3000,
                floors={'optimal-reported': 0.9, 'orders:25-720': 0.1, 'tree-optimality-checked': 0.1},
                rule='clusters <= 7 txs, all topological orders enumerated'),
            enum('vh_c24', 'c24_small_exhaustive', tiers=('thorough',), rule='exhaustive: all 262144 four-transaction clusters over {edges} x fees {0,1,2,5} x sizes {1,3}'),
            gen('vh_c24', 'up_clusterlin_linearize', 2000, 40000, rule='upstream fuzz target, supplementary'),
            gen('vh_c24', 'up_clusterlin_postlinearize', 3000, 60000, rule='upstream fuzz target, supplementary'),
            gen('vh_c24', 'up_clusterlin_postlinearize_tree', 2000, 40000, rule='upstream fuzz target, supplementary'),
            gen('vh_c24', 'up_clusterlin_sfl', 2000, 40000, rule='upstream fuzz target, supplementary'),
            gen('vh_c24', 'up_clusterlin_chunking', 3000, 60000, rule='upstream fuzz target, supplementary'),
        # coverage-guided libFuzzer campaign on the same target (thorough tier only; fz tree = g++ trace-pc + covshim)
        fuzz('vh_c24', 'c24_linearize', 300, max_len=900),
    ]}

META = {'level_text': 'Generated clusters (all structural shapes, 1..64 transactions, fee/size families with ties, zeros, negatives and extremes) with generated input '
               'linearizations and cost budgets; every output of Linearize / PostLinearize is checked with independent code: permutation, topological on the '
               'generator\'s own parent lists, diagram never worse than the input, chunks well-formed / non-increasing / connected, reported-optimal results '
               'compared with every topological order for clusters of <= 7 transactions (exhaustive over orders; thorough tier additionally exhaustive over a '
               '262144-cluster family of 4-transaction clusters). Exploration otherwise.',
 'technique': 'property-based testing with independent checkers (topology, definition-based chunking, exact diagram comparison) + brute-force optimum for small scopes',
 'level_note': 'trusted base: kits/linref.h (about 200 lines), __int128 arithmetic'}
