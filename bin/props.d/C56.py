# C56: stage list (what ./check C56 quick|thorough runs) and manifest text. Helpers gen()/enum()/hyp()/custom() come from props.py.
SPEC = {
    'level': 'exploration',
    'assumptions': [
        'input values from the harness\' own bookkeeping (model chain UTXO + tracked transactions); change = output paying an internal-descriptor script of the harness\' own descriptor expansion (or the caller-designated index)',
        'fee bounds use the node\'s incremental relay feerate option and the BIP141 vsize of the final signed replacement (own computation)',
        'must-refuse set: confirmed, already bumped, and (bumpfee RPC contract) originals with a mempool descendant; refusals are compared on a wallet digest (tx states, replaced-by/replaces links, locked coins, key pool size, address book size)',
        'caller-supplied outputs keep every payment of the original (possibly with a changed amount) and may add one: dropping payments makes the replacement smaller and, without an explicit feerate, lets it pay LESS than the original (mempool refuses it) on the unchanged tree -- reproduced by target c56_bump_literal, corpus/C56/SENSITIVITY.md',
        'bumps that must add inputs: a "drain + exact payment" pair leaves a changeless original while the wallet holds only unconfirmed own change (and optionally one confirmed spare); the wallet must not pull in the unconfirmed coin (feebumper sets m_min_depth = 1). This node version no longer has BIP125 rule 2; a replacement hanging off the 1 sat/vB parent is refused by the feerate-diagram check instead, which is what the unchanged oracle observes',
        'full-RBF mempool: "not signalling where required" has no instance in this version',
        'validation callbacks on the scheduler thread, drained before every wallet call',
    ],
    'stages': [
        gen('vh_c56', 'c56_bump', 400, 8000, min_cases_quick=48, max_seconds_quick=900, max_seconds_thorough=7200,
            floors={'payment': 0.8, 'bump-default': 0.15, 'bump-explicit-rate': 0.1, 'bump-new-outputs': 0.08, 'bump-reduce-change': 0.1, 'refused-confirmed': 0.05,
                    'refused-already-bumped': 0.05, 'refused-has-descendants': 0.03, 'mixed-payment': 0.1,
                    'bump-must-add-inputs': 0.2, 'bump-added-inputs': 0.06, 'bump-added-unconfirmed-input-available': 0.2, 'bump-only-unconfirmed-spare': 0.1},
            rule='wallet payments + bumps; non-trivial = >=1 accepted replacement and >=1 refusal of a confirmed / already bumped / has-descendants original'),
        gen('vh_c56', 'c56_bump_literal', 0, 0, tiers=(), rule='replay-only: known finding (bump with caller-supplied outputs that drop a payment pays less than the original)'),
    ],
}

META = {
    'level_text': 'On a real in-process regtest node a funded descriptor wallet creates payments which are then fee-bumped in four modes (default, explicit feerate, '
                  'caller-supplied outputs, fee from a designated change output), including originals that are confirmed, already bumped, have descendants or foreign '
                  'inputs. Successful bumps must keep all original inputs and payments, raise the fee by at least the incremental relay fee for the final signed size '
                  'and be accepted by the node mempool as a replacement of the original; unbumpable originals must be refused with an unchanged wallet digest. '
                  'Exploration over generated histories.',
    'technique': 'stateful property-based testing: operation histories + invariant oracle + differential against the node mempool (replacement acceptance)',
}
