# C09: stage list (what ./check C09 quick|thorough runs) and manifest text. Helpers gen()/enum()/hyp()/custom() come from props.py.
SPEC = {'level': 'exploration',
 'assumptions': ['RefLedger replay (own UTXO rules, no script evaluation) is the reference; scripts are valid by construction',
                 'regtest chain, base of 104 empty blocks, histories <= 45 ops'],
 'stages': [{'kind': 'gen',
             'binary': 'vh_c09',
             'target': 'c09_utxo_history',
             'cases_quick': 640,
             'cases_thorough': 12000,
             'min_cases_quick': 200,
             'floors': {'reorg-depth>=2': 0.15, 'deep-undo-of-old-spend': 0.1, 'flush': 0.2, 'invalidate': 0.2},
             'rule': 'reorg histories; non-trivial = reorg depth>=2 undoing a spend of a pre-fork coin + coinbase spent'}]}

META = {'level_text': 'Generated reorg histories on a real in-process regtest node; after every check point the coins DB dump must equal an independent from-scratch '
               'replay (RefLedger) of the active chain, hash_serialized must repeat per tip, and a fresh twin node fed only the active chain must agree. '
               'Exploration over bounded histories.',
 'technique': 'stateful property-based testing: operation histories vs independent ledger model + twin-run differential'}
