# C08: stage list (what ./check C08 quick|thorough runs) and manifest text. Helpers gen()/enum()/hyp()/custom() come from props.py.
SPEC = {'level': 'exploration',
 'assumptions': ['model validity = RefLedger replay (own UTXO/subsidy/maturity rules) + by-construction faults (bad witness script, BIP34 height, non-final tx, '
                 'time-too-old header); regtest, all blocks have equal work so work is compared by height',
                 'single-threaded deliveries on an in-process node (the concurrent-delivery tier of the design is not part of this check); ties between '
                 'equal-work chains are never asserted; invalidate/reconsider are driven like the RPCs (followed by ActivateBestChain)',
                 'block trees of <= 64 blocks over a 104-block base, forks down to 6 blocks below the base tip'],
 'stages': [{'kind': 'gen',
             'binary': 'vh_c08',
             'target': 'c08_chainsel',
             'cases_quick': 1100,
             'cases_thorough': 20000,
             'min_cases_quick': 300,
             'floors': {'reorg-depth>=2': 0.2, 'invalid-beats-best': 0.15, 'out-of-order': 0.08, 'invalidate-active': 0.15,
                        'reconsider-invalidated': 0.06, 'op-headers': 0.1, 'checkblockindex-off': 0.12},
             'rule': 'block-tree delivery histories; non-trivial = >=3 leaves + an invalid block with more work than the best valid chain delivered on a '
                     'stored ancestry + a block stored before its parent'}]}

META = {'level_text': 'Generated block trees (valid and invalid blocks of 8 kinds, forks, out-of-order / header-first / duplicate / mutated deliveries, '
               'InvalidateBlock / ReconsiderBlock / PreciousBlock) on a real in-process regtest node. After every operation an independent model of block '
               'validity, of which deliveries had to be stored and of the manual invalidations decides: the active chain contains no model-invalid or '
               'invalidated block, and the tip has at least the work of the best block whose whole ancestry is valid, stored and not invalidated '
               '(tie-agnostic). The repo-internal CheckBlockIndex() runs after every step in ~70% of the cases as an additional monitor. Exploration over '
               'bounded histories; concurrent deliveries are not covered.',
 'technique': 'stateful property-based testing: operation histories on a block tree vs independent validity/storage/invalidation model (history invariant)'}
