# C36: stage list (what ./check C36 quick|thorough runs) and manifest text. Helpers gen()/enum()/hyp()/custom() come from props.py.
SPEC = {'level': 'exploration',
 'assumptions': ['in-process regtest node (ChainSim + NetSim): no sockets/threads, synchronous validation signals, mock time; <= 100 s of mock time and <= 5 peers per '
                 'case so that no timeout, stalling rule or eviction can fire (those are not punishment)',
                 '"allowed to send transactions" = not block-relay-only, not a feeler, and in blocks-only mode only with the relay permission; "local" = loopback '
                 '(127/8, ::1); for 0/8 and RFC1918 peer addresses only the disconnection is asserted',
                 'clause (c) is asserted for a fresh consensus-invalid full block built on the current tip (12 fault kinds, invalid by construction) and for headers '
                 'with invalid proof of work; private-broadcast connections (which ignore such messages) are excluded'],
 'stages': [gen('vh_c36', 'c36_punish', 480, 10000, min_cases_quick=160, max_seconds_quick=1800, max_seconds_thorough=2400,
                floors={'a-checked': 0.5, 'a-checked-rejected-tx': 0.4, 'b-checked': 0.1, 'c-checked-local': 0.04, 'c-checked-public': 0.06, 'blocksonly': 0.08,
                        'conn:manual': 0.1, 'perm:noban': 0.15, 'conn:block-relay': 0.05, 'conn:addr-fetch': 0.05},
                rule='peer/message histories on a NetSim node; non-trivial = a rejected tx checked under (a) and a check of (b) or (c)'),
            gen('vh_c36', 'up_process_messages', 600, 12000, min_cases_quick=150,
                rule='upstream fuzz target process_messages (asserts + sanitizers; supplementary)')]}

META = {'level_text': 'Generated peer populations (every connection type x permission set x address kind, blocks-only on/off) and message histories on an in-process node: '
               'tx messages of ~25 kinds (valid, consensus-invalid, non-standard, orphan, conflicting, stripped, oversized, undecodable), tx inventory traffic, the '
               'punishable set (invalid-PoW / non-continuous / oversize headers, 12 kinds of invalid full blocks, oversize addr/inv, bad filter messages, bad '
               'sendcmpct/getblocktxn/cmpctblock). After every step fDisconnect and BanMan::IsDiscouraged are compared with the punishment predicate of the statement. '
               'Exploration over bounded histories; real sockets, timeouts and eviction are out of scope.',
 'technique': 'stateful property-based testing: message histories vs a punishment predicate derived from the statement (history invariant)'}
