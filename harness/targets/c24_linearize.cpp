// C24 — Cluster linearizations are topological and never get worse.
// Oracle (kits/linref.h, independent of cluster_linearize.h): permutation + own topological check on explicit parent lists; own
// definition-based chunking; exact diagram comparison; own connectivity DFS; all topological orders for small clusters.
#include <engine/verif.h>
#include <kits/linref.h>

#include <cluster_linearize.h>
#include <util/bitset.h>
#include <util/feefrac.h>

#include <algorithm>
#include <cstdint>
#include <numeric>
#include <string>
#include <vector>

namespace {

using namespace cluster_linearize;
using namespace verif::linref;
using SetT = BitSet<64>;

struct Case {
    RefGraph ref;          // reference graph in DepGraph index space
    DepGraph<SetT> dg;
    std::string shape;
    size_t comps{0};
    bool tie{false};       // >= 2 transactions with equal feerate
};

/** structural shapes; edges are generated low->high in a hidden order, then indices are shuffled */
void gen_graph(verif::Src& s, Case& c, size_t maxn)
{
    size_t n;
    switch (s.range<unsigned>(0, 5)) {
    case 0: n = s.range<size_t>(1, std::min<size_t>(maxn, 6)); break;
    case 1: case 2: n = s.range<size_t>(std::min<size_t>(maxn, 3), std::min<size_t>(maxn, 14)); break;
    case 3: case 4: n = s.range<size_t>(std::min<size_t>(maxn, 4), std::min<size_t>(maxn, 32)); break;
    default: n = s.range<size_t>(1, maxn); break;
    }
    // hidden topological order -> DepGraph index
    std::vector<uint32_t> label(n);
    std::iota(label.begin(), label.end(), 0);
    if (s.chance(200)) for (size_t i = n; i > 1; --i) std::swap(label[i - 1], label[s.index(i)]);
    c.ref.tx.assign(n, RefTx{});
    auto edge = [&](size_t from, size_t to) { if (from != to) c.ref.add_dep(label[std::min(from, to)], label[std::max(from, to)]); };
    unsigned shape = s.range<unsigned>(0, 7);
    switch (shape) {
    case 0: c.shape = "no-deps"; break;
    case 1: c.shape = "chain"; for (size_t i = 1; i < n; ++i) if (!s.chance(20)) edge(i - 1, i); break;
    case 2: c.shape = "out-tree"; for (size_t i = 1; i < n; ++i) if (!s.chance(16)) edge(s.index(i), i); break; // every tx has at most one parent
    case 3: { // every tx has at most one child
        c.shape = "in-tree";
        for (size_t i = 0; i + 1 < n; ++i) if (!s.chance(16)) edge(i, i + 1 + s.index(n - i - 1));
        break;
    }
    case 4: { // bipartite: many parents per child
        c.shape = "bipartite";
        size_t top = 1 + s.index(n);
        for (size_t ch = top; ch < n; ++ch) { size_t k = 1 + s.index(std::min<size_t>(top, 6)); for (size_t j = 0; j < k; ++j) edge(s.index(top), ch); }
        break;
    }
    case 5: { // diamonds / layered
        c.shape = "layered";
        size_t width = 1 + s.index(4);
        for (size_t i = width; i < n; ++i) { size_t layer_start = (i / width - 1) * width; size_t k = 1 + s.index(width); for (size_t j = 0; j < k; ++j) edge(layer_start + s.index(width), i); }
        break;
    }
    case 6: { // sparse random
        c.shape = "random-sparse";
        for (size_t i = 1; i < n; ++i) { size_t k = s.index(3); for (size_t j = 0; j < k; ++j) edge(s.index(i), i); }
        break;
    }
    default: { // dense random
        c.shape = "random-dense";
        unsigned p = s.range<unsigned>(16, 160);
        for (size_t i = 1; i < n; ++i) for (size_t j = 0; j < i; ++j) if (s.chance(p)) edge(j, i);
        break;
    }
    }
    // fees and sizes
    unsigned fmode = s.range<unsigned>(0, 6);
    int64_t base_rate = s.range<int64_t>(0, 5);
    for (size_t i = 0; i < n; ++i) {
        auto& t = c.ref.tx[i];
        switch (fmode) {
        case 0: t.size = s.range<int32_t>(1, 4); t.fee = s.range<int64_t>(0, 7); break;                              // tiny: many ties
        case 1: t.size = s.range<int32_t>(1, 8); t.fee = base_rate * t.size; break;                                     // one equal-feerate family
        case 2: t.size = s.range<int32_t>(1, 4); t.fee = int64_t(s.range<int>(0, 2)) * t.size + (s.chance(40) ? 1 : 0); break; // few families + noise
        case 3: t.size = s.pick<int32_t>({1, 100, 4000000, 3999999, 250}); t.fee = s.pick<int64_t>({0, 1, int64_t{1} << 31, (int64_t{1} << 31) - 1, 1000, int64_t{1} << 40}); break;
        case 4: t.size = s.range<int32_t>(1, 4000000); t.fee = s.range<int64_t>(-(int64_t{1} << 33), int64_t{1} << 33); break; // wide, negative allowed
        case 5: t.size = s.range<int32_t>(1, 3); t.fee = s.range<int64_t>(-4, 4); break;                                // small incl. negative and zero
        default: t.size = s.range<int32_t>(50, 400); t.fee = s.range<int64_t>(0, 40000); break;                          // realistic
        }
    }
    // build the DepGraph (all transactions first, then dependencies child by child)
    for (size_t i = 0; i < n; ++i) {
        auto idx = c.dg.AddTransaction(FeeFrac{c.ref.tx[i].fee, c.ref.tx[i].size});
        VCHECK(idx == i, "c24.generator-self", "unexpected DepGraph index");
    }
    for (size_t i = 0; i < n; ++i) {
        SetT par;
        for (uint32_t p : c.ref.tx[i].parents) par.Set(p);
        if (par.Any()) c.dg.AddDependencies(par, DepGraphIndex(i));
    }
    c.comps = component_count(c.ref);
    for (size_t i = 0; i < n && !c.tie; ++i) for (size_t j = i + 1; j < n; ++j)
        if (cmp_feerate(FS{c.ref.tx[i].fee, c.ref.tx[i].size}, FS{c.ref.tx[j].fee, c.ref.tx[j].size}) == 0) { c.tie = true; break; }
}

/** a topological order chosen by the source: at each step pick among the ready transactions (mode: random / lowest feerate first /
 *  highest feerate first / lowest index) */
std::vector<uint32_t> gen_topo_order(verif::Src& s, const RefGraph& g, unsigned mode)
{
    size_t n = g.n();
    std::vector<uint32_t> out;
    std::vector<char> placed(n, 0);
    std::vector<unsigned> missing(n, 0);
    auto ch = g.children();
    for (size_t i = 0; i < n; ++i) missing[i] = unsigned(g.tx[i].parents.size());
    std::vector<uint32_t> ready;
    for (uint32_t i = 0; i < n; ++i) if (!missing[i]) ready.push_back(i);
    while (!ready.empty()) {
        size_t pick = 0;
        if (mode == 0) pick = s.index(ready.size());
        else if (mode == 1 || mode == 2) {
            for (size_t k = 1; k < ready.size(); ++k) {
                int cmp = cmp_feerate(FS{g.tx[ready[k]].fee, g.tx[ready[k]].size}, FS{g.tx[ready[pick]].fee, g.tx[ready[pick]].size});
                if ((mode == 1 && cmp < 0) || (mode == 2 && cmp > 0)) pick = k;
            }
        }
        uint32_t v = ready[pick];
        ready.erase(ready.begin() + pick);
        out.push_back(v); placed[v] = 1;
        for (uint32_t c : ch[v]) if (--missing[c] == 0) ready.push_back(c);
    }
    return out;
}

std::vector<uint32_t> to_u32(const std::vector<DepGraphIndex>& v) { return std::vector<uint32_t>(v.begin(), v.end()); }

/** checks every structural clause of the statement on a linearization produced by the code under test */
void check_structure(const Case& c, const std::vector<DepGraphIndex>& lin, verif::Stats& st, const char* what)
{
    auto l = to_u32(lin);
    st.steps++;
    VCHECK(is_permutation_of_all(l, c.ref.n()), "c24.permutation", what, "is not a permutation of the cluster; size", l.size(), "n", c.ref.n());
    int bad = first_topology_violation(c.ref, l);
    VCHECK(bad < 0, "c24.topological", what, "places a transaction before its parent at position", bad);
}

/** the chunks the implementation reports for lin: partition in order, sums, non-increasing feerates, same diagram as the definition;
 *  optionally every chunk connected */
void check_chunks(const Case& c, const std::vector<DepGraphIndex>& lin, bool require_connected, verif::Stats& st, const char* what)
{
    auto info = ChunkLinearizationInfo(c.dg, lin);
    auto rates = ChunkLinearization(c.dg, lin);
    st.steps++;
    VCHECK(info.size() == rates.size(), "c24.chunking", what, "ChunkLinearization and ChunkLinearizationInfo disagree on the number of chunks");
    size_t pos = 0;
    std::vector<FS> impl_diagram;
    for (size_t k = 0; k < info.size(); ++k) {
        size_t cnt = info[k].transactions.Count();
        VCHECK(cnt >= 1 && pos + cnt <= lin.size(), "c24.chunking", what, "chunk sizes do not partition the linearization");
        FS sum;
        std::vector<uint32_t> members;
        for (size_t j = pos; j < pos + cnt; ++j) {
            VCHECK(info[k].transactions[lin[j]], "c24.chunking", what, "chunk", k, "is not the next contiguous segment of the linearization");
            sum.fee += c.ref.tx[lin[j]].fee; sum.size += c.ref.tx[lin[j]].size;
            members.push_back(lin[j]);
        }
        VCHECK(sum.fee == info[k].feerate.fee && sum.size == info[k].feerate.size && rates[k] == info[k].feerate, "c24.chunking", what, "chunk", k, "feerate is not the sum of its transactions");
        if (k > 0) VCHECK(cmp_feerate(impl_diagram.back(), sum) >= 0, "c24.chunk-feerates-nonincreasing", what, "chunk", k, "has a higher feerate than its predecessor");
        if (require_connected) VCHECK(is_connected(c.ref, members), "c24.chunk-connected", what, "chunk", k, "of", info.size(), "is not connected; members", members.size());
        impl_diagram.push_back(sum);
        pos += cnt;
    }
    VCHECK(pos == lin.size(), "c24.chunking", what, "chunks do not cover the linearization");
    VCHECK(compare_diagrams(impl_diagram, diagram_of(c.ref, to_u32(lin))) == 0, "c24.chunking", what, "reported chunks do not form the feerate diagram of the linearization");
}

void not_worse(const Case& c, const std::vector<DepGraphIndex>& better, const std::vector<uint32_t>& base, verif::Stats& st, const char* oracle, const char* what)
{
    st.steps++;
    int cmp = compare_diagrams(diagram_of(c.ref, to_u32(better)), diagram_of(c.ref, base));
    VCHECK(cmp == 0 || cmp == 1, oracle, what, "diagram comparison", cmp, "(-1 worse, 2 incomparable); n", c.ref.n());
}

void common_stats(const Case& c, verif::Stats& st)
{
    size_t n = c.ref.n();
    st.cls("shape:" + c.shape);
    st.cls(n <= 3 ? "n<=3" : n <= 7 ? "n:4-7" : n <= 16 ? "n:8-16" : n <= 32 ? "n:17-32" : "n:33-64");
    if (c.comps >= 2) st.cls(">=2-components");
    if (c.tie) st.cls("equal-feerate-tie");
    st.nontrivial = n >= 4 && (c.comps >= 2 || c.tie);
    st.mix(c.shape); st.mix(uint64_t(n)); st.mix(uint64_t(std::min<size_t>(c.comps, 4))); st.mix(uint64_t(c.tie));
    size_t deps = 0;
    for (auto& t : c.ref.tx) deps += t.parents.size();
    st.mix(uint64_t(deps));
    if (st.want_sample) {
        std::ostringstream os;
        os << c.shape << " n=" << n << " comps=" << c.comps << " tx(fee/size<-parents):";
        for (size_t i = 0; i < n && i < 24; ++i) { os << " " << i << ":" << c.ref.tx[i].fee << "/" << c.ref.tx[i].size; if (!c.ref.tx[i].parents.empty()) { os << "<-"; for (auto p : c.ref.tx[i].parents) os << p << ","; } }
        st.note(os.str());
    }
}

struct RankOrder {
    const std::vector<uint32_t>* rank;
    std::strong_ordering operator()(DepGraphIndex a, DepGraphIndex b) const noexcept { return (*rank)[a] <=> (*rank)[b]; }
};

/** 2 KiB-ish of cost is nothing, 2^22 is far beyond what 64 transactions ever need in practice */
uint64_t gen_cost(verif::Src& s)
{
    switch (s.range<unsigned>(0, 4)) {
    case 0: return 0;
    case 1: return s.range<uint64_t>(0, 2000);
    case 2: return s.range<uint64_t>(0, 60000);
    case 3: return s.range<uint64_t>(0, 1000000);
    default: return uint64_t{1} << 22;
    }
}

} // namespace

// ------------------------------------------------------------------------------------------------------------------
VERIF_TARGET(c24_linearize, nullptr, 24, 900,
             "clusters of 1..64 transactions (shapes: no deps, chain, out-tree, in-tree, bipartite many-parents, layered diamonds, sparse/dense random; "
             "indices shuffled; fee/size families: tiny with ties, one equal-feerate family, few families + noise, extremes {0,1,2^31,2^40}x{1,4M}, wide with "
             "negative fees, small signed, realistic) x input linearization (none | random topological | lowest-feerate-first topological | random "
             "permutation declared non-topological | topological but declared non-topological | output of a previous low-budget call) x cost budget "
             "(0, <=2000, <=60000, <=1e6, 2^22) x rng seed x fallback order. Oracle: Linearize output is a permutation and topological; its diagram is "
             "never worse than a topological input; if reported optimal it is >= every sampled topological order (8 random + greedy orders + input); "
             "then PostLinearize (= the order the node uses): still topological, never worse, reported chunks partition the order, sum correctly, have "
             "non-increasing feerates, form the definition's diagram and are each connected. non-trivial = n >= 4 and (>= 2 components or an equal-feerate tie); "
             "distinct = (shape, n, components, tie, #deps, input mode, budget class, optimal)")
{
    Case c;
    gen_graph(s, c, 64);
    common_stats(c, st);
    size_t n = c.ref.n();
    unsigned in_mode = s.range<unsigned>(0, 5);
    std::vector<uint32_t> old;
    bool old_topological = true, claim = true;
    const char* in_name = "none";
    switch (in_mode) {
    case 0: break;
    case 1: old = gen_topo_order(s, c.ref, 0); in_name = "random-topological"; break;
    case 2: old = gen_topo_order(s, c.ref, 1); in_name = "worst-first-topological"; break;
    case 3: {
        in_name = "random-permutation(non-topological-claimed)";
        old.resize(n); std::iota(old.begin(), old.end(), 0);
        for (size_t i = n; i > 1; --i) std::swap(old[i - 1], old[s.index(i)]);
        old_topological = first_topology_violation(c.ref, old) < 0; claim = false;
        break;
    }
    case 4: old = gen_topo_order(s, c.ref, 0); claim = false; in_name = "topological-not-claimed"; break;
    default: {
        in_name = "previous-output";
        auto first_in = gen_topo_order(s, c.ref, 1);
        auto [l0, opt0, cost0] = Linearize(c.dg, s.range<uint64_t>(0, 3000), s.ConsumeIntegral<uint64_t>(), IndexTxOrder{}, std::vector<DepGraphIndex>(first_in.begin(), first_in.end()), true);
        check_structure(c, l0, st, "Linearize(first stage)");
        not_worse(c, l0, first_in, st, "c24.linearize-not-worse", "first-stage output vs its input");
        old = to_u32(l0);
        break;
    }
    }
    st.cls(std::string("input:") + in_name);
    uint64_t max_cost = gen_cost(s);
    uint64_t seed = s.ConsumeIntegral<uint64_t>();
    bool custom_order = s.boolean();
    std::vector<uint32_t> rank(n);
    std::iota(rank.begin(), rank.end(), 0);
    if (custom_order) for (size_t i = n; i > 1; --i) std::swap(rank[i - 1], rank[s.index(i)]);
    std::vector<DepGraphIndex> old_dg(old.begin(), old.end());
    std::vector<DepGraphIndex> lin;
    bool optimal;
    uint64_t cost;
    if (custom_order) std::tie(lin, optimal, cost) = Linearize(c.dg, max_cost, seed, RankOrder{&rank}, old_dg, claim);
    else std::tie(lin, optimal, cost) = Linearize(c.dg, max_cost, seed, IndexTxOrder{}, old_dg, claim);
    st.note("input=", in_name, " max_cost=", max_cost, " optimal=", optimal, " cost=", cost);
    check_structure(c, lin, st, "Linearize output");
    check_chunks(c, lin, /*require_connected=*/false, st, "Linearize output");
    if (!old.empty() && old_topological) {
        not_worse(c, lin, old, st, "c24.linearize-not-worse", "Linearize output vs topological input");
        st.cls("improvement-checked");
        if (compare_diagrams(diagram_of(c.ref, to_u32(lin)), diagram_of(c.ref, old)) == 1) st.cls("strictly-improved");
    }
    if (optimal) {
        st.cls("optimal-reported");
        for (unsigned k = 0; k < 8; ++k) not_worse(c, lin, gen_topo_order(s, c.ref, 0), st, "c24.optimal-vs-order", "optimal result vs random topological order");
        not_worse(c, lin, gen_topo_order(s, c.ref, 2), st, "c24.optimal-vs-order", "optimal result vs highest-feerate-first order");
        not_worse(c, lin, gen_topo_order(s, c.ref, 1), st, "c24.optimal-vs-order", "optimal result vs lowest-feerate-first order");
        not_worse(c, lin, gen_topo_order(s, c.ref, 3), st, "c24.optimal-vs-order", "optimal result vs index order");
    } else st.cls("not-optimal");
    // what the node does next (txgraph Relinearize): PostLinearize the result and use it
    auto post = lin;
    PostLinearize(c.dg, post);
    check_structure(c, post, st, "PostLinearize(Linearize output)");
    not_worse(c, post, to_u32(lin), st, "c24.postlinearize-not-worse", "PostLinearize vs its input");
    check_chunks(c, post, /*require_connected=*/true, st, "node order (Linearize+PostLinearize)");
    if (optimal) not_worse(c, lin, to_u32(post), st, "c24.optimal-vs-order", "optimal result vs its own post-linearization");
    st.mix(uint64_t(in_mode)); st.mix(uint64_t(max_cost == 0 ? 0 : max_cost <= 2000 ? 1 : max_cost <= 60000 ? 2 : 3)); st.mix(uint64_t(optimal));
}

// ------------------------------------------------------------------------------------------------------------------
VERIF_TARGET(c24_postlinearize, nullptr, 24, 700,
             "clusters as in c24_linearize with an arbitrary topological input order (random | lowest-feerate-first | highest-feerate-first | index order); "
             "PostLinearize applied twice. Oracle: each output is a permutation, topological, its diagram is never worse than its input's, reported chunks "
             "are well-formed, non-increasing and each connected. non-trivial = n >= 4 and (>= 2 components or tie); distinct = (shape, n, comps, tie, #deps, order mode, improved)")
{
    Case c;
    gen_graph(s, c, 64);
    common_stats(c, st);
    unsigned mode = s.range<unsigned>(0, 3);
    auto in = gen_topo_order(s, c.ref, mode);
    st.cls(mode == 0 ? "order:random" : mode == 1 ? "order:lowest-feerate-first" : mode == 2 ? "order:highest-feerate-first" : "order:index");
    VCHECK(first_topology_violation(c.ref, in) < 0 && is_permutation_of_all(in, c.ref.n()), "c24.generator-self", "generated input order is not a topological permutation");
    std::vector<DepGraphIndex> lin(in.begin(), in.end());
    check_chunks(c, lin, false, st, "input order");
    auto post = lin;
    PostLinearize(c.dg, post);
    check_structure(c, post, st, "PostLinearize output");
    not_worse(c, post, in, st, "c24.postlinearize-not-worse", "PostLinearize vs input");
    check_chunks(c, post, true, st, "PostLinearize output");
    auto post2 = post;
    PostLinearize(c.dg, post2);
    check_structure(c, post2, st, "PostLinearize^2 output");
    not_worse(c, post2, to_u32(post), st, "c24.postlinearize-not-worse", "second PostLinearize vs first");
    check_chunks(c, post2, true, st, "PostLinearize^2 output");
    bool improved = compare_diagrams(diagram_of(c.ref, to_u32(post)), diagram_of(c.ref, in)) == 1;
    if (improved) st.cls("strictly-improved");
    if (post != lin) st.cls("order-changed");
    st.mix(uint64_t(mode)); st.mix(uint64_t(improved));
}

// ------------------------------------------------------------------------------------------------------------------
namespace {
/** exhaustive comparison against every topological order (n <= 7: at most 5040 orders) */
void bruteforce_case(Case& c, verif::Src& s, verif::Stats& st, bool enumerated)
{
    size_t n = c.ref.n();
    // best diagram over all topological orders need not be unique as an order, but "optimal" means >= all of them
    std::vector<std::vector<uint32_t>> orders;
    uint64_t total = for_each_topological_order(c.ref, 6000, [&](const std::vector<uint32_t>& o) { orders.push_back(o); });
    VCHECK(total >= 1 && total <= 5040, "c24.generator-self", "unexpected number of topological orders", total);
    uint64_t seed = enumerated ? 0x1234 + n : s.ConsumeIntegral<uint64_t>();
    // (a) from scratch with a budget far beyond what 7 transactions need
    auto [lin, optimal, cost] = Linearize(c.dg, uint64_t{1} << 20, seed, IndexTxOrder{});
    check_structure(c, lin, st, "Linearize output");
    check_chunks(c, lin, false, st, "Linearize output");
    auto best = diagram_of(c.ref, to_u32(lin));
    if (optimal) {
        st.cls("optimal-reported");
        for (auto& o : orders) {
            st.steps++;
            int cmp = compare_diagrams(best, diagram_of(c.ref, o));
            VCHECK(cmp == 0 || cmp == 1, "c24.optimal-vs-all-orders", "a topological order beats (or is incomparable with) the result reported optimal; cmp", cmp, "n", n, "orders", total);
        }
    } else st.cls("not-optimal-despite-budget");
    // (b) every input order: improving it never makes it worse (budget 0 and small), post-processing never makes it worse
    size_t stride = enumerated ? 1 : 1 + orders.size() / 24;
    for (size_t k = enumerated ? 0 : s.index(stride); k < orders.size(); k += stride) {
        std::vector<DepGraphIndex> in(orders[k].begin(), orders[k].end());
        for (uint64_t budget : {uint64_t{0}, uint64_t{300}}) {
            auto [l2, opt2, cost2] = Linearize(c.dg, budget, seed + k, IndexTxOrder{}, in, true);
            check_structure(c, l2, st, "Linearize(input order)");
            not_worse(c, l2, orders[k], st, "c24.linearize-not-worse", "Linearize(order k) vs order k");
            if (opt2) { st.steps++; int cmp = compare_diagrams(diagram_of(c.ref, to_u32(l2)), best); if (optimal) VCHECK(cmp == 0, "c24.optimal-vs-all-orders", "two results reported optimal have different diagrams", cmp); }
        }
        auto post = in;
        PostLinearize(c.dg, post);
        check_structure(c, post, st, "PostLinearize(order k)");
        not_worse(c, post, orders[k], st, "c24.postlinearize-not-worse", "PostLinearize(order k) vs order k");
        check_chunks(c, post, true, st, "PostLinearize(order k)");
        // documented PostLinearize guarantee (header): tree-shaped input => optimal result
        if ((c.shape == "out-tree" || c.shape == "in-tree" || c.shape == "chain" || c.shape == "no-deps") && optimal) {
            st.steps++;
            int cmp = compare_diagrams(diagram_of(c.ref, to_u32(post)), best);
            VCHECK(cmp == 0, "c24.postlinearize-tree-optimal", "PostLinearize of a tree-shaped cluster is not optimal (header guarantee); cmp", cmp, "shape", c.shape);
            st.cls("tree-optimality-checked");
        }
    }
    st.cls(total == 1 ? "orders:1" : total <= 24 ? "orders:2-24" : total <= 720 ? "orders:25-720" : "orders:>720");
    st.mix(uint64_t(total));
}
} // namespace

VERIF_TARGET(c24_bruteforce, nullptr, 24, 200,
             "clusters of 1..7 transactions (all shapes / fee families of c24_linearize): ALL topological orders are enumerated (<= 5040). Oracle: a result "
             "reported optimal has a diagram >= the diagram of every topological order; for a sample of input orders (all when <= 24) Linearize with budget "
             "0 / 300 and PostLinearize are never worse than the input and stay topological, PostLinearize chunks connected; tree-shaped clusters: "
             "PostLinearize result optimal (header guarantee). non-trivial = n >= 4 and (>= 2 components or tie); distinct = (shape, n, comps, tie, #deps, #orders)")
{
    Case c;
    gen_graph(s, c, 7);
    common_stats(c, st);
    bruteforce_case(c, s, st, false);
}

// exhaustive: every DAG shape on <= 4 transactions (edges i->j for i<j: 2^6 edge sets cover all DAGs up to relabeling) x fees {0,1,2,5}^4 x sizes {1,3}^4
VERIF_TARGET(c24_small_exhaustive, nullptr, 0, 8,
             "exhaustive for n = 4: 2^6 forward edge sets x fees {0,1,2,5}^4 x sizes {1,3}^4 = 262144 clusters, in blocks of 64; per cluster all topological "
             "orders and all input orders are checked as in c24_bruteforce. non-trivial = >= 2 components or an equal-feerate tie")
{
    const uint64_t BLOCK = 64, TOTAL = (uint64_t{64} * 256 * 16) / BLOCK;
    verif::set_enum_total(TOTAL);
    int64_t idx = verif::enum_index();
    if (idx < 0) idx = int64_t(s.range<uint64_t>(0, TOTAL - 1));
    if (uint64_t(idx) >= TOTAL) return;
    static const int64_t FEES[4] = {0, 1, 2, 5};
    static const int32_t SIZES[2] = {1, 3};
    bool any_nontrivial = false;
    for (uint64_t sub = 0; sub < BLOCK; ++sub) {
        uint64_t code = uint64_t(idx) * BLOCK + sub;
        unsigned edges = code & 63, fees = (code >> 6) & 255, sizes = (code >> 14) & 15;
        Case c;
        c.shape = "enum4";
        c.ref.tx.assign(4, RefTx{});
        unsigned bit = 0;
        for (uint32_t i = 0; i < 4; ++i) for (uint32_t j = i + 1; j < 4; ++j, ++bit) if (edges >> bit & 1) c.ref.add_dep(i, j);
        for (uint32_t i = 0; i < 4; ++i) { c.ref.tx[i].fee = FEES[(fees >> (2 * i)) & 3]; c.ref.tx[i].size = SIZES[(sizes >> i) & 1]; }
        for (uint32_t i = 0; i < 4; ++i) c.dg.AddTransaction(FeeFrac{c.ref.tx[i].fee, c.ref.tx[i].size});
        for (uint32_t i = 0; i < 4; ++i) { SetT par; for (uint32_t p : c.ref.tx[i].parents) par.Set(p); if (par.Any()) c.dg.AddDependencies(par, i); }
        c.comps = component_count(c.ref);
        for (size_t i = 0; i < 4 && !c.tie; ++i) for (size_t j = i + 1; j < 4; ++j)
            if (cmp_feerate(FS{c.ref.tx[i].fee, c.ref.tx[i].size}, FS{c.ref.tx[j].fee, c.ref.tx[j].size}) == 0) { c.tie = true; break; }
        any_nontrivial |= c.comps >= 2 || c.tie;
        verif::Stats inner; // per-cluster stats folded into the block's
        bruteforce_case(c, s, inner, true);
        st.steps += inner.steps;
        for (auto& [k, v] : inner.classes) st.cls(k, v);
    }
    st.nontrivial = any_nontrivial;
    st.mix(uint64_t(idx));
    st.note("block ", idx, " of ", TOTAL, " (64 clusters)");
}
