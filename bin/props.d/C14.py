# C14: stage list (what ./check C14 quick|thorough runs) and manifest text. Helpers gen()/enum()/hyp()/custom() come from props.py.
# san stages: differential oracle under ASan/UBSan; tsan stages (cfg='tsan', binary from /verif/build/tsan): the same targets under
# ThreadSanitizer + DEBUG_LOCKORDER, registered under their own target names (c14_*_tsan) so that evidence, work directory, corpus and
# `./check C14 --replay` keep the two builds apart. Threaded stages replay statistically: a failure counts if >= 2 of 5 replays fail
# with the same oracle id.
SPEC = {'level': 'exploration',
 'assumptions': ['only harness-owned, seeded schedules are explored (thread-count configurations x seeded yield injection; with hook H1 the yields sit inside '
                 'CCheckQueue::Loop / CoinsViewOverlay / ThreadPool, without it only in harness threads); the OS scheduler is not controlled',
                 'every generated block carries at most ONE defect: with two defects of different categories serial and parallel validation legitimately report different ones',
                 'regtest node, 104-block base, script/signature caches empty (every script really runs); serial run = 0 workers, 0 fetchers, immediate signals',
                 'absence of data races is evidence from ThreadSanitizer on exactly these runs (x86-64, gcc 12 libtsan), not a guarantee'],
 'stages': [gen('vh_c14', 'c14_parallel', 128, 6000, min_cases_quick=48, replays_needed=2, replays_total=5,
                floors={'workers>=2': 0.4, 'fetchers>=2': 0.3, 'bad-script-after-first-batch': 0.08, 'defect:none': 0.2, 'defect:missing-input': 0.03},
                rule='block sequences under (workers, fetchers, scheduler thread) vs serial run; non-trivial = >=2 script workers and a >=4-tx block valid or with its defect after the first tx'),
            gen('vh_c14', 'c14_overlay', 2400, 200000, min_cases_quick=800, replays_needed=2, replays_total=5,
                floors={'flushed': 0.15, 'reset': 0.3, 'threads=2-4': 0.2, 'threads=8+': 0.08, 'missing-input-path': 0.1},
                rule='CoinsViewOverlay vs std::map model of direct lookups; non-trivial = >=2 fetch threads and >=6 look-ups'),
            gen('vh_c14', 'c14_parallel_tsan', 12, 1600, cfg='tsan', workers_quick=4, workers_thorough=8, min_cases_quick=4, replays_needed=2, replays_total=5,
                rule='same target in the ThreadSanitizer build (any TSan / lock-order report is a failure)'),
            gen('vh_c14', 'c14_overlay_tsan', 400, 60000, cfg='tsan', workers_quick=4, workers_thorough=8, min_cases_quick=120, replays_needed=2, replays_total=5,
                rule='same target in the ThreadSanitizer build (any TSan report is a failure)')]}

# ThreadSanitizer stages: they need the tsan tree (build/tsan). bin/setup.sh builds only the san tree and check.py configures/builds a stage's tree on
# demand through its 'cfg' - a cold tsan tree costs 10+ minutes, which a quick tier cannot afford. So the tsan stages run in the THOROUGH tier;
# `VERIF_TSAN_QUICK=1 ./check CNN quick` runs them in the quick tier as well (sized for it: few cases, 4 workers). check.py builds the tree of every
# listed stage whatever its tier, hence the stages are removed from the list (not just tier-tagged) for a plain quick run.
# VERIF_NO_TSAN=1 drops them always (sensitivity runs of mutants that only the differential/log oracle can see).
import os as _os
import sys as _sys
_tier = _sys.argv[2] if len(_sys.argv) > 2 else ''
if _os.environ.get('VERIF_NO_TSAN') or (_tier == 'quick' and not _os.environ.get('VERIF_TSAN_QUICK')):
    SPEC['stages'] = [_st for _st in SPEC['stages'] if _st.get('cfg') != 'tsan']
elif not _os.environ.get('VERIF_TSAN_QUICK'):
    for _st in SPEC['stages']:
        if _st.get('cfg') == 'tsan':
            _st['tiers'] = ('thorough',)

META = {'level_text': 'Generated block sequences (valid blocks and blocks with exactly one defect at a generated position) are validated by a real in-process regtest node under '
               'generated thread configurations (script-check workers x prevout fetchers in {0,1,2,3,4,8,16}^2, optional scheduler thread) with seeded yield injection, and '
               'under the serial configuration: verdict, reject category and hash_serialized after every block must agree. CoinsViewOverlay is additionally driven '
               'directly against a std::map model of direct lookups (base cache in all entry states, ConnectBlock-order / shuffled / abandoned access, Flush and Reset). '
               'The same targets run in a ThreadSanitizer + DEBUG_LOCKORDER build where any report is a failure.',
 'technique': 'differential property-based testing (threaded configuration vs serial reference run; model-based for the overlay) with harness-owned schedules, ThreadSanitizer as monitor',
 'level_note': 'Exploration only: the harness explores thread-count configurations and seeded, harness-owned yield schedules (hook H1 yield points inside the repo when the hook is '
               'present); it does not enumerate interleavings and does not control the OS scheduler. Absence of races is evidence from ThreadSanitizer on the runs that were '
               'executed, not a guarantee; weak-memory effects that x86-64 cannot exhibit are out of reach. A threaded failure is counted only if it reproduces in >= 2 of 5 replays.'}
