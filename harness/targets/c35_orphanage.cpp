// C35 — The orphan pool stays bounded and peers cannot evict each other's orphans.
// Oracle: my own model of the announcement set {(orphan, peer)} with own weight / latency-score arithmetic, run as a
// refinement check: before every operation the model computes the announcement set S_pre that the operation's explicit
// effect must produce (add / erase tx / erase peer / erase for block); the implementation's set S_obs is then observed through
// GetOrphanTransactions and must satisfy, from the statement:
//   * S_obs is a subset of S_pre (nothing appears), and equals S_pre when S_pre is within the global limits (an announcement
//     disappears only by explicit erase or by limiting; peer disconnection / block connection remove exactly the affected set);
//   * S_obs is within the global latency (announcement + input) and usage limits;
//   * DoS clause: a peer whose own latency score and usage in S_pre are within its per-peer share loses nothing.
// Which announcements of over-share peers are evicted is left to the implementation (the model adopts S_obs afterwards).
#include <engine/verif.h>

#include <consensus/validation.h>
#include <node/txorphanage.h>
#include <policy/policy.h>
#include <primitives/block.h>
#include <primitives/transaction.h>
#include <random.h>
#include <script/script.h>
#include <uint256.h>

#include <algorithm>
#include <map>
#include <memory>
#include <set>
#include <string>
#include <vector>

namespace {

size_t cs_len(uint64_t n) { return n < 253 ? 1 : n <= 0xffff ? 3 : n <= 0xffffffffULL ? 5 : 9; }

struct Orphan {
    CTransactionRef tx;
    Wtxid wtxid;
    int64_t weight;  // model arithmetic (BIP141: 3 * stripped size + total size)
    unsigned lat_in; // inputs / 10
    std::vector<COutPoint> inputs;
};

using AnnSet = std::set<std::pair<int, int>>; // (orphan index, peer)

struct PeerStat { unsigned count{0}; unsigned lat{0}; int64_t usage{0}; };
struct Stats {
    std::map<int, PeerStat> peer;
    std::set<int> uniq;
    unsigned total_lat{0};
    int64_t total_usage{0};
    unsigned npeers() const { return unsigned(peer.size()); }
};

Stats stats_of(const AnnSet& s, const std::vector<Orphan>& orphans)
{
    Stats r;
    for (auto& [o, p] : s) {
        PeerStat& ps = r.peer[p];
        ps.count += 1; ps.lat += 1 + orphans[size_t(o)].lat_in; ps.usage += orphans[size_t(o)].weight;
        r.uniq.insert(o);
    }
    r.total_lat = unsigned(s.size());
    for (int o : r.uniq) { r.total_lat += orphans[size_t(o)].lat_in; r.total_usage += orphans[size_t(o)].weight; }
    return r;
}

} // namespace

VERIF_TARGET(c35_orphanage, nullptr, 24, 900,
             "histories of <= 250 operations over 3-10 peers on an orphanage with small limits (latency 12-80, reserved usage 1.5k-40k per peer; 1 in 12 cases "
             "the production limits with orphans up to 300 inputs / 390k weight): AddTx (one 'whale' peer favoured; orphans of 1-60 inputs from a shared "
             "outpoint pool, padded outputs, optional witness twin with the same txid), AddAnnouncer, EraseTx, EraseForPeer, EraseForBlock (block txs spending "
             "pool outpoints), AddChildrenToWorkSet / GetTxToReconsider; oracle = announcement-set refinement model (subset, exact removal when no limit is "
             "exceeded, global limits afterwards, within-share peers lose nothing), counters, HaveTx*, SanityCheck; non-trivial = >= 1 eviction while a "
             "within-share peer held announcements, and >= 1 peer/block erase that removed something; distinct = (op histogram buckets, event classes)")
{
    // ---- configuration
    const bool production_limits = s.range<unsigned>(0, 11) == 11;
    const unsigned max_lat = production_limits ? 3000u : s.pick<unsigned>({12u, 16u, 20u, 33u, 50u, 80u}) /* >= max peers (10): a per-peer share of 0 is outside the supported configuration (assert in GetDosScore) */;
    const int64_t reserved = production_limits ? 404000 : s.pick<int64_t>({1500, 3000, 6000, 12000, 40000});
    std::unique_ptr<node::TxOrphanage> orph = production_limits ? node::MakeTxOrphanage() : node::MakeTxOrphanage(max_lat, reserved);
    const int npeers = s.range<int>(3, 10);
    const int whale = s.range<int>(0, npeers - 1);
    const int nops = std::min(s.range<int>(0, 250), production_limits ? 60 : 250);
    unsigned op_counter = 0;
    FastRandomContext rng{uint256{uint8_t(1 + s.range<int>(0, 200))}};

    // parents (their outputs form the shared outpoint pool)
    std::vector<CTransactionRef> parents;
    std::vector<COutPoint> pool;
    for (int k = 0; k < 6; ++k) {
        CMutableTransaction m;
        m.vin.resize(1);
        m.vin[0].prevout = COutPoint(Txid::FromUint256(uint256{uint8_t(0xa0 + k)}), 0);
        m.vout.resize(4);
        for (auto& o : m.vout) { o.nValue = 1000; o.scriptPubKey = CScript() << OP_TRUE; }
        m.nLockTime = uint32_t(k);
        parents.push_back(MakeTransactionRef(m));
        for (uint32_t i = 0; i < 4; ++i) pool.emplace_back(parents.back()->GetHash(), i);
    }

    std::vector<Orphan> orphans;
    std::map<Wtxid, int> by_wtxid;
    AnnSet S;                     // model: current announcements
    std::map<int, int> recon;     // orphan -> peer whose announcement is in the work set
    unsigned hist[8] = {0};
    unsigned c_evictions = 0, c_protected_events = 0, c_erase_effect = 0, c_multi_ann_evicted = 0, c_block_multi = 0, c_whale_evicted = 0, c_lat_limit = 0, c_usage_limit = 0;

    auto make_orphan = [&](int twin_of) -> int {
        CMutableTransaction m;
        size_t wit = 0;
        if (twin_of >= 0) { // same txid, different wtxid: add a witness item to input 0
            m = CMutableTransaction(*orphans[size_t(twin_of)].tx);
            wit = 1 + size_t(s.range<int>(0, 90)) + m.vin[0].scriptWitness.stack.size() * 100;
            m.vin[0].scriptWitness.stack.assign(1, std::vector<unsigned char>(wit, 0x77));
        } else {
            unsigned nin = production_limits ? (s.chance(128) ? s.range<unsigned>(1, 300) : s.range<unsigned>(1, 30))
                                             : (s.chance(60) ? s.range<unsigned>(10, 60) : s.range<unsigned>(1, 9));
            unsigned from_pool = std::min<unsigned>(nin, s.range<unsigned>(0, 3));
            const unsigned uid = unsigned(orphans.size());
            m.vin.resize(nin);
            for (unsigned i = 0; i < nin; ++i) {
                if (i < from_pool) m.vin[i].prevout = pool[s.index(pool.size())];
                else { uint256 h{uint8_t(0x40)}; h.data()[1] = uint8_t(uid); h.data()[2] = uint8_t(uid >> 8); m.vin[i].prevout = COutPoint(Txid::FromUint256(h), i); }
            }
            // duplicate pool picks inside one tx are possible and harmless (orphans are not validated)
            size_t pad = production_limits ? (s.chance(128) ? size_t(s.range<int>(60000, 97000)) : size_t(s.range<int>(0, 3000)))
                                           : size_t(s.pick<int>({0, 0, 50, 200, 700, 2000}));
            pad = std::min<size_t>(pad, 99000 - 41 * size_t(nin)); // keep the weight below MAX_STANDARD_TX_WEIGHT (larger orphans are refused; outside the statement)
            m.vout.resize(1);
            m.vout[0].nValue = 500;
            std::vector<unsigned char> raw(pad, 0x6a);
            m.vout[0].scriptPubKey = CScript(raw.begin(), raw.end());
            m.nLockTime = uid; // distinct txids
        }
        Orphan o;
        o.tx = MakeTransactionRef(m);
        o.wtxid = o.tx->GetWitnessHash();
        // model weight: own size arithmetic
        size_t stripped = 4 + cs_len(m.vin.size()) + m.vin.size() * 41 + cs_len(m.vout.size()) + 4;
        for (auto& out : m.vout) stripped += 8 + cs_len(out.scriptPubKey.size()) + out.scriptPubKey.size();
        size_t total = stripped;
        bool has_wit = false;
        for (auto& in : m.vin) has_wit |= !in.scriptWitness.stack.empty();
        if (has_wit) {
            total += 2;
            for (auto& in : m.vin) { total += cs_len(in.scriptWitness.stack.size()); for (auto& it : in.scriptWitness.stack) total += cs_len(it.size()) + it.size(); }
        }
        o.weight = int64_t(stripped * 3 + total);
        VCHECK(o.weight == GetTransactionWeight(*o.tx), "c35.model-selftest", "model weight", o.weight, "vs", GetTransactionWeight(*o.tx));
        o.lat_in = unsigned(m.vin.size() / 10);
        for (auto& in : m.vin) o.inputs.push_back(in.prevout);
        auto it = by_wtxid.find(o.wtxid);
        if (it != by_wtxid.end()) return it->second;
        orphans.push_back(o);
        by_wtxid[o.wtxid] = int(orphans.size()) - 1;
        return int(orphans.size()) - 1;
    };

    auto observe = [&]() -> AnnSet {
        AnnSet r;
        for (auto& info : orph->GetOrphanTransactions()) {
            auto it = by_wtxid.find(info.tx->GetWitnessHash());
            VCHECK(it != by_wtxid.end(), "c35.no-phantom-announcements", "orphanage holds a transaction that was never added");
            VCHECK(!info.announcers.empty(), "c35.orphan-present-iff-announced", "orphan without announcer, index", it->second);
            for (NodeId p : info.announcers) r.emplace(it->second, int(p));
        }
        return r;
    };

    /** common post-operation check; S_pre = announcement set the explicit effect of the operation must produce */
    auto after_op = [&](const AnnSet& S_pre, const char* op) {
        AnnSet S_obs = observe();
        st.steps++;
        std::vector<std::pair<int, int>> evicted;
        for (auto& a : S_obs) VCHECK(S_pre.count(a), "c35.no-phantom-announcements", "after", op, ": announcement (orphan, peer)", a.first, a.second, "exists but the model has no reason for it");
        for (auto& a : S_pre) if (!S_obs.count(a)) evicted.push_back(a);
        Stats pre = stats_of(S_pre, orphans);
        const unsigned pre_np = std::max(pre.npeers(), 1u);
        const bool lat_over = pre.total_lat > max_lat, usage_over = pre.total_usage > reserved * int64_t(pre_np);
        if (!lat_over && !usage_over) {
            VCHECK(evicted.empty(), "c35.removes-exactly-the-affected", "after", op, ":", evicted.size(), "announcement(s) vanished although no global limit was exceeded; first (orphan, peer, weight)",
                   evicted.empty() ? -1 : evicted[0].first, evicted.empty() ? -1 : evicted[0].second, evicted.empty() ? -1 : orphans[size_t(evicted[0].first)].weight);
        } else {
            const unsigned lat_share = max_lat / pre_np;
            bool some_protected = false;
            for (auto& [p, ps] : pre.peer) {
                if (ps.lat <= lat_share && ps.usage <= reserved) {
                    some_protected = true;
                    for (auto& e : evicted) VCHECK(e.second != p, "c35.within-share-peer-protected", "after", op, ": peer", p, "(latency", ps.lat, "<=", lat_share, ", usage", ps.usage, "<=", reserved,
                                                   ") lost its announcement of orphan", e.first);
                }
            }
            if (!evicted.empty()) {
                ++c_evictions;
                if (some_protected) ++c_protected_events;
                if (lat_over) ++c_lat_limit;
                if (usage_over) ++c_usage_limit;
                for (auto& e : evicted) { if (e.second == whale) ++c_whale_evicted; int others = 0; for (auto& a : S_obs) others += a.first == e.first; if (others) ++c_multi_ann_evicted; }
                st.note("  -> limiting evicted ", evicted.size(), " announcement(s)");
            }
        }
        Stats post = stats_of(S_obs, orphans);
        const unsigned post_np = std::max(post.npeers(), 1u);
        VCHECK(post.total_lat <= max_lat, "c35.global-limits-after-limiting", "after", op, ": total latency score", post.total_lat, ">", max_lat);
        VCHECK(post.total_usage <= reserved * int64_t(post_np), "c35.global-limits-after-limiting", "after", op, ": total usage", post.total_usage, ">", reserved * int64_t(post_np));
        VCHECK(S_obs.size() <= max_lat, "c35.global-limits-after-limiting", "after", op, ": announcements", S_obs.size(), ">", max_lat);
        // counters as documented in txorphanage.h
        VCHECK(orph->CountAnnouncements() == S_obs.size() && orph->CountUniqueOrphans() == post.uniq.size(), "c35.counters-vs-model", "after", op, "announcements/unique",
               orph->CountAnnouncements(), orph->CountUniqueOrphans(), "model", S_obs.size(), post.uniq.size());
        VCHECK(orph->TotalLatencyScore() == post.total_lat && orph->TotalOrphanUsage() == post.total_usage, "c35.counters-vs-model", "after", op, "total latency/usage",
               orph->TotalLatencyScore(), orph->TotalOrphanUsage(), "model", post.total_lat, post.total_usage);
        VCHECK(orph->MaxGlobalUsage() == reserved * int64_t(post_np) && orph->MaxPeerLatencyScore() == max_lat / post_np && orph->MaxGlobalLatencyScore() == max_lat &&
               orph->ReservedPeerUsage() == reserved, "c35.counters-vs-model", "after", op, "limits: MaxGlobalUsage", orph->MaxGlobalUsage(), "MaxPeerLatencyScore", orph->MaxPeerLatencyScore());
        for (int p = 0; p < npeers; ++p) {
            PeerStat ps = post.peer.count(p) ? post.peer[p] : PeerStat{};
            VCHECK(orph->AnnouncementsFromPeer(p) == ps.count && orph->LatencyScoreFromPeer(p) == ps.lat && orph->UsageByPeer(p) == ps.usage, "c35.counters-vs-model", "after", op, "peer", p,
                   "count/latency/usage", orph->AnnouncementsFromPeer(p), orph->LatencyScoreFromPeer(p), orph->UsageByPeer(p), "model", ps.count, ps.lat, ps.usage);
        }
        // an orphan is present exactly while it has an announcement (full scan after evictions and every 4th operation)
        const bool full_scan = !evicted.empty() || (op_counter++ % 4) == 0;
        for (size_t o = 0; full_scan && o < orphans.size(); ++o) {
            bool have = post.uniq.count(int(o)) > 0;
            VCHECK(orph->HaveTx(orphans[o].wtxid) == have && (orph->GetTx(orphans[o].wtxid) != nullptr) == have, "c35.orphan-present-iff-announced", "after", op, "orphan", o, "model present:", have);
            for (int p = 0; p < npeers; ++p) VCHECK(orph->HaveTxFromPeer(orphans[o].wtxid, p) == (S_obs.count({int(o), p}) > 0), "c35.orphan-present-iff-announced", "after", op, "orphan", o, "peer", p);
        }
        for (auto it = recon.begin(); it != recon.end();) { if (!S_obs.count({it->first, it->second})) it = recon.erase(it); else ++it; }
        for (int p = 0; p < npeers; ++p) {
            bool any = false;
            for (auto& [o, q] : recon) any |= q == p;
            VCHECK(orph->HaveTxToReconsider(p) == any, "c35.workset-vs-model", "after", op, "HaveTxToReconsider peer", p, "model", any);
        }
        orph->SanityCheck();
        S = S_obs;
    };

    for (int op = 0; op < nops; ++op) {
        unsigned kind = s.range<unsigned>(0, 15);
        int p = s.chance(110) ? whale : s.range<int>(0, npeers - 1);
        if (kind <= 6 || orphans.empty()) { // AddTx: new orphan (possibly a witness twin) or an existing one from another peer
            int o;
            unsigned how = s.range<unsigned>(0, 7);
            if (how <= 4 || orphans.empty()) o = make_orphan(-1);
            else if (how == 5) o = make_orphan(int(s.index(orphans.size())));
            else o = int(s.index(orphans.size()));
            AnnSet pre = S;
            pre.emplace(o, p);
            st.note("AddTx(o", o, " w=", orphans[size_t(o)].weight, " in=", orphans[size_t(o)].inputs.size(), ", p", p, ")");
            orph->AddTx(orphans[size_t(o)].tx, p);
            hist[0]++;
            after_op(pre, "AddTx");
        } else if (kind <= 8) { // AddAnnouncer
            int o = int(s.index(orphans.size()));
            AnnSet pre = S;
            bool present = false;
            for (auto& a : S) present |= a.first == o;
            if (present) pre.emplace(o, p);
            st.note("AddAnnouncer(o", o, ", p", p, ")", present ? "" : " [absent]");
            bool r = orph->AddAnnouncer(orphans[size_t(o)].wtxid, p);
            VCHECK(r == (present && !S.count({o, p})), "c35.return-values", "AddAnnouncer returned", r, "orphan present:", present, "already announced by peer:", S.count({o, p}));
            hist[1]++;
            after_op(pre, "AddAnnouncer");
        } else if (kind == 9) { // EraseTx
            int o = int(s.index(orphans.size()));
            AnnSet pre;
            bool present = false;
            for (auto& a : S) { if (a.first == o) present = true; else pre.insert(a); }
            st.note("EraseTx(o", o, ")");
            bool r = orph->EraseTx(orphans[size_t(o)].wtxid);
            VCHECK(r == present, "c35.return-values", "EraseTx returned", r, "orphan present:", present);
            hist[2]++;
            after_op(pre, "EraseTx");
        } else if (kind == 10) { // EraseForPeer
            int q = s.chance(40) ? whale : s.range<int>(0, npeers - 1);
            AnnSet pre;
            for (auto& a : S) if (a.second != q) pre.insert(a);
            if (pre.size() != S.size()) ++c_erase_effect;
            st.note("EraseForPeer(p", q, ") removes ", S.size() - pre.size());
            orph->EraseForPeer(q);
            hist[3]++;
            after_op(pre, "EraseForPeer");
        } else if (kind <= 12) { // EraseForBlock
            CBlock block;
            int ntx = s.range<int>(1, 3);
            std::set<COutPoint> spent;
            for (int k = 0; k < ntx; ++k) {
                CMutableTransaction m;
                unsigned how = s.range<unsigned>(0, 3);
                if (how == 0 && !orphans.empty()) { // the orphan itself gets mined
                    m = CMutableTransaction(*orphans[s.index(orphans.size())].tx);
                } else if (how == 1 && !orphans.empty()) { // a conflicting spend of one (any) input of some orphan
                    const Orphan& o = orphans[s.index(orphans.size())];
                    m.vin.resize(1); m.vin[0].prevout = o.inputs[s.index(o.inputs.size())];
                    m.vout.resize(1); m.nLockTime = 777;
                } else { // spends of pool outpoints
                    int n = s.range<int>(1, 3);
                    m.vin.resize(size_t(n));
                    for (auto& in : m.vin) in.prevout = pool[s.index(pool.size())];
                    m.vout.resize(1); m.nLockTime = 778;
                }
                for (auto& in : m.vin) spent.insert(in.prevout);
                block.vtx.push_back(MakeTransactionRef(m));
            }
            AnnSet pre;
            std::set<int> hit;
            for (auto& a : S) {
                bool affected = false;
                for (auto& in : orphans[size_t(a.first)].inputs) affected |= spent.count(in) > 0;
                if (affected) hit.insert(a.first); else pre.insert(a);
            }
            if (!hit.empty()) ++c_erase_effect;
            for (int o : hit) { int n = 0; for (auto& a : S) n += a.first == o; if (n >= 2) ++c_block_multi; }
            st.note("EraseForBlock(", ntx, " txs, ", spent.size(), " outpoints) removes ", hit.size(), " orphan(s)");
            orph->EraseForBlock(block);
            hist[4]++;
            after_op(pre, "EraseForBlock");
        } else if (kind == 13) { // AddChildrenToWorkSet
            const CTransaction& par = *parents[s.index(parents.size())];
            auto got = orph->AddChildrenToWorkSet(par, rng);
            Stats cur = stats_of(S, orphans);
            std::map<int, int> chosen;
            for (auto& [w, peer] : got) {
                auto it = by_wtxid.find(w);
                VCHECK(it != by_wtxid.end() && S.count({it->second, int(peer)}), "c35.workset-vs-model", "AddChildrenToWorkSet returned an announcement that does not exist");
                VCHECK(chosen.emplace(it->second, int(peer)).second, "c35.workset-vs-model", "orphan assigned to two work sets, orphan", it->second);
            }
            for (int o : cur.uniq) {
                bool child = false;
                for (auto& in : orphans[size_t(o)].inputs) child |= in.hash == par.GetHash() && in.n < par.vout.size();
                bool want = child && !recon.count(o);
                VCHECK(chosen.count(o) == (want ? 1u : 0u), "c35.workset-vs-model", "orphan", o, "is child:", child, "already in a work set:", recon.count(o), "assigned now:", chosen.count(o));
                if (want) recon[o] = chosen[o];
            }
            st.note("AddChildrenToWorkSet(parent) -> ", got.size());
            hist[5]++;
            after_op(S, "AddChildrenToWorkSet");
        } else { // GetTxToReconsider
            int q = s.range<int>(0, npeers - 1);
            if (!recon.empty() && s.boolean()) { auto it = recon.begin(); std::advance(it, long(s.index(recon.size()))); q = it->second; }
            CTransactionRef r = orph->GetTxToReconsider(q);
            std::set<int> work;
            for (auto& [o, peer] : recon) if (peer == q) work.insert(o);
            VCHECK((r != nullptr) == !work.empty(), "c35.workset-vs-model", "GetTxToReconsider peer", q, "returned", r ? "a tx" : "nothing", "model work set size", work.size());
            if (r) {
                auto it = by_wtxid.find(r->GetWitnessHash());
                VCHECK(it != by_wtxid.end() && work.count(it->second), "c35.workset-vs-model", "GetTxToReconsider returned a tx outside the peer's work set");
                recon.erase(it->second);
            }
            st.note("GetTxToReconsider(p", q, ")=", r ? "tx" : "null");
            hist[6]++;
            after_op(S, "GetTxToReconsider");
        }
    }

    for (unsigned k = 0; k < 7; ++k) st.mix(uint64_t(std::min(hist[k], 6u)));
    st.mix(uint64_t(std::min(c_evictions, 3u)) | uint64_t(std::min(c_protected_events, 3u)) << 2 | uint64_t(std::min(c_erase_effect, 3u)) << 4 | uint64_t(std::min(c_multi_ann_evicted, 1u)) << 6 |
           uint64_t(std::min(c_block_multi, 1u)) << 7 | uint64_t(c_lat_limit > 0) << 8 | uint64_t(c_usage_limit > 0) << 9 | uint64_t(production_limits) << 10 | uint64_t(npeers) << 12);
    st.nontrivial = c_protected_events >= 1 && c_erase_effect >= 1;
    if (c_evictions) st.cls("eviction");
    if (c_protected_events) st.cls("eviction-with-within-share-peer-present");
    if (c_whale_evicted) st.cls("whale-lost-announcements");
    if (c_multi_ann_evicted) st.cls("evicted-announcement-of-multi-announcer-orphan");
    if (c_lat_limit) st.cls("latency-limit-hit");
    if (c_usage_limit) st.cls("usage-limit-hit");
    if (c_erase_effect) st.cls("peer-or-block-erase-removed-something");
    if (c_block_multi) st.cls("block-erased-multi-announcer-orphan");
    if (hist[5] && !recon.empty()) st.cls("workset-nonempty-at-end");
    if (production_limits) st.cls("production-limits");
    if (hist[6]) st.cls("reconsider");
}
