# C03: stage list (what ./check C03 quick|thorough runs) and manifest text. Helpers gen()/enum()/hyp()/custom() come from props.py.
SPEC = {'level': 'exploration',
 'assumptions': ['reference model written from the property statement (order of rules as stated)', '21M BTC = 2,100,000,000,000,000 satoshi'],
 'stages': [{'kind': 'gen',
             'binary': 'vh_c03',
             'target': 'c03_checktx',
             'cases_quick': 1500000,
             'cases_thorough': 30000000,
             'min_cases_quick': 100000,
             'floors': {'multi-violation': 0.05, 'near-limit': 0.05, 'accepted': 0.01},
             'rule': 'structured txs; non-trivial = >=2 rules violated or a field within +-1 of a limit'},
            {'kind': 'gen',
             'binary': 'vh_c03',
             'target': 'c03_bulk',
             'cases_quick': 1200,
             'cases_thorough': 8000,
             'rule': 'bulk scriptSig at the 1,000,000-byte no-witness boundary; all non-trivial'},
            {'kind': 'enum', 'binary': 'vh_c03', 'target': 'c03_ruletable', 'rule': 'exhaustive 2^9 rule-violation combinations x 4 variants'},
        # coverage-guided libFuzzer campaign on the same target (thorough tier only; fz tree = g++ trace-pc + covshim)
        fuzz('vh_c03', 'c03_checktx', 300, max_len=700),
    ]}

META = {'level_text': 'Generated search (1.5M structured transactions per quick run, boundary-biased) plus an exhaustive 2^9 x 4 rule-combination table, each '
               'compared on (accept, reject reason) with a reference model written from the statement. Exploration: it samples the input space; it does not '
               'prove the iff.',
 'technique': 'property-based testing: structured generator + independent reference model (differential), exhaustive rule table'}
