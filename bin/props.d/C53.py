# C53: stage list (what ./check C53 quick|thorough runs) and manifest text. Helpers gen()/enum()/hyp()/custom() come from props.py.
SPEC = {'level': 'exploration',
 'assumptions': ['generated chains obey the consensus rule block time > median-time-past of the parent (so MTP is monotone along every branch; '
                 'the only chains a block index can contain, and what the walk-back shortcut of GetStateFor relies on); times may go backwards',
                 'median-time-past of fewer than 11 blocks = element n/2 of the sorted times (the convention of CBlockIndex::GetMedianTimePast)',
                 'signalling = top three version bits 001 and the deployment bit set (BIP9); special start values -1/-2 = always/never active',
                 'periods 2..32, thresholds 1..period, trees of <= ~1400 blocks (main chain <= 40 periods + <= 3 forks sharing one cache)'],
 'stages': [gen('vh_c53', 'c53_versionbits', 1200000, 20000000, min_cases_quick=400000,
                floors={'reach:LOCKED_IN': 0.15, 'reach:FAILED': 0.10, 'reach:ACTIVE': 0.10, 'lockin-beats-timeout': 0.05,
                        'started:count==threshold': 0.08, 'started:count==threshold-1': 0.08, 'defined:mtp==start': 0.08,
                        'defined:mtp==start-1': 0.08, 'started:mtp==timeout': 0.01, 'lockedin-held-by-min-activation-height': 0.03,
                        'lockedin:height==min-activation-height': 0.01, 'fork-divergent-states': 0.04, 'warm-and-fresh-cache': 0.3,
                        'special:always-active': 0.02, 'special:never-active': 0.02},
                rule='block trees with signalling counts / median times / activation heights at +-1 around every limit; every block queried on a warm '
                     'shared cache and on fresh caches in random order; non-trivial = ordinary deployment whose queried answers cover >= 3 states'),
            gen('vh_c53', 'up_versionbits', 300000, 5000000,
                rule="upstream fuzz target 'versionbits' (period 32, regular 10-minute chain, own asserts); supplementary"),
        # coverage-guided libFuzzer campaign on the same target (thorough tier only; fz tree = g++ trace-pc + covshim)
        fuzz('vh_c53', 'c53_versionbits', 300, max_len=640),
    ]}

META = {'level_text': 'Generated block trees (about 1.2M per quick run) with arbitrary versions and consensus-valid timestamps; for every block of every tree the '
               'state returned by VersionBitsConditionChecker::GetStateFor (warm cache shared across forks, fresh caches, random and sweeping query '
               'orders) must equal an independent forward BIP9 state machine; GetStateSinceHeightFor and GetStateStatisticsFor must agree with the same '
               'model. Exploration over bounded trees (periods <= 32, <= 40 periods); it does not prove the machine for the 2016-block mainnet period.',
 'technique': 'property-based testing: structured chain/tree generator + independent forward reference state machine (differential), '
              'metamorphic query-order/cache independence; upstream versionbits fuzz target as supplementary stage',
 'level_note': 'trusted base: my forward machine and median-time-past model (~80 lines), CBlockIndex::GetAncestor/BuildSkip (checked separately by C54)'}
