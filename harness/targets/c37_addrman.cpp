// C37 — The address manager stays internally consistent and bounded.
//
// c37_addrman: generated operation histories (Add batches from a small colliding address/source pool over IPv4/IPv6/Tor v3/I2P/
//   CJDNS, Good, Attempt, Connected, SetServices, SelectTriedCollision + ResolveCollisions with mock-time jumps, Select, GetAddr,
//   serialize -> reload with the same or a different asmap mid-history, and a "hammer" scenario that drives one address towards
//   the 8-reference limit). One eighth of the cases run the manager with consistency checks on every call (ratio 1: a failed
//   internal check aborts and is reported by the driver); the others (longer, denser histories) evaluate the internal check at
//   every check point and at the end through a probe reload (the loader runs CheckAddrman and refuses inconsistent state).
// Own oracle, computed from the public table dump GetEntries() at check points (no friend access needed):
//   * every address sits in 1..8 new-table slots xor exactly one tried-table slot; reported multiplicity == counted slots;
//     slot coordinates within 1024x64 / 256x64;
//   * Size(), Size(net, in_new) for all networks equal own counts over the dump;
//   * every stored address is one the history added (own model set); Select / SelectTriedCollision / GetAddr only return stored
//     addresses of the requested network / table;
//   * serialize -> reload (same asmap): identical dump (address, port, nTime, services, source, last success, attempts, table,
//     bucket, position, multiplicity); reload under a different asmap: a subset with identical per-address statistics.
// Left out: historic on-disk formats V0..V3 (the code only writes V4), crafted/corrupt files (upstream target up_data_stream_addr_man
// runs as supplementary stage), GetChance-weighted selection frequencies.
#include <engine/verif.h>
#include <kits/netgen.h>

#include <addrman.h>
#include <addrman_impl.h>
#include <chainparams.h>
#include <netaddress.h>
#include <netgroup.h>
#include <protocol.h>
#include <streams.h>
#include <util/asmap.h>
#include <util/chaintype.h>
#include <util/time.h>

#include <algorithm>
#include <map>
#include <memory>
#include <optional>
#include <set>
#include <tuple>
#include <unordered_set>
#include <vector>

namespace {
using namespace verif::netgen;

// the repo's 59-byte unit-test asmap (copied bytes; maps parts of 250.0.0.0/8 to AS numbers)
const uint8_t TEST_ASMAP[59] = {0xfb, 0x03, 0xec, 0x0f, 0xb0, 0x3f, 0xc0, 0xfe, 0x00, 0xfb, 0x03, 0xec, 0x0f, 0xb0, 0x3f, 0xc0, 0xfe, 0x00, 0xfb, 0x03,
                                0xec, 0x0f, 0xb0, 0xff, 0xff, 0xfe, 0xff, 0xed, 0xb0, 0xff, 0xd4, 0x86, 0xe6, 0x28, 0x29, 0x00, 0x00, 0x40, 0x00, 0x00,
                                0x40, 0x00, 0x40, 0x99, 0x01, 0x00, 0x80, 0x01, 0x80, 0x04, 0x00, 0x00, 0x05, 0x00, 0x06, 0x00, 0x1c, 0xf0, 0x39};

bool g_asmap_ok{false};
void init_c37()
{
    SelectParams(ChainType::REGTEST);
    std::vector<std::byte> a(59);
    memcpy(a.data(), TEST_ASMAP, 59);
    g_asmap_ok = CheckStandardAsmap(a);
}

NetGroupManager make_ngm(bool with_asmap)
{
    if (with_asmap && g_asmap_ok) {
        std::vector<std::byte> a(59);
        memcpy(a.data(), TEST_ASMAP, 59);
        return NetGroupManager::WithLoadedAsmap(std::move(a));
    }
    return NetGroupManager::NoAsmap();
}

const Network NETS[] = {NET_UNROUTABLE, NET_IPV4, NET_IPV6, NET_ONION, NET_I2P, NET_CJDNS, NET_INTERNAL};
const char* net_name(Network n)
{
    switch (n) { case NET_IPV4: return "ipv4"; case NET_IPV6: return "ipv6"; case NET_ONION: return "onion"; case NET_I2P: return "i2p"; case NET_CJDNS: return "cjdns";
    case NET_INTERNAL: return "internal"; default: return "unroutable"; }
}

/** pool address: kind 0..4, group g (0..3), host h (0..63), port p (0..3) */
CService pool_addr(unsigned kind, unsigned g, unsigned h, unsigned p)
{
    uint16_t port = uint16_t(8333 + p);
    switch (kind) {
    case 0: return CService(ipv4(250, uint8_t(1 + g), uint8_t(h / 16), uint8_t(1 + h % 16)), port);
    case 1: { std::array<uint8_t, 16> b{}; b[0] = 0x2a; b[1] = 0x00; b[2] = 0x10; b[3] = uint8_t(g); b[15] = uint8_t(1 + h); b[8] = uint8_t(h >> 4); return CService(ipv6(b), port); }
    case 2: return CService(torv3(1000 + g * 64 + h), port);
    case 3: return CService(i2p(2000 + g * 64 + h), uint16_t(0)); // I2P SAM 3.1: port 0
    default: return CService(cjdns(3000 + g * 64 + h), port);
    }
}

CNetAddr pool_source(unsigned i)
{
    switch (i % 8) {
    case 0: case 1: case 2: return ipv4(250, uint8_t(1 + i / 8 % 4), 200, uint8_t(1 + i % 5));
    case 3: return ipv4(uint8_t(11 + i / 8 % 50), 7, 7, 7);
    case 4: { std::array<uint8_t, 16> b{}; b[0] = 0x2a; b[1] = 0x01; b[3] = uint8_t(i / 8); b[15] = 9; return ipv6(b); }
    case 5: return torv3(7000 + i / 8 % 4);
    case 6: return internal("seed" + std::to_string(i / 8 % 3));
    default: return cjdns(7100 + i / 8 % 4);
    }
}

using Key = std::vector<unsigned char>;
struct Entry {
    Key key;
    int64_t ntime; uint64_t services; Key source; int source_net; int64_t last_success; int attempts;
    bool tried; int bucket, pos, mult; int net;
    auto stats() const { return std::tie(key, ntime, services, source, source_net, last_success, attempts, tried); }
    auto all() const { return std::tie(key, ntime, services, source, source_net, last_success, attempts, tried, bucket, pos, mult); }
};

std::vector<Entry> dump(const AddrMan& am)
{
    std::vector<Entry> out;
    for (bool tried : {false, true}) {
        for (const auto& [info, where] : am.GetEntries(tried)) {
            Entry e;
            e.key = info.GetKey();
            e.ntime = TicksSinceEpoch<std::chrono::seconds>(info.nTime);
            e.services = info.nServices;
            e.source = info.source.GetAddrBytes();
            e.source_net = info.source.GetNetwork();
            e.last_success = TicksSinceEpoch<std::chrono::seconds>(info.m_last_success);
            e.attempts = info.nAttempts;
            e.tried = where.tried;
            e.bucket = where.bucket;
            e.pos = where.position;
            e.mult = where.multiplicity;
            e.net = info.GetNetwork();
            out.push_back(std::move(e));
        }
    }
    return out;
}

struct Summary { size_t n_new{0}, n_tried{0}; unsigned max_mult{0}; };

/** Own invariants over the table dump (statement clauses 2-3) and agreement of Size() with own counts. */
Summary check_tables(const AddrMan& am, const std::vector<Entry>& d, const std::set<Key>& known, verif::Stats& st, const char* when)
{
    struct Cnt { unsigned n_new{0}, n_tried{0}; int mult{-1}; int net{0}; };
    std::map<Key, Cnt> per;
    std::set<std::tuple<bool, int, int>> slots;
    for (const Entry& e : d) {
        VCHECK(e.bucket >= 0 && e.bucket < (e.tried ? 256 : 1024) && e.pos >= 0 && e.pos < 64, "c37.capacity", when, "slot out of table:", e.tried, e.bucket, e.pos);
        VCHECK(slots.insert({e.tried, e.bucket, e.pos}).second, "c37.capacity", when, "slot reported twice");
        Cnt& c = per[e.key];
        (e.tried ? c.n_tried : c.n_new)++;
        if (!e.tried) { VCHECK(c.mult == -1 || c.mult == e.mult, "c37.refcount", when, "multiplicity differs between slots of one address"); c.mult = e.mult; }
        c.net = e.net;
        VCHECK(known.count(e.key), "c37.known-address", when, "table holds an address the history never added");
    }
    Summary sm;
    std::map<int, std::pair<size_t, size_t>> by_net;
    for (const auto& [k, c] : per) {
        st.steps++;
        bool ok = (c.n_tried == 0 && c.n_new >= 1 && c.n_new <= 8) || (c.n_new == 0 && c.n_tried == 1);
        VCHECK(ok, "c37.slot-bounds", when, "address occupies", c.n_new, "new slots and", c.n_tried, "tried slots");
        if (c.n_new) { VCHECK(c.mult == int(c.n_new), "c37.refcount", when, "reference count", c.mult, "but", c.n_new, "slots"); sm.n_new++; by_net[c.net].first++; sm.max_mult = std::max(sm.max_mult, c.n_new); }
        else { sm.n_tried++; by_net[c.net].second++; }
    }
    st.steps++;
    VCHECK(sm.n_new <= 1024 * 64 && sm.n_tried <= 256 * 64, "c37.capacity", when, "more addresses than table capacity");
    VCHECK(am.Size() == sm.n_new + sm.n_tried, "c37.size-counts", when, "Size()", am.Size(), "vs dump", sm.n_new + sm.n_tried);
    VCHECK(am.Size(std::nullopt, true) == sm.n_new, "c37.size-counts", when, "Size(new)", am.Size(std::nullopt, true), "vs dump", sm.n_new);
    VCHECK(am.Size(std::nullopt, false) == sm.n_tried, "c37.size-counts", when, "Size(tried)", am.Size(std::nullopt, false), "vs dump", sm.n_tried);
    for (Network n : NETS) {
        auto [cn, ct] = by_net.count(n) ? by_net[n] : std::pair<size_t, size_t>{0, 0};
        VCHECK(am.Size(n, true) == cn && am.Size(n, false) == ct && am.Size(n) == cn + ct, "c37.size-counts", when, "per-network size mismatch for", net_name(n), "new",
               am.Size(n, true), "vs", cn, "tried", am.Size(n, false), "vs", ct);
    }
    return sm;
}

struct World {
    verif::Src& s;
    verif::Stats& st;
    std::unique_ptr<NetGroupManager> ngm;
    std::unique_ptr<AddrMan> am;
    bool asmap{false};
    int64_t now;
    std::set<Key> known;               // every routable address ever handed to Add
    std::vector<CService> recent;      // recently added (to aim Good/Attempt at existing entries)
    unsigned n_ops{0}, n_good_moved{0}, n_collisions_seen{0}, n_roundtrips{0}, n_rebucket{0}, n_evictions{0};
    unsigned focus_kind{0}, focus_group{0};
    int ratio{0};                      // consistency_check_ratio of the manager under test (1 = internal check before/after every call)

    World(verif::Src& s_, verif::Stats& st_) : s(s_), st(st_), now(1700000000) {}
    void set_now() { SetMockTime(std::chrono::seconds{now}); }
    NodeSeconds t(int64_t v) const { return NodeSeconds{std::chrono::seconds{v}}; }

    CService gen_service()
    {
        if (!recent.empty() && s.chance(150)) return recent[s.index(recent.size())];
        // most addresses come from the case's focus group (one netgroup => shared tried buckets / one new bucket per source group)
        if (s.chance(170)) return pool_addr(focus_kind, focus_group, s.range<unsigned>(0, 63), s.range<unsigned>(0, 3));
        unsigned kind = s.pick<unsigned>({0, 0, 0, 1, 1, 2, 3, 4});
        return pool_addr(kind, s.range<unsigned>(0, 3), s.range<unsigned>(0, 63), s.range<unsigned>(0, 3));
    }
    int64_t gen_ntime()
    {
        switch (s.range<unsigned>(0, 9)) {
        case 0: case 1: case 2: return now - s.range<int64_t>(0, 3600);
        case 3: return now - 86400 + s.range<int64_t>(-120, 120);          // "currently online" boundary
        case 4: return now - 30 * 86400 + s.range<int64_t>(-120, 120);     // horizon boundary (terrible beyond)
        case 5: return now + 600 + s.range<int64_t>(-60, 60);              // future boundary (terrible beyond)
        case 6: return s.pick<int64_t>({0, 1, 100000000, 4294967295LL, 4294967294LL});
        case 7: return now - s.range<int64_t>(0, 60 * 86400);
        default: return now - s.range<int64_t>(0, 20 * 3600);
        }
    }
    int64_t gen_time_arg() // for Good/Attempt/Connected: callers pass "now"; never <= 0 (documented by CheckAddrman: last_success/last_try >= 0, tried => last_success != 0)
    {
        switch (s.range<unsigned>(0, 5)) {
        case 0: return now - s.range<int64_t>(0, 4 * 3600 + 60);
        case 1: return now + s.range<int64_t>(0, 600);
        case 2: return s.pick<int64_t>({1, 2, 4294967295LL});
        default: return now;
        }
    }
    void remember(const CService& a)
    {
        recent.push_back(a);
        if (recent.size() > 160) recent.erase(recent.begin());
    }

    void op_add()
    {
        size_t n = 1 + s.index(8);
        if (s.chance(80)) n = 20 + s.index(60);
        std::vector<CAddress> v;
        for (size_t i = 0; i < n; ++i) {
            CService svc = gen_service();
            CAddress a(svc, ServiceFlags(s.pick<uint64_t>({0, 1, 9, 1033, 1 << 10, 0xffffffffffffffffULL})));
            a.nTime = t(gen_ntime());
            if (a.IsRoutable()) known.insert(a.GetKey());
            remember(svc);
            v.push_back(a);
        }
        CNetAddr src = s.chance(30) ? CNetAddr(v[0]) : pool_source(s.range<unsigned>(0, 63));
        auto penalty = std::chrono::seconds{s.pick<int64_t>({0, 7200, 0, 100000000})};
        bool r = am->Add(v, src, penalty);
        st.note("Add x", n, r ? " +" : " =");
        st.cls("op-add");
    }
    /** many addresses of the focus group from few case bytes (hosts/ports from a splitmix stream seeded by the case) */
    void op_add_bulk()
    {
        size_t n = 24 + s.index(72);
        uint64_t x = s.ConsumeIntegral<uint32_t>();
        CNetAddr src = pool_source(s.range<unsigned>(0, 63));
        bool spread_sources = s.boolean();
        std::vector<CAddress> v;
        for (size_t i = 0; i < n; ++i) {
            x += 0x9e3779b97f4a7c15ULL;
            uint64_t z = (x ^ (x >> 30)) * 0xbf58476d1ce4e5b9ULL;
            z = (z ^ (z >> 27)) * 0x94d049bb133111ebULL;
            z ^= z >> 31;
            CService svc = pool_addr(focus_kind, focus_group, unsigned(z % 64), unsigned((z >> 8) % 4));
            CAddress a(svc, NODE_NETWORK);
            a.nTime = t(now - int64_t((z >> 16) % 7200));
            known.insert(a.GetKey());
            remember(svc);
            if (spread_sources) { am->Add({a}, pool_source(unsigned((z >> 32) % 64)), 0s); } else v.push_back(a);
        }
        if (!v.empty()) am->Add(v, src, 0s);
        st.note("AddBulk x", n);
        st.cls("op-add-bulk");
    }
    void op_good_many()
    {
        unsigned k = 16 + s.range<unsigned>(0, 80);
        size_t start = s.index(std::max<size_t>(recent.size(), 1));
        for (unsigned i = 0; i < k && i < recent.size(); ++i) {
            const CService a = recent[(start + i) % recent.size()];
            bool moved = am->Good(a, t(now));
            if (moved) n_good_moved++;
            else if (auto p = am->FindAddressEntry(CAddress(a, NODE_NONE)); p.has_value() && !p->tried) { n_collisions_seen++; st.cls("good-tried-collision"); }
        }
        st.note("Good x", k);
        st.cls("op-good-many");
    }
    void op_good()
    {
        CService a = gen_service();
        size_t tried_before = am->Size(std::nullopt, false);
        bool moved = am->Good(a, t(gen_time_arg()));
        if (moved) { n_good_moved++; st.cls("good-moved-to-tried"); }
        else if (am->FindAddressEntry(CAddress(a, NODE_NONE)).has_value() && !am->FindAddressEntry(CAddress(a, NODE_NONE))->tried) { n_collisions_seen++; st.cls("good-tried-collision"); }
        (void)tried_before;
        st.note("Good ", moved);
        st.cls("op-good");
    }
    void check_selected(const CAddress& r, bool must_be_new, bool must_be_tried, const std::unordered_set<Network>& nets, const char* what)
    {
        if (!r.IsValid()) return;
        st.steps++;
        VCHECK(known.count(r.GetKey()), "c37.select", what, "returned an address that was never added");
        auto pos = am->FindAddressEntry(r);
        VCHECK(pos.has_value(), "c37.select", what, "returned an address that is not in the tables");
        if (must_be_new) VCHECK(!pos->tried, "c37.select", what, "new_only selection returned a tried address");
        if (must_be_tried) VCHECK(pos->tried, "c37.select", what, "collision victim is not in the tried table");
        if (!nets.empty()) VCHECK(nets.count(r.GetNetwork()), "c37.select", what, "returned network", net_name(r.GetNetwork()), "which was not requested");
    }
    void op_select()
    {
        bool new_only = s.boolean();
        std::unordered_set<Network> nets;
        unsigned mask = s.chance(128) ? s.range<unsigned>(0, 127) : 0;
        for (unsigned i = 0; i < 7; ++i) if (mask & (1u << i)) nets.insert(NETS[i]);
        size_t avail = 0;
        if (nets.empty()) avail = new_only ? am->Size(std::nullopt, true) : am->Size();
        else for (Network n : nets) avail += new_only ? am->Size(n, true) : am->Size(n);
        auto [r, last_try] = am->Select(new_only, nets);
        check_selected(r, new_only, false, nets, "Select");
        st.steps++;
        VCHECK(r.IsValid() == (avail > 0), "c37.select", "Select returned", r.IsValid() ? "an address" : "nothing", "although", avail, "candidates exist; new_only", new_only);
        if (r.IsValid()) st.cls(new_only ? "select-new-only-hit" : "select-hit");
        st.note("Select new_only=", new_only, " nets=", mask, " -> ", r.IsValid() ? r.ToStringAddrPort() : "none");
        st.cls("op-select");
    }
    void op_getaddr()
    {
        size_t max_n = s.pick<size_t>({0, 1, 5, 23, 1000, 2500});
        size_t pct = s.pick<size_t>({0, 1, 23, 50, 100});
        std::optional<Network> net;
        if (s.chance(100)) net = NETS[s.range<unsigned>(1, 5)];
        bool filtered = s.boolean();
        size_t total = am->Size();
        auto v = am->GetAddr(max_n, pct, net, filtered);
        st.steps++;
        size_t bound = total;
        if (pct) bound = pct * total / 100;
        if (max_n) bound = std::min(bound, max_n);
        VCHECK(v.size() <= bound, "c37.getaddr", "GetAddr returned", v.size(), "addresses, limit", bound);
        std::set<Key> seen;
        for (const CAddress& a : v) {
            VCHECK(seen.insert(a.GetKey()).second, "c37.getaddr", "GetAddr returned an address twice");
            VCHECK(am->FindAddressEntry(a).has_value(), "c37.getaddr", "GetAddr returned an address that is not in the tables");
            if (net) VCHECK(a.GetNetClass() == *net, "c37.getaddr", "GetAddr returned network", net_name(a.GetNetClass()), "requested", net_name(*net));
        }
        if (!filtered && !net && !pct && !max_n) VCHECK(v.size() == total, "c37.getaddr", "unfiltered unlimited GetAddr returned", v.size(), "of", total);
        st.note("GetAddr -> ", v.size());
        st.cls("op-getaddr");
    }
    void op_collisions()
    {
        // the connection manager's routine: pick a collision victim, try it (fail), later resolve
        auto [victim, last_try] = am->SelectTriedCollision();
        check_selected(victim, false, true, {}, "SelectTriedCollision");
        if (victim.IsValid()) {
            st.cls("collision-victim-selected");
            unsigned how = s.range<unsigned>(0, 3);
            if (how == 0) {            // victim last succeeded > 4 h ago, fails its test now, > 60 s pass => evicted
                now += 4 * 3600 + 1 + s.range<int64_t>(0, 600); set_now();
                am->Attempt(victim, s.boolean(), t(now));
                now += 61 + s.range<int64_t>(0, 30);
            } else if (how == 1) {     // victim still alive => kept
                am->Good(victim, t(now));
                now += s.range<int64_t>(0, 600);
            } else if (how == 2) {     // nobody tested the victim; replacement window and test window both expire => evicted anyway
                now += 4 * 3600 + 40 * 60 + s.range<int64_t>(-2, 120);
            } else {                   // tested a moment ago: too early to decide
                am->Attempt(victim, false, t(now));
                now += s.range<int64_t>(0, 60);
            }
            set_now();
        }
        size_t tried_before = am->Size(std::nullopt, false), new_before = am->Size(std::nullopt, true);
        am->ResolveCollisions();
        if (victim.IsValid() && am->FindAddressEntry(victim).has_value() && !am->FindAddressEntry(victim)->tried) { n_evictions++; st.cls("tried-entry-evicted-to-new"); }
        (void)tried_before; (void)new_before;
        st.note("ResolveCollisions victim=", victim.IsValid());
        st.cls("op-collisions");
    }
    /** adopt=false: probe only (the reloaded copy is compared and discarded; its loader runs the internal consistency check) */
    void op_roundtrip(bool other_asmap, bool adopt = true)
    {
        auto before = dump(*am);
        DataStream ds;
        ds << *am;
        auto ngm2 = std::make_unique<NetGroupManager>(make_ngm(other_asmap ? !asmap : asmap));
        auto am2 = std::make_unique<AddrMan>(*ngm2, /*deterministic=*/true, /*consistency_check_ratio=*/ratio);
        st.steps++;
        try {
            ds >> *am2;
        } catch (const std::exception& e) {
            VCHECK(false, "c37.roundtrip", "reloading the address manager's own serialization failed:", e.what());
        }
        VCHECK(ds.empty(), "c37.roundtrip", "reload left", ds.size(), "unread bytes");
        auto after = dump(*am2);
        if (!other_asmap || !g_asmap_ok) {
            VCHECK(before.size() == after.size(), "c37.roundtrip", "slot count changed over a reload:", before.size(), "->", after.size());
            for (size_t i = 0; i < before.size(); ++i) {
                VCHECK(before[i].all() == after[i].all(), "c37.roundtrip", "slot", i, "differs after reload (tried", before[i].tried, "bucket", before[i].bucket, "pos", before[i].pos,
                       "mult", before[i].mult, "->", after[i].mult, "ntime", before[i].ntime, "->", after[i].ntime, "attempts", before[i].attempts, "->", after[i].attempts, ")");
            }
            for (Network n : NETS) VCHECK(am->Size(n, true) == am2->Size(n, true) && am->Size(n, false) == am2->Size(n, false), "c37.roundtrip", "Size(net,in_new) changed for", net_name(n));
            n_roundtrips++;
            st.cls("roundtrip-same-asmap");
            if (!before.empty()) st.cls("roundtrip-nonempty");
        } else {
            std::map<Key, const Entry*> old;
            for (const Entry& e : before) old[e.key] = &e;
            for (const Entry& e : after) {
                auto it = old.find(e.key);
                VCHECK(it != old.end(), "c37.reload-rebucket", "re-bucketing reload invented an address");
                VCHECK(it->second->stats() == e.stats(), "c37.reload-rebucket", "per-address statistics changed over a re-bucketing reload");
            }
            n_rebucket++;
            st.cls("reload-other-asmap");
            if (adopt) asmap = !asmap;
        }
        check_tables(*am2, after, known, st, "after-reload");
        if (adopt) {
            am = std::move(am2);   // destroy the old manager before its netgroup manager
            ngm = std::move(ngm2);
            st.cls("reload-adopted");
        } else {
            am2.reset();
        }
        st.note(other_asmap ? "reload(other asmap) " : "roundtrip ", before.size(), "->", after.size(), " slots");
    }
    void op_hammer()
    {
        // one address announced by many source groups with slowly increasing timestamps: drives the reference count towards its limit of 8
        CService svc = pool_addr(0, s.range<unsigned>(0, 3), s.range<unsigned>(0, 63), 0);
        unsigned n = 150 + s.range<unsigned>(0, 550);
        int64_t t0 = now - 20 * 3600;
        known.insert(svc.GetKey());
        remember(svc);
        for (unsigned i = 0; i < n; ++i) {
            CAddress a(svc, NODE_NETWORK);
            a.nTime = t(t0 + 60 * int64_t(i));
            CNetAddr src;
            if (i % 3 == 2) { std::array<uint8_t, 16> b{}; b[0] = 0x2a; b[1] = 0x02; b[2] = uint8_t(i >> 8); b[3] = uint8_t(i); b[15] = 1; src = ipv6(b); }
            else src = ipv4(uint8_t(12 + (i >> 8)), uint8_t(i), 3, 3);
            am->Add({a}, src, 0s);
        }
        auto pos = am->FindAddressEntry(CAddress(svc, NODE_NONE));
        int mult = pos && !pos->tried ? pos->multiplicity : 0;
        st.cls("op-hammer");
        if (mult >= 6) st.cls("hammer-mult>=6");
        if (mult == 8) st.cls("hammer-mult==8");
        st.note("hammer x", n, " -> multiplicity ", mult);
    }
};

} // namespace

VERIF_TARGET(c37_addrman, init_c37, 8, 900,
             "operation histories over a small colliding pool of IPv4/IPv6/Tor/I2P/CJDNS addresses and sources (Add batches with boundary timestamps and "
             "penalties, Good, Attempt, Connected, SetServices, collision select/resolve with mock-time jumps, Select, GetAddr, serialize->reload with same "
             "or other asmap, reference-count hammer); internal consistency check on every call (1/8 of cases) or at check points via probe reload; non-trivial = >=12 ops, both tables populated, >=1 same-asmap round "
             "trip of a non-empty manager and (an address with >=2 new-table references or a tried collision seen); distinct = op sequence + table sizes")
{
    World w(s, st);
    w.asmap = s.boolean();
    w.ratio = s.range<unsigned>(0, 7) == 1 ? 1 : 0;
    w.focus_kind = s.pick<unsigned>({0, 0, 1, 2, 4, 3});
    w.focus_group = s.range<unsigned>(0, 3);
    w.ngm = std::make_unique<NetGroupManager>(make_ngm(w.asmap));
    w.am = std::make_unique<AddrMan>(*w.ngm, /*deterministic=*/true, /*consistency_check_ratio=*/w.ratio);
    w.set_now();
    st.cls(w.ratio ? "internal-check-every-call" : "internal-check-at-checkpoints");
    const unsigned max_ops = w.ratio ? 60 : 400;
    st.cls(w.asmap && g_asmap_ok ? "asmap" : "no-asmap");
    unsigned max_mult = 0;
    bool hammered = false;
    while (!s.exhausted() && w.n_ops < max_ops) {
        unsigned op = s.range<unsigned>(0, 31);
        w.n_ops++;
        st.mix(op);
        if (op < 8) w.op_add();
        else if (op < 10) w.op_add_bulk();
        else if (op < 14) w.op_good();
        else if (op < 16) w.op_good_many();
        else if (op < 18) { CService a = w.gen_service(); w.am->Attempt(a, s.boolean(), w.t(w.gen_time_arg())); st.cls("op-attempt"); st.note("Attempt"); }
        else if (op < 19) { CService a = w.gen_service(); w.am->Connected(a, w.t(w.gen_time_arg())); st.cls("op-connected"); st.note("Connected"); }
        else if (op < 20) { CService a = w.gen_service(); w.am->SetServices(a, ServiceFlags(s.pick<uint64_t>({0, 1, 1033, 1 << 11}))); st.cls("op-setservices"); st.note("SetServices"); }
        else if (op < 23) w.op_collisions();
        else if (op < 25) w.op_select();
        else if (op < 26) w.op_getaddr();
        else if (op < 28) {
            w.now += s.pick<int64_t>({1, 61, 300, 40 * 60 + 1, 4 * 3600 + 1, 86400, 7 * 86400 + 1, 31 * 86400});
            if (w.now > 4000000000LL) w.now = 4000000000LL;
            w.set_now();
            st.cls("op-time-jump");
            st.note("time+");
        }
        else if (op < 29) w.op_roundtrip(false, /*adopt=*/true);
        else if (op < 30) w.op_roundtrip(true, /*adopt=*/s.boolean());
        else if (op < 31 && !hammered && !w.ratio && s.chance(60)) { w.op_hammer(); hammered = true; }
        else {
            // check point: own table invariants + probe reload (the loader runs the manager's internal consistency check)
            auto d = dump(*w.am);
            auto sm = check_tables(*w.am, d, w.known, st, "mid-history");
            max_mult = std::max(max_mult, sm.max_mult);
            w.op_roundtrip(false, /*adopt=*/false);
            st.cls("op-checkpoint");
        }
    }
    // final check point + final round trip
    auto d = dump(*w.am);
    Summary sm = check_tables(*w.am, d, w.known, st, "end-of-history");
    max_mult = std::max(max_mult, sm.max_mult);
    w.op_roundtrip(false, /*adopt=*/false);
    st.mix(uint64_t(sm.n_new)); st.mix(uint64_t(sm.n_tried));
    if (sm.n_new && sm.n_tried) st.cls("both-tables-populated");
    if (max_mult >= 2) st.cls("multi-reference-address");
    if (w.n_collisions_seen) st.cls("tried-collision-seen");
    st.note("end: new=", sm.n_new, " tried=", sm.n_tried, " max_mult=", max_mult, " roundtrips=", w.n_roundtrips, " rebucket=", w.n_rebucket, " collisions=", w.n_collisions_seen,
            " evictions=", w.n_evictions);
    st.nontrivial = w.n_ops >= 12 && sm.n_new > 0 && sm.n_tried > 0 && w.n_roundtrips >= 1 && (max_mult >= 2 || w.n_collisions_seen > 0);
    SetMockTime(0s);
}
