// Engine E1 driver: generate / replay / enumerate modes (and libFuzzer entry when VH_LIBFUZZER).
#include <engine/verif.h>

#include <fcntl.h>
#include <sys/mman.h>
#include <sys/stat.h>
#include <unistd.h>

#include <algorithm>
#include <chrono>
#include <cstdlib>
#include <cstring>
#include <filesystem>
#include <fstream>
#include <iostream>
#include <set>
#include <unordered_set>

namespace verif {

std::map<std::string, TargetInfo>& registry()
{
    static std::map<std::string, TargetInfo> r;
    return r;
}

static const char HEXCH[] = "0123456789abcdef";
std::string hex(const unsigned char* p, size_t n)
{
    std::string s;
    s.reserve(n * 2);
    for (size_t i = 0; i < n; ++i) { s.push_back(HEXCH[p[i] >> 4]); s.push_back(HEXCH[p[i] & 15]); }
    return s;
}
std::string hex(const std::vector<uint8_t>& v) { return hex(v.data(), v.size()); }

namespace {
struct Ctx {
    std::string mode;      // gen | replay | enumerate | fuzz
    std::string target;
    std::string outdir{"."};
    int worker{0};
    int nworkers{1};
    uint64_t seed{1};
    uint64_t cases{1000};
    double max_seconds{0};
    const uint8_t* cur{nullptr};
    size_t cur_len{0};
    uint64_t cur_index{0};
    int64_t enum_idx{-1};
    uint64_t enum_total{0};
    // aggregated stats
    uint64_t n_cases{0}, n_nontrivial{0}, n_steps{0};
    std::map<std::string, uint64_t> classes;       // total label counts
    std::map<std::string, uint64_t> class_cases;   // number of cases in which label occurred
    std::unordered_set<uint64_t> shapes;           // distinct shapes of non-trivial cases
    std::unordered_set<uint64_t> all_shapes;
    struct Sample { uint64_t index; size_t len; bool nontrivial; std::string desc; };
    std::vector<Sample> samples;
    std::chrono::steady_clock::time_point t0;
    std::string stopped_by{"cases"};
} g;

std::string json_escape(const std::string& s)
{
    std::string o;
    for (unsigned char c : s) {
        switch (c) {
        case '"': o += "\\\""; break;
        case '\\': o += "\\\\"; break;
        case '\n': o += "\\n"; break;
        case '\r': o += "\\r"; break;
        case '\t': o += "\\t"; break;
        default:
            if (c < 0x20 || c >= 0x7f) { char b[8]; snprintf(b, sizeof b, "\\u%04x", c); o += b; }
            else o.push_back(c);
        }
    }
    return o;
}

std::string tag() { return g.target + "-" + std::to_string(g.worker); }

void flush_stats()
{
    if (g.mode != "gen" && g.mode != "enumerate" && g.mode != "corpus") return;
    double wall = std::chrono::duration<double>(std::chrono::steady_clock::now() - g.t0).count();
    std::ofstream f(g.outdir + "/stats-" + tag() + ".json", std::ios::trunc);
    f << "{\"target\":\"" << g.target << "\",\"worker\":" << g.worker << ",\"mode\":\"" << g.mode << "\",\"seed\":" << g.seed
      << ",\"cases\":" << g.n_cases << ",\"nontrivial\":" << g.n_nontrivial << ",\"steps\":" << g.n_steps
      << ",\"distinct_nontrivial_shapes\":" << g.shapes.size() << ",\"distinct_shapes\":" << g.all_shapes.size()
      << ",\"enum_total\":" << g.enum_total << ",\"wall_s\":" << wall << ",\"stopped_by\":\"" << g.stopped_by << "\",\"classes\":{";
    bool first = true;
    for (auto& [k, v] : g.classes) { f << (first ? "" : ",") << "\"" << json_escape(k) << "\":" << v; first = false; }
    f << "},\"class_cases\":{";
    first = true;
    for (auto& [k, v] : g.class_cases) { f << (first ? "" : ",") << "\"" << json_escape(k) << "\":" << v; first = false; }
    f << "},\"samples\":[";
    first = true;
    for (auto& s : g.samples) {
        f << (first ? "" : ",") << "{\"index\":" << s.index << ",\"len\":" << s.len << ",\"nontrivial\":" << (s.nontrivial ? "true" : "false")
          << ",\"decoded\":\"" << json_escape(s.desc) << "\"}";
        first = false;
    }
    f << "]}\n";
    f.close();
    std::ofstream sf(g.outdir + "/shapes-" + tag() + ".bin", std::ios::trunc | std::ios::binary);
    for (uint64_t h : g.shapes) sf.write(reinterpret_cast<const char*>(&h), 8);
}

// splitmix64 / xoshiro256** -- every random choice of the generate tier comes from (seed, target, case index)
struct Rng {
    uint64_t s[4];
    static uint64_t sm(uint64_t& x) { uint64_t z = (x += 0x9e3779b97f4a7c15ULL); z = (z ^ (z >> 30)) * 0xbf58476d1ce4e5b9ULL; z = (z ^ (z >> 27)) * 0x94d049bb133111ebULL; return z ^ (z >> 31); }
    explicit Rng(uint64_t seed) { for (auto& v : s) v = sm(seed); }
    static uint64_t rotl(uint64_t x, int k) { return (x << k) | (x >> (64 - k)); }
    uint64_t next() { uint64_t r = rotl(s[1] * 5, 7) * 9, t = s[1] << 17; s[2] ^= s[0]; s[3] ^= s[1]; s[1] ^= s[2]; s[0] ^= s[3]; s[2] ^= t; s[3] = rotl(s[3], 45); return r; }
    uint64_t below(uint64_t n) { return n ? next() % n : 0; }
};

uint64_t fnv(const std::string& s) { uint64_t h = 0xcbf29ce484222325ULL; for (unsigned char c : s) { h ^= c; h *= 0x100000001b3ULL; } return h; }

std::vector<uint8_t> gen_case(const TargetInfo& t, uint64_t seed, uint64_t i)
{
    Rng r(seed * 0x9e3779b97f4a7c15ULL ^ fnv(t.name) ^ (i * 0xd1342543de82ef95ULL + 1));
    // cyclic size ramp (period 100), quadratic so that small cases dominate
    double f = double((i % 100) + 1) / 100.0;
    size_t len = t.min_len + size_t(double(t.max_len - t.min_len) * f * f);
    std::vector<uint8_t> b(len);
    static const uint8_t dict[] = {0x00, 0xff, 0x01, 0x7f, 0x80, 0xfe, 0x02, 0x40};
    unsigned mode = r.below(100);
    if (mode < 50) {
        for (auto& c : b) c = uint8_t(r.next());
    } else if (mode < 75) {
        for (auto& c : b) c = (r.below(100) < 30) ? dict[r.below(sizeof dict)] : uint8_t(r.next());
    } else if (mode < 90) {
        for (auto& c : b) c = (r.below(100) < 60) ? uint8_t(r.below(4)) : uint8_t(r.next());
    } else {
        for (auto& c : b) c = uint8_t(r.next());
        // repeated segments provoke duplicates
        if (len >= 16) {
            for (int k = 0; k < 4; ++k) {
                size_t seg = 1 + r.below(std::min<size_t>(len / 4, 64));
                size_t from = r.below(len - seg), to = r.below(len - seg);
                memmove(b.data() + to, b.data() + from, seg);
            }
        }
    }
    return b;
}

void run_one(const TargetInfo& t, const uint8_t* d, size_t n, Stats& st)
{
    Src src(d, n);
    t.fn(src, st);
}

void account(const TargetInfo& t, const uint8_t* d, size_t n, uint64_t index, Stats& st)
{
    g.n_cases++;
    g.n_steps += st.steps;
    for (auto& [k, v] : st.classes) { g.classes[k] += v; g.class_cases[k]++; }
    g.all_shapes.insert(st.shape);
    if (st.nontrivial) {
        g.n_nontrivial++;
        g.shapes.insert(st.shape);
    }
    size_t nt_samples = 0;
    for (auto& s : g.samples) nt_samples += s.nontrivial;
    bool take = (g.samples.size() < 2) || (st.nontrivial && nt_samples < 4);
    if (take && g.samples.size() < 6) {
        Stats st2;
        st2.want_sample = true;
        run_one(t, d, n, st2);
        std::string desc = st2.sample.empty() ? ("bytes=" + hex(d, std::min<size_t>(n, 64))) : st2.sample;
        g.samples.push_back({index, n, st2.nontrivial, desc});
    }
}
} // namespace

int64_t enum_index() { return g.enum_idx; }
void set_enum_total(uint64_t total) { g.enum_total = total; }

[[noreturn]] void fail(const std::string& oracle_id, const std::string& msg)
{
    std::cerr << "ORACLE-FAIL " << oracle_id << " " << msg << std::endl;
    if (g.mode == "gen" || g.mode == "enumerate") {
        std::ofstream f(g.outdir + "/fail-" + tag() + ".bin", std::ios::trunc | std::ios::binary);
        if (g.cur) f.write(reinterpret_cast<const char*>(g.cur), g.cur_len);
        f.close();
        std::ofstream t(g.outdir + "/fail-" + tag() + ".txt", std::ios::trunc);
        t << oracle_id << "\n" << msg << "\ncase_index=" << g.cur_index << " enum_index=" << g.enum_idx << "\n";
        t.close();
        g.stopped_by = "failure";
        flush_stats();
    }
#ifdef VH_LIBFUZZER
    if (g.mode == "fuzz") abort();
#endif
    std::cout.flush();
    _exit(77);
}

} // namespace verif

using namespace verif;

#ifdef VH_LIBFUZZER
static const TargetInfo* g_fuzz_target{nullptr};
extern "C" int LLVMFuzzerInitialize(int*, char***)
{
    const char* t = getenv("VH_TARGET");
    if (!t || !registry().count(t)) { std::cerr << "VH_TARGET not set or unknown\n"; exit(2); }
    g_fuzz_target = &registry()[t];
    g.mode = "fuzz";
    g.target = t;
    if (g_fuzz_target->init) g_fuzz_target->init();
    return 0;
}
extern "C" int LLVMFuzzerTestOneInput(const uint8_t* data, size_t size)
{
    Stats st;
    g.cur = data; g.cur_len = size;
    Src src(data, size);
    g_fuzz_target->fn(src, st);
    return 0;
}
#else
static int usage()
{
    std::cerr << "usage: vh --list | --target T (--gen --seed S --worker W --nworkers K --cases N [--max-seconds T] --out DIR | --replay FILE | --enumerate --worker W --nworkers K --out DIR)\n";
    return 2;
}

int main(int argc, char** argv)
{
    std::string replay_file, corpus_dir;
    bool verbose = true, replay_enum = false;
    for (int i = 1; i < argc; ++i) {
        std::string a = argv[i];
        auto next = [&]() -> std::string { if (i + 1 >= argc) { usage(); exit(2); } return argv[++i]; };
        if (a == "--list") { for (auto& [k, v] : registry()) std::cout << k << "\t" << v.min_len << "\t" << v.max_len << "\t" << v.rule << "\n"; return 0; }
        else if (a == "--target") g.target = next();
        else if (a == "--gen") g.mode = "gen";
        else if (a == "--enumerate") g.mode = "enumerate";
        else if (a == "--replay") { g.mode = "replay"; replay_file = next(); }
        else if (a == "--corpus") { g.mode = "corpus"; corpus_dir = next(); }
        else if (a == "--replay-enum") { g.mode = "replay"; replay_enum = true; replay_file = next(); }
        else if (a == "--seed") g.seed = std::stoull(next());
        else if (a == "--worker") g.worker = std::stoi(next());
        else if (a == "--nworkers") g.nworkers = std::stoi(next());
        else if (a == "--cases") g.cases = std::stoull(next());
        else if (a == "--max-seconds") g.max_seconds = std::stod(next());
        else if (a == "--out") g.outdir = next();
        else if (a == "--quiet") verbose = false;
        else return usage();
    }
    if (g.mode.empty() || !registry().count(g.target)) return usage();
    const TargetInfo& t = registry()[g.target];
    g.t0 = std::chrono::steady_clock::now();
    if (t.init) t.init();

    if (g.mode == "replay") {
        std::ifstream f(replay_file, std::ios::binary);
        if (!f) { std::cerr << "cannot open " << replay_file << "\n"; return 2; }
        std::vector<uint8_t> b((std::istreambuf_iterator<char>(f)), std::istreambuf_iterator<char>());
        g.cur = b.data(); g.cur_len = b.size();
        Stats st;
        st.want_sample = true;
        if (replay_enum) {
            if (b.size() != 8) { std::cerr << "enum replay file must hold an 8-byte index\n"; return 2; }
            memcpy(&g.enum_idx, b.data(), 8);
            run_one(t, b.data(), 0, st);
        } else {
            run_one(t, b.data(), b.size(), st);
        }
        if (verbose) {
            std::cout << "DECODED " << st.sample << "\n";
            std::cout << "NONTRIVIAL " << (st.nontrivial ? 1 : 0) << " steps=" << st.steps << " shape=" << st.shape << "\n";
        }
        std::cout << "REPLAY-OK\n";
        return 0;
    }

    if (g.mode == "corpus") {
        // measure a corpus (e.g. the one a libFuzzer campaign produced): every file is one case, accounted like generated cases
        std::vector<std::string> files;
        for (auto& e : std::filesystem::directory_iterator(corpus_dir)) if (e.is_regular_file()) files.push_back(e.path().string());
        std::sort(files.begin(), files.end());
        g.mode = "gen"; // stats/fail files are written as in gen mode
        uint64_t i = 0;
        for (auto& fn : files) {
            if ((i++ % g.nworkers) != uint64_t(g.worker)) continue;
            std::ifstream f(fn, std::ios::binary);
            std::vector<uint8_t> b((std::istreambuf_iterator<char>(f)), std::istreambuf_iterator<char>());
            g.cur = b.data(); g.cur_len = b.size(); g.cur_index = i;
            Stats st;
            run_one(t, b.data(), b.size(), st);
            account(t, b.data(), b.size(), i, st);
        }
        g.stopped_by = "corpus";
        flush_stats();
        return 0;
    }

    // current-case file: survives abort()/sanitizer death, so the failing input is never lost
    size_t map_len = 8 + std::max<size_t>(t.max_len, 8);
    std::string cur_path = g.outdir + "/current-" + tag() + ".bin";
    int fd = open(cur_path.c_str(), O_RDWR | O_CREAT | O_TRUNC, 0644);
    uint8_t* map = nullptr;
    if (fd >= 0 && ftruncate(fd, map_len) == 0) {
        void* p = mmap(nullptr, map_len, PROT_READ | PROT_WRITE, MAP_SHARED, fd, 0);
        if (p != MAP_FAILED) map = static_cast<uint8_t*>(p);
    }

    if (g.mode == "gen") {
        for (uint64_t i = g.worker; i < g.cases; i += g.nworkers) {
            if (g.max_seconds > 0 && std::chrono::duration<double>(std::chrono::steady_clock::now() - g.t0).count() > g.max_seconds) { g.stopped_by = "time"; break; }
            std::vector<uint8_t> b = gen_case(t, g.seed, i);
            if (map) { uint64_t n = b.size(); memcpy(map, &n, 8); memcpy(map + 8, b.data(), b.size()); }
            g.cur = b.data(); g.cur_len = b.size(); g.cur_index = i;
            Stats st;
            run_one(t, b.data(), b.size(), st);
            account(t, b.data(), b.size(), i, st);
            if ((g.n_cases & 0x3ff) == 0) flush_stats();
        }
    } else { // enumerate: the target derives its case from enum_index(); total announced via set_enum_total()
        uint8_t zero[8] = {0};
        for (uint64_t i = g.worker; g.enum_total == 0 || i < g.enum_total; i += g.nworkers) {
            if (g.max_seconds > 0 && std::chrono::duration<double>(std::chrono::steady_clock::now() - g.t0).count() > g.max_seconds) { g.stopped_by = "time"; break; }
            g.enum_idx = int64_t(i);
            if (map) { uint64_t n = 8; memcpy(map, &n, 8); memcpy(map + 8, &i, 8); }
            g.cur = reinterpret_cast<const uint8_t*>(&g.enum_idx); g.cur_len = 8; g.cur_index = i;
            Stats st;
            run_one(t, zero, 0, st);
            if (g.enum_total == 0) { std::cerr << "enumerate target did not call set_enum_total\n"; return 2; }
            if (i >= g.enum_total) break;
            account(t, zero, 0, i, st);
            if ((g.n_cases & 0x3ff) == 0) flush_stats();
        }
        if (g.stopped_by == "cases") g.stopped_by = "exhausted";
    }
    flush_stats();
    if (map) { uint64_t n = 0; memcpy(map, &n, 8); }
    return 0;
}
#endif
