// C20 — A UTXO snapshot is used only if it matches its commitment.
//
// Code under test: ChainstateManager::ActivateSnapshot / PopulateAndValidateSnapshot / MaybeValidateSnapshot (validation.cpp),
// SnapshotMetadata (node/utxo_snapshot.h), Coin / script / amount compression as used by the loader, ComputeUTXOStats(HASH_SERIALIZED).
// Setting: the deterministic 200-block regtest chain of test/util/mining.h CreateBlockChain(), for which chainparams carry an assumeutxo
// commitment at height 200. Once per process a source node connects the chain and writes a genuine snapshot with the node's own writer
// (CreateUTXOSnapshot). Per case a FRESH node learns the 200 headers (optionally the first k blocks in full) and is offered up to 8
// mutated snapshot files; the case ends with the first successful activation.
// Oracle: an INDEPENDENT decoder of the snapshot format written here (metadata; per-txid groups; CompactSize / VARINT / amount
// decompression / script decompression from the format description). It decodes the mutated file to `malformed` or to a coin SET
// (outpoint -> height, coinbase, amount, script; first occurrence wins, as in a map). Claim (one-directional, as the statement):
//   malformed, or set != genuine set, or base hash != the committed block, or the node-state precondition broken
//   (base header unknown / on an invalidated chain / competing header chain with more work / active tip has at least as much work /
//   non-empty mempool / a snapshot already active)   ==>   ActivateSnapshot fails AND the node is untouched
//   (one chainstate, same tip, same hash_serialized of the coins DB, no snapshot chainstate dir, next block still connects).
// If the decoded set equals the genuine set (reordered groups, duplicated coin + count, trailing-free re-encodings) nothing is claimed.
// Positive control: the unmodified file on a node in the right state activates (class "activated"; a floor in props guards against a
// generator that never produces an acceptable case). Background validation: after activation the remaining blocks are delivered;
// completion must be reported as validated only when the harness' own replay of the chain gives the decoded coin set (it does for the
// genuine chain), and a background chainstate whose UTXO set was tampered with (extra coin, as the unit test does) must NOT validate.
// Left out: the height-110 (TestChain100Setup) and height-299 (functional test) commitments — only the height-200 chain is reproducible
// without a second test fixture; on-disk restart of a node with a snapshot chainstate; type 4/5 (uncompressed key) script decompression
// in the reference decoder (treated as an opaque distinct script: the genuine chain has none).
#include <engine/verif.h>
#include <kits/chainsim.h>

#include <kernel/coinstats.h>
#include <node/utxo_snapshot.h>
#include <rpc/blockchain.h>
#include <streams.h>
#include <test/util/mining.h>
#include <test/util/script.h>
#include <test/util/txmempool.h>
#include <univalue.h>
#include <util/fs.h>
#include <util/time.h>

#include <cstdio>
#include <map>
#include <optional>

using namespace verif;

namespace c20ref {

struct DCoin {
    uint32_t height{0};
    bool coinbase{false};
    uint64_t amount{0};
    std::vector<uint8_t> script; //!< decoded script bytes; for special types 4/5: marker 0xfe,type,x[32] (opaque)
    bool operator==(const DCoin& o) const { return height == o.height && coinbase == o.coinbase && amount == o.amount && script == o.script; }
};
using Key = std::pair<std::vector<uint8_t>, uint32_t>; //!< txid bytes, vout
using CoinSet = std::map<Key, DCoin>;

/** field map of one decoded file: byte ranges the mutator can aim at */
struct Field { size_t off, len; int kind; size_t coin; }; // kind: 0 magic 1 version 2 netmagic 3 basehash 4 count 5 txid 6 groupcount 7 vout 8 code 9 amount 10 scriptsize 11 scriptbody

struct Decoded {
    bool ok{false};
    std::string why;
    std::vector<uint8_t> base_hash;
    uint64_t count{0};
    CoinSet set;
    std::vector<Field> fields;
    std::vector<std::pair<size_t, size_t>> groups; //!< byte range of every txid group
    std::vector<std::pair<size_t, size_t>> coins;  //!< byte range of every coin record (vout..script)
    std::vector<size_t> coin_group;                //!< group index of each coin
};

struct Reader {
    const std::vector<uint8_t>& d;
    size_t p{0};
    bool fail{false};
    explicit Reader(const std::vector<uint8_t>& v) : d(v) {}
    uint8_t U8() { if (p >= d.size()) { fail = true; return 0; } return d[p++]; }
    uint64_t LE(int n) { uint64_t v = 0; for (int i = 0; i < n; ++i) v |= uint64_t(U8()) << (8 * i); return v; }
    std::vector<uint8_t> Bytes(size_t n) { if (d.size() - p < n) { fail = true; p = d.size(); return {}; } std::vector<uint8_t> r(d.begin() + p, d.begin() + p + n); p += n; return r; }
    /** CompactSize as the P2P format defines it: canonical encodings only, values above 0x02000000 are rejected by readers of sizes */
    uint64_t CompactSize()
    {
        uint8_t c = U8();
        uint64_t v;
        if (c < 253) v = c;
        else if (c == 253) { v = LE(2); if (v < 253) fail = true; }
        else if (c == 254) { v = LE(4); if (v < 0x10000) fail = true; }
        else { v = LE(8); if (v < 0x100000000ULL) fail = true; }
        if (v > 0x02000000) fail = true;
        return v;
    }
    /** VARINT (base-128, MSB first, each continuation adds 1); overflow of the target width is malformed */
    uint64_t VarInt(int bits)
    {
        const uint64_t maxv = bits == 64 ? ~uint64_t{0} : ((uint64_t{1} << bits) - 1);
        uint64_t n = 0;
        while (true) {
            uint8_t c = U8();
            if (fail) return 0;
            if (n > (maxv >> 7)) { fail = true; return 0; }
            n = (n << 7) | (c & 0x7f);
            if (c & 0x80) {
                if (n == maxv) { fail = true; return 0; }
                n++;
            } else {
                return n;
            }
        }
    }
};

/** amount decompression from the format description (compressor.cpp comment): x=0 -> 0; x-1 = 10*(9n+d-1)+e for e<9, = 10*(n-1)+9 for e=9 */
uint64_t DecompressAmount(uint64_t x)
{
    if (x == 0) return 0;
    x--;
    int e = int(x % 10);
    x /= 10;
    uint64_t n;
    if (e < 9) {
        int dgt = int(x % 9) + 1;
        x /= 9;
        n = x * 10 + uint64_t(dgt);
    } else {
        n = x + 1;
    }
    while (e) { n *= 10; e--; }
    return n;
}

Decoded Decode(const std::vector<uint8_t>& file, int base_height)
{
    Decoded D;
    Reader r(file);
    auto bad = [&](const std::string& w) { D.ok = false; D.why = w; return D; };
    static const uint8_t MAGIC[5] = {'u', 't', 'x', 'o', 0xff};
    static const uint8_t REGTEST_MAGIC[4] = {0xfa, 0xbf, 0xb5, 0xda};
    D.fields.push_back({r.p, 5, 0, 0});
    auto m = r.Bytes(5);
    if (r.fail || memcmp(m.data(), MAGIC, 5) != 0) return bad("magic");
    D.fields.push_back({r.p, 2, 1, 0});
    uint64_t ver = r.LE(2);
    if (r.fail || ver != 2) return bad("version");
    D.fields.push_back({r.p, 4, 2, 0});
    auto nm = r.Bytes(4);
    if (r.fail || memcmp(nm.data(), REGTEST_MAGIC, 4) != 0) return bad("network");
    D.fields.push_back({r.p, 32, 3, 0});
    D.base_hash = r.Bytes(32);
    D.fields.push_back({r.p, 8, 4, 0});
    D.count = r.LE(8);
    if (r.fail) return bad("metadata truncated");
    uint64_t left = D.count;
    size_t coin_idx = 0;
    while (left > 0) {
        size_t g0 = r.p;
        D.fields.push_back({r.p, 32, 5, coin_idx});
        auto txid = r.Bytes(32);
        D.fields.push_back({r.p, 1, 6, coin_idx});
        uint64_t per = r.CompactSize();
        if (r.fail) return bad("group header");
        if (per > left) return bad("group count exceeds metadata count");
        for (uint64_t i = 0; i < per; ++i) {
            size_t c0 = r.p;
            D.fields.push_back({r.p, 1, 7, coin_idx});
            uint64_t vout = r.CompactSize();
            D.fields.back().len = r.p - D.fields.back().off;
            D.fields.push_back({r.p, 1, 8, coin_idx});
            uint64_t code = r.VarInt(32);
            D.fields.back().len = r.p - D.fields.back().off;
            D.fields.push_back({r.p, 1, 9, coin_idx});
            uint64_t camount = r.VarInt(64);
            D.fields.back().len = r.p - D.fields.back().off;
            D.fields.push_back({r.p, 1, 10, coin_idx});
            uint64_t nsize = r.VarInt(32);
            D.fields.back().len = r.p - D.fields.back().off;
            if (r.fail) return bad("coin header");
            DCoin c;
            c.height = uint32_t(code >> 1);
            c.coinbase = code & 1;
            c.amount = DecompressAmount(camount);
            size_t body0 = r.p;
            if (nsize < 6) {
                size_t len = (nsize == 0 || nsize == 1) ? 20 : 32;
                auto b = r.Bytes(len);
                if (r.fail) return bad("special script truncated");
                if (nsize == 0) { c.script = {0x76, 0xa9, 20}; c.script.insert(c.script.end(), b.begin(), b.end()); c.script.push_back(0x88); c.script.push_back(0xac); }
                else if (nsize == 1) { c.script = {0xa9, 20}; c.script.insert(c.script.end(), b.begin(), b.end()); c.script.push_back(0x87); }
                else if (nsize <= 3) { c.script = {33, uint8_t(nsize)}; c.script.insert(c.script.end(), b.begin(), b.end()); c.script.push_back(0xac); }
                else { c.script = {0xfe, uint8_t(nsize)}; c.script.insert(c.script.end(), b.begin(), b.end()); } // opaque (needs point decompression)
            } else {
                uint64_t len = nsize - 6;
                if (len > 10000) { // oversized scripts are replaced by a single OP_RETURN and skipped
                    if (file.size() - r.p < len) return bad("oversized script truncated");
                    r.p += len;
                    c.script = {0x6a};
                } else {
                    c.script = r.Bytes(len);
                    if (r.fail) return bad("script truncated");
                }
            }
            D.fields.push_back({body0, r.p - body0, 11, coin_idx});
            // loader's own range checks (part of "malformed")
            if (c.height > uint32_t(base_height)) return bad("coin height above the base height");
            if (vout >= 0xffffffffULL) return bad("vout out of range");
            if (c.amount > 2100000000000000ULL) return bad("amount out of range");
            D.set.emplace(Key{txid, uint32_t(vout)}, c); // first occurrence wins
            D.coins.emplace_back(c0, r.p);
            D.coin_group.push_back(D.groups.size());
            ++coin_idx;
            --left;
        }
        D.groups.emplace_back(g0, r.p);
    }
    if (r.p != file.size()) return bad("trailing data");
    D.ok = true;
    return D;
}

} // namespace c20ref

namespace {

struct Fixture {
    std::vector<std::shared_ptr<CBlock>> chain; //!< heights 1..200
    std::vector<uint8_t> genuine;               //!< snapshot file written by the node at height 200
    c20ref::Decoded decoded;                    //!< its decoding
    uint256 base_hash;
    uint256 utxo_hash_200;
};
Fixture* g_fix{nullptr};

std::vector<uint8_t> ReadFile(const fs::path& p)
{
    std::vector<uint8_t> out;
    FILE* f = fsbridge::fopen(p, "rb");
    if (!f) return out;
    uint8_t buf[65536];
    size_t n;
    while ((n = fread(buf, 1, sizeof(buf), f)) > 0) out.insert(out.end(), buf, buf + n);
    fclose(f);
    return out;
}
void WriteFile(const fs::path& p, const std::vector<uint8_t>& d)
{
    FILE* f = fsbridge::fopen(p, "wb");
    assert(f);
    if (!d.empty()) { size_t w = fwrite(d.data(), 1, d.size(), f); assert(w == d.size()); }
    fclose(f);
}

void init()
{
    static Fixture fix;
    SetMockTime(1700000000);
    fix.chain = CreateBlockChain(200, *CreateChainParams(ArgsManager{}, ChainType::REGTEST));
    {
        ChainSim src{ChainSimOpts{}};
        for (auto& b : fix.chain) {
            src.Register(b);
            auto d = src.Deliver(b);
            assert(d.processed);
        }
        assert(src.TipHeight() == 200);
        fix.base_hash = src.TipHash();
        fix.utxo_hash_200 = src.UtxoHash();
        fs::path path = src.m_args.GetDataDirNet() / "genuine_snapshot.dat";
        {
            AutoFile out{fsbridge::fopen(path, "wb")};
            CreateUTXOSnapshot(src.m_node, src.chainstate(), std::move(out), path, path);
        }
        fix.genuine = ReadFile(path);
        // independent model of the UTXO set at height 200 (own replay) == own decoding of the node-written file
        RefReplay rep = src.ledger.Replay(fix.base_hash);
        assert(rep.ok);
        fix.decoded = c20ref::Decode(fix.genuine, 200);
        if (!fix.decoded.ok) { fprintf(stderr, "c20 init: own decoder rejects the genuine snapshot: %s\n", fix.decoded.why.c_str()); abort(); }
        bool same = fix.decoded.set.size() == rep.utxo.size();
        for (auto& [op, c] : rep.utxo) {
            c20ref::Key k{std::vector<uint8_t>(op.hash.ToUint256().begin(), op.hash.ToUint256().end()), op.n};
            auto it = fix.decoded.set.find(k);
            if (it == fix.decoded.set.end() || it->second.height != uint32_t(c.height) || it->second.coinbase != c.coinbase || it->second.amount != uint64_t(c.value) ||
                it->second.script != std::vector<uint8_t>(c.spk.begin(), c.spk.end())) same = false;
        }
        if (!same) { fprintf(stderr, "c20 init: decoded genuine snapshot differs from the model UTXO set at height 200\n"); abort(); }
        if (memcmp(fix.decoded.base_hash.data(), fix.base_hash.data(), 32) != 0) abort();
    }
    g_fix = &fix;
}

void PutLE(std::vector<uint8_t>& v, size_t off, uint64_t x, int n) { for (int i = 0; i < n; ++i) v[off + i] = uint8_t(x >> (8 * i)); }

} // namespace

VERIF_TARGET(c20_snapshot, init, 48, 400,
             "fresh regtest node that knows the 200 headers of the deterministic CreateBlockChain() chain (k full blocks connected, k generated; sometimes a state "
             "that forbids activation: base header unknown, base on an invalidated chain, competing heavier header chain, active tip with >= work, non-empty mempool); "
             "up to 8 snapshot files per node, each the genuine node-written height-200 snapshot with one generated mutation located by the harness' own decoder "
             "(metadata magic/version/network/base hash/count; txid; group count; vout; height/coinbase code; compressed amount; script size/body; drop/duplicate/move "
             "coin; swap groups; byte flip; truncate; append) or unmodified; oracle = own decoding: malformed or different coin set or bad node state => activation "
             "fails and node untouched; after a successful activation the rest of the chain is delivered and background validation must complete (or, with a tampered "
             "background UTXO set, must not). non-trivial = some mutation kept the file parseable (coin-level change) and was rejected; distinct = mutation kinds + state")
{
    SetMockTime(1700000000);
    Fixture& F = *g_fix;
    ChainSimOpts o;
    auto simp = std::make_unique<ChainSim>(o);
    ChainSim& sim = *simp;
    ChainstateManager& cm = sim.chainman();
    const fs::path datadir = sim.m_args.GetDataDirNet();

    // ---- node state
    unsigned state_kind = s.chance(80) ? s.range<unsigned>(1, 5) : 0; // 0 = acceptable state
    unsigned k = 0; // full blocks connected
    unsigned known_headers = 200;
    if (state_kind == 1) known_headers = s.range<unsigned>(0, 199); // base header unknown
    if (state_kind == 4) k = 200;                                    // active tip has the same work as the base
    else k = s.chance(100) ? s.range<unsigned>(0, std::min(known_headers, 199u)) : 0;
    {
        std::vector<CBlockHeader> hdrs;
        for (unsigned i = 0; i < known_headers; ++i) hdrs.push_back(static_cast<const CBlockHeader&>(*F.chain[i]));
        BlockValidationState st2;
        if (!hdrs.empty()) { bool ok = cm.ProcessNewBlockHeaders(hdrs, true, st2); VCHECK(ok, "c20.model", "headers rejected", st2.ToString()); }
        for (unsigned i = 0; i < known_headers; ++i) sim.Register(F.chain[i]);
        for (unsigned i = 0; i < k; ++i) { auto d = sim.Deliver(F.chain[i]); VCHECK(d.processed && sim.TipHash() == F.chain[i]->GetHash(), "c20.model", "chain block rejected at", i + 1); }
    }
    bool state_ok = true;
    std::string state_why;
    if (state_kind == 1) { state_ok = false; state_why = "base header unknown"; }
    if (state_kind == 4) { state_ok = false; state_why = "active tip has as much work as the base"; }
    if (state_kind == 2) { // base on an invalidated chain: invalidate a connected block at height <= k (needs k >= 1)
        if (k >= 1) {
            unsigned inv = s.range<unsigned>(1, k);
            CBlockIndex* pi;
            { LOCK(cs_main); pi = cm.m_blockman.LookupBlockIndex(F.chain[inv - 1]->GetHash()); }
            BlockValidationState st2;
            sim.chainstate().InvalidateBlock(st2, pi);
            sim.SyncSignals();
            state_ok = false; state_why = "base block descends from an invalidated block";
            k = inv - 1;
        } else state_kind = 0;
    }
    if (state_kind == 3) { // competing header chain with more work that does not contain the base
        unsigned fork_h = s.range<unsigned>(0, 199); // fork after height fork_h
        uint256 parent = fork_h == 0 ? sim.ledger.genesis : F.chain[fork_h - 1]->GetHash();
        std::vector<CBlockHeader> hdrs;
        for (unsigned i = fork_h; i < 201; ++i) {
            BlockSpec spec;
            spec.prev = parent;
            spec.extra_nonce = 7000 + i;
            auto b = sim.Build(spec);
            hdrs.push_back(static_cast<const CBlockHeader&>(*b));
            parent = b->GetHash();
        }
        BlockValidationState st2;
        bool ok = cm.ProcessNewBlockHeaders(hdrs, true, st2);
        VCHECK(ok, "c20.model", "fork headers rejected", st2.ToString());
        state_ok = false; state_why = "a header chain with more work does not contain the base block";
    }
    if (state_kind == 5) { // non-empty mempool
        CMutableTransaction mtx;
        mtx.vin.emplace_back(COutPoint(Txid::FromUint256(uint256::ONE), 0));
        mtx.vout.emplace_back(1000, P2WSH_OP_TRUE);
        TestMemPoolEntryHelper entry;
        LOCK2(cs_main, sim.mempool().cs);
        TryAddToMempool(sim.mempool(), entry.FromTx(mtx));
        if (sim.mempool().size() > 0) { state_ok = false; state_why = "mempool not empty"; }
    }
    st.cls(state_ok ? "state-ok" : "state-forbids");
    st.mix(uint64_t(state_kind)); st.mix(uint64_t(k / 50));
    st.note("state=", state_kind, " headers=", known_headers, " k=", k);

    const uint256 tip_before = sim.TipHash();
    const uint256 utxo_before = sim.UtxoHash();
    auto untouched = [&](const char* when) {
        st.steps++;
        size_t ncs = WITH_LOCK(cs_main, return cm.m_chainstates.size());
        VCHECK(ncs == 1, "c20.node-touched", when, "chainstates", ncs);
        bool from_snap = WITH_LOCK(cs_main, return cm.CurrentChainstate().m_from_snapshot_blockhash.has_value());
        VCHECK(!from_snap, "c20.node-touched", when, "active chainstate claims to come from a snapshot");
        VCHECK(sim.TipHash() == tip_before, "c20.node-touched", when, "active tip changed");
        VCHECK(sim.UtxoHash() == utxo_before, "c20.node-touched", when, "hash_serialized of the active coins DB changed");
        VCHECK(!node::FindAssumeutxoChainstateDir(datadir).has_value(), "c20.node-touched", when, "snapshot chainstate dir left behind");
        VCHECK(sim.m_node.exit_status.load() == 0, "c20.node-touched", when, "fatal error raised");
    };

    // ---- attempts
    unsigned attempts = s.range<unsigned>(1, 8);
    bool activated = false, parseable_rejected = false;
    for (unsigned a = 0; a < attempts && !activated; ++a) {
        std::vector<uint8_t> file = F.genuine;
        const c20ref::Decoded& G = F.decoded;
        unsigned mk = s.exhausted() ? 0 : s.range<unsigned>(0, 19);
        std::string desc = "genuine";
        auto pick_field = [&](int kind) -> const c20ref::Field* {
            std::vector<const c20ref::Field*> v;
            for (auto& f : G.fields) if (f.kind == kind) v.push_back(&f);
            return v.empty() ? nullptr : v[s.index(v.size())];
        };
        switch (mk) {
        case 0: break; // unmodified
        case 1: { auto f = pick_field(int(s.range<unsigned>(0, 2))); size_t o2 = f->off + s.index(f->len); file[o2] ^= uint8_t(1u << s.index(8)); desc = "metadata magic/version/network bit"; break; }
        case 2: { // base hash: random bit / hash of another block of the chain (not committed)
            auto f = pick_field(3);
            if (s.boolean()) { file[f->off + s.index(32)] ^= uint8_t(1u << s.index(8)); desc = "base hash bit"; }
            else { unsigned h = s.range<unsigned>(1, 199); memcpy(&file[f->off], F.chain[h - 1]->GetHash().data(), 32); desc = "base hash := block " + std::to_string(h); }
            break; }
        case 3: { auto f = pick_field(4); int64_t d = int64_t(s.pick<int>({-1, 1, 2, -2, 1000})); PutLE(file, f->off, uint64_t(int64_t(G.count) + d), 8); desc = "coin count " + std::to_string(d); break; }
        case 4: { auto f = pick_field(5); file[f->off + s.index(32)] ^= uint8_t(1u << s.index(8)); desc = "txid bit of coin " + std::to_string(f->coin); break; }
        case 5: { auto f = pick_field(6); file[f->off] = uint8_t(s.pick<int>({0, 2, 3, 252})); desc = "group count of coin " + std::to_string(f->coin); break; }
        case 6: { auto f = pick_field(7); file[f->off] = uint8_t(s.range<unsigned>(1, 252)); desc = "vout of coin " + std::to_string(f->coin); break; }
        case 7: { auto f = pick_field(8); file[f->off] ^= 1; desc = "coinbase flag of coin " + std::to_string(f->coin); break; }
        case 8: { auto f = pick_field(8); file[f->off + s.index(f->len)] ^= uint8_t(2u << s.index(5)); desc = "height of coin " + std::to_string(f->coin); break; }
        case 9: { auto f = pick_field(9); file[f->off + s.index(f->len)] ^= uint8_t(1u << s.index(7)); desc = "compressed amount of coin " + std::to_string(f->coin); break; }
        case 10: { auto f = pick_field(10); file[f->off] = uint8_t(s.pick<int>({0, 1, 2, 3, 4, 5, 6, 39, 41})); desc = "script size/type of coin " + std::to_string(f->coin); break; }
        case 11: { auto f = pick_field(11); if (f->len) file[f->off + s.index(f->len)] ^= uint8_t(1u << s.index(8)); desc = "script byte of coin " + std::to_string(f->coin); break; }
        case 12: { // drop one coin (its whole single-coin group), optionally fixing the count
            size_t g = s.index(G.groups.size());
            file.erase(file.begin() + G.groups[g].first, file.begin() + G.groups[g].second);
            bool fix = s.boolean();
            if (fix) PutLE(file, 5 + 2 + 4 + 32, G.count - 1, 8);
            desc = std::string("drop coin group ") + std::to_string(g) + (fix ? " (count fixed)" : "");
            break; }
        case 13: { // duplicate one group (same set if the count is fixed: first occurrence wins)
            size_t g = s.index(G.groups.size());
            std::vector<uint8_t> grp(F.genuine.begin() + G.groups[g].first, F.genuine.begin() + G.groups[g].second);
            size_t at = G.groups[s.index(G.groups.size())].first;
            file.insert(file.begin() + at, grp.begin(), grp.end());
            bool fix = s.boolean();
            if (fix) PutLE(file, 5 + 2 + 4 + 32, G.count + 1, 8);
            desc = std::string("duplicate coin group ") + std::to_string(g) + (fix ? " (count fixed)" : "");
            break; }
        case 14: { // move a coin record under another txid (swap the txids of two groups)
            size_t g1 = s.index(G.groups.size()), g2 = s.index(G.groups.size());
            for (int i = 0; i < 32; ++i) std::swap(file[G.groups[g1].first + i], file[G.groups[g2].first + i]);
            desc = "swap txids of groups " + std::to_string(g1) + "," + std::to_string(g2);
            break; }
        case 15: { // swap two whole groups (order only: same set)
            size_t g1 = s.index(G.groups.size()), g2 = s.index(G.groups.size());
            if (g1 > g2) std::swap(g1, g2);
            if (g1 != g2) {
                std::vector<uint8_t> a1(F.genuine.begin() + G.groups[g1].first, F.genuine.begin() + G.groups[g1].second), a2(F.genuine.begin() + G.groups[g2].first, F.genuine.begin() + G.groups[g2].second);
                std::vector<uint8_t> nf(F.genuine.begin(), F.genuine.begin() + G.groups[g1].first);
                nf.insert(nf.end(), a2.begin(), a2.end());
                nf.insert(nf.end(), F.genuine.begin() + G.groups[g1].second, F.genuine.begin() + G.groups[g2].first);
                nf.insert(nf.end(), a1.begin(), a1.end());
                nf.insert(nf.end(), F.genuine.begin() + G.groups[g2].second, F.genuine.end());
                file = nf;
            }
            desc = "reorder groups " + std::to_string(g1) + "," + std::to_string(g2);
            break; }
        case 16: { size_t o2 = s.index(file.size()); file[o2] ^= uint8_t(1u << s.index(8)); desc = "bit flip at offset " + std::to_string(o2); break; }
        case 17: { size_t n = s.index(file.size()); file.resize(n); desc = "truncate to " + std::to_string(n); break; }
        case 18: { size_t n = 1 + s.index(40); for (size_t i = 0; i < n; ++i) file.push_back(uint8_t(s.range<unsigned>(0, 255))); desc = "append " + std::to_string(n) + " bytes"; break; }
        default: { // merge two adjacent groups' counts: second coin read under the first txid with group count 2 (set differs)
            auto f = pick_field(6); file[f->off] = 2; desc = "group count 2 at coin " + std::to_string(f->coin); break; }
        }
        c20ref::Decoded D = c20ref::Decode(file, 200);
        bool must_fail = false;
        std::string why;
        if (!D.ok) { must_fail = true; why = "malformed: " + D.why; }
        else if (memcmp(D.base_hash.data(), F.base_hash.data(), 32) != 0) { must_fail = true; why = "base hash is not the committed block"; }
        else if (!(D.set == G.set)) { must_fail = true; why = "decoded coin set differs from the committed one"; }
        if (!state_ok) { must_fail = true; why += (why.empty() ? "" : "; ") + state_why; }
        bool parseable_change = D.ok && mk != 0 && !(D.set == G.set);

        // offer the file exactly as loadtxoutset does: metadata first, then ActivateSnapshot
        fs::path path = datadir / "offered_snapshot.dat";
        WriteFile(path, file);
        bool in_memory = !s.chance(40);
        bool ok = false;
        std::string err;
        {
            AutoFile in{fsbridge::fopen(path, "rb")};
            node::SnapshotMetadata meta{cm.GetParams().MessageStart()};
            bool meta_ok = true;
            try { in >> meta; } catch (const std::ios_base::failure& e) { meta_ok = false; err = e.what(); }
            if (meta_ok) {
                auto res = cm.ActivateSnapshot(in, meta, in_memory);
                ok = bool(res);
                if (!ok) err = util::ErrorString(res).original;
            }
        }
        st.steps++;
        st.note("try ", desc, " -> ", ok ? "ACTIVATED" : "rejected", must_fail ? " (must fail)" : "");
        st.mix(uint64_t(0x100 + mk));
        st.cls("mut-" + std::to_string(mk));
        VCHECK(!(must_fail && ok), "c20.bad-snapshot-activated", desc, "| reason it must fail:", why, "| in_memory", in_memory);
        if (!ok) {
            untouched(desc.c_str());
            if (parseable_change) parseable_rejected = true;
            if (!must_fail) st.cls("allowed-but-rejected"); // e.g. duplicated group with fixed count: nothing claimed
            continue;
        }
        activated = true;
        st.cls("activated");
        if (mk != 0) st.cls("activated-equivalent-file");
        // ---- after activation: the statement's positive side
        Chainstate* snap_cs = WITH_LOCK(cs_main, return &cm.CurrentChainstate());
        {
            LOCK(cs_main);
            VCHECK(cm.m_chainstates.size() == 2 && cm.CurrentChainstate().m_from_snapshot_blockhash && *cm.CurrentChainstate().m_from_snapshot_blockhash == F.base_hash,
                   "c20.activation-state", "snapshot chainstate not active after success");
            VCHECK(cm.ActiveChain().Tip()->GetBlockHash() == F.base_hash, "c20.activation-state", "active tip is not the base block");
        }
        // the loaded set hashes to the commitment: compare with the hash the SOURCE node computed from fully validated blocks
        {
            CCoinsViewDB* db;
            { LOCK(cs_main); cm.CurrentChainstate().ForceFlushStateToDisk(false); db = &cm.CurrentChainstate().CoinsDB(); }
            std::optional<kernel::CCoinsStats> stats = kernel::ComputeUTXOStats(kernel::CoinStatsHashType::HASH_SERIALIZED, *db, cm.m_blockman);
            VCHECK(stats && stats->hashSerialized == F.utxo_hash_200, "c20.activation-state", "loaded UTXO set hashes differently from the validated chain's set at the base");
        }
        // second activation must be refused
        {
            AutoFile in{fsbridge::fopen(path, "rb")};
            node::SnapshotMetadata meta{cm.GetParams().MessageStart()};
            in >> meta;
            auto res = cm.ActivateSnapshot(in, meta, true);
            st.steps++;
            VCHECK(!res, "c20.second-activation", "a second snapshot activation succeeded");
        }
        // background validation
        if (s.chance(140)) {
            bool tamper = s.chance(90);
            if (tamper) {
                LOCK(cs_main);
                Chainstate* bg = cm.HistoricalChainstate();
                VCHECK(bg != nullptr, "c20.activation-state", "no background chainstate");
                bg->CoinsTip().AddCoin(COutPoint(Txid::FromUint256(uint256::ONE), 3), Coin(CTxOut(1, P2WSH_OP_TRUE), 1, false), false);
                st.cls("bg-tampered");
            }
            for (unsigned i = k; i < 200; ++i) {
                bool nb = false;
                cm.ProcessNewBlock(F.chain[i], true, true, &nb);
            }
            sim.SyncSignals();
            LOCK(cs_main);
            bool validated = snap_cs->m_assumeutxo == Assumeutxo::VALIDATED; // of the SNAPSHOT chainstate (after a mismatch the old chainstate becomes current again)
            bool fatal = sim.m_node.exit_status.load() != 0;
            st.steps++;
            if (tamper) {
                VCHECK(!validated, "c20.bg-validation", "background validation reported success although the validated UTXO set differs from the commitment");
                VCHECK(fatal, "c20.bg-validation", "hash mismatch in background validation did not raise the fatal error");
            } else {
                VCHECK(validated && !fatal, "c20.bg-validation", "background validation of the genuine snapshot did not complete: validated", validated, "fatal", fatal);
            }
            st.cls(tamper ? "bg-mismatch-detected" : "bg-validated");
        }
    }
    if (!activated) {
        // the node must still be a working node: the next block of the chain connects
        if (state_kind == 0 || state_kind == 1 || state_kind == 5) {
            if (k < known_headers) {
                auto d = sim.Deliver(F.chain[k]);
                st.steps++;
                VCHECK(d.processed && sim.TipHash() == F.chain[k]->GetHash(), "c20.node-touched", "after rejected snapshots the next block no longer connects");
            }
        }
    }
    st.nontrivial = parseable_rejected;
    if (parseable_rejected) st.cls("parseable-mutation-rejected");
}
