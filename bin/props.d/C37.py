# C37: stage list (what ./check C37 quick|thorough runs) and manifest text. Helpers gen()/enum()/hyp()/custom() come from props.py.
SPEC = {'level': 'exploration',
 'assumptions': ['deterministic AddrMan (fixed bucket key), mock time; addresses carry timestamps within uint32 (as after network/disk deserialization)',
                 'times passed to Good/Attempt/Connected are > 0 (callers pass the current time; the internal check requires it)',
                 'only the current on-disk format (V4) is round-tripped; the asmap used for re-bucketing is the 59-byte unit-test asmap',
                 'internal consistency check evaluated on every call in 1/8 of the histories, otherwise at check points and at the end through a probe reload'],
 'stages': [gen('vh_c37', 'c37_addrman', 1200, 24000, min_cases_quick=200,
                floors={'both-tables-populated': 0.2, 'multi-reference-address': 0.15, 'tried-collision-seen': 0.02, 'tried-entry-evicted-to-new': 0.005,
                        'roundtrip-nonempty': 0.8, 'reload-other-asmap': 0.1, 'reload-adopted': 0.15, 'internal-check-every-call': 0.05, 'hammer-mult==8': 0.01,
                        'select-new-only-hit': 0.05, 'op-getaddr': 0.1},
                rule='operation histories over a colliding address pool; non-trivial = >=12 ops, both tables populated, >=1 round trip, multi-reference address or tried collision'),
            gen('vh_c37', 'up_addrman', 1500, 30000, rule='upstream addrman operation fuzz target with consistency checks (supplementary)'),
            gen('vh_c37', 'up_addrman_serdeser', 100, 2000, rule='upstream fill + serialize/deserialize equality (supplementary)'),
            gen('vh_c37', 'up_data_stream_addr_man', 3000, 60000, rule='upstream loader on arbitrary bytes (supplementary)'),
        # coverage-guided libFuzzer campaign on the same target (thorough tier only; fz tree = g++ trace-pc + covshim)
        fuzz('vh_c37', 'c37_addrman', 300, max_len=900),
    ]}

META = {'level_text': 'Generated operation histories (add/good/attempt/connected/collision resolution with mock-time jumps/select/getaddr/serialize-reload with same or '
               'other asmap, reference-count hammer) over a deliberately colliding pool of IPv4/IPv6/Tor/I2P/CJDNS addresses. At every check point the public '
               'table dump must satisfy the slot bounds (1..8 new slots xor 1 tried slot, counted = reported multiplicity), agree with Size() per network and '
               'table, contain only added addresses, and survive a serialize->reload unchanged (the loader runs the internal consistency check). Exploration over '
               'bounded histories (<= 400 operations).',
 'technique': 'stateful property-based testing: operation histories with invariants computed from the table dump, round-trip oracle, model set of known addresses',
 'level_note': 'Trusted base: GetEntries()/Size()/FindAddressEntry() as observation interface, own counting code; CheckAddrman itself is part of the code under test '
               'and is used as one of the stated clauses, not as the only oracle.'}
