# C50: secp256k1 wrappers and library vs pure-Python curve arithmetic (engine E2: Hypothesis + sutd).
SPEC = {
    'level': 'exploration',
    'assumptions': [
        'references: test_framework/crypto/secp256k1.py (field/group law), key.py (HMAC-DRBG of RFC 6979, BIP340 sign/verify, tweaks), ellswift.py (XSwiftEC) are correct; '
        'ECDSA validity is decided by textbook verification on (r, s), the low-S bound by s <= (n-1)/2 (key.py is off by one exactly there), '
        'RFC 6979 with the message reduced mod n (RFC 6979 3.2d; key.py passes raw bytes)',
        'non-canonical DER is only generated in forms whose lax-parser meaning is unambiguous: zero padding, negative (missing 00), long-form lengths, wrong sequence length < 0x80, trailing bytes',
        'ellswift: the x coordinate of Decode() is compared with XSwiftEC(u,t); the y parity only through Decode(EllSwiftCreate(key)) == pubkey(key)',
        'MakeNewKey (random key generation) is not checked beyond seckey range validity; BIP32 derivation belongs to C45',
    ],
    'stages': [
        hyp('c50_secp.py', 9000, 160000, needs=[('san', 'sutd')], min_cases_quick=3000,
            floors={'kind:verify': 0.1, 'kind:sign': 0.02, 'kind:schnorr_verify': 0.05, 'kind:schnorr_sign': 0.02, 'kind:pub': 0.04, 'kind:key': 0.02, 'kind:taptweak': 0.02,
                    'kind:ellswift_decode': 0.02, 'kind:ecdh': 0.02, 'verify-accept': 0.04, 'verify-reject': 0.05, 'sig:edge': 0.03, 'sig:highs': 0.01, 'schnorr-accept': 0.005,
                    'pub-invalid': 0.01, 'key-invalid': 0.003},
            rule='one key/pubkey/signature operation per case; non-trivial = edge scalar, produced or checked signature, invalid encoding; '
                 'distinct = kind+mode+DER form+edge value classes'),
    ],
}

META = {
    'level_text': 'Generated scalars at the group-order/field-prime boundaries, public-key encodings (compressed, uncompressed, hybrid, off-curve, x >= p), ECDSA signatures '
                  '(valid, high-S, chosen edge r/s made valid by key recovery incl. R.x >= n, strict and non-canonical DER, damaged), BIP340 signatures, taproot tweaks and '
                  'ElligatorSwift encodings (incl. the exceptional u,t cases) are fed to CKey/CPubKey/XOnlyPubKey/EllSwiftPubKey and to the library\'s strict verifier; every '
                  'derived key, deterministic signature, verdict, tweak and shared secret is compared with pure-Python curve arithmetic. Exploration, not exhaustive.',
    'technique': 'property-based differential testing (Hypothesis) against an independent pure-Python secp256k1 / ECDSA / BIP340 / BIP324 implementation',
    'level_note': 'Trusted: the Python field/group arithmetic and hashlib. Not covered: side channels, context randomisation, MuSig2 module, random key generation quality.',
}
