#include <kits/netgen.h>

#include <serialize.h>
#include <streams.h>

#include <cstring>
#include <exception>

namespace verif::netgen {

CNetAddr ipv4(uint8_t a, uint8_t b, uint8_t c, uint8_t d)
{
    in_addr v4;
    uint8_t raw[4] = {a, b, c, d};
    std::memcpy(&v4.s_addr, raw, 4);
    return CNetAddr{v4};
}

CNetAddr ipv6(const std::array<uint8_t, 16>& bytes)
{
    in6_addr v6;
    std::memcpy(v6.s6_addr, bytes.data(), 16);
    return CNetAddr{v6};
}

CNetAddr from_bip155(uint8_t netid, std::span<const uint8_t> bytes)
{
    DataStream ds;
    ds << netid;
    WriteCompactSize(ds, bytes.size());
    ds.write(std::as_bytes(bytes));
    CNetAddr out;
    try {
        ds >> CNetAddr::V2(out);
    } catch (const std::exception&) {
        return CNetAddr{};
    }
    return out;
}

std::vector<uint8_t> expand(uint64_t seed, size_t n)
{
    std::vector<uint8_t> v(n);
    uint64_t x = seed ^ 0x5bf03635f0b7a7c5ULL;
    for (size_t i = 0; i < n; i += 8) {
        uint64_t z = (x += 0x9e3779b97f4a7c15ULL);
        z = (z ^ (z >> 30)) * 0xbf58476d1ce4e5b9ULL;
        z = (z ^ (z >> 27)) * 0x94d049bb133111ebULL;
        z ^= z >> 31;
        std::memcpy(v.data() + i, &z, std::min<size_t>(8, n - i));
    }
    return v;
}

CNetAddr torv3(uint64_t seed) { return from_bip155(BIP155_TORV3, expand(seed, 32)); }
CNetAddr i2p(uint64_t seed) { return from_bip155(BIP155_I2P, expand(seed, 32)); }
CNetAddr cjdns(uint64_t seed)
{
    auto b = expand(seed, 16);
    b[0] = 0xfc;
    return from_bip155(BIP155_CJDNS, b);
}
CNetAddr internal(const std::string& name)
{
    CNetAddr a;
    a.SetInternal(name);
    return a;
}

} // namespace verif::netgen
