// C05 — Timelocks and coinbase maturity are enforced exactly.
// Oracle: own model (kits/consensus_ref: RefTimelocks = nLockTime rule with BIP113 cutoff, BIP68 height/time relative locks measured from
// the ledger's own median-time-past, 100-confirmation coinbase maturity), exact in both directions: a block holding one "interesting"
// transaction (valid in every other respect by construction) is accepted iff the model says all locks are satisfied; reject reason must be
// one of the violated rules' reasons; a rejected block leaves tip and UTXO hash unchanged.
#include <engine/verif.h>
#include <kits/chainsim.h>
#include <kits/consensus_ref.h>

#include <test/util/script.h>

using namespace verif;
using namespace verif::cref;

namespace {

struct Probe {
    std::vector<std::pair<COutPoint, RefCoin>> ins;
    std::vector<uint32_t> seqs;
    uint32_t locktime{0};
    uint32_t version{2};
    int evaluations{0};
};

CTransactionRef build_probe_tx(ChainSim& sim, const Probe& p, CAmount fee_hint, CAmount& fee_out)
{
    CMutableTransaction tx;
    tx.version = p.version;
    tx.nLockTime = p.locktime;
    std::map<COutPoint, RefCoin> spent;
    CAmount in = 0;
    for (size_t i = 0; i < p.ins.size(); ++i) {
        tx.vin.emplace_back(p.ins[i].first, CScript(), p.seqs[i]);
        spent[p.ins[i].first] = p.ins[i].second;
        in += p.ins[i].second.value;
    }
    CAmount fee = std::min(fee_hint, in);
    tx.vout.emplace_back(in - fee, sim.keys.Script(SpkType::ANYONE_P2WSH));
    fee_out = fee;
    bool ok = sim.keys.Sign(tx, spent);
    assert(ok && "harness could not sign the probe transaction");
    return MakeTransactionRef(tx);
}

} // namespace

VERIF_TARGET(c05_timelocks, nullptr, 64, 900,
             "a regtest node (104-block base; CSV/BIP113 active from height 1, 118, 124 or 130) extended by 6-18 blocks with random timestamps in (MTP, MTP+20000] and "
             "funding transactions; then up to 12 probes: a block on the tip holding one transaction with nLockTime in {0, h-1, h, h+1, 499999999, 500000000, "
             "MTP-1, MTP, MTP+1, blocktime-1..+1, max}, per-input nSequence in {FINAL, FINAL-1, disable flag, height-type k-1/k/k+1 around the coin's depth, "
             "time-type at the 512 s step around MTP(tip)-MTP(block before the coin), junk in undefined bits, random}, version 0/1/2/3/max, spending funded "
             "coins and coinbases at depth 98..101; each probe is judged by TestBlockValidity, then delivered, or re-judged after the chain grew by a block or "
             "after an overtaking reorg with other timestamps. non-trivial = some probe within 1 unit of a lock boundary; distinct = lock kinds x verdicts")
{
    ChainSimOpts o;
    const int csv_h = s.pick<int>({1, 118, 1, 124, 130}); // the probes happen at heights 111..140
    if (csv_h == 118) o.extra_args.push_back("-testactivationheight=csv@118");
    if (csv_h == 124) o.extra_args.push_back("-testactivationheight=csv@124");
    if (csv_h == 130) o.extra_args.push_back("-testactivationheight=csv@130");
    ChainSim sim(o);
    TxGen tg(sim);
    ReplayCache rc(sim.ledger);
    auto base = sim.LoadBase(104);
    const int base_h = 104;
    auto csv_active = [&](int height) { return height >= csv_h; };
    const CScript anyone = sim.keys.Script(SpkType::ANYONE_P2WSH);

    auto rand_time = [&](const uint256& prev) -> uint32_t {
        int64_t m = sim.ledger.MedianTimePast(prev);
        // jumps above 512 s matter: then consecutive blocks have MTPs more than one BIP68 time step apart, so measuring a time lock from the
        // wrong block (coin's block instead of the one before) flips verdicts at the boundary
        unsigned mode = s.range<unsigned>(0, 6);
        int64_t d = mode == 0 ? 0 : mode == 1 ? s.range<int64_t>(0, 10) : mode == 2 ? s.range<int64_t>(0, 700) : mode == 3 ? s.range<int64_t>(0, 3000)
                  : mode == 4 ? int64_t(sim.ledger.At(prev).time) - m + s.range<int64_t>(0, 600) : mode == 5 ? s.range<int64_t>(500, 5000) : s.range<int64_t>(0, 20000);
        if (d < 0) d = 0;
        return uint32_t(m + 1 + d);
    };
    auto deliver_valid = [&](const std::shared_ptr<CBlock>& blk, const char* what) {
        auto d = sim.Deliver(blk);
        st.steps++;
        VCHECK(d.processed, "c05.valid-block-rejected", what, "model-valid block not processed:", d.verdict ? StateStr(*d.verdict) : "no verdict");
        if (d.verdict) VCHECK(d.verdict->IsValid(), "c05.valid-block-rejected", what, "model-valid block judged invalid:", StateStr(*d.verdict));
    };
    // one block with a random timestamp, optionally funding 2-4 anyone-can-spend outputs from an old coinbase / earlier funding output
    auto grow = [&](const uint256& parent, bool fund, uint32_t nonce) -> uint256 {
        BlockSpec spec;
        spec.prev = parent;
        spec.time = rand_time(parent);
        spec.extra_nonce = nonce;
        int height = sim.ledger.At(parent).height + 1;
        if (fund) {
            const RefUtxo& U = rc.Get(parent).utxo;
            std::vector<std::pair<COutPoint, RefCoin>> cand;
            for (auto& [op, c] : U) {
                if (c.spk != anyone || c.value < 1000) continue;
                if (c.coinbase && (c.height > 3 || height - c.height < REF_COINBASE_MATURITY)) continue; // coinbases 1..3 only: the others are needed at depth 98..101
                cand.emplace_back(op, c);
            }
            if (!cand.empty()) {
                auto pick = cand[s.index(cand.size())];
                unsigned n = s.range<unsigned>(2, 4);
                std::vector<CTxOut> outs;
                for (unsigned k = 0; k < n; ++k) outs.emplace_back(pick.second.value / n, anyone);
                spec.txs.push_back(MakeTransactionRef(sim.MakeTx({pick}, outs)));
                spec.fees = pick.second.value - (pick.second.value / n) * n;
            }
        }
        auto blk = sim.Build(spec);
        deliver_valid(blk, "grow");
        return blk->GetHash();
    };

    // ---------------- phase A: random-time chain with funding
    {
        unsigned k = s.range<unsigned>(6, 18); // >= 6 so that the median of the last 11 timestamps leaves the 1-second-spaced base chain
        uint256 tip = base.back();
        for (unsigned i = 0; i < k; ++i) tip = grow(tip, i < 3 || s.chance(140), i + 1); // funding also late, where MTP moves in big steps
        VCHECK(sim.TipHash() == tip, "c05.valid-block-rejected", "setup chain is not the active chain");
        st.note("csv@", csv_h, " setup blocks=", k, " tip h=", sim.TipHeight(), " mtp=", sim.ledger.MedianTimePast(tip));
    }

    std::vector<Probe> saved;
    bool near_any = false, saw_accept = false, saw_reject = false, reorged = false;
    int n_probe = 0;
    const unsigned nops = s.range<unsigned>(2, 14);
    for (unsigned op = 0; op < nops && !s.exhausted(); ++op) {
        const uint256 tip = sim.TipHash();
        const int th = sim.ledger.At(tip).height;
        const int H = th + 1;
        const int64_t M = sim.ledger.MedianTimePast(tip);
        const RefUtxo& U = rc.Get(tip).utxo;
        unsigned kind = s.range<unsigned>(0, 9);
        if (kind == 9) {
            // ---------------- overtaking reorg with other timestamps (heights of later-funded coins and all MTPs change)
            int back = s.range<int>(1, 3);
            int fork_h = std::max(base_h, th - back);
            uint256 parent = sim.ledger.AncestorAt(tip, fork_h);
            int len = th - fork_h + 1;
            for (int i = 0; i < len; ++i) parent = grow(parent, s.chance(128), 1000 + op * 16 + i);
            st.steps++;
            VCHECK(sim.TipHash() == parent, "c05.valid-block-rejected", "longer valid branch did not become active");
            reorged = len > 1 || fork_h < th;
            st.cls("reorg");
            st.mix(uint64_t(7)); st.mix(uint64_t(len));
            st.note("reorg from h=", fork_h, " len=", len, " new mtp=", sim.ledger.MedianTimePast(parent));
            continue;
        }
        if (kind == 8) {
            // ---------------- the chain grows by one block (re-evaluation of saved probes happens at the new height / MTP)
            grow(tip, s.chance(128), 2000 + op);
            st.mix(uint64_t(8));
            st.note("grow to h=", H);
            continue;
        }
        // ---------------- probe: new (kind 0..5) or a saved one re-evaluated at the current tip (kind 6..7)
        Probe p;
        bool reused = false;
        if (kind >= 6 && !saved.empty()) {
            size_t j = s.index(saved.size());
            bool alive = true;
            for (auto& [cop, c] : saved[j].ins) { auto it = U.find(cop); if (it == U.end()) { alive = false; break; } }
            if (alive) {
                p = saved[j];
                for (auto& in : p.ins) in.second = U.at(in.first); // the coin's confirmation height may have changed in a reorg
                reused = true;
            }
        }
        const uint32_t T = rand_time(tip);
        if (!reused) {
            std::vector<std::pair<COutPoint, RefCoin>> fund, cb_near, cb_old;
            for (auto& [cop, c] : U) {
                if (!tg.Spendable(c.spk)) continue;
                if (!c.coinbase) fund.emplace_back(cop, c);
                else if (H - c.height >= 98 && H - c.height <= 101) cb_near.emplace_back(cop, c);
                else if (H - c.height >= 102 && c.height > 3) cb_old.emplace_back(cop, c);
            }
            unsigned nin = s.range<unsigned>(1, 2);
            for (unsigned i = 0; i < nin; ++i) {
                unsigned cat = s.range<unsigned>(0, 9);
                auto* pool = cat <= 4 ? &fund : cat <= 7 ? &cb_near : &cb_old;
                if (pool->empty()) pool = !fund.empty() ? &fund : !cb_near.empty() ? &cb_near : &cb_old;
                if (pool->empty()) break;
                size_t j = s.index(pool->size());
                auto coin = (*pool)[j];
                pool->erase(pool->begin() + j);
                const int hc = coin.second.height;
                uint32_t seq;
                unsigned sm = s.range<unsigned>(0, 7);
                const uint32_t junk = s.chance(64) ? (s.ConsumeIntegral<uint32_t>() & 0x7fbf0000u) : 0; // bits without consensus meaning
                if (sm == 0) seq = REF_SEQ_FINAL;
                else if (sm == 1) seq = REF_SEQ_FINAL - 1;
                else if (sm == 2) seq = REF_SEQ_DISABLE | (s.ConsumeIntegral<uint32_t>() & 0x7fffffffu);
                else if (sm == 3 || sm == 4) { // height type: satisfied iff hc + v <= H
                    int64_t v = int64_t(H) - hc + s.pick<int>({0, -1, 1, 0});
                    seq = uint32_t(std::clamp<int64_t>(v, 0, 65535)) | junk;
                } else if (sm == 5 || sm == 6) { // time type: satisfied iff MTP(block before the coin's block) + 512 v <= MTP(tip)
                    int64_t start = sim.ledger.MedianTimePast(sim.ledger.AncestorAt(tip, std::max(hc - 1, 0)));
                    int64_t q = (M - start) / 512;
                    int64_t v = q + s.pick<int>({0, 1, -1, 0});
                    seq = uint32_t(std::clamp<int64_t>(v, 0, 65535)) | REF_SEQ_TYPE_TIME | junk;
                } else seq = s.ConsumeIntegral<uint32_t>();
                p.ins.push_back(coin);
                p.seqs.push_back(seq);
            }
            if (p.ins.empty()) { st.cls("probe-skipped"); continue; }
            unsigned lm = s.range<unsigned>(0, 15);
            const uint32_t lts[] = {0, uint32_t(H - 1), uint32_t(H), uint32_t(H + 1), 499999999u, 500000000u, uint32_t(M - 1), uint32_t(M), uint32_t(M + 1),
                                    T - 1, T, T + 1, 0xffffffffu, 0, uint32_t(H), uint32_t(M)};
            p.locktime = lm == 13 ? s.ConsumeIntegral<uint32_t>() : lts[lm];
            p.version = s.pick<uint32_t>({2, 2, 1, 2, 3, 0xffffffffu, 0, 2});
        }
        // the block: [coinbase, (filler), probe tx]
        CAmount fee = 0;
        CTransactionRef ptx = build_probe_tx(sim, p, s.pick<CAmount>({0, 1000}), fee);
        BlockSpec spec;
        spec.prev = tip;
        spec.time = T;
        spec.extra_nonce = 3000 + op;
        spec.fees = fee;
        if (s.chance(64)) {
            RefUtxo u2 = U;
            for (auto& in : p.ins) u2.erase(in.first);
            // filler may not touch the coinbases reserved for depth probes: restrict to non-coinbase coins
            for (auto it = u2.begin(); it != u2.end();) { if (it->second.coinbase) it = u2.erase(it); else ++it; }
            auto m = tg.Make(s, u2, H, 1, 2);
            if (m) { spec.txs.push_back(m->tx); spec.fees += m->fee(); st.cls("with-filler"); }
        }
        spec.txs.push_back(ptx);
        std::vector<RefCoin> spent;
        for (auto& in : p.ins) spent.push_back(in.second);
        const bool active = csv_active(H);
        RefLockVerdict v = RefTimelocks(sim.ledger, tip, int64_t(T), *ptx, spent, active);
        std::set<std::string> allowed;
        if (!v.absolute_ok || !v.relative_ok) allowed.insert("bad-txns-nonfinal");
        if (!v.maturity_ok) allowed.insert("bad-txns-premature-spend-of-coinbase");
        auto blk = sim.Build(spec);
        BlockValidationState tv = sim.TestValidity(*blk);
        st.steps++;
        n_probe++;
        p.evaluations++;
        std::string desc;
        {
            std::ostringstream os;
            os << (reused ? "re-probe" : "probe") << " h=" << H << " mtp=" << M << " time=" << T << " csv=" << active << " ver=" << p.version << " lock=" << p.locktime;
            for (size_t i = 0; i < p.ins.size(); ++i) os << " in" << i << "(h=" << p.ins[i].second.height << (p.ins[i].second.coinbase ? ",cb" : "") << ",seq=0x" << std::hex << p.seqs[i] << std::dec << ")";
            os << " model=" << (v.ok() ? "ok" : (!v.absolute_ok ? "abs-fail" : !v.maturity_ok ? "immature" : "rel-fail")) << " node=" << StateStr(tv);
            desc = os.str();
        }
        st.note(desc);
        VCHECK(tv.IsValid() == v.ok(), "c05.verdict", desc);
        if (!v.ok()) VCHECK(allowed.count(tv.GetRejectReason()), "c05.reject-reason", desc);
        // classes / shape
        if (v.near_boundary) { near_any = true; st.cls("near-boundary"); }
        (v.ok() ? saw_accept : saw_reject) = true;
        st.cls(v.ok() ? "accept" : (!v.absolute_ok ? "reject:absolute" : !v.maturity_ok ? "reject:maturity" : "reject:relative"));
        if (!active) st.cls("csv-inactive");
        if (reused) st.cls("re-evaluated");
        if (reused && reorged) st.cls("re-evaluated-after-reorg");
        bool has_rel_h = false, has_rel_t = false, has_cb_near = false;
        for (size_t i = 0; i < p.ins.size(); ++i) {
            if (!(p.seqs[i] & REF_SEQ_DISABLE) && p.version >= 2) { if (p.seqs[i] & REF_SEQ_TYPE_TIME) has_rel_t = true; else has_rel_h = true; }
            if (p.ins[i].second.coinbase && H - p.ins[i].second.height <= 101) has_cb_near = true;
        }
        if (has_rel_h) st.cls("rel-height");
        if (has_rel_t) st.cls("rel-time");
        if (has_cb_near) st.cls("coinbase-depth-98..101");
        if (p.locktime != 0) st.cls(p.locktime < 500000000u ? "abs-height" : "abs-time");
        st.mix(uint64_t(v.absolute_ok) | uint64_t(v.maturity_ok) << 1 | uint64_t(v.relative_ok) << 2 | uint64_t(v.near_boundary) << 3 | uint64_t(active) << 4 | uint64_t(has_rel_h) << 5 |
               uint64_t(has_rel_t) << 6 | uint64_t(has_cb_near) << 7 | uint64_t(p.locktime == 0 ? 0 : p.locktime < 500000000u ? 1 : 2) << 8 | uint64_t(reused) << 10);
        // then: deliver it, or keep the probe for re-evaluation later
        unsigned after = s.range<unsigned>(0, 3);
        if (after == 1) {
            if (v.ok()) {
                deliver_valid(blk, "probe-block");
                st.steps++;
                VCHECK(sim.TipHash() == blk->GetHash(), "c05.verdict", "model-valid probe block did not become tip", desc);
                st.cls("delivered-accepted");
            } else {
                CBlock bad = CloneBlock(*blk);
                FaultOutcome fo = DeliverFault(sim, bad, true, /*finalize=*/false);
                st.steps++;
                VCHECK(fo.rejected, "c05.verdict", "ProcessNewBlock did not reject:", desc);
                VCHECK(allowed.count(fo.reason), "c05.reject-reason", "ProcessNewBlock reason", fo.reason, desc);
                VCHECK(fo.untouched(), "c05.rejected-changed-state", "tip or hash_serialized changed by a rejected block", desc);
                st.cls("delivered-rejected");
            }
        } else if (saved.size() < 6 && p.evaluations < 4) {
            if (reused) { /* keep the stored one */ } else saved.push_back(p);
        }
    }
    st.nontrivial = near_any;
    if (saw_accept && saw_reject) st.cls("both-verdicts");
    st.mix(uint64_t(csv_h)); st.mix(uint64_t(n_probe));
    st.note("probes=", n_probe, " tip h=", sim.TipHeight());
}
