// C34 — Transaction download scheduling follows its specification.
// Oracle: my own announcement-level model written from the specification comment in txrequest.h (states NONE / CANDIDATE /
// REQUESTED / COMPLETED per (txhash, peer), reqtime / expiry, preferred flag, announcement sequence number), run in lock-step.
// The specification leaves the choice among equally-preferred viable candidates to a random pick, so the deciding oracle is
// set-valued: whoever is advised must be a viable candidate of the best preferredness class, a sole viable candidate must be
// advised, a sweep over all peers at one instant must advise every requestable txhash exactly once, and the revealed
// tie-break order must be consistent over the whole history. A second, stricter oracle resolves the pick with the tracker's
// own ComputePriority accessor (testing interface) and demands list equality (contents and announcement order).
#include <engine/verif.h>

#include <primitives/transaction.h>
#include <txrequest.h>
#include <uint256.h>

#include <algorithm>
#include <chrono>
#include <set>
#include <string>
#include <tuple>
#include <vector>

namespace {

constexpr int MAXP = 8, MAXH = 16;
enum MS : uint8_t { NONE = 0, CAND = 1, REQ = 2, DONE = 3 };

struct Ann {
    MS st{NONE};
    int64_t time{0};   // reqtime while CAND, expiry while REQ
    uint64_t seq{0};
    bool pref{false};
    bool wtxid{false};
};

struct Model {
    Ann a[MAXH][MAXP];
    uint64_t next_seq{0};
    int np, nh;
    unsigned cleanups{0};

    /** "If for a given txhash only already-failed announcements remain, they are all forgotten." */
    void cleanup(int h)
    {
        bool any = false;
        for (int p = 0; p < np; ++p) { if (a[h][p].st == CAND || a[h][p].st == REQ) return; any |= a[h][p].st == DONE; }
        if (!any) return;
        for (int p = 0; p < np; ++p) a[h][p].st = NONE;
        ++cleanups;
    }
    void inv(int p, int h, bool wtxid, bool pref, int64_t reqtime)
    {
        Ann& x = a[h][p];
        if (x.st != NONE) return; // one announcement per (txhash, peer), whatever its state
        x = Ann{CAND, reqtime, next_seq++, pref, wtxid};
    }
    void disconnect(int p) { for (int h = 0; h < nh; ++h) if (a[h][p].st != NONE) { a[h][p].st = NONE; cleanup(h); } }
    void forget(int h) { for (int p = 0; p < np; ++p) a[h][p].st = NONE; }
    bool requested(int p, int h, int64_t expiry)
    {
        if (a[h][p].st != CAND) return false;
        for (int q = 0; q < np; ++q) if (a[h][q].st == REQ) a[h][q].st = DONE; // unexpected second request: the older one is given up
        a[h][p].st = REQ; a[h][p].time = expiry;
        return true;
    }
    void response(int p, int h) { if (a[h][p].st == CAND || a[h][p].st == REQ) { a[h][p].st = DONE; cleanup(h); } }
    /** time passes: REQUESTED with expiry <= now fail; returns them */
    std::vector<std::pair<int, int>> expire(int64_t now)
    {
        std::vector<std::pair<int, int>> out;
        for (int h = 0; h < nh; ++h) {
            for (int p = 0; p < np; ++p) if (a[h][p].st == REQ && a[h][p].time <= now) { a[h][p].st = DONE; out.emplace_back(p, h); }
            cleanup(h);
        }
        return out;
    }
    bool outstanding(int h) const { for (int p = 0; p < np; ++p) if (a[h][p].st == REQ) return true; return false; }
    /** viable candidates of the best preferredness class for h at `now` (empty while a request is outstanding) */
    std::vector<int> allowed(int h, int64_t now, bool* mixed = nullptr) const
    {
        std::vector<int> v;
        if (outstanding(h)) return v;
        bool any_pref = false, any_non = false;
        for (int p = 0; p < np; ++p) if (a[h][p].st == CAND && a[h][p].time <= now) (a[h][p].pref ? any_pref : any_non) = true;
        for (int p = 0; p < np; ++p) if (a[h][p].st == CAND && a[h][p].time <= now && a[h][p].pref == any_pref) v.push_back(p);
        if (mixed) *mixed = any_pref && any_non;
        return v;
    }
};

uint256 make_hash(int h)
{
    uint256 x;
    for (int i = 0; i < 32; ++i) x.data()[i] = uint8_t(0x11 * (h + 1) + i * 7);
    return x;
}
GenTxid make_gtxid(const uint256& h, bool wtxid) { return wtxid ? GenTxid{Wtxid::FromUint256(h)} : GenTxid{Txid::FromUint256(h)}; }

} // namespace

VERIF_TARGET(c34_txrequest, nullptr, 16, 1400,
             "histories of <= 400 operations over 2-8 peers x 1-16 txhashes: ReceivedInv (preferred or not, txid/wtxid, reqtime at now-d/now/now+1/later), "
             "GetRequestable for one peer or a sweep over all peers at one instant (advice optionally followed by RequestedTx with expiry now/now+1/later/past), "
             "unadvised RequestedTx, ReceivedResponse, ForgetTxHash, DisconnectedPeer, clock steps forward, backward, to the next reqtime/expiry and +-1us around it; "
             "oracle = own announcement-level model (set-valued choice + revealed tie-break consistency, and exact lists via ComputePriority), counts after every "
             "operation, SanityCheck; non-trivial = >= 3 advised requests, a choice among >= 2 viable candidates, and a re-request after a failed request; "
             "distinct = (op-kind histogram buckets, event classes)")
{
    Model m;
    m.np = s.chance(200) ? s.range<int>(4, MAXP) : s.range<int>(2, 3);
    m.nh = s.chance(200) ? s.range<int>(4, MAXH) : s.range<int>(1, 3);
    TxRequestTracker tracker(/*deterministic=*/true);
    std::vector<uint256> H;
    for (int h = 0; h < m.nh; ++h) H.push_back(make_hash(h));
    const NodeId PEER_BASE = s.pick<NodeId>({0, 1000, NodeId{1} << 40});
    auto node = [&](int p) { return PEER_BASE + p; };
    constexpr int64_t MIN_NOW = 10000000; // times stay positive (as in production and in upstream's own tests)
    int64_t now = 100000000;
    const int nops = s.range<int>(0, 400);

    // revealed tie-break order: beat[h][p][q] = p was once chosen while q was an equally-preferred viable candidate
    static bool beat[MAXH][MAXP][MAXP];
    for (auto& x : beat) for (auto& y : x) for (auto& z : y) z = false;
    static bool failed_once[MAXH]; // a request for h failed (expiry / response) since h was last forgotten
    for (auto& x : failed_once) x = false;

    unsigned n_advised = 0, c_choice = 0, c_rerequest = 0, c_expired = 0, c_mixed = 0, c_back = 0, c_unexpected = 0, c_req_eq = 0, c_exp_eq = 0, c_sweep = 0;
    unsigned hist[8] = {0};

    auto check_counts = [&](const char* after) {
        size_t total = 0;
        for (int p = 0; p < m.np; ++p) {
            size_t cnt = 0, infl = 0, cand = 0;
            for (int h = 0; h < m.nh; ++h) { cnt += m.a[h][p].st != NONE; infl += m.a[h][p].st == REQ; cand += m.a[h][p].st == CAND; }
            st.steps++;
            VCHECK(tracker.Count(node(p)) == cnt && tracker.CountInFlight(node(p)) == infl && tracker.CountCandidates(node(p)) == cand,
                   "c34.counts-vs-model", "after", after, "peer", p, "impl count/inflight/candidates", tracker.Count(node(p)), tracker.CountInFlight(node(p)),
                   tracker.CountCandidates(node(p)), "model", cnt, infl, cand);
            total += cnt;
        }
        VCHECK(tracker.Size() == total, "c34.counts-vs-model", "after", after, "Size impl", tracker.Size(), "model", total);
        for (int h = 0; h < m.nh; ++h) {
            std::vector<NodeId> peers;
            tracker.GetCandidatePeers(H[size_t(h)], peers);
            std::multiset<NodeId> got(peers.begin(), peers.end()), want;
            int n_req = 0;
            for (int p = 0; p < m.np; ++p) { if (m.a[h][p].st == CAND || m.a[h][p].st == REQ) want.insert(node(p)); n_req += m.a[h][p].st == REQ; }
            VCHECK(got == want, "c34.counts-vs-model", "after", after, "GetCandidatePeers differs for txhash", h);
            VCHECK(n_req <= 1, "c34.model-selftest", "model has two outstanding requests for txhash", h);
        }
        tracker.SanityCheck();
    };

    /** GetRequestable(p) on both sides; returns the advised txhash indices */
    auto get_requestable = [&](int p, std::vector<int>* count_per_h) -> std::vector<int> {
        std::vector<std::pair<NodeId, GenTxid>> expired;
        std::vector<GenTxid> got = tracker.GetRequestable(node(p), std::chrono::microseconds{now}, &expired);
        // 1. expiry
        for (int h = 0; h < m.nh; ++h) for (int q = 0; q < m.np; ++q) if (m.a[h][q].st == REQ && m.a[h][q].time == now) ++c_exp_eq;
        auto exp_model = m.expire(now);
        std::vector<std::tuple<NodeId, uint256, bool>> e1, e2;
        for (auto& [q, h] : exp_model) { e2.emplace_back(node(q), H[size_t(h)], m.a[h][q].wtxid); failed_once[h] = true; ++c_expired; }
        for (auto& [n, g] : expired) e1.emplace_back(n, g.ToUint256(), g.IsWtxid());
        std::sort(e1.begin(), e1.end()); std::sort(e2.begin(), e2.end());
        st.steps++;
        VCHECK(e1 == e2, "c34.expired-vs-model", "peer", p, "now", now, "impl expired", e1.size(), "model expired", e2.size());
        // 2. every advised announcement must be allowed by the specification
        std::vector<int> advised;
        uint64_t last_seq = 0;
        for (size_t k = 0; k < got.size(); ++k) {
            int h = -1;
            for (int j = 0; j < m.nh; ++j) if (H[size_t(j)] == got[k].ToUint256()) h = j;
            VCHECK(h >= 0, "c34.requestable-vs-model", "advised an unknown txhash");
            VCHECK(std::find(advised.begin(), advised.end(), h) == advised.end(), "c34.requestable-vs-model", "txhash advised twice in one answer", h);
            const Ann& x = m.a[h][p];
            VCHECK(!m.outstanding(h), "c34.one-outstanding-request", "advised txhash", h, "to peer", p, "while another request is outstanding; now", now);
            VCHECK(x.st != REQ && x.st != DONE, "c34.no-second-request-same-announcement", "advised txhash", h, "to peer", p, "whose announcement was already requested");
            VCHECK(x.st == CAND, "c34.requestable-vs-model", "advised txhash", h, "to peer", p, "which has no announcement for it");
            VCHECK(x.time <= now, "c34.not-before-reqtime", "advised txhash", h, "to peer", p, "reqtime", x.time, "now", now);
            bool mixed = false;
            std::vector<int> allowed = m.allowed(h, now, &mixed);
            bool in = std::find(allowed.begin(), allowed.end(), p) != allowed.end();
            VCHECK(in, "c34.preferred-first", "advised txhash", h, "to non-preferred peer", p, "while a preferred viable candidate exists; now", now);
            VCHECK(got[k].IsWtxid() == x.wtxid, "c34.requestable-vs-model", "wtxid flag of advised txhash", h);
            if (k > 0) VCHECK(x.seq > last_seq, "c34.announcement-order", "answer not in announcement order at position", k);
            last_seq = x.seq;
            for (int q : allowed) if (q != p) {
                VCHECK(!beat[h][q][p], "c34.tiebreak-consistent", "txhash", h, "peer", p, "chosen over", q, "but earlier", q, "was chosen over", p);
                beat[h][p][q] = true;
            }
            if (allowed.size() >= 2) ++c_choice;
            if (mixed) ++c_mixed;
            if (x.time == now) ++c_req_eq;
            if (failed_once[h]) ++c_rerequest;
            advised.push_back(h);
            if (count_per_h) (*count_per_h)[size_t(h)]++;
        }
        // 3. completeness where the specification leaves no choice; exact list with the tracker's own priority function
        std::vector<std::pair<uint64_t, int>> exact;
        for (int h = 0; h < m.nh; ++h) {
            std::vector<int> allowed = m.allowed(h, now);
            bool in = std::find(allowed.begin(), allowed.end(), p) != allowed.end();
            bool was = std::find(advised.begin(), advised.end(), h) != advised.end();
            if (allowed.size() == 1 && in) VCHECK(was, "c34.requestable-vs-model", "peer", p, "is the only viable candidate for txhash", h, "but was not advised; now", now);
            if (in) {
                int best = -1; uint64_t bp = 0;
                for (int q : allowed) { uint64_t pr = tracker.ComputePriority(H[size_t(h)], node(q), m.a[h][q].pref); if (best < 0 || pr > bp) { best = q; bp = pr; } }
                if (best == p) exact.emplace_back(m.a[h][p].seq, h);
            }
        }
        std::sort(exact.begin(), exact.end());
        std::vector<int> exact_h;
        for (auto& e : exact) exact_h.push_back(e.second);
        VCHECK(exact_h == advised, "c34.exact-vs-priority", "peer", p, "now", now, "advised", advised.size(), "expected by model + ComputePriority", exact_h.size());
        tracker.PostGetRequestableSanityCheck(std::chrono::microseconds{now}); // the tracker's own time-dependent self-check, after the model comparison
        n_advised += unsigned(advised.size());
        return advised;
    };

    auto pick_expiry = [&]() -> int64_t {
        switch (s.range<unsigned>(0, 5)) {
        case 0: return now + 1;
        case 1: return now;          // expires at the next GetRequestable
        case 2: return now - s.range<int>(1, 50);
        case 3: return now + s.range<int>(2, 200);
        default: return now + 60000000;
        }
    };
    auto next_event = [&]() -> int64_t { // smallest reqtime/expiry in the future, or now
        int64_t best = INT64_MAX;
        for (int h = 0; h < m.nh; ++h) for (int p = 0; p < m.np; ++p) if ((m.a[h][p].st == CAND || m.a[h][p].st == REQ) && m.a[h][p].time > now) best = std::min(best, m.a[h][p].time);
        return best == INT64_MAX ? now : best;
    };

    for (int op = 0; op < nops; ++op) {
        unsigned kind = s.range<unsigned>(0, 15);
        int p = int(s.index(size_t(m.np))), h = int(s.index(size_t(m.nh)));
        if (kind <= 4) { // ReceivedInv
            bool pref = s.chance(100), wtxid = s.boolean();
            int64_t rt;
            switch (s.range<unsigned>(0, 5)) {
            case 0: rt = now; break;
            case 1: rt = now + 1; break;
            case 2: rt = now - s.range<int>(0, 100); break;
            case 3: rt = now + s.range<int>(2, 300); break;
            case 4: rt = now + 2000000; break;
            default: rt = now + s.range<int>(-1000000, 1000000); break;
            }
            st.note("inv(p", p, ",h", h, pref ? ",pref" : "", wtxid ? ",w" : "", ",rt=now", rt - now >= 0 ? "+" : "", rt - now, ")");
            m.inv(p, h, wtxid, pref, rt);
            tracker.ReceivedInv(node(p), make_gtxid(H[size_t(h)], wtxid), pref, std::chrono::microseconds{rt});
            hist[0]++;
            check_counts("ReceivedInv");
        } else if (kind <= 7) { // GetRequestable for one peer, optionally acting on the advice
            std::vector<int> adv = get_requestable(p, nullptr);
            bool act = s.chance(200);
            st.note("getreq(p", p, ")=", adv.size(), act ? "+request" : "");
            check_counts("GetRequestable");
            if (act) for (int hh : adv) {
                int64_t ex = pick_expiry();
                bool ok = m.requested(p, hh, ex);
                VCHECK(ok, "c34.model-selftest", "advised announcement not a candidate in the model");
                tracker.RequestedTx(node(p), H[size_t(hh)], std::chrono::microseconds{ex});
            }
            if (act && !adv.empty()) check_counts("RequestedTx(advised)");
            hist[1]++;
        } else if (kind == 8) { // sweep: all peers at the same instant, no requests in between
            std::vector<int> cnt(size_t(m.nh), 0);
            std::vector<std::pair<int, int>> todo;
            for (int q = 0; q < m.np; ++q) for (int hh : get_requestable(q, &cnt)) todo.emplace_back(q, hh);
            for (int hh = 0; hh < m.nh; ++hh) {
                bool any = !m.allowed(hh, now).empty();
                st.steps++;
                VCHECK(cnt[size_t(hh)] == (any ? 1 : 0), "c34.sweep-exactly-one", "txhash", hh, "advised to", cnt[size_t(hh)], "peers in one sweep; viable candidates exist:", any, "now", now);
            }
            bool act = s.boolean();
            st.note("sweep=", todo.size(), act ? "+request" : "");
            if (act) for (auto& [q, hh] : todo) { int64_t ex = pick_expiry(); m.requested(q, hh, ex); tracker.RequestedTx(node(q), H[size_t(hh)], std::chrono::microseconds{ex}); }
            check_counts("sweep");
            hist[2]++; ++c_sweep;
        } else if (kind == 9) { // RequestedTx without advice (allowed by the interface; any CANDIDATE, even delayed or not the best)
            int64_t ex = pick_expiry();
            bool was_out = m.outstanding(h);
            bool ok = m.requested(p, h, ex);
            if (ok && was_out) ++c_unexpected;
            st.note("request(p", p, ",h", h, ok ? ")" : ")=noop");
            tracker.RequestedTx(node(p), H[size_t(h)], std::chrono::microseconds{ex});
            hist[3]++;
            check_counts("RequestedTx");
        } else if (kind <= 11) { // ReceivedResponse (biased towards in-flight ones)
            if (s.boolean()) for (int hh = 0; hh < m.nh; ++hh) for (int q = 0; q < m.np; ++q) if (m.a[hh][q].st == REQ && ((hh + q + op) % 3 == 0)) { h = hh; p = q; }
            if (m.a[h][p].st == REQ) failed_once[h] = true;
            st.note("response(p", p, ",h", h, ")");
            m.response(p, h);
            tracker.ReceivedResponse(node(p), H[size_t(h)]);
            hist[4]++;
            check_counts("ReceivedResponse");
        } else if (kind == 12) {
            if (s.chance(128)) {
                st.note("forget(h", h, ")");
                m.forget(h); failed_once[h] = false;
                // (the revealed tie-break order is a property of (txhash, peer) and is kept across forgetting)
                tracker.ForgetTxHash(H[size_t(h)]);
                hist[5]++;
                check_counts("ForgetTxHash");
            } else {
                st.note("disconnect(p", p, ")");
                m.disconnect(p);
                tracker.DisconnectedPeer(node(p));
                hist[6]++;
                check_counts("DisconnectedPeer");
            }
        } else { // clock
            int64_t old = now;
            switch (s.range<unsigned>(0, 6)) {
            case 0: now += 1; break;
            case 1: now += s.range<int>(2, 500); break;
            case 2: now = next_event(); break;
            case 3: now = next_event() - 1; break;
            case 4: now -= s.range<int>(1, 300); ++c_back; break;
            case 5: now += 3000000; break;
            default: now -= 2500000; ++c_back; break;
            }
            if (now < MIN_NOW) now = MIN_NOW;
            st.note("clock", now - old >= 0 ? "+" : "", now - old);
            hist[7]++;
        }
    }
    check_counts("end");

    for (unsigned k = 0; k < 8; ++k) st.mix(uint64_t(std::min(hist[k], 5u)));
    st.mix(uint64_t(std::min(c_choice, 3u)) | uint64_t(std::min(c_rerequest, 3u)) << 2 | uint64_t(std::min(c_expired, 3u)) << 4 | uint64_t(std::min(c_mixed, 3u)) << 6 |
           uint64_t(std::min(c_back, 3u)) << 8 | uint64_t(std::min(c_unexpected, 1u)) << 10 | uint64_t(std::min(m.cleanups, 3u)) << 11 | uint64_t(m.np) << 16 | uint64_t(m.nh) << 20);
    st.nontrivial = n_advised >= 3 && c_choice >= 1 && c_rerequest >= 1;
    if (n_advised) st.cls("advised");
    if (c_choice) st.cls("choice-among>=2-viable");
    if (c_mixed) st.cls("preferred-and-nonpreferred-viable");
    if (c_rerequest) st.cls("re-request-after-failure");
    if (c_expired) st.cls("request-expired");
    if (c_exp_eq) st.cls("expiry==now");
    if (c_req_eq) st.cls("reqtime==now");
    if (c_back) st.cls("clock-backwards");
    if (c_unexpected) st.cls("unexpected-second-request");
    if (m.cleanups) st.cls("forgotten-when-only-completed-remain");
    if (c_sweep) st.cls("sweep");
    if (hist[5]) st.cls("forget-txhash");
    if (hist[6]) st.cls("disconnect-peer");
}
