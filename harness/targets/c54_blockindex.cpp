// C54 — Block index navigation and chainwork are correct.
// Oracles (all independent of chain.cpp): naive parent walks over my own (parent, height) arrays for GetAncestor,
// LastCommonAncestor, CChain (SetTip / [] / Contains / Next / FindFork / FindEarliestAtLeast); statement-level rules for
// locators; boost cpp_int for floor(2^256 / (target+1)) and the chainwork sum (block index entries created by the real
// BlockManager::AddToBlockIndex on an in-process regtest node).
#include <engine/verif.h>
#include <kits/chainsim.h>

#include <arith_uint256.h>
#include <chain.h>
#include <node/blockstorage.h>
#include <primitives/block.h>
#include <uint256.h>
#include <validation.h>

#include <boost/multiprecision/cpp_int.hpp>

#include <algorithm>
#include <map>
#include <memory>
#include <string>
#include <vector>

namespace {
using boost::multiprecision::cpp_int;

struct Tree {
    std::vector<int> parent, height;
    std::vector<uint32_t> time;
    std::vector<int64_t> time_max;
    int add(int p, uint32_t t)
    {
        parent.push_back(p);
        height.push_back(p < 0 ? 0 : height[p] + 1);
        time.push_back(t);
        time_max.push_back(p < 0 ? int64_t(t) : std::max<int64_t>(time_max[p], t));
        return int(parent.size()) - 1;
    }
    int size() const { return int(parent.size()); }
    /** naive: follow parents until the height is reached; -1 if out of range */
    int anc(int i, int h) const
    {
        if (h < 0 || h > height[i]) return -1;
        while (height[i] > h) i = parent[i];
        return i;
    }
    int lca(int a, int b) const
    {
        while (height[a] > height[b]) a = parent[a];
        while (height[b] > height[a]) b = parent[b];
        while (a != b) { a = parent[a]; b = parent[b]; }
        return a;
    }
    std::vector<int> path(int tip) const // index by height
    {
        std::vector<int> p(size_t(height[tip]) + 1);
        for (int i = tip; i >= 0; i = parent[i]) p[size_t(height[i])] = i;
        return p;
    }
};

uint256 hash_of(int i)
{
    uint256 h;
    uint32_t v = uint32_t(i) + 1;
    h.data()[0] = v & 0xff; h.data()[1] = (v >> 8) & 0xff; h.data()[2] = (v >> 16) & 0xff; h.data()[3] = (v >> 24) & 0xff;
    h.data()[31] = 0xc5;
    return h;
}

int ilog2(int v) { int r = 0; while (v > 1) { v >>= 1; ++r; } return r; }

cpp_int to_cpp(const arith_uint256& a) { return cpp_int("0x" + a.GetHex()); }

/** floor(2^256 / (target+1)); 0 for negative, zero or overflowing compact targets. Compact format: value = mantissa * 256^(exponent-3),
 *  mantissa = low 23 bits, bit 23 = sign. */
cpp_int ref_proof(uint32_t bits, bool* valid = nullptr)
{
    unsigned exp = bits >> 24;
    cpp_int mant = bits & 0x007fffffu;
    bool sign = bits & 0x00800000u;
    cpp_int target = exp <= 3 ? cpp_int(mant >> (8 * (3 - exp))) : cpp_int(mant << (8 * (exp - 3)));
    cpp_int two256 = cpp_int(1) << 256;
    bool ok = target != 0 && !sign && target < two256;
    if (valid) *valid = ok;
    if (!ok) return 0;
    return two256 / (target + 1);
}

} // namespace

VERIF_TARGET(c54_blockindex, nullptr, 16, 420,
             "random block trees of up to ~6000 CBlockIndex built from <= 40 segments (spines up to 2000 blocks, forks off random earlier blocks or "
             "recent tips, skip pointers via BuildSkip), queried with GetAncestor (boundary heights -1/0/own/own+1, powers of two, full sweeps), "
             "LastCommonAncestor, CChain::SetTip sequences (reorgs) + []/Contains/Next/FindFork/FindEarliestAtLeast, LocatorEntries; oracle = naive parent "
             "walks and statement-level locator rules; non-trivial = tree with >= 1 fork and height >= 12 and >= 1 cross-branch LCA/FindFork query with a "
             "non-genesis fork point; distinct = (segment base/length log2 buckets, query-kind counts)")
{
    Tree t;
    // ---- tree
    t.add(-1, 1000);
    std::vector<int> tips{0};
    int nseg = s.range<int>(0, 40);
    int forks = 0;
    for (int k = 0; k < nseg && t.size() < 6000; ++k) {
        int base;
        unsigned how = s.range<unsigned>(0, 3);
        if (how <= 1) base = tips[tips.size() - 1 - s.index(std::min<size_t>(tips.size(), 4))]; // a recent tip (how==0: usually the last)
        else if (how == 2) base = int(s.index(size_t(t.size())));                                   // any block
        else { int tp = tips[s.index(tips.size())]; base = t.anc(tp, std::max(0, t.height[tp] - s.range<int>(0, 12))); } // shortly below a tip
        int len = s.chance(40) ? s.range<int>(100, 2000) : s.chance(128) ? s.range<int>(1, 12) : s.range<int>(1, 99);
        uint32_t tmul = s.range<uint32_t>(0, 50), tmod = s.range<uint32_t>(1, 5000);
        bool is_fork = false;
        for (int j = 0; j < t.size() && !is_fork; ++j) if (t.parent[j] == base) is_fork = true; // O(N) but only per segment
        forks += is_fork;
        st.mix(uint64_t(ilog2(t.height[base] + 1)) << 8 | uint64_t(ilog2(len)) | uint64_t(is_fork) << 16);
        int cur = base;
        for (int j = 0; j < len && t.size() < 6000; ++j) cur = t.add(cur, 1000 + t.time[base] % 977 + (uint32_t(j) * tmul) % tmod);
        tips.push_back(cur);
    }
    const int N = t.size();
    int max_h = 0;
    for (int h : t.height) max_h = std::max(max_h, h);

    // ---- real objects
    std::vector<uint256> hashes(static_cast<size_t>(N));
    std::vector<std::unique_ptr<CBlockIndex>> idx;
    std::map<uint256, int> by_hash;
    std::map<const CBlockIndex*, int> by_ptr;
    idx.reserve(size_t(N));
    for (int i = 0; i < N; ++i) {
        hashes[size_t(i)] = hash_of(i);
        by_hash[hashes[size_t(i)]] = i;
        CBlockHeader hd;
        hd.nTime = t.time[size_t(i)];
        hd.nBits = 0x207fffff;
        auto bi = std::make_unique<CBlockIndex>(hd);
        bi->phashBlock = &hashes[size_t(i)];
        bi->pprev = t.parent[size_t(i)] < 0 ? nullptr : idx[size_t(t.parent[size_t(i)])].get();
        bi->nHeight = t.height[size_t(i)];
        bi->nTimeMax = uint32_t(t.time_max[size_t(i)]); // as AddToBlockIndex maintains it (precondition of FindEarliestAtLeast)
        bi->BuildSkip();
        by_ptr[bi.get()] = i;
        idx.push_back(std::move(bi));
    }
    auto P = [&](int i) -> CBlockIndex* { return i < 0 ? nullptr : idx[size_t(i)].get(); };
    auto I = [&](const CBlockIndex* p) -> int { if (!p) return -1; auto it = by_ptr.find(p); return it == by_ptr.end() ? -2 : it->second; };
    auto pick_node = [&]() -> int {
        unsigned how = s.range<unsigned>(0, 2);
        if (how == 0) return tips[s.index(tips.size())];
        if (how == 1) { int tp = tips[s.index(tips.size())]; return t.anc(tp, std::max(0, t.height[tp] - s.range<int>(0, 40))); }
        return int(s.index(size_t(N)));
    };
    st.note("blocks=", N, " segments=", nseg, " forks=", forks, " max_height=", max_h);

    auto check_anc = [&](int i, int h, bool verbose) {
        int want = t.anc(i, h);
        int got = I(P(i)->GetAncestor(h));
        st.steps++;
        if (verbose) st.note("anc(node ", i, "@", t.height[size_t(i)], ", ", h, ")=", want);
        VCHECK(got == want, "c54.ancestor-vs-parent-walk", "node", i, "node_height", t.height[size_t(i)], "asked", h, "impl_node", got, "model_node", want);
    };
    auto check_locator = [&](int i) {
        std::vector<uint256> have = LocatorEntries(P(i));
        const int h0 = t.height[size_t(i)];
        st.steps++;
        VCHECK(!have.empty(), "c54.locator", "empty locator for node", i);
        VCHECK(GetLocator(P(i)).vHave == have, "c54.locator", "GetLocator differs from LocatorEntries");
        std::vector<int> hs;
        for (size_t k = 0; k < have.size(); ++k) {
            auto it = by_hash.find(have[k]);
            VCHECK(it != by_hash.end(), "c54.locator", "unknown hash at position", k);
            int e = it->second;
            if (k == 0) VCHECK(e == i, "c54.locator", "first entry is not the block itself, node", i);
            VCHECK(t.anc(i, t.height[size_t(e)]) == e, "c54.locator", "entry", k, "is not an ancestor of node", i);
            if (k > 0) VCHECK(t.height[size_t(e)] < hs.back(), "c54.locator", "heights not strictly decreasing at", k);
            hs.push_back(t.height[size_t(e)]);
        }
        VCHECK(hs.back() == 0, "c54.locator", "last entry is not genesis, node", i, "last height", hs.back());
        // gaps: all but the last (clamped at genesis) are equal to the previous one or double it; once doubling started it continues
        bool growing = false;
        for (size_t k = 0; k + 2 < hs.size(); ++k) {
            int g0 = hs[k] - hs[k + 1], g1 = hs[k + 1] - hs[k + 2];
            bool last = k + 3 == hs.size();
            if (last) { VCHECK(g1 <= 2 * g0, "c54.locator", "final gap larger than double the previous, node", i); continue; }
            VCHECK(g1 == g0 || g1 == 2 * g0, "c54.locator", "gap neither equal nor doubled at", k, "gaps", g0, g1, "node", i);
            if (growing) VCHECK(g1 == 2 * g0, "c54.locator", "gap stopped doubling at", k, "node", i);
            if (g1 == 2 * g0) growing = true;
        }
        VCHECK(int(hs.size()) <= 12 + ilog2(std::max(h0, 1)), "c54.locator", "locator too long:", hs.size(), "height", h0);
        st.note("locator(node ", i, "@", h0, ") len=", hs.size());
    };

    // ---- queries
    unsigned n_anc = 0, n_lca = 0, n_chain = 0, n_loc = 0;
    bool cross = false;
    CChain chain;
    std::vector<int> chain_path; // model of the CChain contents
    int nq = s.range<int>(0, 60);
    for (int q = 0; q < nq; ++q) {
        unsigned kind = s.range<unsigned>(0, 9);
        if (kind <= 2) { // GetAncestor
            int i = pick_node();
            int hi = t.height[size_t(i)];
            int h;
            switch (s.range<unsigned>(0, 7)) {
            case 0: h = hi; st.cls("anc:own-height"); break;
            case 1: h = hi + s.range<int>(1, 3); st.cls("anc:above-own-height"); break;
            case 2: h = -s.range<int>(1, 3); st.cls("anc:negative-height"); break;
            case 3: h = std::max(0, hi - s.range<int>(1, 3)); break;
            case 4: h = 0; break;
            case 5: h = std::min(hi, (1 << s.range<int>(0, 12)) + s.range<int>(-1, 1)); break;
            default: h = s.range<int>(0, hi); break;
            }
            if (h >= 0 && hi - h > 64) st.cls("anc:distance>64");
            check_anc(i, h, true);
            ++n_anc;
        } else if (kind == 3) { // full sweep for one block
            int i = pick_node();
            for (int h = -1; h <= t.height[size_t(i)] + 1; ++h) check_anc(i, h, false);
            st.cls("anc:full-sweep");
            ++n_anc;
        } else if (kind <= 5) { // LastCommonAncestor
            int a = pick_node(), b = pick_node();
            int want = t.lca(a, b);
            int got = I(LastCommonAncestor(P(a), P(b)));
            st.steps++;
            st.note("lca(", a, "@", t.height[size_t(a)], ",", b, "@", t.height[size_t(b)], ")=", want, "@", t.height[size_t(want)]);
            VCHECK(got == want, "c54.lca-vs-parent-walk", "a", a, "b", b, "impl", got, "model", want);
            if (a == b) st.cls("lca:same-block");
            else if (want == a || want == b) st.cls("lca:one-is-ancestor");
            else { st.cls("lca:different-branches"); if (want != 0) cross = true; }
            ++n_lca;
        } else if (kind <= 7) { // CChain
            if (chain_path.empty() || s.chance(96)) {
                int tip = pick_node();
                std::vector<int> np = t.path(tip);
                if (!chain_path.empty()) {
                    if (t.lca(tip, chain_path.back()) != chain_path.back() && t.lca(tip, chain_path.back()) != tip) st.cls("chain:settip-reorg");
                    else if (np.size() < chain_path.size()) st.cls("chain:settip-rewind");
                }
                chain.SetTip(*P(tip));
                chain_path = np;
                st.note("SetTip(", tip, "@", t.height[size_t(tip)], ")");
                st.steps++;
                VCHECK(chain.Height() == int(chain_path.size()) - 1, "c54.chain-vs-path", "Height", chain.Height());
                VCHECK(I(chain.Tip()) == tip && I(chain.Genesis()) == 0, "c54.chain-vs-path", "Tip/Genesis");
                for (size_t h = 0; h < chain_path.size(); ++h) VCHECK(I(chain[int(h)]) == chain_path[h], "c54.chain-vs-path", "chain[h] wrong at", h);
                VCHECK(chain[-1] == nullptr && chain[int(chain_path.size())] == nullptr, "c54.chain-vs-path", "out-of-range index not null");
            }
            int x = pick_node();
            int hx = t.height[size_t(x)];
            bool in_chain = hx < int(chain_path.size()) && chain_path[size_t(hx)] == x;
            st.steps++;
            VCHECK(chain.Contains(*P(x)) == in_chain, "c54.chain-vs-path", "Contains node", x);
            int want_next = (in_chain && hx + 1 < int(chain_path.size())) ? chain_path[size_t(hx) + 1] : -1;
            VCHECK(I(chain.Next(*P(x))) == want_next, "c54.chain-vs-path", "Next of node", x);
            // fork point: highest ancestor-or-self of x that is on the chain (naive walk)
            int f = x;
            while (f >= 0 && !(t.height[size_t(f)] < int(chain_path.size()) && chain_path[size_t(t.height[size_t(f)])] == f)) f = t.parent[size_t(f)];
            int got_f = I(chain.FindFork(*P(x)));
            st.note("FindFork(", x, "@", hx, ")=", f);
            VCHECK(got_f == f, "c54.findfork-vs-parent-walk", "node", x, "impl", got_f, "model", f, "chain_height", chain.Height());
            if (in_chain) st.cls("findfork:on-chain");
            else { st.cls("findfork:off-chain"); if (f > 0) cross = true; }
            if (hx > chain.Height()) st.cls("findfork:above-chain-height");
            // earliest block with max-time-so-far >= T and height >= H (naive scan)
            int64_t T = s.chance(200) ? int64_t(1000 + s.range<int>(0, 7000)) : s.pick<int64_t>({0, 1, INT64_MAX, int64_t(UINT32_MAX)});
            int H = s.chance(128) ? 0 : s.range<int>(-1, int(chain_path.size()) + 1);
            int want_e = -1;
            for (size_t h = 0; h < chain_path.size(); ++h) if (t.time_max[size_t(chain_path[h])] >= T && int(h) >= H) { want_e = chain_path[h]; break; }
            VCHECK(I(chain.FindEarliestAtLeast(T, H)) == want_e, "c54.find-earliest-vs-scan", "time", T, "height", H, "model", want_e);
            ++n_chain;
        } else { // locator
            check_locator(pick_node());
            ++n_loc;
        }
    }
    // always: locator of the highest tip and one ancestor sweep at strides, so every case checks something
    {
        int top = 0;
        for (int i = 0; i < N; ++i) if (t.height[size_t(i)] > t.height[size_t(top)]) top = i;
        check_locator(top);
        for (int h = 0; h <= t.height[size_t(top)]; h += 1 + t.height[size_t(top)] / 64) check_anc(top, h, false);
        if (t.height[size_t(top)] > 10) st.cls("locator:height>10");
        if (t.height[size_t(top)] >= 1000) st.cls("locator:height>=1000");
    }
    st.mix(uint64_t(std::min(n_anc, 3u)) | uint64_t(std::min(n_lca, 3u)) << 4 | uint64_t(std::min(n_chain, 3u)) << 8 | uint64_t(std::min(n_loc, 3u)) << 12);
    st.mix(uint64_t(ilog2(N)));
    if (forks >= 3) st.cls("tree:forks>=3");
    if (forks >= 1) st.cls("tree:forked");
    if (max_h >= 1000) st.cls("tree:height>=1000");
    st.nontrivial = forks >= 1 && max_h >= 12 && cross;
}

VERIF_TARGET(c54_blockproof, nullptr, 8, 24,
             "compact targets (nBits) from a lattice: every exponent 0..36 and 0xff, mantissas at 0/1/0x7fffff/0x008000/0x00ffff/0x010000 +-1, sign bit, "
             "single-bit and random mantissas, plus known network values; GetBitsProof == floor(2^256/(target+1)) by cpp_int, 0 for negative/zero/overflowing "
             "targets; non-trivial = valid target (non-zero work); distinct = (exponent, mantissa class)")
{
    uint32_t bits;
    unsigned mode = s.range<unsigned>(0, 7);
    if (mode == 0) {
        bits = s.pick<uint32_t>({0x1d00ffffu, 0x207fffffu, 0x1e0377aeu, 0x1b0404cbu, 0x170331dbu, 0x1c00ffffu, 0x1d00fffeu, 0x03000001u, 0x01010000u, 0x02008000u,
                                 0x21010000u, 0x2200ffffu, 0x20ffffffu, 0x21000100u, 0x22000001u, 0x23000001u, 0x04800001u, 0x01800000u, 0u, 0xffffffffu});
    } else {
        uint32_t exp = mode == 1 ? s.ConsumeIntegral<uint8_t>() : s.range<uint32_t>(0, 36);
        uint32_t mant;
        switch (s.range<unsigned>(0, 5)) {
        case 0: mant = s.pick<uint32_t>({0u, 1u, 2u, 0xffu, 0x100u, 0xffffu, 0x10000u, 0x7fffffu, 0x7ffffeu, 0x8000u, 0x7fffu, 0x800000u, 0x800001u, 0xffffffu}); break;
        case 1: mant = uint32_t{1} << s.range<unsigned>(0, 23); break;
        case 2: mant = (uint32_t{1} << s.range<unsigned>(0, 23)) - 1; break;
        default: mant = s.range<uint32_t>(0, 0xffffff); break;
        }
        bits = (exp << 24) | (mant & 0xffffffu);
    }
    bool valid = false;
    cpp_int want = ref_proof(bits, &valid);
    arith_uint256 got = GetBitsProof(bits);
    st.steps++;
    st.note("nBits=0x", verif::hex(reinterpret_cast<const unsigned char*>(&bits), 4), " (LE bytes) valid=", valid);
    VCHECK(to_cpp(got) == want, "c54.blockproof-vs-bigint", "nBits", bits, "impl", got.GetHex(), "model", want.str());
    CBlockHeader hd; hd.nBits = bits;
    CBlockIndex bi{hd};
    VCHECK(GetBlockProof(bi) == got && GetBlockProof(hd) == got, "c54.blockproof-vs-bigint", "GetBlockProof overloads disagree, nBits", bits);
    st.nontrivial = valid;
    st.mix(uint64_t(bits >> 24)); st.mix(uint64_t(valid)); st.mix(uint64_t(ilog2(int(bits & 0x7fffff) + 1)));
    st.cls(valid ? "valid-target" : (bits & 0x800000u) ? "invalid:sign-bit" : (bits & 0x7fffffu) == 0 ? "invalid:zero-mantissa" : (bits >> 24) >= 33 ? "invalid:overflow" : "invalid:zero-after-shift");
    if (valid && (bits >> 24) >= 32) st.cls("valid:exponent>=32");
    if (valid && (bits >> 24) <= 3) st.cls("valid:exponent<=3");
}

VERIF_TARGET(c54_chainwork, nullptr, 24, 900,
             "header trees (<= 250 headers) inserted with the real BlockManager::AddToBlockIndex on a fresh in-process regtest node: random parents among "
             "the blocks inserted so far, nBits from network values / random exponents 6..32 / invalid encodings (zero work); per inserted entry: pprev, "
             "height, nChainWork == sum over the naive ancestry of floor(2^256/(target+1)) by cpp_int (total < 2^256 by construction), GetAncestor at "
             "random heights; re-checked for every entry at the end; non-trivial = >= 1 fork and >= 3 distinct nBits on one ancestry")
{
    verif::ChainSimOpts o;
    auto simp = std::make_unique<verif::ChainSim>(o);
    verif::ChainSim& sim = *simp;
    LOCK(cs_main);
    ChainstateManager& cm = sim.chainman();
    CBlockIndex* genesis = cm.ActiveChain()[0];
    VCHECK(genesis != nullptr && genesis->pprev == nullptr && genesis->nHeight == 0, "c54.chainwork-setup", "no genesis");
    struct M { int parent; int height; uint32_t bits; cpp_int work; CBlockIndex* p; int kinds; };
    std::vector<M> m;
    m.push_back({-1, 0, genesis->nBits, ref_proof(genesis->nBits), genesis, 1});
    st.steps++;
    VCHECK(to_cpp(genesis->nChainWork) == m[0].work, "c54.chainwork-vs-bigint-sum", "genesis work", genesis->nChainWork.GetHex());
    int n = s.range<int>(0, 250);
    int forks = 0, max_kinds = 1;
    std::vector<int> nchild{0};
    uint32_t nonce = 0;
    for (int k = 0; k < n; ++k) {
        unsigned how = s.range<unsigned>(0, 3);
        int par = how <= 1 ? int(m.size()) - 1 : how == 2 ? int(s.index(m.size())) : std::max(0, int(m.size()) - 1 - s.range<int>(0, 6));
        uint32_t bits;
        switch (s.range<unsigned>(0, 5)) {
        case 0: bits = m[size_t(par)].bits; break;
        case 1: bits = s.pick<uint32_t>({0x207fffffu, 0x1d00ffffu, 0x1b0404cbu, 0x170331dbu, 0x1e0377aeu}); break;
        case 2: bits = s.pick<uint32_t>({0u, 0x01003456u, 0x04923456u, 0x23000001u, 0x21010000u, 0xff123456u, 0x1d800001u}); break; // zero-work encodings
        default: bits = (s.range<uint32_t>(6, 32) << 24) | s.range<uint32_t>(1, 0x7fffff); break;
        }
        CBlockHeader hd;
        hd.nVersion = 0x20000000;
        hd.hashPrevBlock = m[size_t(par)].p->GetBlockHash();
        hd.nTime = uint32_t(m[size_t(par)].p->nTime + s.range<int>(0, 3));
        hd.nBits = bits;
        hd.nNonce = nonce++;
        CBlockIndex* pi = cm.m_blockman.AddToBlockIndex(hd, cm.m_best_header);
        M e{par, m[size_t(par)].height + 1, bits, m[size_t(par)].work + ref_proof(bits), pi, m[size_t(par)].kinds + (bits != m[size_t(par)].bits)};
        if (nchild[size_t(par)]++ > 0) ++forks;
        nchild.push_back(0);
        max_kinds = std::max(max_kinds, e.kinds);
        st.steps++;
        VCHECK(pi != nullptr && pi->pprev == m[size_t(par)].p && pi->nHeight == e.height, "c54.chainwork-setup", "pprev/height of inserted entry", k);
        VCHECK(to_cpp(pi->nChainWork) == e.work, "c54.chainwork-vs-bigint-sum", "entry", k, "height", e.height, "nBits", bits, "impl", pi->nChainWork.GetHex(), "model", e.work.str());
        m.push_back(e);
        st.note("add #", m.size() - 1, " parent=", par, " h=", e.height, " nBits=", bits);
    }
    // final pass: nothing changed afterwards; sum recomputed by a naive walk to genesis; ancestors through the real skip list
    for (size_t i = 0; i < m.size(); ++i) {
        cpp_int sum = 0;
        for (int j = int(i); j >= 0; j = m[size_t(j)].parent) sum += ref_proof(m[size_t(j)].bits);
        st.steps++;
        VCHECK(sum < (cpp_int(1) << 256), "c54.chainwork-setup", "generator exceeded 2^256 total work");
        VCHECK(to_cpp(m[i].p->nChainWork) == sum, "c54.chainwork-vs-bigint-sum", "final pass entry", i, "impl", m[i].p->nChainWork.GetHex(), "model", sum.str());
        int h = m[i].height == 0 ? 0 : int((i * 2654435761u) % uint32_t(m[i].height + 1));
        int j = int(i);
        while (m[size_t(j)].height > h) j = m[size_t(j)].parent;
        VCHECK(m[i].p->GetAncestor(h) == m[size_t(j)].p, "c54.ancestor-vs-parent-walk", "node-level entry", i, "height", h);
    }
    st.mix(uint64_t(ilog2(n + 1))); st.mix(uint64_t(std::min(forks, 4))); st.mix(uint64_t(std::min(max_kinds, 6)));
    st.nontrivial = forks >= 1 && max_kinds >= 3;
    if (forks >= 1) st.cls("forked");
    if (max_kinds >= 3) st.cls("mixed-nbits-ancestry");
    if (n >= 100) st.cls("headers>=100");
}
