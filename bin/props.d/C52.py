# C52: stage list (what ./check C52 quick|thorough runs) and manifest text. Helpers gen()/enum()/hyp()/custom() come from props.py.
SPEC = {'level': 'exploration',
 'assumptions': ['this tree has the in-house HTTP server (http_bitcoin::HTTPServer / HTTPRemoteClient), not libevent',
                 'c52_parse drives HTTPRemoteClient::ReadRequest through the same steps as HTTPServer::MaybeDispatchRequestsFromClient (append bytes, read, dispatch on '
                 'Complete, 413 on ContentTooLargeError, 400 on other errors); the reply path is not part of that target',
                 'reference expectations only for clearly valid requests (CRLF line ends, methods GET/POST/HEAD/PUT/other tokens, HTTP/1.0|1.1, token header names) and 16 '
                 'clearly invalid defect kinds; everything else (LF-only, limits +-3 bytes, TE+CL, odd number formats, truncation) is checked by the metamorphic relation only',
                 'c52_server: mock sockets, peer address fixed to 5.5.5.5 (DynSock); c52_auth: real loopback TCP port chosen from the worker pid, credentials '
                 'rpcuser/rpcpassword + two rpcauth entries (cookie authentication shares the rpcuser code path and is not exercised)',
                 'server-level cases that exceed their time-out on an overloaded machine are counted (class *-timeout) and give no verdict'],
 'stages': [gen('vh_c52', 'c52_parse', 8000, 150000, min_cases_quick=1500,
                floors={'reference-all-valid': 0.3, 'reference-invalid': 0.1, 'metamorphic-only': 0.1, 'all-2-splits': 0.3, 'pipelined-dispatch': 0.2, 'valid-chunked': 0.1,
                        'outcome-400': 0.15, 'outcome-413': 0.01, 'stream>8000': 0.03, 'murky-header-block-at-limit': 0.01, 'defect-header-block-too-large': 0.005},
                rule='grammar streams parsed under all 2-splits / byte-by-byte / k-splits; non-trivial = >=20 fragmentations and (>=2 requests or chunked or error outcome)'),
            gen('vh_c52', 'c52_server', 160, 3000, min_cases_quick=40, floors={'peer-allowed': 0.2, 'peer-refused': 0.15},
                rule='HTTPServer thread over mock sockets: allow list vs own CIDR reference; whole vs pieces delivery'),
            gen('vh_c52', 'c52_auth', 480, 8000, min_cases_quick=100, floors={'rpc-executed': 0.15, 'refused-401': 0.3, 'auth-wrong-password': 0.03, 'auth-valid-canonical': 0.08},
                rule='JSON-RPC on loopback: executed only with configured credentials'),
            gen('vh_c52', 'up_http_request', 4000, 80000, rule='upstream HTTPRequest parser target (supplementary)')]}

META = {'level_text': 'Generated request streams (pipelining, Content-Length and chunked bodies, 16 defect kinds, 18 borderline kinds, header blocks around 8192 bytes) are '
               'parsed by the production request reader under every 2-split (streams <= 300 bytes; boundary splits otherwise), byte-by-byte and random k-splits: '
               'dispatched (method, target, version, headers, body) sequence and 400/413 outcome must not depend on the fragmentation, and must equal the '
               "generator's own expectation on the clearly valid / clearly invalid classes. The real server thread is exercised over mock sockets (allow list vs "
               'own CIDR reference; whole vs pieces) and the JSON-RPC handler over loopback TCP (executed only with configured credentials). Exploration.',
 'technique': 'property-based testing: metamorphic relation over fragmentations (exhaustive 2-splits for short streams) + reference-by-construction + reference models for allow list and credentials',
 'level_note': 'Trusted base: the harness loop mirroring MaybeDispatchRequestsFromClient, own CIDR and base64 code, the probe RPC command; timing-dependent server cases give no '
               'verdict on time-out.'}
