# C39: stage list (what ./check C39 quick|thorough runs) and manifest text. Helpers gen()/enum()/hyp()/custom() come from props.py.
SPEC = {'level': 'exploration',
 'assumptions': ['in-process regtest node (ChainSim + NetSim), mock time, no reorgs in the getdata histories (transactions re-entering the pool from a disconnected block '
                 'are public by design and carry sequence 0)',
                 'getdata model: "the node last sent that peer announcements" is approximated from above by the last SendMessages call for that peer (the only place '
                 'where the announcement sequence can advance); entry into the pool is observed after every ProcessMessages call',
                 'private broadcast: connections are opened by the harness (no Tor/I2P sockets); caps checked on the PrivateBroadcast object (small caps by model, the '
                 'defaults 10,000 / 1,000 by one direct run)'],
 'stages': [gen('vh_c39', 'c39_getdata', 480, 8000, min_cases_quick=150, max_seconds_quick=1800, max_seconds_thorough=1800,
                floors={'served-pool-tx': 0.15, 'withheld-pool-tx': 0.3, 'block': 0.15, 'served-recent-block': 0.03, 'local-submit': 0.2},
                rule='pool additions / SendMessages / getdata interleavings; non-trivial = a pool tx served and a pool tx withheld'),
            gen('vh_c39', 'c39_privbroadcast', 400, 7000, min_cases_quick=120, max_seconds_quick=1800, max_seconds_thorough=1500,
                floors={'private-submit': 0.6, 'pb-full-cycle': 0.1, 'probe-notfound': 0.2, 'pb-conn-up': 0.3},
                rule='private-broadcast flows; non-trivial = complete private send and a probe answered notfound'),
            gen('vh_c39', 'c39_pb_object', 16000, 300000, min_cases_quick=5000, floors={'queue-full': 0.2, 're-added-after-exhaustion': 0.1, 'picked': 0.5},
                rule='PrivateBroadcast op sequences vs reference model; non-trivial = QueueFull hit and exhausted tx re-added'),
            enum('vh_c39', 'c39_pb_limits', rule='default caps 10,000 / 1,000'),
            gen('vh_c39', 'up_private_broadcast', 3000, 60000, min_cases_quick=800, rule='upstream fuzz target private_broadcast (supplementary)'),
            gen('vh_c39', 'up_p2p_private_broadcast', 500, 10000, min_cases_quick=120, rule='upstream fuzz target p2p_private_broadcast (supplementary)')]}

META = {'level_text': 'Three generated tiers: (1) interleavings of pool additions (peer and local), per-peer SendMessages, getdata by txid/wtxid from every peer, BIP35 requests, '
               'feefilters and blocks, with a harness-side logical clock deciding which tx replies are legal (entered before the last announcement opportunity for that '
               'peer, or in the most recent block); (2) private-broadcast flows on an in-process node: the tx never enters the pool and never appears in inv/tx to '
               'ordinary connections until received back or re-submitted, one inv and one tx per private connection, tx only after its getdata; (3) the PrivateBroadcast '
               'queue against a reference model with small caps plus one run at the default caps. Exploration.',
 'technique': 'stateful property-based testing: announcement-sequence model, message-log invariants, reference model of the private-broadcast queue'}
