# C21: stage list (what ./check C21 quick|thorough runs) and manifest text. Helpers gen()/enum()/hyp()/custom() come from props.py.
SPEC = {
    "level": "exploration",
    "assumptions": [
        "recomputation from the model's copy of the active chain (RefLedger): own BIP158 encoder (own SipHash-2-4 + Golomb-Rice), own MuHash3072 arithmetic "
        "(boost cpp_int); SHA256 and ChaCha20 are reused as trusted primitives",
        "index restarts = destroy + recreate the index object on its on-disk DB in the clean-shutdown order of init.cpp (Interrupt, chainstate flush, drain "
        "callbacks, Stop); the node itself is not restarted; crash restarts are out of scope (C16)",
        "mid-sync interruption uses a real sync thread stopped when a generated height is indexed: where exactly it stops is timing dependent, the verdict at "
        "quiescence is not",
        "regtest, 104 empty base blocks, histories <= 34 ops; no pruning; txindex legacy format not exercised",
    ],
    "stages": [
        gen("vh_c21", "c21_indexes", 320, 6000, min_cases_quick=40, max_seconds_quick=300,
            floors={"reorg": 0.25, "restart": 0.25, "reorg-while-behind+restart": 0.08, "interrupted-mid-sync": 0.08, "stale-branch-with-spends": 0.1, "restart-on-stale-best-not-below-tip": 0.15},
            rule="fork/reorg histories with 4 indexes started, lagging, interrupted mid-sync and restarted; non-trivial = reorg while an index was behind/absent + restart"),
        gen("vh_c21", "c21_muhash", 4000, 80000, min_cases_quick=400, max_seconds_quick=120,
            floors={"permuted": 0.3, "remove-before-insert": 0.15},
            rule="MuHash3072 order independence / insert-remove pairs / product-quotient / serialization vs own cpp_int reference"),
    ],
}

META = {
    "level_text": "Generated fork/reorg histories on an in-process regtest node with txindex, BIP158 block filter index, coinstatsindex and txospenderindex on "
                  "on-disk databases, including indexes that lag behind, background syncs interrupted part-way and index restarts; at check points every index "
                  "is compared with an independent recomputation from the model's active chain (own BIP158 encoder and header chain, own 3072-bit MuHash, per-height "
                  "UTXO count/amount, active spender of every spent output). MuHash order independence is checked on generated multisets against the same "
                  "reference. Exploration over bounded histories.",
    "technique": "stateful property-based testing with recomputation oracle (independent reference implementations of BIP158 and MuHash3072)",
    "level_note": "trusted base: RefLedger replay, c21ref encoder/arithmetic in harness/targets/c21_indexes.cpp, SHA256 + ChaCha20 primitives",
}
