// MempoolSim (DESIGN.md §3.4): ChainSim + mempool submission helpers, a transaction generator over the model UTXO and the
// unconfirmed outputs, block mining from pool subsets, reorgs, mock time, prioritisation, and a NAIVE MEMPOOL MODEL
// (set of transactions + links recomputed from inputs) with independent re-computation helpers.
//
// Typical use (see targets/c22_mempool_history.cpp):
//     MempoolSimOpts o; o.extra_args = {"-maxmempool=1", "-limitclustersize=20"};
//     MempoolSim ms(o);                         // node + 110-block base + one funding block, mock time set
//     GenTx g = ms.Gen(s);                      // a generated transaction (or child-with-parents package)
//     auto r = ms.Submit(g.tx);                 // ProcessTransaction (+ CTxMemPool::check if enabled)
//     PoolSnap snap = ms.Snapshot();            // what the real pool holds now (entries, fees, deltas, links, clusters)
//     PoolIssue is = CheckSnapshot(snap, ms.ChainUtxo());   // independent recomputation; is.id empty == consistent
//     ms.MineFromPool(subset, extra_txs);       // block = chosen pool txs (+ancestors) + non-pool txs, delivered
//     ms.InvalidateTip(2); ms.ReconsiderAll();  // reorgs;  ms.ForkAndOvertake(depth, txs) for a competing branch
//     ms.AdvanceTime(3600); ms.Expire();        // mock clock
// Nothing here calls CheckMempoolTRUCInvariants/CheckMempoolEphemeralInvariants or other repo-side checkers.
#ifndef VERIF_KITS_MEMPOOLSIM_H
#define VERIF_KITS_MEMPOOLSIM_H

#include <engine/verif.h>
#include <kits/chainsim.h>

#include <kernel/mempool_removal_reason.h>
#include <policy/packages.h>
#include <util/feefrac.h>

#include <map>
#include <memory>
#include <optional>
#include <set>
#include <string>
#include <vector>

namespace verif {

// ------------------------------------------------------------------------------------------------
// Own timelock model (written from BIP65/BIP68/BIP113, shares no code with tx_verify.cpp)

/** nLockTime rule for a block at `block_height` whose predecessor has median-time-past `prev_mtp` */
bool ModelIsFinal(const CTransaction& tx, int block_height, int64_t prev_mtp);

struct ModelSeqLock {
    int min_height{-1};     //!< the tx may be included in a block of height > min_height
    int64_t min_time{-1};   //!< ... whose predecessor has MTP > min_time
};
/** BIP68. coin_heights[i] = height of the block that confirmed input i (for an unconfirmed input: the height of the block
 *  that would include both). mtp_at(h) = median-time-past of the chain's block at height h. */
ModelSeqLock ModelSequenceLocks(const CTransaction& tx, const std::vector<int>& coin_heights, const std::function<int64_t(int)>& mtp_at);

/** Dust threshold written from the policy documentation (3000 sat/kvB default): the cost of creating + spending the output. */
CAmount ModelDustThreshold(const CTxOut& out, CAmount dust_feerate_per_kvb = 3000);
bool ModelIsDust(const CTxOut& out, CAmount dust_feerate_per_kvb = 3000);

/** Own signature-operation cost counter, written from the BIP16/BIP141 rules (shares no code with script.cpp/tx_verify.cpp):
 *  4 x legacy count over scriptSigs and output scripts (CHECKSIG(VERIFY) = 1, CHECKMULTISIG(VERIFY) = 20), 4 x accurate count of the
 *  redeem script for P2SH inputs (CHECKMULTISIG after OP_n counts n), 1 per P2WPKH input, accurate count of the witness script for P2WSH
 *  inputs (also when nested in P2SH); other witness versions 0. `spk_of` returns the script of a spent output (nullopt: unknown, counted 0). */
int64_t ModelSigOpCost(const CTransaction& tx, const std::function<std::optional<CScript>(const COutPoint&)>& spk_of);

/** pay-to-anchor output script (OP_1 <0x4e73>) */
CScript P2AScript();

// ------------------------------------------------------------------------------------------------
// Naive mempool model: a set of transactions; everything else is recomputed from the inputs.

struct ModelPool {
    std::map<Txid, CTransactionRef> txs;
    std::map<Txid, std::set<Txid>> parents;   //!< in-pool parents (distinct txids of inputs that are pool members)
    std::map<Txid, std::set<Txid>> children;
    std::map<COutPoint, std::vector<Txid>> spenders; //!< outpoint -> pool txs spending it (size > 1 == double spend)

    static ModelPool From(const std::vector<CTransactionRef>& txs);
    bool Has(const Txid& t) const { return txs.count(t) > 0; }
    std::set<Txid> Ancestors(const Txid& t) const;    //!< including t
    std::set<Txid> Descendants(const Txid& t) const;  //!< including t
    /** connected components by own union-find over spends, each sorted, components ordered by smallest txid */
    std::vector<std::vector<Txid>> Clusters() const;
    /** parents before children (Kahn, ties by txid); empty optional if there is a cycle */
    std::optional<std::vector<Txid>> TopoOrder() const;
    /** topological order restricted to `subset` plus all of its ancestors */
    std::vector<Txid> ClosedTopo(const std::set<Txid>& subset) const;
};

// ------------------------------------------------------------------------------------------------
// Snapshot of the REAL pool

struct PoolEntrySnap {
    CTransactionRef tx;
    CAmount fee{0}, modified_fee{0};
    int32_t vsize{0};
    int32_t weight{0};
    int64_t time{0};
    unsigned height{0};
    uint64_t sequence{0};
    bool spends_coinbase{false};
    int64_t sigop_cost{0};
    int lp_height{0};
    int64_t lp_time{0};
    uint256 lp_block;                   //!< hash of LockPoints::maxInputBlock (null if none)
    size_t mem_usage{0};
    std::set<Txid> parents, children;   //!< as answered by CTxMemPool::GetParents/GetChildren
    std::set<Txid> ancestors, descendants; //!< as answered by the tx graph (CalculateMemPoolAncestors/CalculateDescendants), incl. itself
    std::set<Txid> cluster;             //!< as answered by CTxMemPool::GetCluster
    int64_t chunk_fee{0};               //!< GetMainChunkFeerate
    int32_t chunk_size{0};
};

struct PoolSnap {
    std::map<Txid, PoolEntrySnap> entries;
    std::vector<Txid> order;            //!< infoAll() order (mining score with topology)
    uint64_t total_vsize{0};
    CAmount total_fee{0};
    size_t usage{0};
    uint64_t sequence{0};
    CAmount min_fee_per_kvb{0};         //!< GetMinFee().GetFeePerK()
    std::map<Txid, CAmount> deltas;     //!< mapDeltas
    std::set<Txid> unbroadcast;
    unsigned txns_updated{0};
    uint256 tip;
    int tip_height{0};

    std::vector<CTransactionRef> Txs() const;
    /** hash over everything above (entries incl. fees, deltas, links, times, sequence, usage, unbroadcast, min fee) */
    uint256 Digest() const;
    /** first difference between two snapshots, empty if none */
    std::string Diff(const PoolSnap& o) const;
};

struct PoolIssue {
    std::string id;   //!< empty = consistent; else one of: cycle, input-missing, double-spend, output-index, fee, links, closure, cluster, totals, order
    std::string msg;
    explicit operator bool() const { return !id.empty(); }
};
/** Independent recomputation from the snapshot's transaction list + the model UTXO of the active chain:
 *  every input is an unspent chain UTXO or an existing output of another pool tx; no outpoint spent twice; entry fee ==
 *  sum(in) - sum(out) by the model's coin values; parent/child sets, ancestor/descendant closures and clusters answered
 *  by the pool equal those recomputed from the inputs; totals equal the sums over entries; infoAll order is topological. */
PoolIssue CheckSnapshot(const PoolSnap& snap, const RefUtxo& chain_utxo);

// ------------------------------------------------------------------------------------------------
// Notifications

struct PoolEvent {
    enum Kind { ADDED, REMOVED, BLOCK_CONNECTED, BLOCK_DISCONNECTED } kind{ADDED};
    Txid txid;                         //!< for ADDED/REMOVED
    CTransactionRef tx;
    MemPoolRemovalReason reason{MemPoolRemovalReason::EXPIRY};
    uint64_t seq{0};
    uint256 block;                     //!< for BLOCK_*
    CAmount fee{0};
    int64_t vsize{0};
};

// ------------------------------------------------------------------------------------------------

struct MempoolSimOpts {
    std::vector<const char*> extra_args{};   //!< e.g. "-maxmempool=1", "-limitclustercount=8", "-limitclustersize=20", "-mempoolexpiry=1", "-acceptnonstdtxn=1"
    bool with_mempool_checks{true};          //!< CTxMemPool::check() (ratio 1) as an additional monitor
    int base_blocks{110};                    //!< empty blocks (coinbases of heights 1..base-99 are mature)
    bool funding_block{true};                //!< one more block fanning two coinbases out into ~36 outputs of mixed script types
    /** If set, the node's mempool is REPLACED by one built from the usual test options after this edit (e.g. max_size_bytes
     *  below 1 MB, expiry in seconds, require_standard). Must keep max_size_bytes >= 40 * limits.cluster_size_vbytes. */
    std::function<void(CTxMemPool::Options&)> tweak_mempool{};
    std::optional<size_t> coins_cache_bytes{};
    bool min_validation_cache{false};                //!< forwarded to ChainSimOpts: 0-byte signature / script-execution caches
    std::optional<size_t> validation_cache_bytes{};  //!< forwarded to ChainSimOpts::validation_cache_bytes
};

/** A coin the generator may spend */
struct Spendable {
    COutPoint op;
    RefCoin coin;                 //!< coin.height = confirmation height; for unconfirmed outputs: -1
    bool unconfirmed{false};
    std::optional<Txid> spent_by; //!< pool tx already spending it (spending it again is a conflict / RBF attempt)
};

enum class GenKind {
    PLAIN, CHAIN, MERGE, CONFLICT, TRUC_PARENT, TRUC_CHILD, TRUC_SIBLING, TRUC_MIXED, DUSTY_PKG, DUST_CHILD, CPFP_PKG, LOCKTIME, BIP68,
    COINBASE_SPEND, BIG, JUNK, RESUBMIT
};
const char* GenKindName(GenKind k);

struct GenTx {
    GenKind kind{GenKind::PLAIN};
    CTransactionRef tx;                    //!< the transaction (for packages: the child, == package.back())
    std::vector<CTransactionRef> package;  //!< non-empty: child-with-parents package, topologically sorted
    std::string note;                      //!< decoded description
    bool boundary_ok{true};                //!< generator's intent for boundary kinds: the "just satisfied" side (true) or "just not" (false)
    CAmount fee{0};                        //!< model fee of `tx`
};

struct TxPlan {
    std::vector<Spendable> inputs;
    std::vector<uint32_t> sequences{};     //!< per input; default 0xfffffffd
    uint32_t version{2};
    uint32_t locktime{0};
    CAmount fee{1000};
    std::vector<CTxOut> fixed_outputs{};   //!< outputs with fixed value (dust, anchors, OP_RETURN padding)
    std::vector<CScript> change_scripts{}; //!< the remaining value (inputs - fee - fixed) is split evenly over these (>= 1 unless no value left)
};

class MempoolSim
{
public:
    explicit MempoolSim(MempoolSimOpts opts = {});
    ~MempoolSim();
    MempoolSim(const MempoolSim&) = delete;

    ChainSim& sim() { return *m_sim; }
    CTxMemPool& pool() { return m_sim->mempool(); }
    const MempoolSimOpts opts;

    // ---- clock (mock time; starts at tip time + 600)
    int64_t Now() const { return m_now; }
    void AdvanceTime(int64_t seconds);

    // ---- chain views (cached per tip)
    int TipHeight();
    uint256 TipHash();
    int64_t TipMTP();                               //!< model MTP of the tip
    int64_t MtpAtHeight(int h);                     //!< model MTP of the active chain's block at height h
    const RefUtxo& ChainUtxo();                     //!< RefLedger replay of the active chain
    /** the naive model of the pool = transaction list of the last Sync() */
    const ModelPool& Belief() const { return m_belief; }
    const PoolSnap& LastSnap() const { return m_last; }
    /** snapshot the real pool (does not modify it) */
    PoolSnap Snapshot();
    /** Snapshot() and make it the belief used by the generator */
    const PoolSnap& Sync();

    // ---- generator
    /** spendable coins: confirmed model UTXOs with a script the harness can satisfy + outputs of believed pool txs */
    std::vector<Spendable> Spendables();
    bool CanSpend(const CScript& spk) const;
    bool IsMatureAtNext(const RefCoin& c);          //!< model: spendable in a block at height tip+1
    CTransactionRef Build(const TxPlan& plan);
    /** One generated transaction or package; kind chosen by `s` (zero bytes => a plain confirmed spend). */
    GenTx Gen(Src& s);
    GenTx GenOfKind(Src& s, GenKind k);
    /** a transaction not intended for the pool (block-only), spending confirmed coins, optionally conflicting with pool txs */
    CTransactionRef GenBlockOnlyTx(Src& s, bool conflict_with_pool);
    /** script for a fresh output of the given type (key chosen by s) */
    CScript OutScript(Src& s);
    CAmount MinRelayFee(int64_t vsize) const { return (vsize * 100 + 999) / 1000; }

    // ---- submission (under cs_main)
    MempoolAcceptResult Submit(const CTransactionRef& tx, bool test_accept = false);
    PackageMempoolAcceptResult SubmitPackage(const Package& pkg, bool test_accept = false);
    void Prioritise(const Txid& txid, CAmount delta);
    int Expire(int64_t older_than_seconds_ago);     //!< CTxMemPool::Expire(now - x)
    void TrimToSize(size_t bytes);
    /** CTxMemPool::check() against the coins tip (asserts inside on inconsistency; no-op if checks are off) */
    void RunPoolCheck();

    // ---- blocks
    /** Build (not deliver) a block on `parent` from `candidates` in the given order, keeping only those the MODEL accepts at that
     *  point (inputs available, maturity, amounts, nLockTime, BIP68); registered with the ledger. */
    std::shared_ptr<CBlock> BuildBlockOn(const uint256& parent, const std::vector<CTransactionRef>& candidates,
                                         int64_t time_delta = 0, uint32_t extra_nonce = 0, std::vector<CTransactionRef>* dropped = nullptr);
    /** An unregistered block on the tip holding exactly `txs` (no filtering), for TestBlockValidity. */
    CBlock MakeCandidateBlock(const std::vector<CTransactionRef>& txs, CAmount fees);
    /** Blocks on the tip that together contain ALL transactions of the snapshot, each cluster whole, topological, each block <= max_weight. */
    std::vector<CBlock> WholePoolBlocks(const PoolSnap& snap, int64_t max_weight = 3'900'000);
    /** The model's verdict for including `txs` (in order) in the next block: "" or the first violated model rule */
    std::string ModelNextBlockVerdict(const std::vector<CTransactionRef>& txs, CAmount* fees_out = nullptr);
    struct Mined { std::shared_ptr<CBlock> block; ChainSim::Delivery delivery; bool became_tip{false}; std::vector<CTransactionRef> dropped; };
    /** pool subset (closed under ancestors, topological) followed by `extra` */
    Mined MineFromPool(const std::set<Txid>& subset, const std::vector<CTransactionRef>& extra, int64_t time_delta = 0);
    Mined MineTxs(const std::vector<CTransactionRef>& txs, int64_t time_delta = 0);
    /** InvalidateBlock on the active chain's block at height tip-depth+1 (depth 1 = the tip), then ActivateBestChain (as the RPC does:
     *  the node may settle on another branch); returns the invalidated hash (null if nothing was done) */
    uint256 InvalidateTip(int depth);
    /** clear failure flags of everything invalidated through InvalidateTip and activate the best chain */
    void ReconsiderAll();
    /** competing branch: fork `depth` blocks below the tip and mine depth+1 blocks (the first holding `txs`, model-filtered) */
    std::vector<Mined> ForkAndOvertake(int depth, const std::vector<CTransactionRef>& first_block_txs, int64_t time_delta = 0);

    // ---- notifications since construction
    const std::vector<PoolEvent>& Events() const;
    size_t EventCount() const;

    /** all transactions ever generated/seen by this sim, by txid (for re-submission, re-mining) */
    std::map<Txid, CTransactionRef> known_txs;
    /** coins spent by known transactions (value/script), for fee computation of arbitrary known txs */
    std::optional<RefCoin> LookupCoin(const COutPoint& op);

private:
    class Recorder;
    std::unique_ptr<ChainSim> m_sim;
    std::shared_ptr<Recorder> m_rec;
    int64_t m_now{0};
    uint256 m_utxo_tip;
    RefUtxo m_utxo;
    ModelPool m_belief;
    PoolSnap m_last;
    std::vector<uint256> m_invalidated;
    std::set<CScript> m_spendable_spks;
    uint32_t m_nonce{1000};
    void Remember(const CTransactionRef& tx) { known_txs[tx->GetHash()] = tx; }
    void TouchClockForBlock(uint32_t block_time);
    Spendable* PickWhere(Src& s, std::vector<Spendable>& v, const std::function<bool(const Spendable&)>& pred, bool prefer_late = false);
};

/** true if the environment variable VH_TRACE is set: Note() then also prints each decoded step to stderr as it happens
 *  (a failing --replay does not print the decoded case) */
bool TraceEnabled();
void TraceLine(const std::string& line);
template <typename... A>
void Note(Stats& st, const A&... a)
{
    st.note(a...);
    if (TraceEnabled()) {
        std::ostringstream os;
        (os << ... << a);
        TraceLine(os.str());
    }
}

std::string TxStateStr(const MempoolAcceptResult& r);
std::string PkgStateStr(const PackageMempoolAcceptResult& r);

} // namespace verif

#endif // VERIF_KITS_MEMPOOLSIM_H
