// C61 — Core containers behave like their standard counterparts (prevector, VecDeque, bitdeque).
// Oracle: lock-step models std::vector<T> / std::deque<T> / std::deque<bool>; after EVERY operation the full observable
// state (size, every element through every access path, iterators, comparison operators) must equal the model's.
// The pool memory resource is in c61_pool.cpp.
#include <engine/verif.h>

#include <prevector.h>
#include <util/bitdeque.h>
#include <util/vecdeque.h>

#include <algorithm>
#include <compare>
#include <cstdint>
#include <deque>
#include <stdexcept>
#include <string>
#include <vector>

namespace {

/** sizes concentrated around a boundary B (inline capacity / word size / current capacity) */
size_t size_near(verif::Src& s, size_t B, size_t maxv)
{
    size_t v;
    switch (s.range<unsigned>(0, 4)) {
    case 0: v = s.range<size_t>(0, 3); break;
    case 1: case 2: { size_t lo = B >= 2 ? B - 2 : 0; v = s.range<size_t>(lo, B + 2); break; }
    case 3: { size_t lo = 2 * B >= 2 ? 2 * B - 2 : 0; v = s.range<size_t>(lo, 2 * B + 2); break; }
    default: v = s.range<size_t>(0, maxv); break;
    }
    return std::min(v, maxv);
}

// ---------------------------------------------------------------------------------------------------------------
// prevector
template <unsigned N, typename T>
struct PrevectorRun {
    using P = prevector<N, T>;
    using M = std::vector<T>;
    verif::Src& s;
    verif::Stats& st;
    P pv[2];
    M mv[2];
    unsigned up{0}, down{0}, structural_indirect{0}, mixed_swap{0};
    uint32_t counter{1};
    static constexpr size_t MAXSZ = 3 * N + 12;

    PrevectorRun(verif::Src& s_, verif::Stats& st_) : s(s_), st(st_) {}

    T val() { return s.chance(64) ? T(0) : T(counter++ * 37 + s.range<unsigned>(0, 3)); }
    static bool direct(const P& p)
    {
        const char* d = reinterpret_cast<const char*>(p.data());
        const char* o = reinterpret_cast<const char*>(&p);
        return d >= o && d < o + sizeof(P);
    }

    void check(int i, const char* op)
    {
        P& p = pv[i];
        const P& cp = p;
        const M& m = mv[i];
        st.steps++;
        VCHECK(p.size() == m.size(), "c61.prevector-size", "after", op, "impl", p.size(), "model", m.size());
        VCHECK(p.empty() == m.empty(), "c61.prevector-size", "empty() after", op);
        VCHECK(size_t(p.end() - p.begin()) == m.size() && size_t(cp.end() - cp.begin()) == m.size(), "c61.prevector-iter", "end-begin after", op);
        for (size_t k = 0; k < m.size(); ++k) {
            VCHECK(p[k] == m[k] && cp[k] == m[k], "c61.prevector-content", "after", op, "index", k, "impl", uint64_t(p[k]), "model", uint64_t(m[k]));
            VCHECK(&p[k] == p.data() + k && &cp[k] == cp.data() + k && &*(p.begin() + k) == &p[k] && &*(cp.end() - (m.size() - k)) == &cp[k],
                   "c61.prevector-iter", "address paths disagree after", op, "index", k);
        }
        {
            size_t k = 0;
            for (const T& v : cp) { VCHECK(k < m.size() && v == m[k], "c61.prevector-iter", "forward iteration after", op, "index", k); ++k; }
            VCHECK(k == m.size(), "c61.prevector-iter", "forward iteration length after", op);
            auto it = p.end();
            while (it != p.begin()) { --it; --k; VCHECK(*it == m[k], "c61.prevector-iter", "backward iteration after", op, "index", k); }
        }
        if (!m.empty()) {
            VCHECK(p.front() == m.front() && p.back() == m.back() && cp.front() == m.front() && cp.back() == m.back(), "c61.prevector-content", "front/back after", op);
            VCHECK(&p.front() == &p[0] && &p.back() == &p[m.size() - 1], "c61.prevector-iter", "front/back address after", op);
        }
        VCHECK(p.capacity() >= p.size() && p.capacity() >= N, "c61.prevector-capacity", "after", op, "capacity", p.capacity(), "size", p.size());
        bool d = direct(p);
        VCHECK(d == (p.allocated_memory() == 0), "c61.prevector-memory", "allocated_memory vs storage location after", op, "direct", d, "allocated", p.allocated_memory());
        if (d) VCHECK(p.capacity() == N && p.size() <= N, "c61.prevector-memory", "inline storage but capacity != N after", op);
        else VCHECK(p.allocated_memory() == sizeof(T) * p.capacity(), "c61.prevector-memory", "allocated_memory != sizeof(T)*capacity after", op);
    }
    void check_both(const char* op)
    {
        bool d0 = direct(pv[0]), d1 = direct(pv[1]);
        check(0, op);
        check(1, op);
        st.steps++;
        VCHECK((pv[0] == pv[1]) == (mv[0] == mv[1]) && (pv[0] != pv[1]) == (mv[0] != mv[1]), "c61.prevector-compare", "operator== after", op);
        VCHECK(direct(pv[0]) == d0 && direct(pv[1]) == d1, "c61.prevector-memory", "checking changed the representation");
    }

    void step()
    {
        int a = s.boolean() ? 1 : 0, b = 1 - a;
        P& p = pv[a];
        M& m = mv[a];
        bool was_direct = direct(p);
        unsigned op = s.range<unsigned>(0, 27);
        const char* name = "?";
        switch (op) {
        case 0: { name = "push_back"; if (m.size() >= MAXSZ) break; T v = val(); p.push_back(v); m.push_back(v); break; }
        case 1: { name = "emplace_back"; if (m.size() >= MAXSZ) break; T v = val(); p.emplace_back(v); m.emplace_back(v); break; }
        case 2: { name = "pop_back"; if (m.empty()) break; p.pop_back(); m.pop_back(); break; }
        case 3: {
            name = "insert(pos,v)"; if (m.size() >= MAXSZ) break;
            size_t pos = s.index(m.size() + 1); T v = val();
            auto it = p.insert(p.begin() + pos, v); m.insert(m.begin() + pos, v);
            VCHECK(size_t(it - p.begin()) == pos && *it == v, "c61.prevector-iter", "insert returned wrong iterator");
            break;
        }
        case 4: {
            name = "insert(pos,n,v)";
            size_t pos = s.index(m.size() + 1); size_t n = size_near(s, N > m.size() ? N - m.size() : 1, N + 4); T v = val();
            if (m.size() + n > MAXSZ) break;
            p.insert(p.begin() + pos, typename P::size_type(n), v); m.insert(m.begin() + pos, n, v);
            break;
        }
        case 5: case 6: {
            name = op == 5 ? "insert(pos,range:vector)" : "insert(pos,range:other prevector)";
            size_t pos = s.index(m.size() + 1);
            if (op == 5) {
                size_t n = size_near(s, N > m.size() ? N - m.size() : 1, N + 4);
                if (m.size() + n > MAXSZ) break;
                M src; for (size_t k = 0; k < n; ++k) src.push_back(val());
                p.insert(p.begin() + pos, src.begin(), src.end()); m.insert(m.begin() + pos, src.begin(), src.end());
            } else {
                if (m.size() + mv[b].size() > MAXSZ) break;
                size_t from = s.index(mv[b].size() + 1), to = from + s.index(mv[b].size() - from + 1);
                p.insert(p.begin() + pos, pv[b].begin() + from, pv[b].begin() + to); m.insert(m.begin() + pos, mv[b].begin() + from, mv[b].begin() + to);
            }
            break;
        }
        case 7: {
            name = "erase(pos)"; if (m.empty()) break;
            size_t pos = s.index(m.size());
            auto it = p.erase(p.begin() + pos); m.erase(m.begin() + pos);
            VCHECK(size_t(it - p.begin()) == pos, "c61.prevector-iter", "erase returned wrong iterator");
            break;
        }
        case 8: {
            name = "erase(first,last)";
            size_t first = s.index(m.size() + 1), last = first + s.index(m.size() - first + 1);
            auto it = p.erase(p.begin() + first, p.begin() + last); m.erase(m.begin() + first, m.begin() + last);
            VCHECK(size_t(it - p.begin()) == first, "c61.prevector-iter", "erase(range) returned wrong iterator");
            break;
        }
        case 9: { name = "resize"; size_t n = size_near(s, N, MAXSZ); p.resize(typename P::size_type(n)); m.resize(n); break; }
        case 10: {
            name = "resize_uninitialized";
            size_t n = size_near(s, N, MAXSZ), old = m.size();
            p.resize_uninitialized(typename P::size_type(n)); m.resize(n);
            for (size_t k = old; k < n; ++k) { T v = val(); p[k] = v; m[k] = v; } // added elements must be initialised by the caller
            break;
        }
        case 11: {
            name = "reserve"; size_t n = size_near(s, N, MAXSZ + 20);
            p.reserve(typename P::size_type(n)); m.reserve(n);
            VCHECK(p.capacity() >= n, "c61.prevector-capacity", "reserve(n) left capacity < n", n, p.capacity());
            break;
        }
        case 12: {
            name = "shrink_to_fit"; p.shrink_to_fit(); m.shrink_to_fit();
            if (m.size() <= N) VCHECK(direct(p), "c61.prevector-memory", "shrink_to_fit with size <= N did not return to inline storage");
            break;
        }
        case 13: { name = "clear"; p.clear(); m.clear(); break; }
        case 14: { name = "assign(n,v)"; size_t n = size_near(s, N, MAXSZ); T v = val(); p.assign(typename P::size_type(n), v); m.assign(n, v); break; }
        case 15: {
            name = "assign(range)";
            if (s.boolean()) { M src; size_t n = size_near(s, N, MAXSZ); for (size_t k = 0; k < n; ++k) src.push_back(val()); p.assign(src.begin(), src.end()); m.assign(src.begin(), src.end()); }
            else { p.assign(pv[b].begin(), pv[b].end()); m.assign(mv[b].begin(), mv[b].end()); }
            break;
        }
        case 16: {
            name = "swap";
            bool mixed = direct(pv[0]) != direct(pv[1]);
            if (s.boolean()) { pv[0].swap(pv[1]); } else { name = "std::swap"; std::swap(pv[0], pv[1]); }
            mv[0].swap(mv[1]);
            if (mixed) { mixed_swap++; st.cls("swap:inline<->heap"); }
            if (!direct(pv[0]) || !direct(pv[1])) structural_indirect++;
            break;
        }
        case 17: { name = "copy-construct"; P tmp(pv[b]); if (!direct(tmp)) structural_indirect++; p = std::move(tmp); m = mv[b]; break; }
        case 18: {
            name = "copy-assign";
            if (s.chance(32)) { name = "self copy-assign"; P& self = p; p = self; } else { if (!direct(pv[b])) structural_indirect++; p = pv[b]; m = mv[b]; }
            break;
        }
        case 19: {
            name = "move-construct";
            if (!direct(pv[b])) { structural_indirect++; st.cls("move:heap"); }
            P tmp(std::move(pv[b]));
            VCHECK(pv[b].size() == 0 && pv[b].empty(), "c61.prevector-move", "moved-from prevector not empty after move construction", pv[b].size());
            M mtmp(std::move(mv[b])); mv[b].clear();
            check(b, "move-construct(source)");
            p = std::move(tmp); m = std::move(mtmp);
            break;
        }
        case 20: {
            name = "move-assign";
            if (!direct(pv[b])) { structural_indirect++; st.cls("move:heap"); }
            p = std::move(pv[b]);
            VCHECK(pv[b].size() == 0 && pv[b].empty(), "c61.prevector-move", "moved-from prevector not empty after move assignment", pv[b].size());
            m = std::move(mv[b]); mv[b].clear();
            break;
        }
        case 21: {
            name = "construct";
            size_t n = size_near(s, N, MAXSZ);
            switch (s.range<unsigned>(0, 2)) {
            case 0: p = P(typename P::size_type(n)); m = M(n); break;
            case 1: { T v = val(); p = P(typename P::size_type(n), v); m = M(n, v); break; }
            default: { M src; for (size_t k = 0; k < n; ++k) src.push_back(val()); p = P(src.begin(), src.end()); m = M(src.begin(), src.end()); break; }
            }
            break;
        }
        case 22: case 23: {
            name = "element write"; if (m.empty()) break;
            size_t k = s.index(m.size()); T v = val();
            switch (s.range<unsigned>(0, 4)) {
            case 0: p[k] = v; m[k] = v; break;
            case 1: *(p.begin() + k) = v; m[k] = v; break;
            case 2: p.data()[k] = v; m[k] = v; break;
            case 3: p.front() = v; m.front() = v; break;
            default: p.back() = v; m.back() = v; break;
            }
            break;
        }
        default: {
            // grow / shrink by one around the boundary (the most frequent production pattern)
            name = "push/pop near boundary";
            if (m.size() < MAXSZ && s.boolean()) { T v = val(); p.push_back(v); m.push_back(v); } else if (!m.empty()) { p.pop_back(); m.pop_back(); }
            break;
        }
        }
        bool now_direct = direct(p);
        if (was_direct && !now_direct) up++;
        if (!was_direct && now_direct) down++;
        st.note(name, "[", a, "]->", m.size());
        st.mix(uint64_t(op));
        check_both(name);
    }

    void run()
    {
        unsigned nops = 0;
        while (!s.exhausted() && nops < 3000) { step(); ++nops; }
        st.cls("ops", nops);
        if (up) st.cls("inline->heap");
        if (down) st.cls("heap->inline");
        if (structural_indirect) st.cls("copy/move/swap-with-heap-storage");
        st.nontrivial = up >= 1 && down >= 1 && structural_indirect >= 1;
        st.mix(uint64_t(std::min(up, 3u))); st.mix(uint64_t(std::min(down, 3u))); st.mix(uint64_t(std::min(mixed_swap, 2u)));
    }
};

// ---------------------------------------------------------------------------------------------------------------
// VecDeque
struct Tracked {
    static int64_t live;
    static constexpr uint32_t ALIVE = 0xA11CE5ED;
    uint32_t magic;
    int32_t v;
    Tracked() : magic(ALIVE), v(0) { ++live; }
    Tracked(int32_t x) : magic(ALIVE), v(x) { ++live; }
    Tracked(const Tracked& o) : magic(ALIVE), v(o.v) { VCHECK(o.magic == ALIVE, "c61.vecdeque-lifetime", "copy from a destroyed/unconstructed element"); ++live; }
    Tracked(Tracked&& o) noexcept : magic(ALIVE), v(o.v) { if (o.magic != ALIVE) verif::fail("c61.vecdeque-lifetime", "move from a destroyed/unconstructed element"); ++live; }
    Tracked& operator=(const Tracked& o) { VCHECK(magic == ALIVE && o.magic == ALIVE, "c61.vecdeque-lifetime", "assignment involving a destroyed element"); v = o.v; return *this; }
    ~Tracked() { if (magic != ALIVE) verif::fail("c61.vecdeque-lifetime", "destructor ran on a destroyed/unconstructed element"); magic = 0xDEADDEAD; --live; }
    friend bool operator==(const Tracked& a, const Tracked& b) { return a.v == b.v; }
    friend std::strong_ordering operator<=>(const Tracked& a, const Tracked& b) { return a.v <=> b.v; }
};
int64_t Tracked::live = 0;
int64_t as_i64(const Tracked& t) { return t.v; }
int64_t as_i64(int32_t t) { return t; }

template <typename T>
struct VecDequeRun {
    using D = VecDeque<T>;
    using M = std::deque<T>;
    verif::Src& s;
    verif::Stats& st;
    D dq[2];
    M md[2];
    int32_t counter{1};
    unsigned wraps{0}, reallocs_wrapped{0}, structural_wrapped{0};
    static constexpr size_t MAXSZ = 70;
    // model of where the ring's first element sits is NOT kept (internal); "wrapped" is inferred from addresses
    VecDequeRun(verif::Src& s_, verif::Stats& st_) : s(s_), st(st_) {}

    T val() { return T(s.chance(48) ? 0 : (counter++ * 11 + int32_t(s.range<unsigned>(0, 2)))); }
    static bool wrapped(const D& d) { return d.size() >= 2 && &d[d.size() - 1] < &d[0]; }

    void check(int i, const char* op)
    {
        D& d = dq[i];
        const D& cd = d;
        const M& m = md[i];
        st.steps++;
        VCHECK(d.size() == m.size() && d.empty() == m.empty(), "c61.vecdeque-size", "after", op, "impl", d.size(), "model", m.size());
        for (size_t k = 0; k < m.size(); ++k) VCHECK(d[k] == m[k] && cd[k] == m[k], "c61.vecdeque-content", "after", op, "index", k, "impl", as_i64(d[k]), "model", as_i64(m[k]));
        if (!m.empty()) {
            VCHECK(d.front() == m.front() && d.back() == m.back() && cd.front() == m.front() && cd.back() == m.back(), "c61.vecdeque-content", "front/back after", op);
            VCHECK(&d.front() == &d[0] && &d.back() == &d[m.size() - 1], "c61.vecdeque-content", "front/back address after", op);
        }
        VCHECK(d.capacity() >= d.size(), "c61.vecdeque-capacity", "after", op, "capacity", d.capacity(), "size", d.size());
    }
    void check_both(const char* op)
    {
        check(0, op); check(1, op);
        st.steps++;
        VCHECK((dq[0] == dq[1]) == (md[0] == md[1]), "c61.vecdeque-compare", "operator== after", op);
        auto exp = std::lexicographical_compare_three_way(md[0].begin(), md[0].end(), md[1].begin(), md[1].end());
        VCHECK((dq[0] <=> dq[1]) == exp && (dq[1] <=> dq[0]) == (0 <=> exp), "c61.vecdeque-compare", "operator<=> after", op);
    }

    void step()
    {
        int a = s.boolean() ? 1 : 0, b = 1 - a;
        D& d = dq[a];
        M& m = md[a];
        bool was_wrapped = wrapped(d);
        size_t cap_before = d.capacity();
        unsigned op = s.range<unsigned>(0, 19);
        const char* name = "?";
        switch (op) {
        case 0: case 1: { name = "push_back"; if (m.size() >= MAXSZ) break; T v = val(); if (op == 0) d.push_back(v); else d.emplace_back(v); m.push_back(v); break; }
        case 2: case 3: { name = "push_front"; if (m.size() >= MAXSZ) break; T v = val(); if (op == 2) d.push_front(v); else d.emplace_front(v); m.push_front(v); break; }
        case 4: case 5: { name = "pop_front"; if (m.empty()) break; d.pop_front(); m.pop_front(); break; }
        case 6: { name = "pop_back"; if (m.empty()) break; d.pop_back(); m.pop_back(); break; }
        case 7: { name = "push_back(T&&)"; if (m.size() >= MAXSZ) break; T v = val(); T v2 = v; d.push_back(std::move(v2)); m.push_back(v); break; }
        case 8: { name = "push_front(T&&)"; if (m.size() >= MAXSZ) break; T v = val(); T v2 = v; d.push_front(std::move(v2)); m.push_front(v); break; }
        case 9: { name = "resize"; size_t n = size_near(s, d.capacity(), MAXSZ); d.resize(n); m.resize(n); break; }
        case 10: { name = "reserve"; size_t n = size_near(s, d.capacity(), MAXSZ + 10); d.reserve(n); VCHECK(d.capacity() >= n, "c61.vecdeque-capacity", "reserve(n) left capacity < n"); break; }
        case 11: { name = "shrink_to_fit"; d.shrink_to_fit(); m.shrink_to_fit(); break; }
        case 12: { name = "clear"; if (!s.chance(64)) break; d.clear(); m.clear(); break; }
        case 13: { name = "copy-assign"; if (s.chance(32)) { name = "self copy-assign"; D& self = d; d = self; } else { if (wrapped(dq[b])) structural_wrapped++; d = dq[b]; m = md[b]; } break; }
        case 14: { name = "copy-construct"; if (wrapped(dq[b])) structural_wrapped++; D tmp(dq[b]); d = std::move(tmp); m = md[b]; break; }
        case 15: {
            name = "move-assign"; if (wrapped(dq[b])) structural_wrapped++;
            d = std::move(dq[b]); m = std::move(md[b]);
            dq[b].clear(); md[b].clear(); // moved-from: valid but unspecified -> only clear()/assign are used on it
            break;
        }
        case 16: {
            name = "move-construct"; if (wrapped(dq[b])) structural_wrapped++;
            D tmp(std::move(dq[b])); M mtmp(std::move(md[b]));
            dq[b].clear(); md[b].clear();
            d = std::move(tmp); m = std::move(mtmp);
            break;
        }
        case 17: { name = "swap"; if (wrapped(dq[0]) || wrapped(dq[1])) structural_wrapped++; if (s.boolean()) dq[0].swap(dq[1]); else swap(dq[0], dq[1]); md[0].swap(md[1]); break; }
        case 18: {
            name = "element write"; if (m.empty()) break;
            size_t k = s.index(m.size()); T v = val();
            switch (s.range<unsigned>(0, 2)) { case 0: d[k] = v; m[k] = v; break; case 1: d.front() = v; m.front() = v; break; default: d.back() = v; m.back() = v; break; }
            break;
        }
        default: {
            // rotate: push at one end, pop at the other (moves the ring offset around the buffer without growing)
            name = "rotate"; if (m.empty()) break;
            T v = val();
            if (s.boolean()) { if (m.size() == d.capacity()) break; d.push_back(v); m.push_back(v); d.pop_front(); m.pop_front(); }
            else { if (m.size() == d.capacity()) break; d.push_front(v); m.push_front(v); d.pop_back(); m.pop_back(); }
            break;
        }
        }
        if (!was_wrapped && wrapped(d)) wraps++;
        if (was_wrapped && d.capacity() != cap_before) reallocs_wrapped++;
        st.note(name, "[", a, "]->", m.size());
        st.mix(uint64_t(op));
        check_both(name);
    }

    void run()
    {
        unsigned nops = 0;
        while (!s.exhausted() && nops < 3000) { step(); ++nops; }
        st.cls("ops", nops);
        if (wraps) st.cls("ring-wrapped");
        if (reallocs_wrapped) st.cls("realloc-while-wrapped");
        if (structural_wrapped) st.cls("copy/move/swap-while-wrapped");
        st.nontrivial = wraps >= 1 && reallocs_wrapped >= 1 && structural_wrapped >= 1;
        st.mix(uint64_t(std::min(wraps, 3u))); st.mix(uint64_t(std::min(reallocs_wrapped, 3u))); st.mix(uint64_t(std::min(structural_wrapped, 3u)));
    }
};

// ---------------------------------------------------------------------------------------------------------------
// bitdeque
template <int BITS>
struct BitDequeRun {
    using B = bitdeque<BITS>;
    using M = std::deque<bool>;
    verif::Src& s;
    verif::Stats& st;
    B bd[2];
    M md[2];
    size_t maxsz;
    unsigned maxops;
    unsigned front_word_cross{0}, back_word_cross{0}, mid_ops_multiword{0};
    BitDequeRun(verif::Src& s_, verif::Stats& st_, size_t maxsz_, unsigned maxops_ = 3000) : s(s_), st(st_), maxsz(maxsz_), maxops(maxops_) {}

    void check(int i, const char* op, bool full)
    {
        B& b = bd[i];
        const B& cb = b;
        const M& m = md[i];
        st.steps++;
        VCHECK(b.size() == m.size() && b.empty() == m.empty(), "c61.bitdeque-size", "after", op, "impl", b.size(), "model", m.size());
        VCHECK(size_t(b.end() - b.begin()) == m.size() && size_t(cb.cend() - cb.cbegin()) == m.size() && size_t(cb.end() - cb.begin()) == m.size(),
               "c61.bitdeque-iter", "end-begin after", op, "impl", b.end() - b.begin(), "model", m.size());
        if (!m.empty()) {
            VCHECK(bool(b.front()) == m.front() && bool(b.back()) == m.back() && cb.front() == m.front() && cb.back() == m.back(), "c61.bitdeque-content", "front/back after", op);
        }
        if (!full && m.size() > 300) {
            // large containers: sample positions (both ends, word boundaries are near the ends after front/back operations) + a full pass every few ops
            for (int k = 0; k < 24 && size_t(k) < m.size(); ++k) {
                VCHECK(cb[k] == m[k] && cb[m.size() - 1 - k] == m[m.size() - 1 - k], "c61.bitdeque-content", "after", op, "near-end index", k);
            }
            return;
        }
        {
            size_t k = 0;
            for (auto it = cb.begin(); it != cb.end(); ++it, ++k) VCHECK(k < m.size() && *it == m[k], "c61.bitdeque-content", "forward iteration after", op, "index", k, "model", (k < m.size() ? int(m[k]) : -1));
            VCHECK(k == m.size(), "c61.bitdeque-iter", "forward iteration length after", op);
            auto rit = cb.rbegin();
            for (; rit != cb.rend(); ++rit) { --k; VCHECK(*rit == m[k], "c61.bitdeque-content", "reverse iteration after", op, "index", k); }
            VCHECK(k == 0, "c61.bitdeque-iter", "reverse iteration length after", op);
        }
        if (m.size() <= 300) for (size_t k = 0; k < m.size(); ++k) VCHECK(cb[k] == m[k] && bool(b[k]) == m[k] && cb.at(k) == m[k] && bool(b.at(k)) == m[k], "c61.bitdeque-content", "operator[]/at after", op, "index", k);
    }

    void iter_checks()
    {
        // random-access iterator arithmetic against index arithmetic
        int a = s.boolean() ? 1 : 0;
        B& b = bd[a];
        const M& m = md[a];
        size_t n = m.size();
        size_t i = s.index(n + 1), j = s.index(n + 1);
        auto bi = b.begin() + i, bj = b.cbegin() + j;
        typename B::const_iterator cbi = bi;
        st.steps++;
        VCHECK(cbi - bj == std::ptrdiff_t(i) - std::ptrdiff_t(j), "c61.bitdeque-iter", "iterator difference", i, j);
        VCHECK((cbi == bj) == (i == j) && (cbi < bj) == (i < j) && (cbi <= bj) == (i <= j) && (cbi > bj) == (i > j) && (cbi >= bj) == (i >= j), "c61.bitdeque-iter", "iterator comparison", i, j);
        auto t = cbi; t += std::ptrdiff_t(j) - std::ptrdiff_t(i);
        VCHECK(t == bj, "c61.bitdeque-iter", "it += (j-i)", i, j);
        t = cbi; t -= std::ptrdiff_t(i) - std::ptrdiff_t(j);
        VCHECK(t == bj, "c61.bitdeque-iter", "it -= (i-j)", i, j);
        VCHECK((b.cend() - (n - i)) == cbi && (std::ptrdiff_t(i) + b.cbegin()) == cbi, "c61.bitdeque-iter", "end-(n-i) / i+begin", i);
        if (i < n) {
            VCHECK(*cbi == m[i] && cbi[0] == m[i], "c61.bitdeque-iter", "deref", i);
            if (j < n) VCHECK(cbi[std::ptrdiff_t(j) - std::ptrdiff_t(i)] == m[j], "c61.bitdeque-iter", "it[j-i]", i, j);
            auto u = cbi; auto old = u++; VCHECK(old == cbi && u - cbi == 1, "c61.bitdeque-iter", "post-increment");
            --u; VCHECK(u == cbi, "c61.bitdeque-iter", "pre-decrement");
        }
        if (i > 0) { auto u = cbi; auto old = u--; VCHECK(old == cbi && cbi - u == 1 && *u == m[i - 1], "c61.bitdeque-iter", "post-decrement"); ++u; VCHECK(u == cbi, "c61.bitdeque-iter", "pre-increment"); }
        bool threw = false;
        try { (void)bd[a].at(n + s.range<size_t>(0, 2)); } catch (const std::out_of_range&) { threw = true; }
        VCHECK(threw, "c61.bitdeque-content", "at(size()+k) did not throw std::out_of_range");
    }

    size_t count_near(size_t cur)
    {
        // counts that land the size on/around a multiple of the word size
        size_t to_word = size_t(BITS) - (cur % size_t(BITS));
        size_t n;
        switch (s.range<unsigned>(0, 3)) {
        case 0: n = s.range<size_t>(0, 3); break;
        case 1: n = to_word + s.range<size_t>(0, 2) - (s.boolean() ? 1 : 0); break;
        case 2: n = size_t(BITS) + s.range<size_t>(0, 2); break;
        default: n = s.range<size_t>(0, 2 * size_t(BITS) + 2); break;
        }
        return n;
    }

    void step()
    {
        int a = s.boolean() ? 1 : 0, o = 1 - a;
        B& b = bd[a];
        M& m = md[a];
        size_t words_before = (m.size() + BITS - 1) / BITS;
        unsigned op = s.range<unsigned>(0, 27);
        const char* name = "?";
        bool v = s.boolean();
        switch (op) {
        case 0: { name = "push_back"; if (m.size() >= maxsz) break; b.push_back(v); m.push_back(v); break; }
        case 1: { name = "emplace_back"; if (m.size() >= maxsz) break; auto r = b.emplace_back(v); m.push_back(v); VCHECK(bool(r) == v, "c61.bitdeque-content", "emplace_back reference"); break; }
        case 2: { name = "push_front"; if (m.size() >= maxsz) break; b.push_front(v); m.push_front(v); break; }
        case 3: { name = "emplace_front"; if (m.size() >= maxsz) break; auto r = b.emplace_front(v); m.push_front(v); VCHECK(bool(r) == v, "c61.bitdeque-content", "emplace_front reference"); break; }
        case 4: case 5: { name = "pop_back"; if (m.empty()) break; b.pop_back(); m.pop_back(); break; }
        case 6: case 7: { name = "pop_front"; if (m.empty()) break; b.pop_front(); m.pop_front(); break; }
        case 8: {
            name = "resize";
            size_t n = s.boolean() ? m.size() + count_near(m.size()) : (m.size() - std::min(m.size(), count_near(m.size())));
            if (n > maxsz) break;
            b.resize(n); m.resize(n);
            break;
        }
        case 9: { name = "assign(n,v)"; size_t n = count_near(0); if (n > maxsz) break; b.assign(n, v); m.assign(n, v); break; }
        case 10: {
            name = "assign(range)";
            if (s.boolean()) { b.assign(md[o].begin(), md[o].end()); m.assign(md[o].begin(), md[o].end()); }
            else { b.assign(bd[o].cbegin(), bd[o].cend()); m.assign(md[o].begin(), md[o].end()); }
            break;
        }
        case 11: { name = "assign(ilist)"; bool w = s.boolean(); if (s.boolean()) { b.assign({v, w, !v}); } else { b = {v, w, !v}; } m.assign({v, w, !v}); break; }
        case 12: {
            name = "construct"; size_t n = count_near(0); if (n > maxsz) break;
            switch (s.range<unsigned>(0, 3)) {
            case 0: b = B(n, v); m = M(n, v); break;
            case 1: b = B(n); m = M(n); break;
            case 2: b = B(md[o].begin(), md[o].end()); m = md[o]; break;
            default: b = B{v, !v, v, v}; m = M{v, !v, v, v}; break;
            }
            break;
        }
        case 13: { name = "clear"; if (!s.chance(48)) break; b.clear(); m.clear(); break; }
        case 14: { name = "shrink_to_fit"; b.shrink_to_fit(); m.shrink_to_fit(); break; }
        case 15: { name = "swap"; if (s.boolean()) bd[0].swap(bd[1]); else swap(bd[0], bd[1]); md[0].swap(md[1]); break; }
        case 16: {
            name = "erase(pos)"; if (m.empty()) break;
            size_t pos = s.index(m.size());
            auto it = s.boolean() ? b.erase(b.begin() + pos) : b.erase(b.cbegin() + pos);
            m.erase(m.begin() + pos);
            VCHECK(size_t(it - b.begin()) == pos, "c61.bitdeque-iter", "erase(pos) returned wrong iterator", pos, it - b.begin());
            break;
        }
        case 17: case 18: {
            name = "erase(range)";
            size_t first = s.index(m.size() + 1);
            size_t len = std::min(m.size() - first, op == 17 ? count_near(first) : s.range<size_t>(0, 4));
            auto it = s.boolean() ? b.erase(b.begin() + first, b.begin() + first + len) : b.erase(b.cbegin() + first, b.cbegin() + first + len);
            m.erase(m.begin() + first, m.begin() + first + len);
            VCHECK(size_t(it - b.begin()) == first, "c61.bitdeque-iter", "erase(range) returned wrong iterator", first, it - b.begin());
            if (words_before >= 2 && first > 0 && first + len < m.size() + len) mid_ops_multiword++;
            break;
        }
        case 19: {
            name = "insert(pos,v)"; if (m.size() >= maxsz) break;
            size_t pos = s.index(m.size() + 1);
            auto it = s.boolean() ? b.insert(b.cbegin() + pos, v) : b.emplace(b.cbegin() + pos, v);
            m.insert(m.begin() + pos, v);
            VCHECK(size_t(it - b.begin()) == pos && bool(*it) == v, "c61.bitdeque-iter", "insert returned wrong iterator", pos);
            if (words_before >= 2 && pos > 0 && pos < m.size() - 1) mid_ops_multiword++;
            break;
        }
        case 20: case 21: {
            name = "insert(pos,n,v)";
            size_t pos = s.index(m.size() + 1), n = op == 20 ? count_near(m.size()) : s.range<size_t>(0, 5);
            if (m.size() + n > maxsz) break;
            auto it = b.insert(b.cbegin() + pos, n, v); m.insert(m.begin() + pos, n, v);
            VCHECK(size_t(it - b.begin()) == pos, "c61.bitdeque-iter", "insert(n) returned wrong iterator", pos);
            if (words_before >= 2 && pos > 0 && pos + n < m.size()) mid_ops_multiword++;
            break;
        }
        case 22: {
            name = "insert(pos,range)";
            size_t pos = s.index(m.size() + 1);
            size_t from = s.index(md[o].size() + 1), to = from + s.index(md[o].size() - from + 1);
            if (m.size() + (to - from) > maxsz) break;
            auto it = s.boolean() ? b.insert(b.cbegin() + pos, md[o].begin() + from, md[o].begin() + to) : b.insert(b.cbegin() + pos, bd[o].cbegin() + from, bd[o].cbegin() + to);
            m.insert(m.begin() + pos, md[o].begin() + from, md[o].begin() + to);
            VCHECK(size_t(it - b.begin()) == pos, "c61.bitdeque-iter", "insert(range) returned wrong iterator", pos);
            break;
        }
        case 23: {
            name = "element write"; if (m.empty()) break;
            size_t k = s.index(m.size());
            switch (s.range<unsigned>(0, 5)) {
            case 0: b[k] = v; m[k] = v; break;
            case 1: b.at(k) = v; m[k] = v; break;
            case 2: *(b.begin() + k) = v; m[k] = v; break;
            case 3: b.front() = v; m.front() = v; break;
            case 4: b.back() = v; m.back() = v; break;
            default: b[k].flip(); m[k] = !m[k]; break;
            }
            break;
        }
        case 24: { name = "copy-assign"; if (s.chance(32)) { name = "self copy-assign"; B& self = b; b = self; } else { b = bd[o]; m = md[o]; } break; }
        case 25: { name = "copy-construct"; B tmp(bd[o]); b = std::move(tmp); m = md[o]; break; }
        case 26: {
            name = "move"; // moved-from bitdeque: valid but unspecified -> only clear() is used on it
            if (s.boolean()) { b = std::move(bd[o]); } else { B tmp(std::move(bd[o])); b = std::move(tmp); }
            m = std::move(md[o]);
            bd[o].clear(); md[o].clear();
            break;
        }
        default: {
            name = "slide"; if (m.empty() || m.size() >= maxsz) break; // queue-like use (headers sync): push back, pop front
            if (s.boolean()) { b.push_back(v); m.push_back(v); b.pop_front(); m.pop_front(); } else { b.push_front(v); m.push_front(v); b.pop_back(); m.pop_back(); }
            break;
        }
        }
        size_t words_after = (m.size() + BITS - 1) / BITS;
        if (words_after != words_before) { if (op == 2 || op == 3 || op == 6 || op == 7) front_word_cross++; else back_word_cross++; }
        st.note(name, "[", a, "]->", m.size());
        st.mix(uint64_t(op));
        st.steps++;
        check(a, name, false);
        check(o, name, false);
    }

    void run()
    {
        unsigned nops = 0;
        while (!s.exhausted() && nops < maxops) {
            step();
            if ((nops & 3) == 0) iter_checks();
            if ((nops & 15) == 15) { check(0, "periodic full", true); check(1, "periodic full", true); }
            ++nops;
        }
        check(0, "final", true); check(1, "final", true);
        st.cls("ops", nops);
        if (front_word_cross) st.cls("front-word-boundary-crossed");
        if (back_word_cross) st.cls("word-count-changed-other");
        if (mid_ops_multiword) st.cls("middle-insert/erase-multiword");
        st.nontrivial = front_word_cross >= 1 && back_word_cross >= 1 && mid_ops_multiword >= 1;
        st.mix(uint64_t(std::min(front_word_cross, 3u))); st.mix(uint64_t(std::min(back_word_cross, 3u))); st.mix(uint64_t(std::min(mid_ops_multiword, 3u)));
    }
};

} // namespace

VERIF_TARGET(c61_prevector, nullptr, 8, 2400,
             "operation sequences (<= 3000 ops, ~2.5 bytes/op) on two prevectors in lock-step with std::vector models; instantiations <8,int32>, "
             "<28,uint8> and <36,uint8> (the script type) chosen per case; ops: push/emplace/pop_back, insert (value, n copies, range from a vector or "
             "the other prevector), erase (pos, range), resize, resize_uninitialized, reserve, shrink_to_fit, clear, assign (n / range), member and "
             "std::swap, copy/move construct/assign (self copy-assign included), the three sizing constructors, element writes via [] / iterator / "
             "data() / front / back; sizes concentrated on N-2..N+2 and 2N. After every op: size, all elements through every access path, iterators "
             "both directions, ==/!=, capacity >= max(size,N), reserve guarantee, allocated_memory consistent with where data() points, moved-from "
             "objects empty. non-trivial = storage went inline->heap and heap->inline and a copy/move/swap involved heap storage; "
             "distinct = op sequence hash")
{
    unsigned inst = s.range<unsigned>(0, 2);
    st.mix(uint64_t(inst));
    if (inst == 0) { st.cls("prevector<8,int32>"); PrevectorRun<8, int32_t>(s, st).run(); }
    else if (inst == 1) { st.cls("prevector<28,uint8>"); PrevectorRun<28, uint8_t>(s, st).run(); }
    else { st.cls("prevector<36,uint8>"); PrevectorRun<36, uint8_t>(s, st).run(); }
}

VERIF_TARGET(c61_vecdeque, nullptr, 8, 2400,
             "operation sequences (<= 3000 ops) on two VecDeques in lock-step with std::deque models; element type int32 (trivially copyable path) or "
             "a lifetime-tracked class (construct/destroy path; every construction, copy, move and destruction is checked against a liveness "
             "marker, and the live count must return to zero); ops: push/emplace front/back (lvalue and rvalue), pop front/back, rotate, resize, "
             "reserve, shrink_to_fit, clear, copy/move construct/assign (self copy-assign included), swap, element writes. After every op: size, "
             "all elements, front/back, ==, <=> (lexicographic), capacity >= size. non-trivial = the ring wrapped around the buffer end, a "
             "reallocation happened while wrapped and a copy/move/swap involved a wrapped ring; distinct = op sequence hash")
{
    bool tracked = s.boolean();
    st.mix(uint64_t(tracked));
    if (tracked) {
        st.cls("VecDeque<tracked>");
        Tracked::live = 0;
        { VecDequeRun<Tracked> r(s, st); r.run(); }
        st.steps++;
        VCHECK(Tracked::live == 0, "c61.vecdeque-lifetime", "elements still alive (or destroyed twice) after both deques were destroyed", Tracked::live);
    } else {
        st.cls("VecDeque<int32>");
        VecDequeRun<int32_t>(s, st).run();
    }
}

VERIF_TARGET(c61_bitdeque, nullptr, 8, 2400,
             "operation sequences (<= 3000 ops) on two bitdeques in lock-step with std::deque<bool> models; word sizes 7, 64, 128 bits (sizes up to "
             "~6 words) and the production default 32768 bits (sizes up to 70000, <= 120 ops, counts chosen to land on word multiples); ops: push/emplace/pop "
             "front/back, slide, resize, assign (n / range / initializer list), constructors, clear, shrink_to_fit, swap, erase (pos / range, both "
             "iterator kinds), insert/emplace (value / n copies / range from a deque or the other bitdeque), element writes through reference, "
             "at(), flip, copy/move. After every op: size, front/back, all elements by forward and reverse iteration and []/at(), returned "
             "iterators; every 4th op random-access iterator arithmetic (difference, +=, -=, comparisons, [], ++/--) and at() out-of-range "
             "exception. non-trivial = front word boundary crossed, back word count changed, and an insert/erase strictly inside a multi-word "
             "container; distinct = op sequence hash")
{
    unsigned inst = s.range<unsigned>(0, 7);
    st.mix(uint64_t(inst));
    if (inst <= 1) { st.cls("bitdeque<7>"); BitDequeRun<7>(s, st, 7 * 6 + 3).run(); }
    else if (inst <= 3) { st.cls("bitdeque<64>"); BitDequeRun<64>(s, st, 64 * 5 + 3).run(); }
    else if (inst <= 6) { st.cls("bitdeque<128>"); BitDequeRun<128>(s, st, 128 * 4 + 3).run(); }
    else { st.cls("bitdeque<32768>"); BitDequeRun<32768>(s, st, 70000, 120).run(); }
}
