// C11 — Script verification flags behave as soft forks.
// Oracle (metamorphic, a relation between evaluations of the SAME spend): for valid flag combinations F ⊆ G, ok(G) ⇒ ok(F);
// ok(STANDARD_SCRIPT_VERIFY_FLAGS) ⇒ ok(consensus flags of the next block); a second evaluation (fresh precomputed data)
// returns the identical (ok, ScriptError). Nothing is assumed about WHICH verdict a spend gets: the generator's knowledge
// (template valid by construction, relaxation aimed at flag X) is used for class labels and for biasing the flag sets only.
#include <engine/verif.h>
#include <kits/chainsim.h>

#include <hash.h>
#include <key.h>
#include <policy/policy.h>
#include <primitives/transaction.h>
#include <pubkey.h>
#include <script/interpreter.h>
#include <script/script.h>
#include <script/script_error.h>
#include <validation.h>

#include <algorithm>
#include <array>
#include <memory>
#include <string>
#include <vector>

namespace {

using valtype = std::vector<unsigned char>;

// ------------------------------------------------------------------------------------------------ flags
constexpr unsigned NFLAGS = static_cast<unsigned>(SCRIPT_VERIFY_END_MARKER);
constexpr uint64_t B(script_verify_flag_name f) { return uint64_t{1} << static_cast<unsigned>(f); }
constexpr uint64_t ALL_FLAGS = (uint64_t{1} << NFLAGS) - 1;

const char* FLAG_NAME[] = {"P2SH", "STRICTENC", "DERSIG", "LOW_S", "NULLDUMMY", "SIGPUSHONLY", "MINIMALDATA", "DISCOURAGE_UPGRADABLE_NOPS",
                           "CLEANSTACK", "CHECKLOCKTIMEVERIFY", "CHECKSEQUENCEVERIFY", "WITNESS", "DISCOURAGE_UPGRADABLE_WITNESS_PROGRAM",
                           "MINIMALIF", "NULLFAIL", "WITNESS_PUBKEYTYPE", "CONST_SCRIPTCODE", "TAPROOT", "DISCOURAGE_UPGRADABLE_TAPROOT_VERSION",
                           "DISCOURAGE_OP_SUCCESS", "DISCOURAGE_UPGRADABLE_PUBKEYTYPE"};
static_assert(sizeof(FLAG_NAME) / sizeof(FLAG_NAME[0]) == NFLAGS, "flag table out of date: a flag was added to interpreter.h");
static_assert(static_cast<unsigned>(SCRIPT_VERIFY_P2SH) == 0 && static_cast<unsigned>(SCRIPT_VERIFY_CLEANSTACK) == 8 &&
              static_cast<unsigned>(SCRIPT_VERIFY_WITNESS) == 11 && static_cast<unsigned>(SCRIPT_VERIFY_TAPROOT) == 17 &&
              static_cast<unsigned>(SCRIPT_VERIFY_DISCOURAGE_UPGRADABLE_PUBKEYTYPE) == 20);

/** Valid combinations, from the asserts/comments in VerifyScript: CLEANSTACK needs P2SH and WITNESS; WITNESS needs P2SH. */
bool valid_combo(uint64_t f)
{
    if ((f & B(SCRIPT_VERIFY_CLEANSTACK)) && (!(f & B(SCRIPT_VERIFY_P2SH)) || !(f & B(SCRIPT_VERIFY_WITNESS)))) return false;
    if ((f & B(SCRIPT_VERIFY_WITNESS)) && !(f & B(SCRIPT_VERIFY_P2SH))) return false;
    return true;
}
/** Largest valid subset of f. */
uint64_t close_down(uint64_t f)
{
    if (!(f & B(SCRIPT_VERIFY_P2SH))) f &= ~B(SCRIPT_VERIFY_WITNESS);
    if (!(f & B(SCRIPT_VERIFY_WITNESS))) f &= ~B(SCRIPT_VERIFY_CLEANSTACK);
    return f;
}
/** Smallest valid superset of f. */
uint64_t close_up(uint64_t f)
{
    if (f & B(SCRIPT_VERIFY_CLEANSTACK)) f |= B(SCRIPT_VERIFY_WITNESS);
    if (f & B(SCRIPT_VERIFY_WITNESS)) f |= B(SCRIPT_VERIFY_P2SH);
    return f;
}
std::string flag_str(uint64_t f)
{
    if (!f) return "NONE";
    std::string r;
    for (unsigned i = 0; i < NFLAGS; ++i) if (f >> i & 1) { if (!r.empty()) r += ","; r += FLAG_NAME[i]; }
    return r;
}

// ------------------------------------------------------------------------------------------------ process-wide state
struct Global {
    std::unique_ptr<ECC_Context> ecc;
    std::vector<CKey> keys;            // compressed
    uint64_t consensus_next{0};        // GetBlockScriptFlags for the block after the regtest tip
    uint64_t consensus_tip{0};         // ... for the tip itself (what MemPoolAccept::ConsensusScriptChecks uses)
};
Global& g = *new Global; // never destroyed: CKey memory lives in the locked pool, whose singleton may die first at exit

void init()
{
    {
        // consensus flags of the next block, from the real chainstate code (regtest; all buried deployments active)
        auto sim = std::make_unique<verif::ChainSim>();
        sim->MineEmpty(2);
        LOCK(::cs_main);
        const CBlockIndex* tip = sim->chainman().ActiveChain().Tip();
        g.consensus_tip = GetBlockScriptFlags(*tip, sim->chainman()).as_int();
        CBlockIndex next;
        uint256 fake_hash{uint256::ONE};
        next.pprev = const_cast<CBlockIndex*>(tip);
        next.nHeight = tip->nHeight + 1;
        next.phashBlock = &fake_hash;
        g.consensus_next = GetBlockScriptFlags(next, sim->chainman()).as_int();
    }
    g.ecc = std::make_unique<ECC_Context>();
    for (int i = 0; i < 6; ++i) {
        std::array<unsigned char, 32> raw{};
        raw[0] = 0x2c; raw[13] = 0x11; raw[31] = uint8_t(i + 1);
        CKey k;
        k.Set(raw.begin(), raw.end(), true);
        g.keys.push_back(k);
    }
}

enum KeyEnc { COMP = 0, UNCOMP = 1, HYBRID = 2 };
valtype pub_bytes(unsigned ki, int enc)
{
    CPubKey pk = g.keys[ki % g.keys.size()].GetPubKey();
    if (enc == COMP) return valtype(pk.begin(), pk.end());
    pk.Decompress();
    valtype v(pk.begin(), pk.end());
    if (enc == HYBRID) v[0] = 0x06 | (v[64] & 1);
    return v;
}
valtype xonly_bytes(unsigned ki)
{
    XOnlyPubKey x{g.keys[ki % g.keys.size()].GetPubKey()};
    return valtype(x.begin(), x.end());
}

// ------------------------------------------------------------------------------------------------ ECDSA encoding games
struct SigOpt {
    int hashtype{SIGHASH_ALL};
    bool high_s{false};
    int der_pad{0};     // 0 strict; 1 leading zero in R; 2 long-form sequence length; 3 trailing garbage inside the blob
    bool wrong{false};  // signature over a different message (well-formed, fails verification)
    bool empty{false};
};

// secp256k1 group order, big endian
const unsigned char ORDER_N[32] = {0xff, 0xff, 0xff, 0xff, 0xff, 0xff, 0xff, 0xff, 0xff, 0xff, 0xff, 0xff, 0xff, 0xff, 0xff, 0xfe,
                                   0xba, 0xae, 0xdc, 0xe6, 0xaf, 0x48, 0xa0, 0x3b, 0xbf, 0xd2, 0x5e, 0x8c, 0xd0, 0x36, 0x41, 0x41};

valtype der_int(const std::array<unsigned char, 32>& v, bool pad_zero)
{
    size_t i = 0;
    while (i < 31 && v[i] == 0) ++i;
    valtype r;
    if (v[i] & 0x80) r.push_back(0);
    if (pad_zero) r.push_back(0); // excessive padding
    r.insert(r.end(), v.begin() + i, v.end());
    return r;
}

valtype encode_sig(const valtype& strict_der, const SigOpt& o)
{
    // parse the strict DER produced by CKey::Sign: 30 len 02 rl r 02 sl s
    std::array<unsigned char, 32> r{}, s{};
    size_t rl = strict_der[3];
    const unsigned char* rp = &strict_der[4];
    size_t sl = strict_der[5 + rl];
    const unsigned char* sp = &strict_der[6 + rl];
    while (rl > 32) { ++rp; --rl; }
    while (sl > 32) { ++sp; --sl; }
    std::copy(rp, rp + rl, r.begin() + (32 - rl));
    std::copy(sp, sp + sl, s.begin() + (32 - sl));
    if (o.high_s) { // s := n - s
        int borrow = 0;
        for (int i = 31; i >= 0; --i) {
            int d = int(ORDER_N[i]) - int(s[i]) - borrow;
            borrow = d < 0;
            s[i] = uint8_t(d + (borrow ? 256 : 0));
        }
    }
    valtype ri = der_int(r, o.der_pad == 1), si = der_int(s, false);
    valtype body;
    body.push_back(0x02); body.push_back(uint8_t(ri.size())); body.insert(body.end(), ri.begin(), ri.end());
    body.push_back(0x02); body.push_back(uint8_t(si.size())); body.insert(body.end(), si.begin(), si.end());
    valtype out;
    out.push_back(0x30);
    if (o.der_pad == 2) { out.push_back(0x81); out.push_back(uint8_t(body.size())); }
    else out.push_back(uint8_t(body.size()));
    out.insert(out.end(), body.begin(), body.end());
    if (o.der_pad == 3) out.push_back(0x00);
    out.push_back(uint8_t(o.hashtype));
    return out;
}

// ------------------------------------------------------------------------------------------------ the spend under test
struct Spend {
    CMutableTransaction tx;
    unsigned nin{0};
    std::vector<CTxOut> spent;
    CAmount amount() const { return spent[nin].nValue; }
};

valtype ecdsa_sig(const Spend& sp, unsigned ki, const CScript& script_code, SigVersion sv, const SigOpt& o)
{
    if (o.empty) return {};
    uint256 h = SignatureHash(script_code, sp.tx, sp.nin, int32_t(uint8_t(o.hashtype)), sp.amount(), sv);
    if (o.wrong) *h.begin() ^= 1;
    valtype der;
    bool ok = g.keys[ki % g.keys.size()].Sign(h, der);
    if (!ok || der.size() < 8) return valtype(9, 0x30);
    return encode_sig(der, o);
}

struct TapCtx {
    bool annex_present{false};
    uint256 annex_hash;
    bool script_path{false};
    uint256 leaf_hash;
};

valtype schnorr_sig(const Spend& sp, const PrecomputedTransactionData& txdata, unsigned ki, const TapCtx& tc, const uint256* tweak_root, uint8_t hashtype, bool wrong)
{
    ScriptExecutionData ed;
    ed.m_annex_init = true;
    ed.m_annex_present = tc.annex_present;
    ed.m_annex_hash = tc.annex_hash;
    if (tc.script_path) {
        ed.m_tapleaf_hash_init = true;
        ed.m_tapleaf_hash = tc.leaf_hash;
        ed.m_codeseparator_pos_init = true;
        ed.m_codeseparator_pos = 0xFFFFFFFFu;
    }
    uint256 h;
    valtype sig(64, 0x17);
    if (SignatureHashSchnorr(h, ed, sp.tx, sp.nin, hashtype, tc.script_path ? SigVersion::TAPSCRIPT : SigVersion::TAPROOT, txdata, MissingDataBehavior::FAIL)) {
        if (wrong) *h.begin() ^= 1;
        uint256 aux{};
        g.keys[ki % g.keys.size()].SignSchnorr(h, sig, tweak_root, aux);
    }
    if (hashtype != SIGHASH_DEFAULT) sig.push_back(hashtype);
    return sig;
}

void push_minimal(CScript& sc, const valtype& v)
{
    if (v.empty()) sc << OP_0;
    else if (v.size() == 1 && v[0] >= 1 && v[0] <= 16) sc << CScript::EncodeOP_N(v[0]);
    else if (v.size() == 1 && v[0] == 0x81) sc << OP_1NEGATE;
    else sc << v;
}
void push_pushdata1(CScript& sc, const valtype& v)
{
    valtype raw{uint8_t(OP_PUSHDATA1), uint8_t(v.size())};
    raw.insert(raw.end(), v.begin(), v.end());
    sc.insert(sc.end(), raw.begin(), raw.end());
}
/** number push: minimal CScriptNum encoding, or (nonminimal) padded with an extra zero byte / pushed as data for small numbers */
void push_num(CScript& sc, int64_t n, int nonminimal)
{
    if (!nonminimal) { sc << n; return; }
    valtype v = CScriptNum::serialize(n);
    if (nonminimal == 1) { // number padding: sign byte moved into an extra byte
        if (v.empty()) v = {0x00};
        else { uint8_t sign = v.back() & 0x80; v.back() &= 0x7f; v.push_back(sign); }
        sc << v;
    } else { // minimal number, non-minimal push (e.g. 01 02 instead of OP_2)
        if (v.empty()) push_pushdata1(sc, v);
        else if (v.size() == 1 && ((v[0] >= 1 && v[0] <= 16) || v[0] == 0x81)) sc << v; // CScript<<vector emits a direct push: non-minimal for these
        else push_pushdata1(sc, v);
    }
}

// ------------------------------------------------------------------------------------------------ relaxations
enum RelaxId {
    R_HIGH_S, R_DER_PAD, R_HASHTYPE_UNDEF, R_KEY_UNCOMP, R_KEY_HYBRID, R_DUMMY, R_NONPUSH_SCRIPTSIG, R_NONMIN_PUSH, R_NONMIN_NUM, R_EXTRA_ITEM,
    R_NOP, R_LOCK_UNSAT, R_WITNESS_BAD, R_UNEXPECTED_WITNESS, R_MINIMALIF, R_NULLFAIL, R_CODESEP, R_P2SH_FALSE, R_P2SH_WIT_MALLEATE,
    R_NATIVE_WIT_SCRIPTSIG, R_TAP_LEAFVER, R_TAP_OPSUCCESS, R_TAP_PUBKEYTYPE, R_TAP_ANNEX, R_TAP_BAD, R_COUNT
};
const char* RELAX_NAME[R_COUNT] = {"high-s", "der-pad", "hashtype-undef", "key-uncompressed", "key-hybrid", "nonnull-dummy", "nonpush-scriptsig",
                                   "nonminimal-push", "nonminimal-num", "extra-stack-item", "upgradable-nop", "locktime-unsat", "witness-bad",
                                   "unexpected-witness", "nonminimal-if", "nonnull-failing-sig", "codeseparator", "p2sh-redeem-fails",
                                   "p2sh-witness-scriptsig-malleated", "native-witness-scriptsig", "tap-unknown-leafver", "tap-op-success",
                                   "tap-unknown-pubkeytype", "tap-annex", "tap-bad-sig-or-control"};

struct Relax {
    bool on[R_COUNT]{};
    int variant[R_COUNT]{};
    bool operator[](RelaxId r) const { return on[r]; }
};

enum LockKind { L_PK, L_PKH, L_MULTI, L_CLTV, L_CSV, L_IFELSE, L_NOTSIG, L_SOUP, L_COUNT };
const char* LOCK_NAME[L_COUNT] = {"pk", "pkh", "multi", "cltv", "csv", "ifelse", "notsig", "soup"};
enum Tmpl { T_BARE, T_P2SH, T_P2WSH, T_P2SH_P2WSH, T_P2WPKH, T_P2SH_P2WPKH, T_P2TR_KEY, T_P2TR_SCRIPT, T_WITUNKNOWN, T_COUNT };
const char* TMPL_NAME[T_COUNT] = {"bare", "p2sh", "p2wsh", "p2sh-p2wsh", "p2wpkh", "p2sh-p2wpkh", "p2tr-key", "p2tr-script", "witness-unknown"};

bool is_legacy_ctx(int t) { return t == T_BARE || t == T_P2SH; }
bool is_v0_ctx(int t) { return t == T_P2WSH || t == T_P2SH_P2WSH || t == T_P2WPKH || t == T_P2SH_P2WPKH; }

/** Which flags a relaxation is aimed at (used ONLY to bias flag-set generation and for labels; never for the verdict). */
uint64_t relax_targets(RelaxId r, int tmpl)
{
    switch (r) {
    case R_HIGH_S: return B(SCRIPT_VERIFY_LOW_S);
    case R_DER_PAD: return B(SCRIPT_VERIFY_DERSIG) | B(SCRIPT_VERIFY_LOW_S) | B(SCRIPT_VERIFY_STRICTENC);
    case R_HASHTYPE_UNDEF: return B(SCRIPT_VERIFY_STRICTENC);
    case R_KEY_UNCOMP: return B(SCRIPT_VERIFY_WITNESS_PUBKEYTYPE);
    case R_KEY_HYBRID: return B(SCRIPT_VERIFY_STRICTENC) | B(SCRIPT_VERIFY_WITNESS_PUBKEYTYPE);
    case R_DUMMY: return B(SCRIPT_VERIFY_NULLDUMMY);
    case R_NONPUSH_SCRIPTSIG: return B(SCRIPT_VERIFY_SIGPUSHONLY) | (tmpl == T_P2SH ? B(SCRIPT_VERIFY_P2SH) : 0);
    case R_NONMIN_PUSH: case R_NONMIN_NUM: return B(SCRIPT_VERIFY_MINIMALDATA);
    case R_EXTRA_ITEM: return is_legacy_ctx(tmpl) ? B(SCRIPT_VERIFY_CLEANSTACK) : tmpl == T_P2TR_SCRIPT ? B(SCRIPT_VERIFY_TAPROOT) : B(SCRIPT_VERIFY_WITNESS);
    case R_NOP: return B(SCRIPT_VERIFY_DISCOURAGE_UPGRADABLE_NOPS);
    case R_LOCK_UNSAT: return B(SCRIPT_VERIFY_CHECKLOCKTIMEVERIFY) | B(SCRIPT_VERIFY_CHECKSEQUENCEVERIFY);
    case R_WITNESS_BAD: case R_UNEXPECTED_WITNESS: case R_P2SH_WIT_MALLEATE: case R_NATIVE_WIT_SCRIPTSIG: return B(SCRIPT_VERIFY_WITNESS);
    case R_MINIMALIF: return tmpl == T_P2TR_SCRIPT ? B(SCRIPT_VERIFY_TAPROOT) : B(SCRIPT_VERIFY_MINIMALIF);
    case R_NULLFAIL: return tmpl == T_P2TR_SCRIPT ? B(SCRIPT_VERIFY_TAPROOT) : B(SCRIPT_VERIFY_NULLFAIL);
    case R_CODESEP: return B(SCRIPT_VERIFY_CONST_SCRIPTCODE);
    case R_P2SH_FALSE: return B(SCRIPT_VERIFY_P2SH);
    case R_TAP_LEAFVER: return B(SCRIPT_VERIFY_DISCOURAGE_UPGRADABLE_TAPROOT_VERSION);
    case R_TAP_OPSUCCESS: return B(SCRIPT_VERIFY_DISCOURAGE_OP_SUCCESS);
    case R_TAP_PUBKEYTYPE: return B(SCRIPT_VERIFY_DISCOURAGE_UPGRADABLE_PUBKEYTYPE);
    case R_TAP_BAD: return B(SCRIPT_VERIFY_TAPROOT);
    default: return 0;
    }
}

std::vector<RelaxId> applicable(int tmpl, int lock)
{
    std::vector<RelaxId> v;
    bool sigs = lock != L_SOUP;
    if (is_legacy_ctx(tmpl)) {
        if (sigs) v.insert(v.end(), {R_HIGH_S, R_DER_PAD, R_HASHTYPE_UNDEF, R_KEY_HYBRID, R_KEY_UNCOMP});
        v.insert(v.end(), {R_NONPUSH_SCRIPTSIG, R_NONMIN_PUSH, R_EXTRA_ITEM, R_NOP, R_UNEXPECTED_WITNESS, R_CODESEP});
        if (lock == L_MULTI) v.insert(v.end(), {R_DUMMY, R_DUMMY, R_DUMMY, R_DUMMY, R_NONMIN_NUM, R_NONMIN_NUM});
        if (lock == L_CLTV || lock == L_CSV) v.insert(v.end(), {R_LOCK_UNSAT, R_LOCK_UNSAT, R_LOCK_UNSAT, R_LOCK_UNSAT, R_NONMIN_NUM, R_NONMIN_NUM});
        if (lock == L_IFELSE) v.push_back(R_MINIMALIF);
        if (lock == L_NOTSIG) v.insert(v.end(), {R_NULLFAIL, R_NULLFAIL, R_NULLFAIL, R_NULLFAIL});
        if (tmpl == T_P2SH) v.insert(v.end(), {R_P2SH_FALSE, R_P2SH_FALSE});
    } else if (is_v0_ctx(tmpl)) {
        if (sigs) v.insert(v.end(), {R_HIGH_S, R_DER_PAD, R_HASHTYPE_UNDEF, R_KEY_HYBRID, R_KEY_UNCOMP, R_KEY_UNCOMP});
        v.insert(v.end(), {R_WITNESS_BAD, R_EXTRA_ITEM});
        if (tmpl == T_P2WSH || tmpl == T_P2SH_P2WSH) v.insert(v.end(), {R_NOP, R_CODESEP});
        if (tmpl == T_P2SH_P2WSH || tmpl == T_P2SH_P2WPKH) v.push_back(R_P2SH_WIT_MALLEATE); else v.push_back(R_NATIVE_WIT_SCRIPTSIG);
        if (lock == L_MULTI) v.insert(v.end(), {R_DUMMY, R_DUMMY, R_DUMMY, R_DUMMY, R_NONMIN_NUM, R_NONMIN_NUM});
        if (lock == L_CLTV || lock == L_CSV) v.insert(v.end(), {R_LOCK_UNSAT, R_LOCK_UNSAT, R_LOCK_UNSAT, R_LOCK_UNSAT, R_NONMIN_NUM, R_NONMIN_NUM});
        if (lock == L_IFELSE) v.insert(v.end(), {R_MINIMALIF, R_MINIMALIF, R_MINIMALIF, R_MINIMALIF, R_MINIMALIF, R_MINIMALIF});
        if (lock == L_NOTSIG) v.insert(v.end(), {R_NULLFAIL, R_NULLFAIL, R_NULLFAIL, R_NULLFAIL});
    } else if (tmpl == T_P2TR_KEY) {
        v.insert(v.end(), {R_TAP_ANNEX, R_TAP_BAD, R_NATIVE_WIT_SCRIPTSIG});
    } else if (tmpl == T_P2TR_SCRIPT) {
        v.insert(v.end(), {R_TAP_ANNEX, R_TAP_BAD, R_TAP_LEAFVER, R_TAP_LEAFVER, R_TAP_OPSUCCESS, R_TAP_OPSUCCESS, R_TAP_PUBKEYTYPE, R_TAP_PUBKEYTYPE, R_NOP, R_EXTRA_ITEM});
        if (lock == L_CLTV || lock == L_CSV) v.insert(v.end(), {R_LOCK_UNSAT, R_LOCK_UNSAT});
        if (lock == L_IFELSE) v.push_back(R_MINIMALIF);
        if (lock == L_NOTSIG) v.push_back(R_NULLFAIL);
    } else if (tmpl == T_WITUNKNOWN) {
        v.insert(v.end(), {R_NATIVE_WIT_SCRIPTSIG});
    }
    return v;
}

// ------------------------------------------------------------------------------------------------ lock scripts (legacy / v0 / tapscript)
struct LockParams {
    int kind{L_PK};
    unsigned k0{0}, k1{1}, k2{2};   // key indices
    unsigned m{1}, n{1};            // multisig
    int64_t lock_n{0};              // CLTV/CSV operand
    bool branch{true};              // IFELSE branch taken
    std::vector<uint8_t> soup;      // raw script bytes for L_SOUP
    std::vector<valtype> soup_items;
};

const opcodetype UPGRADABLE_NOPS[] = {OP_NOP1, OP_NOP4, OP_NOP5, OP_NOP6, OP_NOP7, OP_NOP8, OP_NOP9, OP_NOP10};

/** Build the script; `code_off` = byte offset where the script code for signature hashing starts (after the executed CODESEPARATOR, if any). */
CScript build_lock(const LockParams& p, const Relax& rx, bool tapscript, int key_enc, size_t& code_off)
{
    CScript sc;
    code_off = 0;
    auto key = [&](unsigned ki) -> valtype {
        if (!tapscript) return pub_bytes(ki, key_enc);
        if (rx[R_TAP_PUBKEYTYPE]) return rx.variant[R_TAP_PUBKEYTYPE] & 1 ? pub_bytes(ki, COMP) : valtype{0x42};
        return xonly_bytes(ki);
    };
    if (tapscript && rx[R_TAP_OPSUCCESS] && (rx.variant[R_TAP_OPSUCCESS] & 1)) sc << opcodetype(0xbb + (rx.variant[R_TAP_OPSUCCESS] >> 1) % 60);
    if (rx[R_CODESEP]) { sc << OP_CODESEPARATOR; if (!tapscript) code_off = sc.size(); }
    if (rx[R_NOP]) sc << UPGRADABLE_NOPS[rx.variant[R_NOP] % 8];
    int nonmin = rx[R_NONMIN_NUM] ? 1 + (rx.variant[R_NONMIN_NUM] & 1) : 0;
    switch (p.kind) {
    case L_PK: sc << key(p.k0) << OP_CHECKSIG; break;
    case L_PKH: { valtype pk = key(p.k0); sc << OP_DUP << OP_HASH160 << ToByteVector(Hash160(pk)) << OP_EQUALVERIFY << OP_CHECKSIG; break; }
    case L_MULTI:
        if (!tapscript) {
            push_num(sc, p.m, nonmin);
            for (unsigned i = 0; i < p.n; ++i) sc << key(p.k0 + i);
            sc << int64_t(p.n) << OP_CHECKMULTISIG;
        } else { // multi_a
            for (unsigned i = 0; i < p.n; ++i) sc << key(p.k0 + i) << (i ? OP_CHECKSIGADD : OP_CHECKSIG);
            sc << int64_t(p.m) << OP_NUMEQUAL;
        }
        break;
    case L_CLTV: push_num(sc, p.lock_n, nonmin); sc << OP_CHECKLOCKTIMEVERIFY << OP_DROP << key(p.k0) << OP_CHECKSIG; break;
    case L_CSV: push_num(sc, p.lock_n, nonmin); sc << OP_CHECKSEQUENCEVERIFY << OP_DROP << key(p.k0) << OP_CHECKSIG; break;
    case L_IFELSE: sc << OP_IF << key(p.k0) << OP_ELSE << key(p.k1) << OP_ENDIF << OP_CHECKSIG; break;
    case L_NOTSIG: sc << key(p.k1) << OP_CHECKSIG << OP_NOT << OP_VERIFY << key(p.k0) << OP_CHECKSIG; break;
    case L_SOUP: sc.insert(sc.end(), p.soup.begin(), p.soup.end()); break;
    }
    if (tapscript && rx[R_TAP_OPSUCCESS] && !(rx.variant[R_TAP_OPSUCCESS] & 1)) sc << opcodetype(0x50);
    return sc;
}

/** Stack items (bottom .. top) satisfying the lock; `sign(ki, opt)` makes a signature by key ki. */
template <typename SignFn>
std::vector<valtype> satisfy_lock(const LockParams& p, const Relax& rx, bool tapscript, int key_enc, SignFn sign)
{
    std::vector<valtype> st;
    SigOpt good; // relaxations on the signature encoding are applied by `sign` itself
    SigOpt none; none.empty = true;
    SigOpt bad; bad.wrong = true;
    switch (p.kind) {
    case L_PK: case L_CLTV: case L_CSV: st.push_back(sign(p.k0, good)); break;
    case L_PKH: st.push_back(sign(p.k0, good)); st.push_back(tapscript ? xonly_bytes(p.k0) : pub_bytes(p.k0, key_enc)); break;
    case L_MULTI:
        if (!tapscript) {
            st.push_back(rx[R_DUMMY] ? valtype{uint8_t(1 + (rx.variant[R_DUMMY] & 0x7f))} : valtype{});
            // the first or the last m keys sign
            unsigned first = (p.k2 & 1) ? p.n - p.m : 0;
            for (unsigned i = 0; i < p.m; ++i) st.push_back(sign(p.k0 + first + i, good));
        } else {
            unsigned first = (p.k2 & 1) ? p.n - p.m : 0;
            for (unsigned i = p.n; i-- > 0;) st.push_back(i >= first && i < first + p.m ? sign(p.k0 + i, good) : valtype{});
        }
        break;
    case L_IFELSE: {
        st.push_back(sign(p.branch ? p.k0 : p.k1, good));
        valtype arg = p.branch ? valtype{1} : valtype{};
        if (rx[R_MINIMALIF]) arg = p.branch ? (rx.variant[R_MINIMALIF] & 1 ? valtype{2} : valtype{1, 0}) : (rx.variant[R_MINIMALIF] & 1 ? valtype{0} : valtype{0x80});
        st.push_back(arg);
        break;
    }
    case L_NOTSIG:
        st.push_back(sign(p.k0, good));
        st.push_back(rx[R_NULLFAIL] ? sign(p.k1, bad) : sign(p.k1, none));
        break;
    case L_SOUP: st = p.soup_items; break;
    }
    return st;
}

// ------------------------------------------------------------------------------------------------ opcode soup
void gen_soup(verif::Src& s, LockParams& p, bool tapscript)
{
    CScript sc;
    unsigned n = s.range<unsigned>(1, 14);
    for (unsigned i = 0; i < n; ++i) {
        switch (s.range<unsigned>(0, 23)) {
        case 0: sc << OP_1; break;
        case 1: sc << OP_0; break;
        case 2: sc << s.pick<opcodetype>({OP_2, OP_3, OP_16, OP_1NEGATE}); break;
        case 3: sc << valtype{uint8_t(s.range<unsigned>(0, 255))}; break; // maybe non-minimal
        case 4: sc << OP_DUP; break;
        case 5: sc << OP_DROP; break;
        case 6: sc << OP_IF; break;
        case 7: sc << OP_NOTIF; break;
        case 8: sc << OP_ELSE; break;
        case 9: sc << OP_ENDIF; break;
        case 10: sc << UPGRADABLE_NOPS[s.index(8)]; break;
        case 11: sc << OP_NOP; break;
        case 12: sc << OP_CHECKLOCKTIMEVERIFY; break;
        case 13: sc << OP_CHECKSEQUENCEVERIFY; break;
        case 14: sc << OP_CODESEPARATOR; break;
        case 15: { unsigned ki = unsigned(s.index(3)); int e = int(s.index(3)); opcodetype op = s.pick<opcodetype>({OP_CHECKSIG, OP_CHECKSIGVERIFY}); sc << (tapscript ? xonly_bytes(ki) : pub_bytes(ki, e)) << op; break; }
        case 16: sc << OP_0 << OP_0 << OP_0 << OP_CHECKMULTISIG; break;
        case 17: sc << s.pick<opcodetype>({OP_ADD, OP_SUB, OP_EQUAL, OP_EQUALVERIFY, OP_NOT, OP_VERIFY, OP_BOOLAND, OP_NUMEQUAL, OP_SWAP, OP_SIZE, OP_DEPTH}); break;
        case 18: sc << s.pick<opcodetype>({OP_1ADD, OP_0NOTEQUAL, OP_TOALTSTACK, OP_FROMALTSTACK, OP_2DROP, OP_NIP, OP_OVER, OP_HASH160, OP_SHA256, OP_CHECKSIGADD}); break;
        case 19: { valtype v = s.bytes(s.range<size_t>(0, 5)); valtype raw{uint8_t(OP_PUSHDATA1), uint8_t(v.size())}; raw.insert(raw.end(), v.begin(), v.end()); sc.insert(sc.end(), raw.begin(), raw.end()); break; }
        case 20: { valtype v = s.bytes(s.range<size_t>(0, 6)); sc << v; break; }
        case 21: sc << opcodetype(s.range<unsigned>(0x4f, 0xff)); break; // anything, incl. OP_SUCCESSx / disabled / reserved
        case 22: sc << s.pick<opcodetype>({OP_RETURN, OP_VER, OP_RESERVED, OP_CAT, OP_MUL, OP_2MUL}); break;
        case 23: { valtype raw = s.bytes(s.range<size_t>(1, 4)); sc.insert(sc.end(), raw.begin(), raw.end()); break; }
        }
    }
    if (s.chance(128)) sc << OP_1;
    p.soup.assign(sc.begin(), sc.end());
    unsigned ni = s.range<unsigned>(0, 3);
    for (unsigned i = 0; i < ni; ++i) {
        switch (s.range<unsigned>(0, 4)) {
        case 0: p.soup_items.push_back({}); break;
        case 1: p.soup_items.push_back({1}); break;
        case 2: p.soup_items.push_back({uint8_t(s.range<unsigned>(0, 255))}); break;
        case 3: p.soup_items.push_back(s.bytes(s.range<size_t>(0, 6))); break;
        case 4: p.soup_items.push_back({1, 0}); break;
        }
    }
}

// ------------------------------------------------------------------------------------------------ evaluation
struct Verdict { bool ok; ScriptError err; };

struct Evaluator {
    const CTransaction tx;
    const Spend& sp;
    PrecomputedTransactionData txdata;
    explicit Evaluator(const Spend& s) : tx(s.tx), sp(s) { txdata.Init(tx, std::vector<CTxOut>(s.spent)); }
    Verdict run(uint64_t flags)
    {
        ScriptError err = SCRIPT_ERR_UNKNOWN_ERROR;
        const TransactionSignatureChecker checker{&tx, sp.nin, sp.amount(), txdata, MissingDataBehavior::ASSERT_FAIL};
        bool ok = VerifyScript(tx.vin[sp.nin].scriptSig, sp.spent[sp.nin].scriptPubKey, &tx.vin[sp.nin].scriptWitness, script_verify_flags::from_int(flags), checker, &err);
        return {ok, err};
    }
};

} // namespace

VERIF_TARGET(c11_flags, init, 24, 220,
             "a VALID spend of a template (bare/P2SH/P2WSH/P2SH-P2WSH x {pk,pkh,multisig,CLTV,CSV,IF/ELSE,failing-sig-NOT}, P2WPKH, P2SH-P2WPKH, P2TR key path, "
             "P2TR script path with tapscript leaves, unknown/odd witness programs bare and P2SH-wrapped incl. all-zero / negative-zero program bytes and lengths 1,2,3,40,41) in a 1-3 input transaction, signed with harness keys under random sighash types, "
             "then 0-3 flag-sensitive relaxations (high-S, non-DER padding, undefined hashtype, hybrid/uncompressed key, non-null dummy, non-push or non-minimal "
             "scriptSig, non-minimal number, extra stack item, NOP1-10, unsatisfied CLTV/CSV, broken/unexpected witness, non-minimal IF argument, non-empty failing "
             "signature, CODESEPARATOR, failing P2SH redeem, malleated witness scriptSig, unknown leaf version, OP_SUCCESS, unknown tapscript pubkey type, annex, bad "
             "taproot sig/control), or opcode soup in any wrapper; each spend is evaluated under ~55 valid flag sets (NONE, ALL, STANDARD, MANDATORY, consensus, two "
             "random bases with all single-flag toggles, a descending chain). non-trivial = some evaluated pair F subset G has ok(F) and !ok(G); "
             "distinct = by (template, lock, relaxations, set of flags observed flipping, verdict under NONE/ALL)")
{
    // ---------------------------------------------------------------- template, lock, relaxations
    bool soup = s.chance(40);
    int tmpl = int(s.index(T_COUNT));
    LockParams lp;
    lp.kind = soup ? int(L_SOUP) : int(s.index(L_SOUP));
    if (tmpl == T_P2WPKH || tmpl == T_P2SH_P2WPKH) { lp.kind = L_PKH; soup = false; }
    if (tmpl == T_P2TR_KEY || tmpl == T_WITUNKNOWN) { lp.kind = L_PK; soup = false; }
    lp.k0 = unsigned(s.index(3)); lp.k1 = lp.k0 + 1; lp.k2 = unsigned(s.index(4));
    lp.n = 1 + unsigned(s.index(3)); lp.m = 1 + unsigned(s.index(lp.n));
    lp.branch = !s.boolean();
    const bool tapscript = tmpl == T_P2TR_SCRIPT;
    if (tapscript && lp.kind == L_PKH) lp.kind = L_PK;

    Relax rx;
    unsigned nrelax = s.range<unsigned>(0, 3);
    uint64_t targets = 0;
    {
        auto app = applicable(tmpl, lp.kind);
        for (unsigned i = 0; i < nrelax && !app.empty(); ++i) {
            RelaxId r = s.pick(app);
            rx.on[r] = true;
            rx.variant[r] = int(s.range<unsigned>(0, 255));
            targets |= relax_targets(r, tmpl);
        }
    }
    int key_enc = COMP;
    if (rx[R_KEY_UNCOMP]) key_enc = UNCOMP;
    if (rx[R_KEY_HYBRID]) key_enc = HYBRID;
    if (is_legacy_ctx(tmpl) && !rx[R_KEY_HYBRID] && s.boolean()) key_enc = UNCOMP; // legacy: uncompressed keys are ordinary

    // ---------------------------------------------------------------- transaction
    Spend sp;
    unsigned nin_total = 1 + unsigned(s.index(3));
    sp.nin = unsigned(s.index(nin_total));
    unsigned nout = 1 + unsigned(s.index(2));
    sp.tx.version = 2;
    uint32_t my_sequence = s.pick<uint32_t>({0xfffffffe, 0xffffffff, 0, 5});
    sp.tx.nLockTime = s.pick<uint32_t>({0, 120, 500000123});
    // timelock operands and a transaction that satisfies them (unless relaxed)
    if (lp.kind == L_CLTV) {
        bool time_type = s.boolean();
        int64_t n = time_type ? s.pick<int64_t>({500000000, 500000001, 1600000000, 0xffffffffLL}) : s.pick<int64_t>({0, 1, 100, 499999999});
        lp.lock_n = n;
        sp.tx.nLockTime = uint32_t(std::min<int64_t>(0xffffffffLL, n + int64_t(s.index(3))));
        if (time_type && sp.tx.nLockTime < 500000000) sp.tx.nLockTime = uint32_t(n);
        if (!time_type && sp.tx.nLockTime >= 500000000) sp.tx.nLockTime = uint32_t(n);
        my_sequence = s.pick<uint32_t>({0xfffffffe, 0, 7});
        if (rx[R_LOCK_UNSAT]) {
            switch (rx.variant[R_LOCK_UNSAT] % 4) {
            case 0: if (n > 0 && n != 500000000) sp.tx.nLockTime = uint32_t(n - 1); else my_sequence = 0xffffffff; break;
            case 1: sp.tx.nLockTime = time_type ? 499999999 : 500000000; break; // type mismatch
            case 2: my_sequence = 0xffffffff; break;                          // input final
            case 3: lp.lock_n = -1 - int64_t(rx.variant[R_LOCK_UNSAT] >> 2); break; // negative operand
            }
        }
    } else if (lp.kind == L_CSV) {
        bool time_type = s.boolean();
        uint32_t v = s.pick<uint32_t>({0, 1, 10, 0xffff});
        int64_t n = int64_t(v) | (time_type ? (1 << 22) : 0);
        if (s.chance(24)) n |= int64_t(1) << 31; // disable flag in the operand: behaves as NOP even with the flag
        if (s.chance(64)) n |= int64_t(s.range<unsigned>(0, 15)) << 24; // bits without meaning
        lp.lock_n = n;
        uint32_t seqv = uint32_t(std::min<uint32_t>(0xffff, v + uint32_t(s.index(3))));
        my_sequence = seqv | (time_type ? (1u << 22) : 0);
        if (s.chance(64)) my_sequence |= uint32_t(s.range<unsigned>(0, 15)) << 24;
        if (rx[R_LOCK_UNSAT]) {
            switch (rx.variant[R_LOCK_UNSAT] % 5) {
            case 0: sp.tx.version = 1; break;
            case 1: my_sequence |= 1u << 31; break;                  // disable flag in the input
            case 2: my_sequence ^= 1u << 22; break;                  // type mismatch
            case 3: if (v > 0) my_sequence = (v - 1) | (time_type ? (1u << 22) : 0); else sp.tx.version = 1; break;
            case 4: lp.lock_n = -1 - int64_t(rx.variant[R_LOCK_UNSAT] >> 3); break;
            }
        }
    }
    for (unsigned i = 0; i < nin_total; ++i) {
        CTxIn in;
        std::array<unsigned char, 32> h{}; h[0] = uint8_t(0xa0 + i); h[31] = 0x77;
        in.prevout = COutPoint(Txid::FromUint256(uint256(std::span<const unsigned char>(h.data(), 32))), i + uint32_t(s.index(2)));
        in.nSequence = i == sp.nin ? my_sequence : s.pick<uint32_t>({0xffffffff, 0xfffffffd, 1});
        sp.tx.vin.push_back(in);
        sp.spent.emplace_back(CAmount(50000 + 1000 * i), CScript() << OP_0 << valtype(20, uint8_t(0x30 + i)));
    }
    for (unsigned i = 0; i < nout; ++i) sp.tx.vout.emplace_back(CAmount(10000 + i), CScript() << OP_0 << valtype(20, uint8_t(0x60 + i)));
    sp.spent[sp.nin].nValue = s.pick<CAmount>({100000, 1, 0, 2099999997690000LL});

    if (lp.kind == L_SOUP) gen_soup(s, lp, tapscript);

    // ---------------------------------------------------------------- scripts
    size_t code_off = 0;
    CScript lock = build_lock(lp, rx, tapscript, key_enc, code_off);
    CScript spk, redeem, wscript;
    // taproot pieces
    valtype control; uint256 merkle_root; uint8_t leaf_ver = 0xc0; TapCtx tc;
    unsigned internal_ki = lp.k2 + 3;
    switch (tmpl) {
    case T_BARE: spk = lock; break;
    case T_P2SH: redeem = lock; spk = CScript() << OP_HASH160 << ToByteVector(Hash160(redeem)) << OP_EQUAL; break;
    case T_P2WSH: case T_P2SH_P2WSH: {
        wscript = lock;
        uint256 h; CSHA256().Write(wscript.data(), wscript.size()).Finalize(h.begin());
        CScript prog = CScript() << OP_0 << ToByteVector(h);
        if (tmpl == T_P2WSH) spk = prog; else { redeem = prog; spk = CScript() << OP_HASH160 << ToByteVector(Hash160(redeem)) << OP_EQUAL; }
        break;
    }
    case T_P2WPKH: case T_P2SH_P2WPKH: {
        valtype pk = pub_bytes(lp.k0, key_enc);
        CScript prog = CScript() << OP_0 << ToByteVector(Hash160(pk));
        if (tmpl == T_P2WPKH) spk = prog; else { redeem = prog; spk = CScript() << OP_HASH160 << ToByteVector(Hash160(redeem)) << OP_EQUAL; }
        break;
    }
    case T_P2TR_KEY: case T_P2TR_SCRIPT: {
        XOnlyPubKey internal{g.keys[internal_ki % g.keys.size()].GetPubKey()};
        bool with_tree = tmpl == T_P2TR_SCRIPT || s.boolean();
        std::vector<uint256> path;
        if (with_tree) {
            if (rx[R_TAP_LEAFVER]) leaf_ver = uint8_t(0xc2 + 2 * (rx.variant[R_TAP_LEAFVER] % 30)); // even, != 0xc0
            CScript leaf = tmpl == T_P2TR_SCRIPT ? lock : (CScript() << OP_1);
            tc.leaf_hash = ComputeTapleafHash(leaf_ver, leaf);
            uint256 k = tc.leaf_hash;
            unsigned depth = unsigned(s.index(3));
            for (unsigned d = 0; d < depth; ++d) {
                std::array<unsigned char, 32> sib{}; sib[0] = uint8_t(0x90 + d); sib[7] = uint8_t(s.range<unsigned>(0, 255));
                uint256 sh{std::span<const unsigned char>(sib.data(), 32)};
                path.push_back(sh);
                k = ComputeTapbranchHash(k, sh);
            }
            merkle_root = k;
        }
        auto tweaked = internal.CreateTapTweak(with_tree ? &merkle_root : nullptr);
        if (!tweaked) return;
        spk = CScript() << OP_1 << ToByteVector(tweaked->first);
        if (tmpl == T_P2TR_SCRIPT) {
            control.push_back(leaf_ver | (tweaked->second ? 1 : 0));
            control.insert(control.end(), internal.begin(), internal.end());
            for (auto& h : path) control.insert(control.end(), h.begin(), h.end());
            tc.script_path = true;
        }
        break;
    }
    case T_WITUNKNOWN: {
        unsigned mode = unsigned(s.index(6));
        unsigned ver = mode == 0 ? 1 : unsigned(s.range<unsigned>(2, 16));
        size_t len = mode == 0 ? s.pick<size_t>({2, 20, 31, 33, 40, 3}) : s.pick<size_t>({2, 20, 32, 40, 3, 41, 1});
        // program bytes: ordinary (truthy), or boundary values that are FALSE as a stack element: all zero, negative zero (00..0080), or a
        // single non-zero byte somewhere (true). The program is what the scriptPubKey / redeemScript leaves on the stack.
        const unsigned fill = unsigned(s.index(4));
        auto filled = [&](size_t n, uint8_t ordinary) {
            valtype v(n, fill == 0 ? ordinary : uint8_t(0));
            if (fill == 2 && n) v.back() = 0x80;
            if (fill == 3 && n) v[n / 2] = 0x01;
            return v;
        };
        valtype prog = filled(len, 0x5a);
        if (mode == 1) { ver = 1; prog = {0x4e, 0x73}; }              // pay-to-anchor
        if (mode == 2) { ver = 0; prog = filled(s.pick<size_t>({2, 19, 21, 33, 40, 20, 32}), 0x21); } // v0 with a wrong length / unknown hash: fails once WITNESS is on
        CScript wp = CScript() << CScript::EncodeOP_N(int(ver)) << prog;
        if (mode == 3) { redeem = CScript() << OP_1 << filled(32, 0x33); spk = CScript() << OP_HASH160 << ToByteVector(Hash160(redeem)) << OP_EQUAL; } // P2SH-wrapped v1/32: not taproot
        else if (mode == 4 || (mode == 5 && s.boolean())) { redeem = wp; spk = CScript() << OP_HASH160 << ToByteVector(Hash160(redeem)) << OP_EQUAL; }
        else spk = wp;
        const bool false_bytes = (fill == 1 || fill == 2) && mode != 1;
        if (false_bytes) st.cls(redeem.empty() ? "witprog:false-bytes-bare" : "witprog:false-bytes-p2sh-wrapped");
        if (fill == 3) st.cls("witprog:single-nonzero-byte");
        st.mix(uint64_t(100 + fill)); st.mix(uint64_t(mode));
        targets |= B(SCRIPT_VERIFY_DISCOURAGE_UPGRADABLE_WITNESS_PROGRAM); // keep it out of the first base set: unknown programs are then decided by the other flags
        break;
    }
    }
    sp.spent[sp.nin].scriptPubKey = spk;

    // ---------------------------------------------------------------- signatures, scriptSig, witness
    PrecomputedTransactionData sign_data;
    sign_data.Init(sp.tx, std::vector<CTxOut>(sp.spent), /*force=*/true);

    SigOpt enc; // encoding relaxations apply to every ECDSA signature of the case
    {
        static const int DEFINED[] = {SIGHASH_ALL, SIGHASH_NONE, SIGHASH_SINGLE, SIGHASH_ALL | SIGHASH_ANYONECANPAY, SIGHASH_NONE | SIGHASH_ANYONECANPAY, SIGHASH_SINGLE | SIGHASH_ANYONECANPAY};
        enc.hashtype = s.chance(96) ? DEFINED[s.index(6)] : SIGHASH_ALL;
        if (rx[R_HASHTYPE_UNDEF]) { static const int UNDEF[] = {0x00, 0x04, 0x20, 0x80, 0x84, 0x7f}; enc.hashtype = UNDEF[rx.variant[R_HASHTYPE_UNDEF] % 6]; }
        enc.high_s = rx[R_HIGH_S];
        enc.der_pad = rx[R_DER_PAD] ? 1 + rx.variant[R_DER_PAD] % 3 : 0;
    }
    uint8_t tap_hashtype = 0;
    {
        static const uint8_t TAPHT[] = {0, 1, 2, 3, 0x81, 0x82, 0x83};
        tap_hashtype = s.chance(96) ? TAPHT[s.index(7)] : 0;
        if ((tap_hashtype & 3) == SIGHASH_SINGLE && sp.nin >= sp.tx.vout.size()) tap_hashtype = 1; // no matching output: unsignable by definition
    }
    valtype annex;
    if (rx[R_TAP_ANNEX]) {
        annex = {0x50, uint8_t(rx.variant[R_TAP_ANNEX])};
        tc.annex_present = true;
        tc.annex_hash = (HashWriter{} << annex).GetSHA256();
    }

    CScript script_sig;
    std::vector<valtype> witness;
    const SigVersion sv = is_v0_ctx(tmpl) ? SigVersion::WITNESS_V0 : SigVersion::BASE;
    CScript script_code;
    if (tmpl == T_P2WPKH || tmpl == T_P2SH_P2WPKH) {
        script_code = CScript() << OP_DUP << OP_HASH160 << ToByteVector(Hash160(pub_bytes(lp.k0, key_enc))) << OP_EQUALVERIFY << OP_CHECKSIG;
    } else {
        script_code = CScript(lock.begin() + code_off, lock.end());
    }
    auto sign_ecdsa = [&](unsigned ki, SigOpt o) -> valtype {
        if (o.empty) return {};
        SigOpt e = enc; e.wrong = o.wrong;
        if (rx[R_WITNESS_BAD] && is_v0_ctx(tmpl) && rx.variant[R_WITNESS_BAD] % 3 == 1) e.wrong = true;
        return ecdsa_sig(sp, ki, script_code, sv, e);
    };
    auto sign_tap = [&](unsigned ki, SigOpt o) -> valtype {
        if (o.empty) return {};
        if (rx[R_TAP_PUBKEYTYPE] && o.wrong) return valtype(64, 0x01); // unknown key type: any non-empty signature "succeeds"
        return schnorr_sig(sp, sign_data, ki, tc, nullptr, tap_hashtype, o.wrong);
    };

    std::vector<valtype> items;
    if (tmpl == T_P2TR_KEY) {
        bool has_root = !merkle_root.IsNull();
        uint256 null_root;
        valtype sig = schnorr_sig(sp, sign_data, internal_ki, tc, has_root ? &merkle_root : &null_root, tap_hashtype, rx[R_TAP_BAD] && (rx.variant[R_TAP_BAD] & 1));
        if (rx[R_TAP_BAD] && !(rx.variant[R_TAP_BAD] & 1)) sig[rx.variant[R_TAP_BAD] % 64] ^= 0x40;
        witness.push_back(sig);
        if (rx[R_TAP_ANNEX]) witness.push_back(annex);
    } else if (tmpl == T_P2TR_SCRIPT) {
        items = satisfy_lock(lp, rx, true, key_enc, sign_tap);
        if (rx[R_EXTRA_ITEM]) items.insert(items.begin(), valtype{1});
        if (rx[R_TAP_BAD]) {
            switch (rx.variant[R_TAP_BAD] % 3) {
            case 0: control[1 + rx.variant[R_TAP_BAD] % 32] ^= 1; break;       // internal key no longer matches
            case 1: control.push_back(0); break;                               // wrong control size
            case 2: for (auto& it : items) if (it.size() >= 64) { it[5] ^= 0x10; break; } break; // corrupt first signature
            }
        }
        witness = items;
        witness.emplace_back(lock.begin(), lock.end());
        witness.push_back(control);
        if (rx[R_TAP_ANNEX]) witness.push_back(annex);
    } else if (tmpl == T_WITUNKNOWN) {
        if (!redeem.empty()) script_sig << valtype(redeem.begin(), redeem.end());
        unsigned nw = unsigned(s.index(3));
        for (unsigned i = 0; i < nw; ++i) witness.push_back(valtype(1 + i, uint8_t(0x70 + i)));
    } else {
        items = satisfy_lock(lp, rx, false, key_enc, sign_ecdsa);
        if (rx[R_EXTRA_ITEM]) items.insert(items.begin(), valtype{uint8_t(1 + rx.variant[R_EXTRA_ITEM] % 3)});
        if (is_legacy_ctx(tmpl)) {
            if (rx[R_P2SH_FALSE] && lp.kind != L_SOUP) items.clear();
            bool first = true;
            for (auto& it : items) {
                if (first && rx[R_NONMIN_PUSH] && it.size() <= 255) push_pushdata1(script_sig, it); else push_minimal(script_sig, it);
                first = false;
            }
            if (tmpl == T_P2SH) {
                valtype rs(redeem.begin(), redeem.end());
                if (items.empty() && rx[R_NONMIN_PUSH] && rs.size() <= 255) push_pushdata1(script_sig, rs); else script_sig << rs;
            }
            if (rx[R_NONPUSH_SCRIPTSIG]) script_sig << OP_NOP;
            if (rx[R_UNEXPECTED_WITNESS]) witness.push_back(valtype{1});
        } else {
            witness = items;
            if (tmpl == T_P2WSH || tmpl == T_P2SH_P2WSH) {
                valtype ws(wscript.begin(), wscript.end());
                if (rx[R_WITNESS_BAD] && rx.variant[R_WITNESS_BAD] % 3 == 2) ws.push_back(uint8_t(OP_NOP)); // script no longer matches the program
                witness.push_back(ws);
            }
            if (rx[R_WITNESS_BAD] && rx.variant[R_WITNESS_BAD] % 3 == 0) witness.clear();
            if (!redeem.empty()) {
                valtype rs(redeem.begin(), redeem.end());
                if (rx[R_P2SH_WIT_MALLEATE]) { if (rx.variant[R_P2SH_WIT_MALLEATE] & 1) push_pushdata1(script_sig, rs); else { script_sig << OP_1; script_sig << rs; } }
                else script_sig << rs;
            }
        }
    }
    if (rx[R_NATIVE_WIT_SCRIPTSIG] && redeem.empty()) script_sig << (rx.variant[R_NATIVE_WIT_SCRIPTSIG] & 1 ? OP_1 : OP_NOP);
    sp.tx.vin[sp.nin].scriptSig = script_sig;
    sp.tx.vin[sp.nin].scriptWitness.stack = witness;

    // ---------------------------------------------------------------- flag sets
    std::vector<uint64_t> sets;
    auto add = [&](uint64_t f) { if (valid_combo(f) && std::find(sets.begin(), sets.end(), f) == sets.end()) sets.push_back(f); };
    const uint64_t STANDARD = STANDARD_SCRIPT_VERIFY_FLAGS.as_int(), MANDATORY = MANDATORY_SCRIPT_VERIFY_FLAGS.as_int();
    add(0); add(ALL_FLAGS); add(STANDARD); add(MANDATORY); add(g.consensus_next); add(g.consensus_tip);
    add(B(SCRIPT_VERIFY_P2SH)); add(B(SCRIPT_VERIFY_P2SH) | B(SCRIPT_VERIFY_WITNESS)); add(B(SCRIPT_VERIFY_P2SH) | B(SCRIPT_VERIFY_WITNESS) | B(SCRIPT_VERIFY_TAPROOT)); // the historical soft-fork steps
    add(close_down(ALL_FLAGS & ~targets)); // everything except what the relaxations are aimed at
    for (int b = 0; b < 2; ++b) {
        uint64_t base = s.ConsumeIntegral<uint32_t>() & ALL_FLAGS;
        unsigned mode = unsigned(s.index(4));
        if (mode == 1) base |= s.ConsumeIntegral<uint32_t>() & ALL_FLAGS;  // dense
        if (mode == 2) base &= s.ConsumeIntegral<uint32_t>();              // sparse
        if (mode == 3) base = STANDARD;
        if (b == 0 || s.boolean()) base &= ~targets;                       // relaxations not (yet) rejected: the toggles below isolate each flag
        base = s.boolean() ? close_down(base) : close_up(base);
        if (b == 0) base = close_down(base & ~targets);
        add(base);
        for (unsigned i = 0; i < NFLAGS; ++i) {
            add(base | (uint64_t{1} << i));
            add(base & ~(uint64_t{1} << i));
        }
    }
    { // descending chain from a random set
        uint64_t f = close_up(s.ConsumeIntegral<uint32_t>() & ALL_FLAGS);
        for (int i = 0; i < 4; ++i) { add(f); f = close_down(f & s.ConsumeIntegral<uint32_t>()); }
    }

    // ---------------------------------------------------------------- evaluate
    Evaluator ev(sp);
    std::vector<Verdict> verdicts;
    for (uint64_t f : sets) {
        VCHECK(valid_combo(f), "c11.harness", "invalid flag combination generated");
        Verdict v = ev.run(f);
        st.steps++;
        VCHECK(v.ok == (v.err == SCRIPT_ERR_OK), "c11.result-error-consistent", "flags", flag_str(f), "ok", v.ok, "err", ScriptErrorString(v.err));
        verdicts.push_back(v);
    }
    // determinism: fresh precomputed data, same answers (result and error)
    {
        Evaluator ev2(sp);
        for (size_t i = 0; i < sets.size(); i += 1 + s.index(6)) {
            Verdict v = ev2.run(sets[i]);
            Verdict w = ev.run(sets[i]);
            st.steps++;
            VCHECK(v.ok == verdicts[i].ok && v.err == verdicts[i].err && w.ok == v.ok && w.err == v.err, "c11.deterministic", "flags", flag_str(sets[i]),
                   "first", ScriptErrorString(verdicts[i].err), "again", ScriptErrorString(v.err), "third", ScriptErrorString(w.err));
        }
    }
    // soft-fork relation over every evaluated pair
    uint64_t flipped = 0;
    bool any_strict_diff = false;
    for (size_t i = 0; i < sets.size(); ++i) {
        for (size_t j = 0; j < sets.size(); ++j) {
            if (i == j || (sets[i] & sets[j]) != sets[i]) continue; // need F=sets[i] ⊆ G=sets[j]
            st.steps++;
            if (verdicts[j].ok && !verdicts[i].ok) {
                st.note("VIOLATING PAIR F=", flag_str(sets[i]), " G=", flag_str(sets[j]));
                VCHECK(false, "c11.softfork-subset", "ok under G but", ScriptErrorString(verdicts[i].err), "under subset F; F=", flag_str(sets[i]), "G=", flag_str(sets[j]),
                       "tmpl", TMPL_NAME[tmpl], "lock", LOCK_NAME[lp.kind]);
            }
            if (verdicts[i].ok && !verdicts[j].ok) {
                any_strict_diff = true;
                uint64_t d = sets[j] & ~sets[i];
                if ((d & (d - 1)) == 0) flipped |= d; // single-flag difference: attributable
            }
        }
    }
    // standard => consensus (statement's second sentence; not conditioned on a subset relation)
    {
        auto at = [&](uint64_t f) { return verdicts[size_t(std::find(sets.begin(), sets.end(), f) - sets.begin())]; };
        st.steps += 3;
        if (at(STANDARD).ok) {
            VCHECK(at(g.consensus_next).ok, "c11.standard-implies-consensus", "ok under STANDARD but fails under next-block consensus flags", flag_str(g.consensus_next),
                   ScriptErrorString(at(g.consensus_next).err));
            VCHECK(at(g.consensus_tip).ok, "c11.standard-implies-consensus", "ok under STANDARD but fails under tip consensus flags", flag_str(g.consensus_tip));
            VCHECK(at(MANDATORY).ok, "c11.standard-implies-consensus", "ok under STANDARD but fails under MANDATORY flags");
            st.cls("ok-under-standard");
        }
    }

    // ---------------------------------------------------------------- accounting
    st.nontrivial = any_strict_diff;
    st.cls(std::string("tmpl:") + TMPL_NAME[tmpl]);
    st.cls(std::string("lock:") + LOCK_NAME[lp.kind]);
    unsigned nrx = 0;
    for (int r = 0; r < R_COUNT; ++r) if (rx.on[r]) { st.cls(std::string("relax:") + RELAX_NAME[r]); st.mix(uint64_t(r + 1)); ++nrx; }
    st.cls("relaxations=" + std::to_string(nrx));
    for (unsigned i = 0; i < NFLAGS; ++i) if (flipped >> i & 1) st.cls(std::string("flip:") + FLAG_NAME[i]);
    if (any_strict_diff) st.cls("verdict-depends-on-flags");
    if (verdicts[0].ok) st.cls("ok-under-NONE");
    if (verdicts[1].ok) st.cls("ok-under-ALL");
    if (g.consensus_next == MANDATORY) st.cls("consensus==MANDATORY");
    st.mix(uint64_t(tmpl)); st.mix(uint64_t(lp.kind)); st.mix(flipped); st.mix(uint64_t(verdicts[0].ok)); st.mix(uint64_t(verdicts[1].ok));
    st.note("tmpl=", TMPL_NAME[tmpl], " lock=", LOCK_NAME[lp.kind], " nin=", sp.nin, "/", nin_total, " hashtype=", enc.hashtype, " taphashtype=", int(tap_hashtype));
    for (int r = 0; r < R_COUNT; ++r) if (rx.on[r]) st.note("relax ", RELAX_NAME[r], "(", rx.variant[r], ")");
    st.note("scriptSig=", verif::hex(valtype(script_sig.begin(), script_sig.end())), " spk=", verif::hex(valtype(spk.begin(), spk.end())), " witness_items=", witness.size());
    st.note("sets=", sets.size(), " NONE:", ScriptErrorString(verdicts[0].err), " ALL:", ScriptErrorString(verdicts[1].err), " STANDARD:", ScriptErrorString(verdicts[2].err));
    st.note("flags flipping the verdict: ", flag_str(flipped));
}
