#!/usr/bin/env python3
"""C10 -- signature checks accept exactly valid signatures over the right message (engine E2).

Reference: test_framework/script.py (LegacySignatureHash, SegwitV0SignatureHash, TaprootSignatureHash, taproot_construct) and key.py
(pure-Python ECDSA / BIP340). Kinds:

  digest_ecdsa   SignatureHash(script, tx, idx, hashtype, amount, BASE | WITNESS_V0) == Python digest, for all 256 hashtype bytes (and a few
                 32-bit values), scripts with OP_CODESEPARATOR / 0xab inside pushes, SINGLE without matching output, with and without
                 PrecomputedTransactionData, and through one SigHashCache object answering several (script, hashtype) queries
  digest_taproot SignatureHashSchnorr == Python BIP341/342 digest for the valid hash types; invalid hash types and SINGLE without a
                 matching output must fail; annex, tapleaf, codeseparator position
  spend          a Python-signed single-CHECKSIG spend (P2PK, P2PKH, P2WPKH, P2SH-P2WPKH, P2WSH, P2WSH/bare with OP_CODESEPARATOR,
                 P2TR key path, tapscript, tapscript with OP_CODESEPARATOR) must verify in VerifyScript (completeness); then ONE mutation is
                 applied and the verdict must follow the BIP commitment table below: a mutation of committed data (or of the signature,
                 key, hashtype byte) must fail, a mutation of uncommitted data must still pass.
Non-trivial (DESIGN): non-default hashtype or a mutation of a committed field.
"""
import hashlib

from hypothesis import strategies as st

import e2
from test_framework import key as K
from test_framework import messages as m
from test_framework import script as sc
from test_framework.crypto import secp256k1 as S

N = S.GE.ORDER
U32 = 0xffffffff
MAX_MONEY = 21_000_000 * 100_000_000
CONSENSUS_FLAGS = ["P2SH", "DERSIG", "NULLDUMMY", "CHECKLOCKTIMEVERIFY", "CHECKSEQUENCEVERIFY", "WITNESS", "TAPROOT"]
TAPROOT_VALID = [0, 1, 2, 3, 0x81, 0x82, 0x83]

# ----------------------------------------------------------------------------------------------------------------
# strategies

u32 = st.one_of(st.sampled_from([0, 1, 2, U32, U32 - 1, 0x80000000, 0x7fffffff]), st.integers(0, U32))
amounts = st.one_of(st.sampled_from([0, 1, MAX_MONEY, MAX_MONEY - 1, 546]), st.integers(0, MAX_MONEY))
seed2 = st.binary(min_size=2, max_size=2)
hashtypes = st.one_of(st.sampled_from([1, 2, 3, 0x81, 0x82, 0x83]), st.sampled_from([1, 2, 3, 0x81, 0x82, 0x83, 0x42, 0x43, 0xc2, 0xe3, 0x22, 0x63]),
                      st.sampled_from([0, 4, 0x1f, 0x20, 0x41, 0x80, 0xff, 0x7f, 0x9f, 0xc1]), st.integers(0, 255))
privkeys = st.one_of(st.sampled_from([1, 2, N - 1]), st.integers(1, N - 1))


def prf(seed, n):
    return hashlib.shake_128(seed).digest(n)


@st.composite
def small_script(draw, maxn=34):
    n = draw(st.one_of(st.integers(0, 4), st.sampled_from([22, 23, 25, 34, 35]).filter(lambda x: x <= max(maxn, 35)), st.integers(0, maxn)))
    return prf(draw(seed2), n)


@st.composite
def tx_desc(draw, min_in=1, max_in=6, max_out=6):
    nin = draw(st.one_of(st.integers(min_in, min(max_in, 3)), st.integers(min_in, max_in)))
    nout = draw(st.one_of(st.integers(0, 3), st.integers(0, max_out)))
    return {"version": draw(u32),
            "vin": [{"hash": prf(draw(seed2), 32), "n": draw(u32), "script": draw(small_script(20)), "seq": draw(u32)} for _ in range(nin)],
            "vout": [{"value": draw(amounts), "spk": draw(small_script())} for _ in range(nout)],
            "locktime": draw(u32)}


@st.composite
def script_code(draw):
    """a well-formed script: pushes (all push encodings), OP_CODESEPARATOR, a few opcodes; 0xab also inside push data"""
    out = b""
    for _ in range(draw(st.integers(0, 8))):
        t = draw(st.sampled_from(["op", "op", "codesep", "push", "push", "push1", "push2", "abpush"]))
        if t == "op":
            out += bytes([draw(st.sampled_from([0x00, 0x51, 0x60, 0x61, 0x75, 0x76, 0x87, 0x88, 0xa9, 0xac, 0xad, 0xae, 0xba, 0x4f]))])
        elif t == "codesep":
            out += b"\xab"
        elif t == "abpush":
            d = b"\xab" * draw(st.integers(1, 3)) + prf(draw(seed2), draw(st.integers(0, 3)))
            out += bytes([len(d)]) + d
        else:
            n = draw(st.one_of(st.integers(0, 5), st.sampled_from([20, 32, 33, 65, 71, 72, 75]))) if t == "push" else draw(st.sampled_from([0, 1, 75, 76, 80, 255])) if t == "push1" else draw(st.sampled_from([0, 76, 256, 300]))
            d = prf(draw(seed2), n)
            out += (bytes([n]) if t == "push" else b"\x4c" + bytes([n]) if t == "push1" else b"\x4d" + n.to_bytes(2, "little")) + d
    return out


@st.composite
def k_digest_ecdsa(draw):
    tx = draw(tx_desc())
    nin, nout = len(tx["vin"]), len(tx["vout"])
    ht = draw(st.one_of(hashtypes, hashtypes, st.sampled_from([0x100, 0x101, 0x80000001, U32, 0x1ff, 0x10003])))
    queries = [[draw(script_code()) if draw(st.booleans()) else None, draw(st.one_of(hashtypes, st.just(ht), st.just(ht ^ 0x80), st.just(ht | 0x100)))] for _ in range(draw(st.integers(0, 5)))]
    return {"kind": "digest_ecdsa", "tx": tx, "idx": draw(st.integers(0, nin - 1)), "script": draw(script_code()), "amount": draw(amounts), "hashtype": ht,
            "sigversion": draw(st.sampled_from(["base", "witness_v0"])), "precomputed": draw(st.booleans()), "queries": queries,
            "spent": [{"amount": draw(amounts), "spk": draw(small_script())} for _ in range(nin)]}


@st.composite
def k_digest_taproot(draw):
    tx = draw(tx_desc())
    nin = len(tx["vin"])
    ht = draw(st.one_of(st.sampled_from(TAPROOT_VALID), st.sampled_from(TAPROOT_VALID), st.sampled_from([4, 0x80, 0x84, 0x7f, 0xff, 0x41, 0x13, 0x23])))
    scriptpath = draw(st.booleans())
    idx = draw(st.integers(0, nin - 1))
    # the spent output of the signed input is a 34-byte P2TR script (script.py asserts the BIP341 message length for that size)
    return {"kind": "digest_taproot", "tx": tx, "idx": idx, "hashtype": ht,
            "spent": [{"amount": draw(amounts), "spk": b"\x51\x20" + prf(draw(seed2), 32) if i == idx else draw(small_script())} for i in range(nin)],
            "annex": draw(st.one_of(st.none(), st.none(), small_script(40).map(lambda b: b"\x50" + b))), "scriptpath": scriptpath,
            "leaf_script": draw(script_code()), "leaf_ver": draw(st.sampled_from([0xc0, 0xc0, 0xc2, 0xfe, 0x00])),
            "codesep_pos": draw(st.one_of(st.just(U32), st.integers(0, 20), u32))}


TEMPLATES = ["p2pk", "p2pk_uncompressed", "p2pkh", "p2wpkh", "p2sh_p2wpkh", "p2wsh", "p2wsh_uncompressed", "p2wsh_codesep", "bare_codesep", "p2tr_key", "p2tr_key",
             "p2tr_script", "p2tr_script_codesep"]
MUTATIONS = ["none", "version", "locktime", "this_prevout", "this_sequence", "other_prevout", "other_sequence", "other_scriptsig", "add_input", "this_output_value",
             "this_output_spk", "other_output_value", "add_output", "amount", "other_amount", "other_spk", "script", "annex", "codesep_pos", "sig_bit", "hashtype_byte",
             "key", "high_s"]


@st.composite
def k_spend(draw):
    tx = draw(tx_desc(max_in=4, max_out=4))
    nin = len(tx["vin"])
    t = draw(st.sampled_from(TEMPLATES))
    taproot = t.startswith("p2tr")
    ht = draw(st.sampled_from(TAPROOT_VALID + [1, 0x81])) if taproot else draw(hashtypes)
    return {"kind": "spend", "tx": tx, "idx": draw(st.integers(0, nin - 1)), "template": t, "hashtype": ht, "key": draw(privkeys), "key2": draw(privkeys),
            "amount": draw(amounts), "spent": [{"amount": draw(amounts), "spk": draw(small_script())} for _ in range(nin)],
            "mutation": draw(st.sampled_from(MUTATIONS)), "bit": draw(st.integers(0, 1 << 16)), "annex": draw(st.one_of(st.none(), st.none(), small_script(20).map(lambda b: b"\x50" + b))),
            "aux": prf(draw(seed2), 32), "strictenc": draw(st.integers(0, 5)) == 0}


def cases():
    return st.one_of(k_digest_ecdsa(), k_digest_taproot(), k_spend(), k_spend(), k_spend())


# ----------------------------------------------------------------------------------------------------------------
# helpers

def mk_tx(d):
    tx = m.CTransaction()
    tx.version, tx.nLockTime = d["version"], d["locktime"]
    tx.vin = [m.CTxIn(m.COutPoint(int.from_bytes(i["hash"], "little"), i["n"]), i["script"], i["seq"]) for i in d["vin"]]
    tx.vout = [m.CTxOut(o["value"], o["spk"]) for o in d["vout"]]
    return tx


def ht_i32(ht):
    return ht - (1 << 32) if ht >= (1 << 31) else ht


def py_ecdsa_digest(sigversion, script, tx, idx, ht, amount):
    if sigversion == "base":
        return sc.LegacySignatureHash(sc.CScript(script), tx, idx, ht)[0]
    return sc.SegwitV0SignatureHash(sc.CScript(script), tx, idx, ht, amount)


def c_digest_ecdsa(sut, ex, c):
    tx, idx, ht, sv = mk_tx(ex["tx"]), ex["idx"], ex["hashtype"], ex["sigversion"]
    want = py_ecdsa_digest(sv, ex["script"], tx, idx, ht, ex["amount"])
    queries = [[q[0] if q[0] is not None else ex["script"], q[1]] for q in ex["queries"]]
    rep = sut.call("sighash", sigversion=sv, tx=tx.serialize_with_witness(), idx=idx, script=ex["script"], amount=ex["amount"], hashtype=ht_i32(ht),
                   precomputed=ex["precomputed"], spent=ex["spent"], queries=[[q[0], ht_i32(q[1])] for q in queries] if queries else None)
    c.eq(rep["hash"], want.hex(), "c10.digest-" + sv, "SignatureHash differs from the Python reference", hashtype=hex(ht), idx=idx, nin=len(tx.vin), nout=len(tx.vout),
         precomputed=ex["precomputed"])
    if queries:
        wants = [py_ecdsa_digest(sv, q[0], tx, idx, q[1], ex["amount"]).hex() for q in queries] + [want.hex()]
        for i, (g, w) in enumerate(zip(rep["cached"], wants)):
            c.eq(g, w, "c10.digest-cache-" + sv, "digest through SigHashCache differs from the Python reference", query=i, queries=[(q[0].hex()[:20], hex(q[1])) for q in queries])
        c.cls("sighash-cache")
    base = ht & 0x1f
    single_oob = base == 3 and idx >= len(tx.vout)
    c.nontrivial(ht != 1)
    c.mix(sv, ht if ht < 256 else ht.bit_length() + 256, len(tx.vin), len(tx.vout), idx, single_oob, b"\xab" in ex["script"], ex["precomputed"], len(queries))
    c.cls("sv:" + sv)
    c.cls("base:" + {2: "none", 3: "single"}.get(base, "all"))
    if ht & 0x80:
        c.cls("anyonecanpay")
    if single_oob:
        c.cls("single-no-output")
    if ht > 255:
        c.cls("hashtype-32bit")
    has_cs = b"\xab" in ex["script"]
    c.note(f"{sv} digest hashtype={ht:#x} idx={idx}/{len(tx.vin)} outs={len(tx.vout)} script={len(ex['script'])}B codesep={has_cs} cache_queries={len(queries)}")


def utxos(spent):
    return [m.CTxOut(s["amount"], s["spk"]) for s in spent]


def c_digest_taproot(sut, ex, c):
    tx, idx, ht = mk_tx(ex["tx"]), ex["idx"], ex["hashtype"]
    sp = ex["scriptpath"]
    rep = sut.call("sighash", sigversion="tapscript" if sp else "taproot", tx=tx.serialize_with_witness(), idx=idx, hashtype=ht, spent=ex["spent"], annex=ex["annex"],
                   leaf_script=ex["leaf_script"] if sp else None, leaf_ver=ex["leaf_ver"] if sp else None, codesep_pos=ex["codesep_pos"] if sp else None)
    valid = ht in TAPROOT_VALID and not ((ht & 3) == 3 and idx >= len(tx.vout))        # BIP341 "Signature validation rules"
    c.eq(rep["ok"], valid, "c10.taproot-hashtype", "SignatureHashSchnorr success != (valid hash_type and SINGLE has a matching output)", hashtype=hex(ht), idx=idx, nout=len(tx.vout))
    if valid:
        want = sc.TaprootSignatureHash(tx, utxos(ex["spent"]), ht, idx, scriptpath=sp, leaf_script=ex["leaf_script"] if sp else None,
                                       codeseparator_pos=ex["codesep_pos"] if sp else -1, annex=ex["annex"], leaf_ver=ex["leaf_ver"])
        c.eq(rep["hash"], want.hex(), "c10.digest-taproot", "BIP341 digest differs from the Python reference", hashtype=hex(ht), scriptpath=sp, annex=ex["annex"])
    c.nontrivial(ht != 0)
    c.mix(ht, sp, ex["annex"] is not None, len(tx.vin), len(tx.vout), idx, valid)
    c.cls("sv:tapscript" if sp else "sv:taproot")
    c.cls("taproot-valid-type" if valid else "taproot-invalid-type")
    if ex["annex"] is not None:
        c.cls("annex")
    c.note(f"taproot digest hashtype={ht:#x} scriptpath={sp} annex={ex['annex'] is not None} idx={idx}/{len(tx.vin)} outs={len(tx.vout)} valid={valid}")


# ----------------------------------------------------------------------------------------------------------------
# spends

def pubkey_bytes(d, compressed=True):
    p = d * S.G
    return p.to_bytes_compressed() if compressed else p.to_bytes_uncompressed()


def push(b):
    return bytes(sc.CScript([b])) if len(b) != 0 else b"\x00"


class Spend:
    """Everything needed to (re)build one signed input: template, keys, hashtype; build() signs for a given signing view of the
    transaction (tx_sign, spent_sign, script variant) and returns (scriptSig, witness stack, spk) to put into the spending view."""

    def __init__(self, ex):
        self.t, self.ht, self.d, self.d2 = ex["template"], ex["hashtype"], ex["key"], ex["key2"]
        self.aux, self.annex = ex["aux"], ex["annex"]
        self.taproot = self.t.startswith("p2tr")
        self.algo = "bip341" if self.taproot else "bip143" if self.t in ("p2wpkh", "p2sh_p2wpkh", "p2wsh", "p2wsh_uncompressed", "p2wsh_codesep") else "legacy"
        self.compressed = "uncompressed" not in self.t

    def scripts(self, extra=b"", key=None):
        """-> dict(spk, script_code (what is signed), redeem/witness script ...). `extra` is appended to the signed script variant."""
        pk = pubkey_bytes(key or self.d, self.compressed)
        t = self.t
        if t in ("p2pk", "p2pk_uncompressed"):
            s = push(pk) + b"\xac" + extra
            return {"spk": s, "code": s}
        if t == "bare_codesep":
            s = b"\x61\xab" + push(pk) + b"\xac" + extra
            return {"spk": s, "code": push(pk) + b"\xac" + extra}
        if t == "p2pkh":
            s = b"\x76\xa9\x14" + sc.hash160(pk) + b"\x88\xac" + extra
            return {"spk": s, "code": s, "pk": pk}
        if t in ("p2wpkh", "p2sh_p2wpkh"):
            prog = b"\x00\x14" + sc.hash160(pk)
            code = b"\x76\xa9\x14" + sc.hash160(pk) + b"\x88\xac"
            if t == "p2wpkh":
                return {"spk": prog, "code": code, "pk": pk}
            return {"spk": b"\xa9\x14" + sc.hash160(prog) + b"\x87", "code": code, "pk": pk, "redeem": prog}
        if t in ("p2wsh", "p2wsh_uncompressed"):
            ws = push(pk) + b"\xac" + extra
            return {"spk": b"\x00\x20" + hashlib.sha256(ws).digest(), "code": ws, "wscript": ws}
        if t == "p2wsh_codesep":
            ws = b"\x61\xab" + push(pk) + b"\xac" + extra
            return {"spk": b"\x00\x20" + hashlib.sha256(ws).digest(), "code": push(pk) + b"\xac" + extra, "wscript": ws}
        internal = (self.d * S.G).to_bytes_xonly()
        if t == "p2tr_key":
            info = sc.taproot_construct(internal)
            return {"spk": bytes(info.scriptPubKey), "info": info}
        leaf_key = ((key or self.d2) * S.G).to_bytes_xonly()
        leaf = (b"\x61\xab" if t == "p2tr_script_codesep" else b"") + push(leaf_key) + b"\xac" + extra
        info = sc.taproot_construct(internal, [("leaf", leaf)])
        return {"spk": bytes(info.scriptPubKey), "info": info, "leaf": leaf, "codesep_pos": 1 if t == "p2tr_script_codesep" else U32}

    def sign(self, tx_sign, spent_sign, idx, scr_sign, *, high_s=False, codesep_pos=None, annex_sign="same", ht=None):
        """signature bytes (with hashtype byte) over the digest of the signing view"""
        ht = self.ht if ht is None else ht
        if self.algo == "bip341":
            annex = self.annex if annex_sign == "same" else annex_sign
            if "leaf" in scr_sign:
                cp = scr_sign["codesep_pos"] if codesep_pos is None else codesep_pos
                digest = sc.TaprootSignatureHash(tx_sign, utxos(spent_sign), ht, idx, scriptpath=True, leaf_script=scr_sign["leaf"], codeseparator_pos=cp, annex=annex)
                sig = K.sign_schnorr(self.d2.to_bytes(32, "big"), digest, self.aux)
            else:
                digest = sc.TaprootSignatureHash(tx_sign, utxos(spent_sign), ht, idx, annex=annex)
                sig = K.sign_schnorr(K.tweak_add_privkey(self.d.to_bytes(32, "big"), scr_sign["info"].tweak), digest, self.aux)
            return sig + (bytes([ht]) if ht != 0 else b"")
        if self.algo == "bip143":
            digest = sc.SegwitV0SignatureHash(sc.CScript(scr_sign["code"]), tx_sign, idx, ht, spent_sign[idx]["amount"])
        else:
            digest = sc.LegacySignatureHash(sc.CScript(scr_sign["code"]), tx_sign, idx, ht)[0]
        key = K.ECKey()
        key.set(self.d.to_bytes(32, "big"), self.compressed)
        der = key.sign_ecdsa(digest, low_s=True, rfc6979=True)
        if high_s:
            rlen = der[3]
            r, s = der[4:4 + rlen], int.from_bytes(der[6 + rlen:], "big")
            s = N - s
            sb = s.to_bytes((s.bit_length() + 8) // 8, "big")
            der = b"\x30" + bytes([4 + len(r) + len(sb), 2, len(r)]) + r + bytes([2, len(sb)]) + sb
        return der + bytes([ht])

    def satisfy(self, scr, sig, annex="same"):
        """-> (scriptSig, witness stack) for the spending script set `scr`"""
        t = self.t
        if t in ("p2pk", "p2pk_uncompressed", "bare_codesep"):
            return push(sig), []
        if t == "p2pkh":
            return push(sig) + push(scr["pk"]), []
        if t == "p2wpkh":
            return b"", [sig, scr["pk"]]
        if t == "p2sh_p2wpkh":
            return push(scr["redeem"]), [sig, scr["pk"]]
        if t in ("p2wsh", "p2wsh_uncompressed", "p2wsh_codesep"):
            return b"", [sig, scr["wscript"]]
        ann = self.annex if annex == "same" else annex
        tail = [ann] if ann is not None else []
        if t == "p2tr_key":
            return b"", [sig] + tail
        info = scr["info"]
        leafinfo = info.leaves["leaf"]
        control = bytes([leafinfo.version + info.negflag]) + info.internal_pubkey + leafinfo.merklebranch
        return b"", [sig, scr["leaf"], control] + tail


def all_like(algo, ht):
    return ht in (0, 1, 0x81) if algo == "bip341" else (ht & 0x1f) not in (2, 3)


def base_type(algo, ht):
    """'all' | 'none' | 'single'"""
    b = (ht & 3) if algo == "bip341" else (ht & 0x1f)
    if algo == "bip341" and ht == 0:
        return "all"
    return {2: "none", 3: "single"}.get(b, "all")


def committed(algo, ht, mutation, idx, nout_before):
    """Does the digest of `algo` with hashtype `ht` commit to what `mutation` changes? (BIP143 / BIP341 / legacy algorithm texts)"""
    acp = bool(ht & 0x80)
    bt = base_type(algo, ht)
    if mutation in ("version", "locktime", "this_prevout", "this_sequence"):
        return True
    if mutation in ("other_prevout", "add_input"):
        return not acp
    if mutation == "other_sequence":
        return not acp if algo == "bip341" else (not acp and bt == "all")
    if mutation == "other_scriptsig":
        return False
    if mutation in ("this_output_value", "this_output_spk"):
        return bt in ("all", "single")
    if mutation == "other_output_value":
        return bt == "all"
    if mutation == "add_output":
        return bt == "all" or (bt == "single" and idx == nout_before)
    if mutation == "amount":
        return algo != "legacy"
    if mutation in ("other_amount", "other_spk"):
        return algo == "bip341" and not acp
    raise e2.HarnessError(mutation)


def c_spend(sut, ex, c):
    S_ = Spend(ex)
    algo, ht, idx, mut = S_.algo, S_.ht, ex["idx"], ex["mutation"]
    txd = ex["tx"]
    spent = [dict(s) for s in ex["spent"]]
    scr = S_.scripts()
    spent[idx] = {"amount": ex["amount"], "spk": scr["spk"]}
    tx = mk_tx(txd)
    nin, nout = len(tx.vin), len(tx.vout)
    flags = CONSENSUS_FLAGS + (["STRICTENC"] if ex["strictenc"] and not S_.taproot else [])

    def run(tx_v, spent_v, scr_v, sig, annex="same"):
        tx_v = m.CTransaction(tx_v)
        ssig, wit = S_.satisfy(scr_v, sig, annex)
        tx_v.vin[idx].scriptSig = ssig
        tx_v.wit.vtxinwit = [m.CTxInWitness() for _ in tx_v.vin]
        tx_v.wit.vtxinwit[idx].scriptWitness.stack = wit
        sp = [dict(s) for s in spent_v]
        sp[idx] = {"amount": sp[idx]["amount"], "spk": scr_v["spk"]}
        return sut.call("verify_script", tx=tx_v.serialize_with_witness(), idx=idx, spent=sp, flags=flags)

    single_oob = base_type(algo, ht) == "single" and idx >= nout
    if S_.taproot and single_oob:
        # BIP341: SIGHASH_SINGLE without a corresponding output is invalid: nothing can be signed; any 65-byte signature must fail
        sig = K.sign_schnorr(S_.d.to_bytes(32, "big"), bytes(32), S_.aux) + bytes([ht])
        rep = run(tx, spent, scr, sig)
        c.expect(not rep["ok"], "c10.taproot-single-no-output", "taproot SIGHASH_SINGLE without matching output accepted", reply=rep)
        c.nontrivial(True)
        c.mix("taproot-single-oob", S_.t, ht)
        c.cls("single-no-output")
        c.note(f"spend {S_.t} hashtype={ht:#x} SINGLE without output: must fail")
        return
    # completeness
    sig = S_.sign(tx, spent, idx, scr)
    rep = run(tx, spent, scr, sig)
    defined = S_.taproot or (ht & ~0x80) in (1, 2, 3)
    if "STRICTENC" in flags and not defined:
        c.expect(not rep["ok"], "c10.strictenc-hashtype", "undefined hashtype accepted under STRICTENC", hashtype=hex(ht), reply=rep)
        c.cls("strictenc-undefined-hashtype")
        flags = CONSENSUS_FLAGS
        rep = run(tx, spent, scr, sig)
    c.expect(rep["ok"], "c10.complete-" + algo, "valid Python-made signature rejected by VerifyScript", template=S_.t, hashtype=hex(ht), idx=idx, nin=nin, nout=nout, reply=rep)
    flags = CONSENSUS_FLAGS                 # mutations are judged under consensus flags only
    # soundness: one mutation
    legacy_bug = algo == "legacy" and single_oob            # digest is the constant 1: commits to nothing but the hashtype byte check
    expect_fail, applicable = None, True
    tx2, spent2, scr2, sig2, annex2 = m.CTransaction(tx), [dict(s) for s in spent], scr, sig, "same"
    other = (idx + 1 + ex["bit"]) % nin if nin > 1 else None
    if other == idx:
        other = (idx + 1) % nin
    if mut == "none":
        applicable = False
    elif mut == "version":
        tx2.version ^= 1 << (ex["bit"] % 32)
    elif mut == "locktime":
        tx2.nLockTime ^= 1 << (ex["bit"] % 32)
    elif mut == "this_prevout":
        if ex["bit"] & 1:
            tx2.vin[idx].prevout.n ^= 1 << (ex["bit"] % 32)
        else:
            tx2.vin[idx].prevout.hash ^= 1 << (ex["bit"] % 256)
    elif mut == "this_sequence":
        tx2.vin[idx].nSequence ^= 1 << (ex["bit"] % 32)
    elif mut in ("other_prevout", "other_sequence", "other_scriptsig", "other_amount", "other_spk"):
        if other is None:
            applicable = False
        elif mut == "other_prevout":
            tx2.vin[other].prevout.hash ^= 1 << (ex["bit"] % 256)
        elif mut == "other_sequence":
            tx2.vin[other].nSequence ^= 1 << (ex["bit"] % 32)
        elif mut == "other_scriptsig":
            tx2.vin[other].scriptSig = tx2.vin[other].scriptSig + b"\x51"
        elif mut == "other_amount":
            spent2[other]["amount"] ^= 1 << (ex["bit"] % 40)
        else:
            spent2[other]["spk"] = spent2[other]["spk"] + b"\x51"
    elif mut == "add_input":
        tx2.vin.append(m.CTxIn(m.COutPoint(ex["bit"] + 7, 1), b"", 5))
        spent2.append({"amount": 1000, "spk": b"\x51"})
    elif mut in ("this_output_value", "this_output_spk"):
        if idx >= nout:
            applicable = False
        elif mut == "this_output_value":
            tx2.vout[idx].nValue ^= 1 << (ex["bit"] % 40)
        else:
            tx2.vout[idx].scriptPubKey = tx2.vout[idx].scriptPubKey + b"\x51"
    elif mut == "other_output_value":
        if nout < 2 and not (nout == 1 and idx != 0):
            applicable = False
        else:
            j = [k for k in range(nout) if k != idx][ex["bit"] % len([k for k in range(nout) if k != idx])]
            tx2.vout[j].nValue ^= 1 << (ex["bit"] % 40)
    elif mut == "add_output":
        tx2.vout.append(m.CTxOut(ex["bit"], b"\x51"))
    elif mut == "amount":
        spent2[idx]["amount"] ^= 1 << (ex["bit"] % 40)
    elif mut == "script":
        # the same key in a script that differs by a trailing OP_NOP: the commitment of the output is rebuilt, only the signed script differs
        if S_.t in ("p2wpkh", "p2sh_p2wpkh", "p2tr_key"):
            applicable = False
        else:
            scr2 = S_.scripts(extra=b"\x61")
            expect_fail = not legacy_bug        # the constant digest 1 does not cover the script either
    elif mut == "annex":
        if not S_.taproot:
            applicable = False
        else:
            annex2 = (S_.annex + b"\x01") if S_.annex is not None else b"\x50"
            expect_fail = True
    elif mut == "codesep_pos":
        if "leaf" not in scr:
            applicable = False
        else:
            sig2 = S_.sign(tx, spent, idx, scr, codesep_pos=(scr["codesep_pos"] + 1) & U32)
            expect_fail = True
    elif mut == "sig_bit":
        body = len(sig) - (0 if (S_.taproot and len(sig) == 64) else 1)
        bit = ex["bit"] % (body * 8)
        sig2 = sig[:bit // 8] + bytes([sig[bit // 8] ^ (1 << (bit % 8))]) + sig[bit // 8 + 1:]
        expect_fail = True
    elif mut == "hashtype_byte":
        if S_.taproot:
            # implicit default -> explicit ALL (0x01), otherwise toggle ANYONECANPAY: always another hash_type byte in the digest
            # explicit 0x00 is invalid in a 65-byte signature (BIP341), explicit 0x01 hashes another byte than the implicit default
            sig2 = sig + bytes([ex["bit"] & 1]) if len(sig) == 64 else sig[:64] + bytes([ht ^ 0x80])
        else:
            sig2 = sig[:-1] + bytes([ht ^ (1 << (ex["bit"] % 8))])
        expect_fail = True
        if legacy_bug and (sig2[-1] & 0x1f) == 3:
            expect_fail = False             # still SINGLE without output: the digest stays the constant 1
    elif mut == "key":
        if S_.d2 in (S_.d, N - S_.d):           # d and n-d are the same x-only key (and d == d2 is no mutation at all)
            applicable = False
        else:
            scr2 = S_.scripts(key=S_.d2 if "leaf" not in scr else S_.d)
            if S_.t == "p2tr_key":
                # different output key: commitment to another internal key
                S2 = Spend(dict(ex, key=ex["key2"]))
                scr2 = S2.scripts()
                if scr2["spk"] == scr["spk"]:
                    applicable = False
            expect_fail = True
    elif mut == "high_s":
        if S_.taproot:
            applicable = False
        else:
            sig2 = S_.sign(tx, spent, idx, scr, high_s=True)
            expect_fail = False              # consensus accepts the high-S twin (no LOW_S flag)
    if applicable and expect_fail is None:
        nout2 = len(tx2.vout)
        bug_after = algo == "legacy" and base_type(algo, ht) == "single" and idx >= nout2
        if legacy_bug or bug_after:
            expect_fail = legacy_bug != bug_after
        else:
            expect_fail = committed(algo, ht, mut, idx, nout)
    if applicable:
        rep2 = run(tx2, spent2, scr2, sig2, annex2)
        if expect_fail:
            c.expect(not rep2["ok"], "c10.sound-" + algo, f"signature still accepted after changing committed data ({mut})", template=S_.t, hashtype=hex(ht), idx=idx, nin=nin, nout=nout)
        else:
            c.expect(rep2["ok"], "c10.uncommitted-" + algo, f"signature rejected after changing data the sighash type does not commit to ({mut})", template=S_.t,
                     hashtype=hex(ht), idx=idx, nin=nin, nout=nout, reply=rep2)
        c.cls("mut:" + mut)
        c.cls("mutation-must-fail" if expect_fail else "mutation-must-pass")
    default_ht = 0 if S_.taproot else 1
    c.nontrivial(ht != default_ht or (applicable and bool(expect_fail)))
    c.mix(S_.t, ht, mut if applicable else "none", expect_fail, nin, nout, idx, legacy_bug)
    c.cls("tpl:" + S_.t)
    c.cls("algo:" + algo)
    if legacy_bug:
        c.cls("legacy-single-bug")
    if ht & 0x80:
        c.cls("anyonecanpay")
    c.note(f"spend {S_.t} ({algo}) hashtype={ht:#x} idx={idx}/{nin} outs={nout} mutation={mut if applicable else 'n/a'} -> {'must fail' if expect_fail else 'must pass' if applicable else '-'}")


check = e2.dispatch({"digest_ecdsa": c_digest_ecdsa, "digest_taproot": c_digest_taproot, "spend": c_spend})

if __name__ == "__main__":
    e2.main(__file__, strategy=cases(), check=check)
