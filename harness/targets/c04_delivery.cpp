// C04 — history target: malleated variants with the genuine header delivered before (and after) the genuine block.
// Oracles:
//   c04.variant-verdict : a variant delivered before the genuine block is refused with BLOCK_MUTATED (ProcessNewBlock false + BlockChecked verdict)
//   c04.not-blamed      : after every variant delivery the block index entry of hash(B) (if any) carries no BLOCK_FAILED_* flag and no block data,
//                         and the tip is unchanged
//   c04.genuine-accepted: the genuine block B (valid by construction: RefLedger replay, extends the tip => unique most work) is afterwards
//                         processed, reported valid and becomes the tip; later re-deliveries of variants change nothing
#include <engine/verif.h>
#include <kits/chainsim.h>

#include <chain.h>
#include <consensus/validation.h>
#include <node/blockstorage.h>
#include <primitives/block.h>
#include <test/util/script.h>
#include <validation.h>

#include <memory>
#include <string>
#include <vector>

using namespace verif;

namespace {
void init_delivery() {}

struct Variant { std::string name; std::shared_ptr<CBlock> blk; bool witness_level; };

bool has_witness(const CTransaction& tx) { for (auto& in : tx.vin) if (!in.scriptWitness.stack.empty()) return true; return false; }

struct IdxInfo { bool exists{false}; uint32_t status{0}; unsigned ntx{0}; };
IdxInfo index_of(ChainSim& sim, const uint256& h)
{
    LOCK(cs_main);
    IdxInfo i;
    const CBlockIndex* p = sim.chainman().m_blockman.LookupBlockIndex(h);
    if (p) { i.exists = true; i.status = p->nStatus; i.ntx = p->nTx; }
    return i;
}
} // namespace

VERIF_TARGET(c04_mutated_delivery, init_delivery, 24, 160,
             "regtest node over a 104-block base; 1-3 rounds: a valid block B with 0-7 transactions (fan-out of a mature coinbase + spends of its outputs, "
             "all with witnesses; or an empty block without witness commitment) is built on the tip; 1-3 malleated variants with B's header (duplicated tail "
             "at an odd level, witness stripped, witness byte changed, witness item added, coinbase witness nonce resized / removed / second item, witness added "
             "to an uncommitted block, transaction dropped / replaced) are delivered through ProcessNewBlock BEFORE B (optionally after announcing B's header, "
             "forced or unsolicited), then B, then optionally the variants again. non-trivial = at least one variant was delivered before its genuine block and "
             "one of them passed CheckBlock (witness-level malleation reaching AcceptBlock); distinct = (variant kinds in order, header pre-announced, tx count)")
{
    ChainSimOpts o;
    auto simp = std::make_unique<ChainSim>(o);
    ChainSim& sim = *simp;
    sim.LoadBase(104);
    unsigned rounds = s.range<unsigned>(1, 3);
    unsigned witness_level_before = 0, variants_before = 0;
    for (unsigned round = 0; round < rounds; ++round) {
        const uint256 tip = sim.TipHash();
        const int height = sim.TipHeight() + 1;
        bool segwit_block = !s.chance(40);
        unsigned ntx = segwit_block ? s.range<unsigned>(0, 7) : 0;
        bool announce_header = s.chance(96);
        unsigned nvar = s.range<unsigned>(1, 3);
        bool redeliver_after = s.chance(128);
        // --- transactions: fan-out of the oldest mature coinbase, then spends of its outputs
        std::vector<CTransactionRef> txs;
        if (ntx > 0) {
            RefReplay r = sim.ledger.Replay(tip);
            VCHECK(r.ok, "c04.gen-selftest", "model rejects the active chain", r.why);
            std::pair<COutPoint, RefCoin> coin;
            bool found = false;
            for (auto& [op, c] : r.utxo) {
                if (!c.coinbase || height - c.height < 100 || !(c.spk == P2WSH_OP_TRUE)) continue;
                if (!found || c.height < coin.second.height) { coin = {op, c}; found = true; }
            }
            if (found) {
                unsigned fan = ntx - 1;
                std::vector<CTxOut> outs;
                CAmount each = coin.second.value / (fan + 1);
                for (unsigned k = 0; k < fan + 1; ++k) outs.emplace_back(each, P2WSH_OP_TRUE);
                CTransactionRef t1 = MakeTransactionRef(sim.MakeTx({coin}, outs));
                txs.push_back(t1);
                for (unsigned k = 0; k < fan; ++k) {
                    RefCoin c{each, P2WSH_OP_TRUE, height, false};
                    std::vector<CTxOut> o2{CTxOut(each - 1000, P2WSH_OP_TRUE)};
                    txs.push_back(MakeTransactionRef(sim.MakeTx({{COutPoint(t1->GetHash(), k), c}}, o2)));
                }
            }
        }
        BlockSpec spec;
        spec.prev = tip;
        spec.txs = txs;
        spec.commit_witness = segwit_block;
        spec.extra_nonce = round;
        std::shared_ptr<CBlock> B = sim.Build(spec);
        const uint256 hb = B->GetHash();
        {
            RefReplay rb = sim.ledger.Replay(hb);
            VCHECK(rb.ok, "c04.gen-selftest", "model rejects the generated genuine block", rb.why);
        }
        // --- variants (copies of B made before B is ever checked; header untouched)
        std::vector<Variant> vars;
        std::string kinds;
        for (unsigned k = 0; k < nvar; ++k) {
            auto v = std::make_shared<CBlock>(*B);
            v->fChecked = false; v->m_checked_merkle_root = false; v->m_checked_witness_commitment = false;
            unsigned kind = s.range<unsigned>(0, 8);
            uint32_t sel = s.ConsumeIntegral<uint16_t>();
            std::string name;
            bool witness_level = false;
            auto with_tx = [&](size_t idx, auto&& edit) { CMutableTransaction m(*v->vtx[idx]); edit(m); v->vtx[idx] = MakeTransactionRef(m); };
            std::vector<size_t> wtx;
            for (size_t i = 1; i < v->vtx.size(); ++i) if (has_witness(*v->vtx[i])) wtx.push_back(i);
            switch (kind) {
            case 0: case 1: { // duplicated tail at the lowest / a chosen odd level
                std::vector<unsigned> odd;
                { size_t w = v->vtx.size(); for (unsigned L = 0; w > 1; ++L, w = (w + 1) / 2) if (w & 1) odd.push_back(L); }
                if (!odd.empty()) {
                    unsigned L = odd[sel % odd.size()];
                    for (unsigned l = 0; l <= L; ++l) {
                        size_t block = size_t{1} << l, w = v->vtx.size() / block;
                        if (w > 1 && (w & 1)) { std::vector<CTransactionRef> tail(v->vtx.end() - block, v->vtx.end()); v->vtx.insert(v->vtx.end(), tail.begin(), tail.end()); }
                    }
                    name = "dup-tail-L" + std::to_string(L);
                }
                break;
            }
            case 2: if (!wtx.empty()) { with_tx(wtx[sel % wtx.size()], [](CMutableTransaction& m) { m.vin[0].scriptWitness.stack.clear(); }); name = "witness-stripped"; witness_level = true; } break;
            case 3: if (!wtx.empty()) { with_tx(wtx[sel % wtx.size()], [](CMutableTransaction& m) { auto& w0 = m.vin[0].scriptWitness.stack[0]; if (w0.empty()) w0.push_back(1); else w0[0] ^= 0x01; }); name = "witness-byte-changed"; witness_level = true; } break;
            case 4: if (!wtx.empty()) { with_tx(wtx[sel % wtx.size()], [](CMutableTransaction& m) { m.vin[0].scriptWitness.stack.emplace_back(1, 0x01); }); name = "witness-item-added"; witness_level = true; } break;
            case 5: { // coinbase witness
                if (segwit_block) {
                    unsigned m5 = sel % 5;
                    with_tx(0, [&](CMutableTransaction& m) {
                        auto& st0 = m.vin[0].scriptWitness.stack;
                        if (st0.empty()) return;
                        if (m5 == 0) st0[0].resize(31); else if (m5 == 1) st0[0].resize(33); else if (m5 == 2) st0.emplace_back(32, 0x00); else if (m5 == 3) st0.clear(); else st0[0][31] ^= 0x80;
                    });
                    name = "coinbase-nonce-" + std::to_string(m5);
                } else {
                    with_tx(0, [](CMutableTransaction& m) { m.vin[0].scriptWitness.stack.emplace_back(32, 0x00); });
                    name = "witness-on-uncommitted-block";
                }
                witness_level = true;
                break;
            }
            case 6: if (v->vtx.size() >= 2) { v->vtx.pop_back(); name = "tx-dropped"; } break;
            case 7: if (v->vtx.size() >= 3) { std::swap(v->vtx[1], v->vtx[2]); name = "tx-swapped"; } break;
            default: if (v->vtx.size() >= 2) { v->vtx.insert(v->vtx.begin() + 1 + sel % (v->vtx.size() - 1), v->vtx.back()); name = "tx-repeated"; } break;
            }
            if (name.empty()) { // fallback that applies to every block: coinbase witness tampering
                with_tx(0, [&](CMutableTransaction& m) { auto& st0 = m.vin[0].scriptWitness.stack; if (st0.empty()) st0.emplace_back(32, 0x00); else st0[0][0] ^= 0x01; });
                name = segwit_block ? "coinbase-nonce-4" : "witness-on-uncommitted-block";
                witness_level = true;
            }
            VCHECK(v->GetHash() == hb, "c04.gen-selftest", "variant changed the header");
            vars.push_back({name, v, witness_level});
            kinds += name + ",";
        }
        st.note("round ", round, ": height=", height, " ntx=", B->vtx.size(), " segwit=", segwit_block, " announce=", announce_header, " variants=[", kinds, "] redeliver=", redeliver_after);
        // --- deliveries
        if (announce_header) {
            BlockValidationState hs;
            std::vector<CBlockHeader> hv; hv.push_back(static_cast<const CBlockHeader&>(*B));
            bool ok = sim.chainman().ProcessNewBlockHeaders(hv, /*min_pow_checked=*/true, hs);
            VCHECK(ok, "c04.gen-selftest", "genuine header refused", StateStr(hs));
            st.cls("header-announced-first");
        }
        auto check_not_blamed = [&](const char* when, const std::string& vname) {
            IdxInfo i = index_of(sim, hb);
            st.steps++;
            VCHECK(!(i.status & (BLOCK_FAILED_VALID | BLOCK_FAILED_CHILD)), "c04.not-blamed", when, "variant", vname, "block index of the genuine hash marked failed, status", i.status);
            return i;
        };
        for (auto& var : vars) {
            bool force = s.boolean();
            auto d = sim.Deliver(var.blk, force, /*min_pow_checked=*/true);
            st.steps++;
            VCHECK(!d.processed, "c04.variant-verdict", "variant accepted by ProcessNewBlock:", var.name);
            VCHECK(d.verdict.has_value() && d.verdict->GetResult() == BlockValidationResult::BLOCK_MUTATED, "c04.variant-verdict", "variant", var.name, "verdict",
                   d.verdict ? StateStr(*d.verdict) : std::string("none"));
            IdxInfo i = check_not_blamed("before genuine", var.name);
            VCHECK(!(i.status & BLOCK_HAVE_DATA) && i.ntx == 0, "c04.not-blamed", "variant data stored under the genuine hash", var.name, i.status);
            VCHECK(sim.TipHash() == tip, "c04.not-blamed", "tip moved after a mutated delivery", var.name);
            variants_before++;
            if (var.witness_level) witness_level_before++;
            st.cls("variant:" + (var.name.rfind("dup-tail", 0) == 0 ? std::string("dup-tail") : var.name.rfind("coinbase-nonce", 0) == 0 ? std::string("coinbase-nonce") : var.name));
            st.cls(var.witness_level ? "witness-level-variant" : "merkle-level-variant");
            if (i.exists && !announce_header) st.cls("index-entry-created-by-variant");
        }
        {
            auto d = sim.Deliver(B, s.boolean(), true);
            st.steps++;
            VCHECK(d.processed, "c04.genuine-accepted", "genuine block refused after mutated deliveries", d.verdict ? StateStr(*d.verdict) : std::string("no verdict"), "variants", kinds);
            VCHECK(d.verdict.has_value() && d.verdict->IsValid(), "c04.genuine-accepted", "genuine block verdict", d.verdict ? StateStr(*d.verdict) : std::string("none"), "variants", kinds);
            VCHECK(sim.TipHash() == hb, "c04.genuine-accepted", "genuine block (most work) is not the tip; variants", kinds);
            IdxInfo i = check_not_blamed("after genuine", "-");
            VCHECK(i.exists && (i.status & BLOCK_HAVE_DATA) && i.ntx == B->vtx.size(), "c04.genuine-accepted", "index entry after acceptance: status", i.status, "ntx", i.ntx);
        }
        if (redeliver_after) {
            for (auto& var : vars) {
                auto v2 = std::make_shared<CBlock>(*var.blk);
                v2->fChecked = false; v2->m_checked_merkle_root = false; v2->m_checked_witness_commitment = false;
                sim.Deliver(v2, s.boolean(), true);
                st.steps++;
                IdxInfo i = check_not_blamed("after genuine, variant re-delivered", var.name);
                VCHECK(sim.TipHash() == hb && i.ntx == B->vtx.size(), "c04.not-blamed", "re-delivered variant disturbed the accepted block", var.name);
            }
            st.cls("variants-redelivered-after");
        }
        st.mix(kinds); st.mix(uint64_t(announce_header)); st.mix(uint64_t(B->vtx.size())); st.mix(uint64_t(redeliver_after)); st.mix(uint64_t(segwit_block));
        st.cls(segwit_block ? "segwit-block" : "uncommitted-block");
    }
    std::string diff = sim.CompareUtxoWithModel();
    VCHECK(diff.empty(), "c04.genuine-accepted", "UTXO set differs from the model after the history", diff);
    st.nontrivial = variants_before >= 1 && witness_level_before >= 1;
    st.mix(uint64_t(rounds));
}
