#include <kits/consensus_ref.h>

#include <algorithm>

namespace verif::cref {

// ------------------------------------------------------------------ script scanning / sigops

bool ParseOp(const Bytes& s, size_t& pc, RefOp& op)
{
    op.data.clear();
    if (pc >= s.size()) return false;
    op.code = s[pc++];
    uint64_t len = 0;
    if (op.code <= 0x4b) {
        len = op.code;
    } else if (op.code == 0x4c) {
        if (s.size() - pc < 1) return false;
        len = s[pc];
        pc += 1;
    } else if (op.code == 0x4d) {
        if (s.size() - pc < 2) return false;
        len = uint64_t(s[pc]) | (uint64_t(s[pc + 1]) << 8);
        pc += 2;
    } else if (op.code == 0x4e) {
        if (s.size() - pc < 4) return false;
        len = uint64_t(s[pc]) | (uint64_t(s[pc + 1]) << 8) | (uint64_t(s[pc + 2]) << 16) | (uint64_t(s[pc + 3]) << 24);
        pc += 4;
    } else {
        return true; // non-push opcode
    }
    if (s.size() - pc < len) return false;
    op.data.assign(s.begin() + pc, s.begin() + pc + len);
    pc += len;
    return true;
}

unsigned RefSigOps(const Bytes& s, bool accurate)
{
    unsigned n = 0;
    size_t pc = 0;
    unsigned char last = 0xff;
    RefOp op;
    while (pc < s.size()) {
        if (!ParseOp(s, pc, op)) break;
        if (op.code == 0xac || op.code == 0xad) {
            n += 1;
        } else if (op.code == 0xae || op.code == 0xaf) {
            if (accurate && last >= 0x51 && last <= 0x60) n += unsigned(last - 0x50);
            else n += 20;
        }
        last = op.code;
    }
    return n;
}

bool RefIsP2SH(const Bytes& spk)
{
    return spk.size() == 23 && spk[0] == 0xa9 && spk[1] == 0x14 && spk[22] == 0x87;
}

bool RefIsWitnessProgram(const Bytes& spk, int& version, Bytes& program)
{
    if (spk.size() < 4 || spk.size() > 42) return false;
    if (spk[0] != 0x00 && (spk[0] < 0x51 || spk[0] > 0x60)) return false;
    if (size_t(spk[1]) + 2 != spk.size()) return false;
    version = spk[0] == 0 ? 0 : int(spk[0]) - 0x50;
    program.assign(spk.begin() + 2, spk.end());
    return true;
}

bool RefPushOnly(const Bytes& ss, Bytes& last)
{
    last.clear();
    size_t pc = 0;
    RefOp op;
    while (pc < ss.size()) {
        if (!ParseOp(ss, pc, op)) return false;
        if (op.code > 0x60) return false;
        last = op.data;
    }
    return true;
}

unsigned RefP2SHSigOps(const Bytes& spk, const Bytes& ss)
{
    if (!RefIsP2SH(spk)) return 0;
    Bytes redeem;
    if (!RefPushOnly(ss, redeem)) return 0;
    return RefSigOps(redeem, true);
}

static unsigned WitnessProgramSigOps(int version, const Bytes& program, const std::vector<Bytes>& witness)
{
    if (version != 0) return 0;
    if (program.size() == 20) return 1;
    if (program.size() == 32 && !witness.empty()) return RefSigOps(witness.back(), true);
    return 0;
}

unsigned RefWitnessSigOps(const Bytes& spk, const Bytes& ss, const std::vector<Bytes>& witness)
{
    int version = 0;
    Bytes program;
    if (RefIsWitnessProgram(spk, version, program)) return WitnessProgramSigOps(version, program, witness);
    if (RefIsP2SH(spk)) {
        Bytes redeem;
        if (RefPushOnly(ss, redeem) && RefIsWitnessProgram(redeem, version, program)) return WitnessProgramSigOps(version, program, witness);
    }
    return 0;
}

static bool RefIsCoinbase(const CTransaction& tx)
{
    if (tx.vin.size() != 1) return false;
    const COutPoint& p = tx.vin[0].prevout;
    const uint256& h = p.hash.ToUint256();
    for (const unsigned char* c = h.begin(); c != h.end(); ++c) if (*c) return false;
    return p.n == 0xffffffffu;
}

int64_t RefTxSigOpCost(const CTransaction& tx, const std::vector<Bytes>& spent)
{
    int64_t legacy = 0;
    for (const auto& in : tx.vin) legacy += RefSigOps(ToBytes(in.scriptSig), false);
    for (const auto& out : tx.vout) legacy += RefSigOps(ToBytes(out.scriptPubKey), false);
    int64_t cost = 4 * legacy;
    if (RefIsCoinbase(tx)) return cost;
    for (size_t i = 0; i < tx.vin.size(); ++i) {
        const Bytes ss = ToBytes(tx.vin[i].scriptSig);
        cost += 4 * int64_t(RefP2SHSigOps(spent.at(i), ss));
        std::vector<Bytes> wit;
        for (const auto& item : tx.vin[i].scriptWitness.stack) wit.emplace_back(item.begin(), item.end());
        cost += int64_t(RefWitnessSigOps(spent.at(i), ss, wit));
    }
    return cost;
}

// ------------------------------------------------------------------ sizes / weight

size_t RefCompactSizeLen(uint64_t n) { return n < 253 ? 1 : n <= 0xffff ? 3 : n <= 0xffffffffULL ? 5 : 9; }

size_t RefTxStrippedSize(const CTransaction& tx)
{
    size_t s = 4 /*version*/ + RefCompactSizeLen(tx.vin.size()) + RefCompactSizeLen(tx.vout.size()) + 4 /*locktime*/;
    for (const auto& in : tx.vin) s += 32 + 4 + RefCompactSizeLen(in.scriptSig.size()) + in.scriptSig.size() + 4;
    for (const auto& out : tx.vout) s += 8 + RefCompactSizeLen(out.scriptPubKey.size()) + out.scriptPubKey.size();
    return s;
}

bool RefTxHasWitness(const CTransaction& tx)
{
    for (const auto& in : tx.vin) if (!in.scriptWitness.stack.empty()) return true;
    return false;
}

size_t RefTxTotalSize(const CTransaction& tx)
{
    size_t s = RefTxStrippedSize(tx);
    if (!RefTxHasWitness(tx)) return s;
    s += 2; // marker + flag
    for (const auto& in : tx.vin) {
        s += RefCompactSizeLen(in.scriptWitness.stack.size());
        for (const auto& item : in.scriptWitness.stack) s += RefCompactSizeLen(item.size()) + item.size();
    }
    return s;
}

int64_t RefTxWeight(const CTransaction& tx) { return int64_t(RefTxStrippedSize(tx)) * 3 + int64_t(RefTxTotalSize(tx)); }

size_t RefBlockStrippedSize(const CBlock& b)
{
    size_t s = 80 + RefCompactSizeLen(b.vtx.size());
    for (const auto& tx : b.vtx) s += RefTxStrippedSize(*tx);
    return s;
}

int64_t RefBlockWeight(const CBlock& b)
{
    size_t total = 80 + RefCompactSizeLen(b.vtx.size());
    for (const auto& tx : b.vtx) total += RefTxTotalSize(*tx);
    return int64_t(RefBlockStrippedSize(b)) * 3 + int64_t(total);
}

// ------------------------------------------------------------------ timelocks

bool RefIsFinal(const CTransaction& tx, int block_height, int64_t time_cutoff)
{
    const int64_t lt = int64_t(tx.nLockTime);
    if (lt == 0) return true;
    const int64_t limit = lt < REF_LOCKTIME_THRESHOLD ? int64_t(block_height) : time_cutoff;
    if (lt < limit) return true;
    for (const auto& in : tx.vin) if (in.nSequence != REF_SEQ_FINAL) return false;
    return true;
}

RefLockVerdict RefTimelocks(const RefLedger& L, const uint256& prev, int64_t block_time, const CTransaction& tx,
                            const std::vector<RefCoin>& spent, bool csv_active)
{
    RefLockVerdict v;
    const int height = L.At(prev).height + 1;
    const int64_t mtp_prev = L.MedianTimePast(prev);
    const int64_t cutoff = csv_active ? mtp_prev : block_time;
    v.absolute_ok = RefIsFinal(tx, height, cutoff);
    {
        bool all_final = true;
        for (const auto& in : tx.vin) if (in.nSequence != REF_SEQ_FINAL) all_final = false;
        const int64_t lt = int64_t(tx.nLockTime);
        if (lt != 0 && !all_final) {
            const int64_t limit = lt < REF_LOCKTIME_THRESHOLD ? int64_t(height) : cutoff;
            if (lt - limit >= -1 && lt - limit <= 0) v.near_boundary = true; // lt == limit-1 passes, lt == limit fails
        }
    }
    for (size_t i = 0; i < tx.vin.size(); ++i) {
        const RefCoin& c = spent.at(i);
        if (c.coinbase) {
            const int conf = height - c.height;
            if (conf < REF_COINBASE_MATURITY) v.maturity_ok = false;
            if (conf == REF_COINBASE_MATURITY || conf == REF_COINBASE_MATURITY - 1) v.near_boundary = true;
        }
    }
    if (csv_active && tx.version >= 2) {
        for (size_t i = 0; i < tx.vin.size(); ++i) {
            const uint32_t seq = tx.vin[i].nSequence;
            if (seq & REF_SEQ_DISABLE) continue;
            const RefCoin& c = spent.at(i);
            const int64_t units = int64_t(seq & REF_SEQ_MASK);
            if (seq & REF_SEQ_TYPE_TIME) {
                // measured from the median-time-past of the block before the one that confirmed the coin
                const uint256 before = L.AncestorAt(prev, std::max(c.height - 1, 0));
                const int64_t start = L.MedianTimePast(before);
                const int64_t slack = mtp_prev - (start + 512 * units); // >= 0 <=> satisfied
                if (slack < 0) v.relative_ok = false;
                if (slack >= -512 && slack < 512) v.near_boundary = true;
            } else {
                const int64_t slack = int64_t(height) - (int64_t(c.height) + units); // >= 0 <=> satisfied
                if (slack < 0) v.relative_ok = false;
                if (slack == 0 || slack == -1) v.near_boundary = true;
            }
        }
    }
    return v;
}

// ------------------------------------------------------------------ fault delivery

CBlock CloneBlock(const CBlock& b)
{
    CBlock c = b;
    c.fChecked = false;
    c.m_checked_witness_commitment = false;
    c.m_checked_merkle_root = false;
    return c;
}

FaultOutcome DeliverFault(ChainSim& sim, CBlock& b, bool commit_witness, bool finalize, bool with_utxo_hash)
{
    FaultOutcome o;
    o.tip_before = sim.TipHash();
    if (with_utxo_hash) o.utxo_before = sim.UtxoHash();
    b.fChecked = false;
    b.m_checked_witness_commitment = false;
    b.m_checked_merkle_root = false;
    if (finalize) sim.Finalize(b, commit_witness, true);
    auto p = std::make_shared<const CBlock>(CloneBlock(b));
    o.hash = p->GetHash();
    sim.Register(p);
    ChainSim::Delivery d = sim.Deliver(p);
    o.processed = d.processed;
    if (d.verdict) {
        o.have_verdict = true;
        o.rejected = !d.verdict->IsValid();
        o.reason = d.verdict->GetRejectReason();
        o.debug = d.verdict->GetDebugMessage();
    }
    o.tip_after = sim.TipHash();
    if (with_utxo_hash) o.utxo_after = sim.UtxoHash();
    o.became_tip = o.tip_after == o.hash;
    return o;
}

const RefReplay& ReplayCache::Get(const uint256& tip)
{
    auto it = m_cache.find(tip);
    if (it != m_cache.end()) return it->second;
    if (m_cache.size() > 400) m_cache.clear(); // callers must not hold a reference across more than a few hundred Get() calls
    return m_cache.emplace(tip, m_l.Replay(tip)).first->second;
}

bool NodeHaveCoin(ChainSim& sim, const COutPoint& op)
{
    LOCK(cs_main);
    return sim.chainstate().CoinsTip().HaveCoin(op);
}

} // namespace verif::cref

// ------------------------------------------------------------------ valid-transaction generator
namespace verif::cref {

TxGen::TxGen(ChainSim& sim) : m_sim(sim)
{
    m_spendable.insert(sim.keys.Script(SpkType::ANYONE_P2WSH));
    m_spendable.insert(sim.keys.Script(SpkType::BARE_TRUE));
    for (size_t k = 0; k < sim.keys.keys.size(); ++k) {
        for (SpkType t : {SpkType::P2WPKH, SpkType::P2PKH, SpkType::P2SH_P2WPKH, SpkType::P2TR, SpkType::P2PK}) m_spendable.insert(sim.keys.Script(t, k));
    }
}

CScript TxGen::RandomOutScript(Src& s, bool allow_op_return)
{
    unsigned k = s.range<unsigned>(0, allow_op_return ? 9 : 8);
    size_t key = s.index(m_sim.keys.keys.size());
    switch (k) {
    case 0: case 1: case 2: return m_sim.keys.Script(SpkType::ANYONE_P2WSH);
    case 3: return m_sim.keys.Script(SpkType::P2WPKH, key);
    case 4: return m_sim.keys.Script(SpkType::P2PKH, key);
    case 5: return m_sim.keys.Script(SpkType::P2TR, key);
    case 6: return m_sim.keys.Script(SpkType::P2SH_P2WPKH, key);
    case 7: return m_sim.keys.Script(SpkType::BARE_TRUE);
    case 8: return m_sim.keys.Script(SpkType::P2PK, key);
    default: return m_sim.keys.Script(SpkType::OP_RETURN);
    }
}

void TxGen::Apply(RefUtxo& u, const CTransaction& tx, int height)
{
    for (const auto& in : tx.vin) u.erase(in.prevout);
    for (uint32_t k = 0; k < tx.vout.size(); ++k) {
        const CScript& spk = tx.vout[k].scriptPubKey;
        if ((spk.size() > 0 && spk[0] == 0x6a) || spk.size() > 10000) continue; // provably unspendable: never enters the UTXO set
        u[COutPoint(tx.GetHash(), k)] = RefCoin{tx.vout[k].nValue, spk, height, false};
    }
}

CTransactionRef TxGen::Remake(const Made& m, const std::vector<CTxOut>& outs, uint32_t locktime, uint32_t sequence, uint32_t version)
{
    CMutableTransaction tx;
    tx.version = version;
    tx.nLockTime = locktime;
    std::map<COutPoint, RefCoin> spent;
    for (auto& [op, c] : m.ins) {
        tx.vin.emplace_back(op, CScript(), sequence);
        spent[op] = c;
    }
    tx.vout = outs;
    bool ok = m_sim.keys.Sign(tx, spent);
    assert(ok && "harness could not sign a transaction over harness-owned coins");
    return MakeTransactionRef(tx);
}

std::optional<TxGen::Made> TxGen::Make(Src& s, RefUtxo& u, int height, int fee_mode, unsigned max_in, uint32_t locktime, uint32_t sequence, uint32_t version)
{
    std::vector<std::pair<COutPoint, RefCoin>> spendable;
    for (auto& [op, c] : u) {
        if (c.coinbase && height - c.height < REF_COINBASE_MATURITY) continue;
        if (Spendable(c.spk)) spendable.emplace_back(op, c);
    }
    if (spendable.empty()) return std::nullopt;
    Made m;
    unsigned nin = s.range<unsigned>(1, std::max(1u, max_in));
    for (unsigned k = 0; k < nin && !spendable.empty(); ++k) {
        size_t j = spendable.size() - 1 - s.index(spendable.size());
        m.ins.push_back(spendable[j]);
        m.in += spendable[j].second.value;
        if (spendable[j].second.coinbase) m.spends_coinbase = true;
        if (spendable[j].second.height == height) m.spends_same_block = true;
        spendable.erase(spendable.begin() + j);
    }
    CAmount fee = 0;
    if (fee_mode == 1) fee = s.boolean() ? s.range<CAmount>(0, m.in / 10) : 0;
    else if (fee_mode == 2) fee = m.in;
    else if (fee_mode == 3) fee = m.in > 0 ? s.range<CAmount>(1, std::max<CAmount>(1, m.in / 10)) : 0;
    CAmount rest = m.in - fee;
    if (fee_mode == 2) {
        m.outs.emplace_back(0, m_sim.keys.Script(SpkType::OP_RETURN));
    } else {
        unsigned nout = s.range<unsigned>(1, 3);
        for (unsigned k = 0; k < nout; ++k) {
            CAmount v = (k + 1 == nout) ? rest : s.range<CAmount>(0, rest);
            rest -= v;
            // burns (value on OP_RETURN) are allowed but the last output is kept spendable so that coins do not run out quickly
            m.outs.emplace_back(v, RandomOutScript(s, /*allow_op_return=*/k + 1 != nout));
        }
    }
    for (auto& o : m.outs) m.out += o.nValue;
    m.tx = Remake(m, m.outs, locktime, sequence, version);
    Apply(u, *m.tx, height);
    return m;
}

} // namespace verif::cref
