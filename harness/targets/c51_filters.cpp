// C51 — Probabilistic filters never produce false negatives.
// Oracles:
//   c51.gcs-match / c51.gcs-encoding : every element of the set matches (Match, MatchAny, also after re-parsing the bytes); the encoded filter equals
//                                      an own BIP158 encoder (own SipHash-2-4, (hash*F)>>64, sort, Golomb-Rice, MSB-first bit packing)
//   c51.blockfilter                  : BlockFilter(BASIC) bytes == own encoder over the BIP158 element rule; every output / spent script matches
//   c51.bloom-contains / c51.bloom-ref: every inserted key / outpoint is contained; the filter bytes equal an own BIP37 model (own MurmurHash3) and
//                                      contains() == model; transactions touching inserted data are relevant
//   c51.rolling-recent               : a rolling bloom filter of capacity N contains each of the last N inserted keys
//   c51.pmt-extract / c51.pmt-encoding / c51.pmt-roundtrip / c51.pmt-mutation: ExtractMatches returns exactly the matched txids, their positions and
//                                      the true merkle root (own SHA256d tree); serialization == own BIP37 encoder; re-parsed tree extracts the same;
//                                      corrupted bytes never yield the true root together with a (position, txid) pair that is not in the block
#include <engine/verif.h>

#include <blockfilter.h>
#include <common/bloom.h>
#include <crypto/sha256.h>
#include <merkleblock.h>
#include <primitives/block.h>
#include <primitives/transaction.h>
#include <script/script.h>
#include <streams.h>
#include <test/util/random.h>
#include <uint256.h>
#include <undo.h>

#include <algorithm>
#include <deque>
#include <set>
#include <string>
#include <vector>

namespace {
using Bytes = std::vector<uint8_t>;

uint64_t mix64(uint64_t x) { x += 0x9e3779b97f4a7c15ULL; x = (x ^ (x >> 30)) * 0xbf58476d1ce4e5b9ULL; x = (x ^ (x >> 27)) * 0x94d049bb133111ebULL; return x ^ (x >> 31); }
Bytes key_from(uint64_t seed, uint64_t i, size_t len)
{
    Bytes b(len);
    uint64_t x = mix64(seed ^ (i * 0xd1342543de82ef95ULL));
    for (size_t k = 0; k < len; ++k) { if ((k & 7) == 0) x = mix64(x + k); b[k] = uint8_t(x >> (8 * (k & 7))); }
    return b;
}

// ---- own SipHash-2-4 (Aumasson/Bernstein reference description) ------------------------------------------------
uint64_t rotl64(uint64_t x, int b) { return (x << b) | (x >> (64 - b)); }
uint64_t ref_siphash24(uint64_t k0, uint64_t k1, const uint8_t* m, size_t len)
{
    uint64_t v0 = k0 ^ 0x736f6d6570736575ULL, v1 = k1 ^ 0x646f72616e646f6dULL, v2 = k0 ^ 0x6c7967656e657261ULL, v3 = k1 ^ 0x7465646279746573ULL;
    auto round = [&] {
        v0 += v1; v1 = rotl64(v1, 13); v1 ^= v0; v0 = rotl64(v0, 32);
        v2 += v3; v3 = rotl64(v3, 16); v3 ^= v2;
        v0 += v3; v3 = rotl64(v3, 21); v3 ^= v0;
        v2 += v1; v1 = rotl64(v1, 17); v1 ^= v2; v2 = rotl64(v2, 32);
    };
    size_t full = len / 8;
    for (size_t i = 0; i < full; ++i) {
        uint64_t w = 0;
        for (int b = 0; b < 8; ++b) w |= uint64_t(m[8 * i + b]) << (8 * b);
        v3 ^= w; round(); round(); v0 ^= w;
    }
    uint64_t last = uint64_t(len & 0xff) << 56;
    for (size_t b = 0; b < (len & 7); ++b) last |= uint64_t(m[8 * full + b]) << (8 * b);
    v3 ^= last; round(); round(); v0 ^= last;
    v2 ^= 0xff;
    round(); round(); round(); round();
    return v0 ^ v1 ^ v2 ^ v3;
}

// ---- own Golomb-Rice coded set (BIP158) -------------------------------------------------------------------------
struct BitWriter {
    Bytes out; int nbits{0}; // bits used in the last byte
    void bit(bool b) { if (nbits == 0) out.push_back(0); if (b) out.back() |= uint8_t(0x80 >> nbits); nbits = (nbits + 1) & 7; }
    void bits(uint64_t v, int n) { for (int i = n - 1; i >= 0; --i) bit((v >> i) & 1); }
};
void ref_compactsize(Bytes& out, uint64_t n)
{
    if (n < 253) out.push_back(uint8_t(n));
    else if (n <= 0xffff) { out.push_back(253); out.push_back(uint8_t(n)); out.push_back(uint8_t(n >> 8)); }
    else if (n <= 0xffffffffULL) { out.push_back(254); for (int i = 0; i < 4; ++i) out.push_back(uint8_t(n >> (8 * i))); }
    else { out.push_back(255); for (int i = 0; i < 8; ++i) out.push_back(uint8_t(n >> (8 * i))); }
}
std::vector<uint64_t> ref_hashed_set(const std::set<Bytes>& elems, uint64_t k0, uint64_t k1, uint32_t M)
{
    uint64_t F = uint64_t(elems.size()) * M;
    std::vector<uint64_t> v;
    for (auto& e : elems) v.push_back(uint64_t(((unsigned __int128)ref_siphash24(k0, k1, e.data(), e.size()) * F) >> 64));
    std::sort(v.begin(), v.end());
    return v;
}
Bytes ref_gcs_encode(const std::set<Bytes>& elems, uint64_t k0, uint64_t k1, uint8_t P, uint32_t M)
{
    Bytes out;
    ref_compactsize(out, elems.size());
    if (elems.empty()) return out;
    BitWriter w;
    uint64_t last = 0;
    for (uint64_t h : ref_hashed_set(elems, k0, k1, M)) {
        uint64_t d = h - last;
        last = h;
        for (uint64_t q = d >> P; q > 0; --q) w.bit(true);
        w.bit(false);
        w.bits(P == 64 ? d : d & ((uint64_t{1} << P) - 1), P);
    }
    out.insert(out.end(), w.out.begin(), w.out.end());
    return out;
}
/** own decoder: returns false on malformed input */
bool ref_gcs_decode(const Bytes& enc, uint8_t P, std::vector<uint64_t>& values)
{
    values.clear();
    if (enc.empty()) return false;
    size_t pos = 0;
    uint64_t n = enc[pos++];
    if (n == 253) { if (enc.size() < 3) return false; n = enc[1] | (uint64_t(enc[2]) << 8); pos = 3; }
    else if (n == 254) { if (enc.size() < 5) return false; n = 0; for (int i = 0; i < 4; ++i) n |= uint64_t(enc[1 + i]) << (8 * i); pos = 5; }
    else if (n == 255) return false;
    size_t bitpos = pos * 8, end = enc.size() * 8;
    auto rd = [&](bool& ok) { if (bitpos >= end) { ok = false; return false; } bool b = (enc[bitpos >> 3] >> (7 - (bitpos & 7))) & 1; ++bitpos; return b; };
    uint64_t last = 0;
    for (uint64_t i = 0; i < n; ++i) {
        bool ok = true;
        uint64_t q = 0;
        while (rd(ok)) ++q;
        if (!ok) return false;
        uint64_t r = 0;
        for (int b = 0; b < P; ++b) r = (r << 1) | rd(ok);
        if (!ok) return false;
        last += (q << P) + r;
        values.push_back(last);
    }
    return (end - bitpos) < 8 || n == 0;
}

// ---- own MurmurHash3 x86_32 (Appleby's public-domain description) -----------------------------------------------
uint32_t rotl32(uint32_t x, int r) { return (x << r) | (x >> (32 - r)); }
uint32_t ref_murmur3(uint32_t seed, const uint8_t* d, size_t len)
{
    uint32_t h = seed;
    size_t nb = len / 4;
    for (size_t i = 0; i < nb; ++i) {
        uint32_t k = uint32_t(d[4 * i]) | uint32_t(d[4 * i + 1]) << 8 | uint32_t(d[4 * i + 2]) << 16 | uint32_t(d[4 * i + 3]) << 24;
        k *= 0xcc9e2d51u; k = rotl32(k, 15); k *= 0x1b873593u;
        h ^= k; h = rotl32(h, 13); h = h * 5 + 0xe6546b64u;
    }
    uint32_t k = 0;
    size_t rem = len & 3;
    for (size_t i = rem; i > 0; --i) k = (k << 8) | d[4 * nb + i - 1];
    if (rem) { k *= 0xcc9e2d51u; k = rotl32(k, 15); k *= 0x1b873593u; h ^= k; }
    h ^= uint32_t(len);
    h ^= h >> 16; h *= 0x85ebca6bu; h ^= h >> 13; h *= 0xc2b2ae35u; h ^= h >> 16;
    return h;
}

/** BIP37 bloom filter model */
struct RefBloom {
    Bytes data; uint32_t nfuncs{0}, tweak{0};
    void insert(const Bytes& k) { if (data.empty()) return; for (uint32_t i = 0; i < nfuncs; ++i) { uint32_t idx = ref_murmur3(i * 0xFBA4C795u + tweak, k.data(), k.size()) % uint32_t(data.size() * 8); data[idx >> 3] |= uint8_t(1u << (idx & 7)); } }
    bool contains(const Bytes& k) const
    {
        if (data.empty()) return true;
        for (uint32_t i = 0; i < nfuncs; ++i) { uint32_t idx = ref_murmur3(i * 0xFBA4C795u + tweak, k.data(), k.size()) % uint32_t(data.size() * 8); if (!(data[idx >> 3] & (1u << (idx & 7)))) return false; }
        return true;
    }
};

// ---- own merkle tree (same definition as in c04) -----------------------------------------------------------------
uint256 ref_sha256d(const unsigned char* p, size_t n)
{
    unsigned char t[32];
    CSHA256().Write(p, n).Finalize(t);
    uint256 out;
    CSHA256().Write(t, 32).Finalize(out.begin());
    return out;
}
uint256 ref_pair(const uint256& a, const uint256& b)
{
    unsigned char cat[64];
    memcpy(cat, a.begin(), 32); memcpy(cat + 32, b.begin(), 32);
    return ref_sha256d(cat, 64);
}
std::vector<std::vector<uint256>> ref_levels(const std::vector<uint256>& leaves)
{
    std::vector<std::vector<uint256>> lv{leaves};
    while (lv.back().size() > 1) {
        const auto& cur = lv.back();
        std::vector<uint256> next((cur.size() + 1) / 2);
        for (size_t i = 0; i < next.size(); ++i) next[i] = ref_pair(cur[2 * i], cur[std::min(2 * i + 1, cur.size() - 1)]);
        lv.push_back(std::move(next));
    }
    return lv;
}
/** BIP37 partial merkle tree: depth-first flag bits + hashes */
void ref_pmt_build(const std::vector<std::vector<uint256>>& lv, const std::vector<bool>& match, size_t height, size_t pos, std::vector<bool>& bits, std::vector<uint256>& hashes)
{
    bool parent_of_match = false;
    for (size_t p = pos << height; p < ((pos + 1) << height) && p < match.size(); ++p) parent_of_match = parent_of_match || match[p];
    bits.push_back(parent_of_match);
    if (height == 0 || !parent_of_match) { hashes.push_back(lv[height][pos]); return; }
    ref_pmt_build(lv, match, height - 1, 2 * pos, bits, hashes);
    if (2 * pos + 1 < lv[height - 1].size()) ref_pmt_build(lv, match, height - 1, 2 * pos + 1, bits, hashes);
}
Bytes ref_pmt_encode(const std::vector<uint256>& txids, const std::vector<bool>& match)
{
    auto lv = ref_levels(txids);
    std::vector<bool> bits; std::vector<uint256> hashes;
    ref_pmt_build(lv, match, lv.size() - 1, 0, bits, hashes);
    Bytes out;
    for (int i = 0; i < 4; ++i) out.push_back(uint8_t(uint32_t(txids.size()) >> (8 * i)));
    ref_compactsize(out, hashes.size());
    for (auto& h : hashes) out.insert(out.end(), h.begin(), h.end());
    Bytes flag((bits.size() + 7) / 8, 0);
    for (size_t i = 0; i < bits.size(); ++i) if (bits[i]) flag[i / 8] |= uint8_t(1u << (i % 8));
    ref_compactsize(out, flag.size());
    out.insert(out.end(), flag.begin(), flag.end());
    return out;
}

Bytes stream_bytes(const DataStream& ds) { Bytes b(ds.size()); if (!b.empty()) memcpy(b.data(), ds.data(), ds.size()); return b; }

void init_c51() {}

Bytes gen_element(verif::Src& s, uint64_t seed, uint64_t i)
{
    unsigned m = s.range<unsigned>(0, 7);
    size_t len = m == 0 ? 0 : m == 1 ? s.pick<size_t>({1, 7, 8, 9, 15, 16, 17, 20, 22, 25, 32, 33, 34, 64, 65}) : m == 2 ? s.range<size_t>(100, 2000) : s.range<size_t>(1, 40);
    return key_from(seed, i, len);
}
} // namespace

// ==================================================================================================================
VERIF_TARGET(c51_gcs, init_c51, 24, 400,
             "element sets: 0..60 (sometimes up to 20,000) byte strings of length 0..40 / at 8-byte SipHash block boundaries / 100..2000 bytes, with repeated "
             "insertions of the same element; SipHash keys random/boundary; (P, M) from BIP158 basic (19, 784931), the unit-test pair (10, 1024) and generated "
             "P in 0..32 with M in 1..2^(P+3). GCSFilter encoding == own BIP158 encoder, own decoder recovers the sorted hashed set, every element matches "
             "(Match, MatchAny, and again on a filter re-parsed from the bytes). Sub-case: BlockFilter(BASIC) of a generated block + undo data vs own element "
             "rule + encoder. non-trivial = >= 2 elements and (a quotient >= 2 occurred or two elements hashed to the same value or N >= 253); "
             "distinct = (N bucket, P, M class, max quotient bucket, flags)")
{
    uint64_t seed = s.ConsumeIntegral<uint64_t>();
    bool block_case = s.chance(48);
    if (!block_case) {
        uint64_t k0 = s.chance(200) ? s.ConsumeIntegral<uint64_t>() : s.pick<uint64_t>({0, 1, ~uint64_t{0}});
        uint64_t k1 = s.chance(200) ? s.ConsumeIntegral<uint64_t>() : s.pick<uint64_t>({0, 1, ~uint64_t{0}});
        unsigned pm = s.range<unsigned>(0, 5);
        uint8_t P; uint32_t M;
        if (pm <= 1) { P = 19; M = 784931; }
        else if (pm == 2) { P = 10; M = 1 << 10; }
        else { P = uint8_t(s.range<unsigned>(0, 32)); uint64_t maxm = std::min<uint64_t>(0xffffffffULL, uint64_t{1} << std::min<unsigned>(P + 3, 32)); M = uint32_t(s.chance(128) ? maxm : s.range<uint64_t>(1, maxm)); if (s.chance(64)) M = uint32_t(std::min<uint64_t>(uint64_t{1} << std::min<unsigned>(P, 31), 0xffffffffULL)); }
        size_t n = s.chance(2) ? (s.chance(24) ? s.range<size_t>(10000, 20000) : s.range<size_t>(2000, 4000)) : s.chance(40) ? s.range<size_t>(250, 260) : s.range<size_t>(0, 60);
        std::set<Bytes> model;
        GCSFilter::ElementSet elements;
        bool cheap = n > 300;
        for (size_t i = 0; i < n; ++i) {
            Bytes e = cheap ? key_from(seed, i, 8 + (i % 29)) : gen_element(s, seed, s.chance(40) ? s.index(i + 1) : i); // sometimes the same element again
            model.insert(e);
            elements.insert(e);
        }
        GCSFilter filter({k0, k1, P, M}, elements);
        Bytes want = ref_gcs_encode(model, k0, k1, P, M);
        st.steps++;
        VCHECK(filter.GetN() == model.size(), "c51.gcs-encoding", "N", filter.GetN(), model.size());
        VCHECK(filter.GetEncoded() == want, "c51.gcs-encoding", "N", model.size(), "P", int(P), "M", M, "impl", verif::hex(filter.GetEncoded().data(), std::min<size_t>(filter.GetEncoded().size(), 60)),
               "ref", verif::hex(want.data(), std::min<size_t>(want.size(), 60)));
        std::vector<uint64_t> hs = ref_hashed_set(model, k0, k1, M), dec;
        VCHECK(ref_gcs_decode(filter.GetEncoded(), P, dec) && dec == hs, "c51.gcs-encoding", "own decoder does not recover the sorted hashed set, N", model.size(), "P", int(P));
        uint64_t maxq = 0; bool collision = false;
        { uint64_t last = 0; bool first = true; for (uint64_t h : hs) { maxq = std::max(maxq, (h - last) >> P); if (!first && h == last) collision = true; last = h; first = false; } }
        GCSFilter parsed({k0, k1, P, M}, filter.GetEncoded(), /*skip_decode_check=*/false);
        size_t checked = 0;
        for (auto& e : model) {
            if (cheap && (checked++ % 37) != 0) continue;
            st.steps++;
            VCHECK(filter.Match(e), "c51.gcs-match", "inserted element does not match, N", model.size(), "len", e.size(), "P", int(P), "M", M);
            VCHECK(parsed.Match(e), "c51.gcs-match", "inserted element does not match the re-parsed filter, N", model.size(), "len", e.size());
        }
        if (!model.empty()) {
            // query sets containing at least one member (plus outsiders)
            for (int rep = 0; rep < 2; ++rep) {
                GCSFilter::ElementSet q;
                size_t pick = s.index(model.size());
                auto it = model.begin(); std::advance(it, std::min<size_t>(pick, 200));
                q.insert(*it);
                size_t outsiders = s.range<size_t>(0, 6);
                for (size_t o = 0; o < outsiders; ++o) q.insert(key_from(seed ^ 0xabcdef, o, 12));
                st.steps++;
                VCHECK(filter.MatchAny(q), "c51.gcs-match", "MatchAny misses a member, N", model.size(), "query", q.size());
                VCHECK(parsed.MatchAny(q), "c51.gcs-match", "MatchAny on the re-parsed filter misses a member, N", model.size());
            }
        }
        st.nontrivial = model.size() >= 2 && (maxq >= 2 || collision || model.size() >= 253);
        st.mix(uint64_t(model.size() < 8 ? model.size() : model.size() < 253 ? 8 + model.size() / 16 : 100 + (model.size() > 2000))); st.mix(uint64_t(P)); st.mix(uint64_t(pm)); st.mix(uint64_t(std::min<uint64_t>(maxq, 9)));
        st.mix(uint64_t(collision));
        st.cls("gcs-set");
        st.cls(model.empty() ? "empty-set" : model.size() >= 2000 ? "set>=2000" : model.size() >= 253 ? "set>=253" : "set<253");
        if (model.size() < n) st.cls("repeated-elements");
        if (maxq >= 2) st.cls("quotient>=2");
        if (collision) st.cls("hash-collision-in-range");
        if (pm <= 1) st.cls("bip158-basic-params");
        st.note("gcs N=", model.size(), " (", n, " insertions) P=", int(P), " M=", M, " max_quotient=", maxq, " collision=", collision, " encoded_bytes=", want.size());
        return;
    }
    // ---- BlockFilter(BASIC) over a generated block + undo
    CBlock block;
    block.nVersion = 1; block.nTime = uint32_t(seed); block.nNonce = uint32_t(seed >> 32); block.nBits = 0x207fffff;
    block.hashPrevBlock = uint256(std::span<const unsigned char>(key_from(seed, 1, 32).data(), 32));
    CBlockUndo undo;
    std::set<Bytes> model;
    std::vector<Bytes> must_match;
    size_t ntx = s.range<size_t>(1, 6);
    for (size_t t = 0; t < ntx; ++t) {
        CMutableTransaction m;
        m.vin.resize(1);
        m.vin[0].prevout = COutPoint(Txid::FromUint256(uint256(std::span<const unsigned char>(key_from(seed, 100 + t, 32).data(), 32))), uint32_t(t));
        size_t nout = s.range<size_t>(0, 4);
        for (size_t o = 0; o < nout; ++o) {
            unsigned k = s.range<unsigned>(0, 5);
            Bytes sc = k == 0 ? Bytes{} : k == 1 ? Bytes{0x6a, 0x04, 1, 2, 3, 4} : k == 2 ? Bytes{0x6a} : key_from(seed, 1000 + 10 * t + o, s.range<size_t>(1, 40));
            if (k >= 3 && sc[0] == 0x6a) sc[0] = 0x51;
            if (k == 5 && !must_match.empty()) sc = must_match[s.index(must_match.size())]; // the same script again
            m.vout.emplace_back(CAmount(1 + o), CScript(sc.begin(), sc.end()));
            if (!sc.empty() && sc[0] != 0x6a) { model.insert(sc); must_match.push_back(sc); }
        }
        block.vtx.push_back(MakeTransactionRef(m));
        if (t > 0) {
            CTxUndo tu;
            size_t nprev = s.range<size_t>(1, 3);
            for (size_t p = 0; p < nprev; ++p) {
                unsigned k = s.range<unsigned>(0, 4);
                Bytes sc = k == 0 ? Bytes{} : k == 1 ? Bytes{0x6a, 0x01, 0x07} : key_from(seed, 5000 + 10 * t + p, s.range<size_t>(1, 40)); // spent OP_RETURN-looking scripts ARE included by BIP158's prevout rule
                tu.vprevout.emplace_back(CTxOut(CAmount(5), CScript(sc.begin(), sc.end())), 1, false);
                if (!sc.empty()) { model.insert(sc); must_match.push_back(sc); }
            }
            undo.vtxundo.push_back(std::move(tu));
        }
    }
    BlockFilter bf(BlockFilterType::BASIC, block, undo);
    uint256 bh = block.GetHash();
    uint64_t k0 = 0, k1 = 0;
    for (int b = 0; b < 8; ++b) { k0 |= uint64_t(bh.begin()[b]) << (8 * b); k1 |= uint64_t(bh.begin()[8 + b]) << (8 * b); }
    Bytes want = ref_gcs_encode(model, k0, k1, 19, 784931);
    st.steps++;
    VCHECK(bf.GetEncodedFilter() == want, "c51.blockfilter", "elements", model.size(), "impl", verif::hex(bf.GetEncodedFilter().data(), std::min<size_t>(bf.GetEncodedFilter().size(), 60)), "ref",
           verif::hex(want.data(), std::min<size_t>(want.size(), 60)));
    for (auto& e : must_match) VCHECK(bf.GetFilter().Match(e), "c51.blockfilter", "script in the block does not match its filter, len", e.size());
    st.nontrivial = model.size() >= 2;
    st.mix(uint64_t(2)); st.mix(uint64_t(model.size())); st.mix(uint64_t(ntx));
    st.cls("blockfilter-basic");
    st.note("blockfilter ntx=", ntx, " elements=", model.size(), " bytes=", want.size());
}

// ==================================================================================================================
VERIF_TARGET(c51_bloom, init_c51, 24, 400,
             "CBloomFilter built from (nElements 1..100,000 incl. the sizes that hit the 36,000-byte / 50-function protocol limits, fp rate 1e-12..0.9999, tweak "
             "incl. 0 / 2^32-1, flags 0..3) or de-serialized with an exact byte size (0..36,000) and function count (0..50); 0..80 inserted keys (lengths 0..80, "
             "txid- and outpoint-shaped) and outpoints; transactions that carry an inserted txid / script data element / spent outpoint. contains() true for every "
             "inserted key, filter bytes and contains() == own BIP37 model (own MurmurHash3), IsRelevantAndUpdate true for touching transactions. "
             "non-trivial = >= 2 keys inserted into a non-empty filter with >= 1 hash function; distinct = (size bucket, nHashFuncs, key count bucket, flags, source)")
{
    uint64_t seed = s.ConsumeIntegral<uint64_t>();
    uint32_t tweak = s.chance(200) ? s.ConsumeIntegral<uint32_t>() : s.pick<uint32_t>({0, 1, 0xffffffffu, 2147483649u, 0x7fffffffu});
    uint8_t flags = uint8_t(s.chance(230) ? s.range<unsigned>(0, 2) : s.range<unsigned>(0, 255));
    bool from_bytes = s.chance(100);
    CBloomFilter filter;
    if (from_bytes) {
        size_t size = s.chance(128) ? s.pick<size_t>({0, 1, 2, 3, 7, 8, 9, 511, 512, 35999, 36000}) : s.range<size_t>(0, 2000);
        uint32_t nf = s.chance(128) ? s.pick<uint32_t>({0, 1, 2, 49, 50}) : s.range<uint32_t>(0, 50);
        Bytes raw;
        ref_compactsize(raw, size);
        raw.resize(raw.size() + size, 0x00);
        for (int i = 0; i < 4; ++i) raw.push_back(uint8_t(nf >> (8 * i)));
        for (int i = 0; i < 4; ++i) raw.push_back(uint8_t(tweak >> (8 * i)));
        raw.push_back(flags);
        DataStream ds{raw};
        ds >> filter;
    } else {
        unsigned ne = s.chance(128) ? s.pick<unsigned>({1, 2, 3, 10, 100, 1000, 10000, 20000, 20001, 50000, 100000}) : s.range<unsigned>(1, 3000);
        double fp = s.pick<double>({0.5, 0.1, 0.01, 0.001, 0.0001, 0.000001, 0.00000001, 0.000000000001, 0.9999, 0.25, 0.05});
        filter = CBloomFilter(ne, fp, tweak, flags);
    }
    // read the parameters back from the wire format
    RefBloom model;
    {
        DataStream ds;
        ds << filter;
        Bytes raw = stream_bytes(ds);
        size_t pos = 0, size = raw[pos++];
        if (size == 253) { size = raw[1] | (size_t(raw[2]) << 8); pos = 3; } else if (size == 254) { size = 0; for (int i = 0; i < 4; ++i) size |= size_t(raw[1 + i]) << (8 * i); pos = 5; }
        VCHECK(raw.size() == pos + size + 9, "c51.bloom-ref", "unexpected serialization length", raw.size(), size);
        model.data.assign(raw.begin() + pos, raw.begin() + pos + size);
        pos += size;
        for (int i = 0; i < 4; ++i) model.nfuncs |= uint32_t(raw[pos + i]) << (8 * i);
        uint32_t tw = 0; for (int i = 0; i < 4; ++i) tw |= uint32_t(raw[pos + 4 + i]) << (8 * i);
        VCHECK(tw == tweak && raw[pos + 8] == flags, "c51.bloom-ref", "tweak/flags not preserved", tw, tweak, int(raw[pos + 8]), int(flags));
        model.tweak = tweak;
        for (uint8_t b : model.data) VCHECK(b == 0, "c51.bloom-ref", "fresh filter has bits set");
        if (!from_bytes) VCHECK(model.data.size() <= 36000 && model.nfuncs <= 50 && filter.IsWithinSizeConstraints(), "c51.bloom-ref", "constructed filter exceeds the protocol limits", model.data.size(), model.nfuncs);
    }
    size_t nkeys = s.chance(230) ? s.range<size_t>(0, 24) : s.range<size_t>(25, 80);
    std::vector<Bytes> keys;
    for (size_t i = 0; i < nkeys; ++i) {
        unsigned k = s.range<unsigned>(0, 5);
        if (k == 0) { // outpoint
            uint256 h(std::span<const unsigned char>(key_from(seed, i, 32).data(), 32));
            uint32_t n = s.pick<uint32_t>({0, 1, 0xffffffffu, 7});
            COutPoint op(Txid::FromUint256(h), n);
            filter.insert(op);
            Bytes ser(h.begin(), h.end());
            for (int b = 0; b < 4; ++b) ser.push_back(uint8_t(n >> (8 * b)));
            model.insert(ser);
            keys.push_back(ser);
            st.steps++;
            VCHECK(filter.contains(op), "c51.bloom-contains", "inserted outpoint not contained; filter bytes", model.data.size(), "funcs", model.nfuncs);
        } else {
            size_t len = k == 1 ? 32 : k == 2 ? 20 : k == 3 ? s.pick<size_t>({0, 1, 2, 3, 4, 5, 33, 36, 65}) : s.range<size_t>(0, 80);
            Bytes key = key_from(seed, s.chance(32) ? s.index(i + 1) : i, len);
            filter.insert(key);
            model.insert(key);
            keys.push_back(key);
        }
        if (!s.chance(128)) continue;
        for (auto& kx : keys) { st.steps++; VCHECK(filter.contains(kx), "c51.bloom-contains", "inserted key no longer contained after", i + 1, "insertions; len", kx.size(), "bytes", model.data.size(), "funcs", model.nfuncs); }
    }
    for (auto& kx : keys) { st.steps++; VCHECK(filter.contains(kx), "c51.bloom-contains", "inserted key not contained; len", kx.size(), "bytes", model.data.size(), "funcs", model.nfuncs); }
    {
        DataStream ds;
        ds << filter;
        Bytes raw = stream_bytes(ds);
        size_t pos = model.data.size() < 253 ? 1 : 3;
        Bytes got(raw.begin() + pos, raw.begin() + pos + model.data.size());
        st.steps++;
        VCHECK(got == model.data, "c51.bloom-ref", "filter bits differ from the BIP37 model: bytes", model.data.size(), "funcs", model.nfuncs, "keys", keys.size());
        for (size_t o = 0; o < 8; ++o) { Bytes probe = key_from(seed ^ 0x5eed, o, 1 + 5 * o); VCHECK(filter.contains(probe) == model.contains(probe), "c51.bloom-ref", "contains() differs from the model for a probe key"); }
    }
    // transactions touching inserted data must be relevant
    unsigned txk = s.range<unsigned>(0, 3);
    if (txk && !keys.empty()) {
        CMutableTransaction m;
        m.vin.resize(1);
        m.vin[0].prevout = COutPoint(Txid::FromUint256(uint256(std::span<const unsigned char>(key_from(seed, 777, 32).data(), 32))), 3);
        m.vout.emplace_back(CAmount(1), CScript() << OP_TRUE);
        std::string what;
        if (txk == 1) { // output script pushes an inserted key
            Bytes data = key_from(seed, 4242, s.pick<size_t>({20, 33, 65, 1, 75, 76, 80}));
            filter.insert(data); model.insert(data);
            m.vout.emplace_back(CAmount(2), CScript() << OP_DUP << data << OP_CHECKSIG);
            what = "script-data";
        } else if (txk == 2) { // spends an inserted outpoint
            COutPoint op(Txid::FromUint256(uint256(std::span<const unsigned char>(key_from(seed, 888, 32).data(), 32))), 1);
            filter.insert(op);
            m.vin[0].prevout = op;
            what = "spent-outpoint";
        } else { // scriptSig pushes an inserted key
            Bytes data = key_from(seed, 999, 33);
            filter.insert(data);
            m.vin[0].scriptSig = CScript() << data;
            what = "scriptsig-data";
        }
        CTransaction tx(m);
        bool match_all = model.data.empty();
        bool rel = filter.IsRelevantAndUpdate(tx);
        st.steps++;
        VCHECK(rel, "c51.bloom-contains", "transaction touching inserted data is not relevant:", what);
        if (txk == 1 && !match_all && (flags & 3) == 1) VCHECK(filter.contains(COutPoint(tx.GetHash(), 1)), "c51.bloom-contains", "BLOOM_UPDATE_ALL did not add the matched outpoint");
        // a transaction whose txid was inserted
        CMutableTransaction m2;
        m2.vin.resize(1); m2.vin[0].prevout = COutPoint(Txid::FromUint256(uint256(std::span<const unsigned char>(key_from(seed, 555, 32).data(), 32))), 0);
        m2.vout.emplace_back(CAmount(9), CScript() << OP_2);
        CTransaction tx2(m2);
        filter.insert(tx2.GetHash().ToUint256());
        VCHECK(filter.IsRelevantAndUpdate(tx2), "c51.bloom-contains", "transaction with inserted txid is not relevant");
        st.cls("tx-relevance:" + what);
    }
    bool live = !model.data.empty() && model.nfuncs >= 1;
    st.nontrivial = live && keys.size() >= 2;
    st.mix(uint64_t(model.data.size() < 16 ? model.data.size() : 16 + (model.data.size() > 512) + (model.data.size() >= 36000))); st.mix(uint64_t(model.nfuncs)); st.mix(uint64_t(std::min<size_t>(keys.size(), 30) / 3));
    st.mix(uint64_t(flags & 3)); st.mix(uint64_t(from_bytes)); st.mix(uint64_t(txk));
    st.cls(from_bytes ? "from-wire-bytes" : "constructed");
    st.cls(model.data.empty() ? "empty-filter(match-all)" : model.data.size() >= 36000 ? "size-at-limit" : "size-below-limit");
    if (model.nfuncs >= 50) st.cls("funcs-at-limit");
    if (model.nfuncs == 0) st.cls("zero-hash-functions");
    if (live && keys.size() >= 2) st.cls("live-filter-with-keys");
    st.note("bloom bytes=", model.data.size(), " funcs=", model.nfuncs, " tweak=", tweak, " flags=", int(flags), " from_bytes=", from_bytes, " keys=", keys.size(), " tx_case=", txk);
}

// ==================================================================================================================
VERIF_TARGET(c51_rolling, init_c51, 24, 300,
             "CRollingBloomFilter(capacity N in 1..400 (sometimes ..3000), fp rate 0.5..1e-9): 0..3.5N+40 insertions of generated keys (fresh, re-inserted old, "
             "re-inserted recent; byte keys and uint256) with an occasional reset(); after every insertion the last 3 keys, and at check points (every ~N/3 "
             "insertions and at the end) each of the last min(N, inserted) keys must be contained. non-trivial = more than 3N/2 insertions (at least one "
             "generation wiped); distinct = (N bucket, fp, insert-count/N ratio, resets, reinsert kinds)")
{
    SeedRandomStateForTest(SeedRand::ZEROS); // the filter draws its tweak from the global RNG: make it a function of the case
    uint64_t seed = s.ConsumeIntegral<uint64_t>();
    unsigned N = s.chance(20) ? s.range<unsigned>(401, 3000) : s.chance(100) ? s.pick<unsigned>({1, 2, 3, 4, 5, 7, 8, 100, 101}) : s.range<unsigned>(1, 400);
    double fp = s.pick<double>({0.01, 0.001, 0.5, 0.1, 0.000001, 0.000000001, 0.9});
    CRollingBloomFilter filter(N, fp);
    unsigned ratio = s.range<unsigned>(0, 7); // insertions = ratio/2 * N + extra
    size_t total = size_t(ratio) * N / 2 + s.range<size_t>(0, 40);
    total = std::min<size_t>(total, 9000);
    std::deque<Bytes> window; // last N inserted keys
    size_t inserted = 0, resets = 0, since_reset = 0;
    uint64_t kinds = 0;
    size_t next_check = std::max<size_t>(1, N / 3);
    size_t reset_at = s.chance(32) ? s.index(total + 1) : size_t(-1);
    auto check_window = [&](const char* when) {
        for (auto& k : window) { st.steps++; VCHECK(filter.contains(k), "c51.rolling-recent", when, "one of the last N keys is missing: N", N, "inserted since reset", since_reset, "window", window.size()); }
    };
    for (size_t i = 0; i < total; ++i) {
        unsigned k = s.range<unsigned>(0, 15);
        Bytes key;
        if (k == 0 && inserted > 0) { key = key_from(seed, s.index(inserted), 32); kinds |= 1; }                       // some older key again
        else if (k == 1 && !window.empty()) { key = window[s.index(window.size())]; kinds |= 2; }                      // a key still in the window again
        else if (k == 2) { key = key_from(seed, inserted, s.pick<size_t>({0, 1, 4, 20, 33, 36})); kinds |= 4; }
        else key = key_from(seed, inserted, 32);
        if (key.size() == 32 && (i & 1)) filter.insert(uint256(std::span<const unsigned char>(key.data(), 32))); else filter.insert(key);
        ++inserted; ++since_reset;
        window.push_back(key);
        if (window.size() > N) window.pop_front();
        for (size_t b = 0; b < std::min<size_t>(3, window.size()); ++b) { st.steps++; VCHECK(filter.contains(window[window.size() - 1 - b]), "c51.rolling-recent", "a key inserted", b, "insertions ago is missing: N", N, "since reset", since_reset); }
        if (i + 1 == next_check) { check_window("check point:"); next_check += std::max<size_t>(1, N / 3) + s.range<size_t>(0, 2); }
        if (i == reset_at) { filter.reset(); window.clear(); since_reset = 0; ++resets; }
    }
    check_window("end:");
    st.nontrivial = since_reset > size_t(N) * 3 / 2 + 1 || (resets == 0 && inserted > size_t(N) * 3 / 2 + 1);
    st.mix(uint64_t(N < 10 ? N : 10 + N / 50)); st.mix(uint64_t(fp * 1e9)); st.mix(uint64_t(ratio)); st.mix(uint64_t(std::min<size_t>(resets, 3))); st.mix(kinds);
    st.cls(inserted > size_t(N) * 3 ? "inserted>3N" : inserted > size_t(N) * 3 / 2 ? "inserted>1.5N" : inserted > N ? "inserted>N" : "inserted<=N");
    if (resets) st.cls("with-reset");
    if (kinds & 3) st.cls("reinserted-keys");
    if (N <= 8) st.cls("tiny-capacity");
    st.note("rolling N=", N, " fp=", fp, " insertions=", inserted, " resets=", resets, " reinsert_kinds=", kinds);
}

// ==================================================================================================================
VERIF_TARGET(c51_pmt, init_c51, 24, 300,
             "CPartialMerkleTree over 1..120 (sometimes ..3000) distinct txids with match sets {none, all, single (first/last/any), random density 1/2, 1/8, 1/64}: "
             "ExtractMatches == (matched txids in order, their positions, own SHA256d merkle root); serialization == own BIP37 depth-first encoder; re-parsed tree "
             "extracts the same; then 1-3 corruptions of the bytes (bit flip, byte change, count change, truncation, appended flag byte): a re-parsed corrupted tree "
             "must never return the true root together with a (position, txid) pair that is not in the block. non-trivial = n >= 3 with a non-power-of-two count "
             "and 0 < matches < n; distinct = (n bucket, power-of-two?, match pattern, corruption kinds + outcomes)")
{
    uint64_t seed = s.ConsumeIntegral<uint64_t>();
    size_t n = s.chance(8) ? s.range<size_t>(500, 3000) : s.chance(100) ? s.pick<size_t>({1, 2, 3, 4, 5, 6, 7, 8, 9, 15, 16, 17, 31, 32, 33, 63, 64, 65, 100}) : s.range<size_t>(1, 120);
    unsigned pattern = s.range<unsigned>(0, 7);
    std::vector<uint256> leaves(n);
    std::vector<Txid> txids;
    for (size_t i = 0; i < n; ++i) { leaves[i] = uint256(std::span<const unsigned char>(key_from(seed, i, 32).data(), 32)); txids.push_back(Txid::FromUint256(leaves[i])); }
    std::vector<bool> match(n, false);
    size_t sel = s.index(n);
    uint64_t mseed = s.ConsumeIntegral<uint32_t>();
    switch (pattern) {
    case 0: break;
    case 1: std::fill(match.begin(), match.end(), true); break;
    case 2: match[0] = true; break;
    case 3: match[n - 1] = true; break;
    case 4: match[sel] = true; break;
    case 5: for (size_t i = 0; i < n; ++i) match[i] = mix64(mseed + i) & 1; break;
    case 6: for (size_t i = 0; i < n; ++i) match[i] = (mix64(mseed + i) & 7) == 0; break;
    default: for (size_t i = 0; i < n; ++i) match[i] = (mix64(mseed + i) & 63) == 0; match[sel] = true; break;
    }
    std::vector<std::pair<unsigned, uint256>> expect;
    for (size_t i = 0; i < n; ++i) if (match[i]) expect.emplace_back(unsigned(i), leaves[i]);
    uint256 root = ref_levels(leaves).back()[0];

    CPartialMerkleTree pmt(txids, match);
    auto extract = [](CPartialMerkleTree& t, std::vector<std::pair<unsigned, uint256>>& out) {
        std::vector<Txid> m; std::vector<unsigned int> idx;
        uint256 r = t.ExtractMatches(m, idx);
        out.clear();
        for (size_t i = 0; i < m.size() && i < idx.size(); ++i) out.emplace_back(idx[i], m[i].ToUint256());
        return std::make_pair(r, m.size() == idx.size());
    };
    std::vector<std::pair<unsigned, uint256>> got;
    auto [r1, ok1] = extract(pmt, got);
    st.steps++;
    VCHECK(r1 == root, "c51.pmt-extract", "root: n", n, "pattern", pattern, "impl", r1.ToString(), "ref", root.ToString());
    VCHECK(ok1 && got == expect, "c51.pmt-extract", "matches differ: n", n, "pattern", pattern, "got", got.size(), "expected", expect.size());
    VCHECK(pmt.GetNumTransactions() == n, "c51.pmt-extract", "transaction count", pmt.GetNumTransactions(), n);
    DataStream ds;
    ds << pmt;
    Bytes raw = stream_bytes(ds), want = ref_pmt_encode(leaves, match);
    st.steps++;
    VCHECK(raw == want, "c51.pmt-encoding", "n", n, "pattern", pattern, "impl_len", raw.size(), "ref_len", want.size());
    {
        CPartialMerkleTree back;
        DataStream d2{raw};
        d2 >> back;
        auto [r2, ok2] = extract(back, got);
        st.steps++;
        VCHECK(d2.empty() && r2 == root && ok2 && got == expect, "c51.pmt-roundtrip", "n", n, "pattern", pattern, "root_ok", r2 == root, "matches", got.size());
    }
    // corruptions
    unsigned ncor = s.range<unsigned>(0, 3);
    std::string outcomes;
    for (unsigned c = 0; c < ncor; ++c) {
        Bytes bad = raw;
        unsigned kind = s.range<unsigned>(0, 5);
        size_t at = s.index(bad.size());
        switch (kind) {
        case 0: bad[at] ^= uint8_t(1u << s.range<unsigned>(0, 7)); break;
        case 1: bad[bad.size() - 1 - s.index(std::min<size_t>(bad.size(), 3))] ^= uint8_t(1u << s.range<unsigned>(0, 7)); break; // flag bits
        case 2: { uint32_t nn = uint32_t(n) + s.pick<int>({1, -1, 2, 7, 64}); for (int i = 0; i < 4; ++i) bad[i] = uint8_t(nn >> (8 * i)); break; }
        case 3: bad.resize(bad.size() - 1 - s.index(std::min<size_t>(bad.size() - 1, 40))); break;
        case 4: bad.back() += 1; bad.push_back(uint8_t(s.range<unsigned>(0, 255))); break; // one more flag byte (length prefix bumped; valid while < 252 flag bytes)
        default: bad[at] = uint8_t(s.range<unsigned>(0, 255)); break;
        }
        CPartialMerkleTree t;
        std::string outcome;
        try {
            DataStream d3{bad};
            d3 >> t;
            auto [r3, ok3] = extract(t, got);
            if (r3 == root) {
                outcome = "true-root";
                for (auto& [idx, h] : got) { st.steps++; VCHECK(idx < n && leaves[idx] == h, "c51.pmt-mutation", "corrupted tree returns the true root with a foreign (position, txid): n", n, "kind", kind, "pos", idx); }
            } else outcome = r3 == uint256() ? "rejected" : "other-root";
        } catch (const std::ios_base::failure&) { outcome = "parse-error"; }
        outcomes += std::to_string(kind) + ":" + outcome + ",";
        st.cls("corruption:" + outcome);
    }
    bool pow2 = (n & (n - 1)) == 0;
    st.nontrivial = n >= 3 && !pow2 && !expect.empty() && expect.size() < n;
    st.mix(uint64_t(n < 40 ? n : 40 + n / 32)); st.mix(uint64_t(pow2)); st.mix(uint64_t(pattern)); st.mix(outcomes);
    st.cls(pow2 ? "n-power-of-two" : "n-not-power-of-two");
    st.cls(expect.empty() ? "no-match" : expect.size() == n ? "all-match" : "partial-match");
    if (n >= 500) st.cls("n>=500");
    st.note("pmt n=", n, " pattern=", pattern, " matches=", expect.size(), " bytes=", raw.size(), " corruptions=[", outcomes, "]");
}
