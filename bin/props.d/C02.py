# C02: stage list (what ./check C02 quick|thorough runs) and manifest text. Helpers gen()/enum()/hyp()/custom() come from props.py.
SPEC = {'level': 'exploration',
 'assumptions': ['RefLedger replay (own UTXO rules: missing-or-spent, duplicate input, BIP30 overwrite; no script evaluation) is the reference; every catalogue block is first judged by the model and dropped unless it violates exactly the intended rule',
                 'regtest chain, base of 104 empty blocks, histories <= 22 ops; BIP30 re-creation only through identical coinbases (BIP34 switched off with -testactivationheight)'],
 'stages': [gen('vh_c02', 'c02_spend', 800, 12000, min_cases_quick=80, max_seconds_quick=900, max_seconds_thorough=7200,
                floors={'has-rejected-fault': 0.5, 'fault-after-flush-and-reorg': 0.08, 'flush': 0.3, 'reorg': 0.2, 'bip34-off': 0.3},
                rule='double-spend catalogue histories; non-trivial = a double-spend shape delivered after >=1 flush and >=1 reorg')]}

META = {'level_text': 'Generated block histories on a real in-process regtest node: valid blocks, a catalogue of blocks that spend a duplicate / spent / other-fork / never-created / '
               'OP_RETURN / later-in-block output or re-create an unspent coinbase (BIP30), each judged first by an independent ledger model, interleaved with reorgs, forced flushes and a tiny '
               'coins cache. Every catalogue block must be rejected with tip, hash_serialized (sampled) and CoinsTip().HaveCoin over every outpoint ever seen unchanged, its valid twin accepted; '
               'the coins DB must equal the model UTXO at check points. Exploration over bounded histories.',
 'technique': 'stateful property-based testing: operation histories + fault catalogue vs independent UTXO model',
 'level_note': 'trusted base: RefLedger replay, harness block/transaction builder; script validity by construction'}
