// C38 — Compact block reconstruction yields the announced block or fails.
// Level: PartiallyDownloadedBlock (InitData / FillBlock) with a real CTxMemPool and the real IsBlockMutated (mock slot left null).
// Attacker model: the peer announces the genuine header but encodes an attacker-chosen transaction list / short ids /
// prefilled set, the receiver's mempool and extra pool hold some genuine transactions, same-txid-different-witness twins
// and unrelated transactions, and the blocktxn answer is attacker-chosen too.
// Oracle (independent: computed from the block the harness built, never from the encoder/decoder):
//   FillBlock == READ_STATUS_OK  ==>  reconstructed header == announced header, announced merkle root == genuine root
//                                     (own merkle implementation over the reconstructed txids), and the reconstructed
//                                     wtxid list == the genuine block's wtxid list.
#include <engine/verif.h>
#include <kits/chainsim.h>

#include <blockencodings.h>
#include <hash.h>
#include <streams.h>
#include <test/util/txmempool.h>
#include <txmempool.h>
#include <util/time.h>
#include <util/translation.h>

#include <algorithm>
#include <set>

using namespace verif;

namespace {

ChainSim* g_sim{nullptr}; // only for the global context (ECC, args, chain params, mempool options); never destroyed

void init()
{
    g_sim = new ChainSim(ChainSimOpts{});
}

// ---- independent helpers (BIP141 / merkle tree written from the specs) ----
uint256 MerkleRootOf(std::vector<uint256> level, bool* repeated = nullptr)
{
    if (repeated) *repeated = false;
    if (level.empty()) return uint256{};
    while (level.size() > 1) {
        // CVE-2012-2459: a list whose tail is repeated hashes to the same root as the shorter list; visible as two equal siblings
        if (repeated) for (size_t i = 0; i + 1 < level.size(); i += 2) if (level[i] == level[i + 1]) *repeated = true;
        if (level.size() & 1) level.push_back(level.back());
        std::vector<uint256> next;
        for (size_t i = 0; i < level.size(); i += 2) next.push_back(Hash(level[i], level[i + 1]));
        level = std::move(next);
    }
    return level[0];
}

uint256 TxidRoot(const std::vector<CTransactionRef>& v)
{
    std::vector<uint256> h;
    for (auto& t : v) h.push_back(t->GetHash().ToUint256());
    return MerkleRootOf(h);
}

uint256 WitnessRoot(const std::vector<CTransactionRef>& v)
{
    std::vector<uint256> h;
    for (size_t i = 0; i < v.size(); ++i) h.push_back(i == 0 ? uint256{} : v[i]->GetWitnessHash().ToUint256());
    return MerkleRootOf(h);
}

CScript CommitmentScript(const uint256& witroot, const std::vector<unsigned char>& nonce)
{
    uint256 commit;
    CHash256().Write(witroot).Write(nonce).Finalize(commit);
    CScript s;
    s.resize(38);
    s[0] = OP_RETURN; s[1] = 0x24; s[2] = 0xaa; s[3] = 0x21; s[4] = 0xa9; s[5] = 0xed;
    memcpy(&s[6], commit.begin(), 32);
    return s;
}

struct Gen {
    Src& s;
    uint64_t counter{0};
    uint64_t salt;
    explicit Gen(Src& src) : s(src), salt(src.range<uint64_t>(0, 0xffff)) {}

    CMutableTransaction Tx(bool segwit)
    {
        CMutableTransaction m;
        m.version = s.chance(40) ? 1 : 2;
        unsigned nin = s.chance(48) ? 2 : 1;
        for (unsigned i = 0; i < nin; ++i) {
            uint256 h = Hash(std::vector<unsigned char>{uint8_t(salt), uint8_t(salt >> 8), uint8_t(counter), uint8_t(counter >> 8), uint8_t(counter >> 16), 0x33});
            ++counter;
            CTxIn in(COutPoint(Txid::FromUint256(h), uint32_t(i)), CScript(), 0xfffffffd);
            if (!segwit || s.chance(40)) in.scriptSig = CScript() << std::vector<unsigned char>(1 + s.range<unsigned>(0, 5), uint8_t(counter));
            if (segwit) {
                unsigned items = 1 + s.range<unsigned>(0, 2);
                for (unsigned k = 0; k < items; ++k) in.scriptWitness.stack.emplace_back(1 + s.range<unsigned>(0, 7), uint8_t(counter + k));
            }
            m.vin.push_back(in);
        }
        unsigned nout = s.chance(64) ? 2 : 1;
        for (unsigned i = 0; i < nout; ++i) m.vout.emplace_back(CAmount(1000 + (counter % 977) * 13), CScript() << OP_0 << std::vector<unsigned char>(20, uint8_t(counter + i)));
        m.nLockTime = s.chance(32) ? uint32_t(counter) : 0;
        return m;
    }
};

// same txid, different witness (requires at least one witness item somewhere, or adds one)
CTransactionRef Twin(const CTransactionRef& t, unsigned mode)
{
    CMutableTransaction m(*t);
    switch (mode % 3) {
    case 0: // stripped
        for (auto& in : m.vin) in.scriptWitness.stack.clear();
        break;
    case 1: // altered item
        if (m.vin[0].scriptWitness.stack.empty()) m.vin[0].scriptWitness.stack.push_back({0x01});
        else m.vin[0].scriptWitness.stack[0].push_back(0x99);
        break;
    default: // extra item
        m.vin.back().scriptWitness.stack.push_back({0x51, 0x52});
        break;
    }
    return MakeTransactionRef(m);
}

const char* StatusName(ReadStatus st) { return st == READ_STATUS_OK ? "ok" : st == READ_STATUS_INVALID ? "invalid" : "failed"; }

} // namespace

VERIF_TARGET(c38_cmpct, init, 24, 700,
             "a genuine block of 1-200 generated transactions (segwit and not; with/without witness commitment) is announced by an attacker: the "
             "encoded list is the genuine one or has substitutions (unrelated tx, same-txid twin with stripped/altered witness, also for the coinbase), "
             "swaps, drops, appends, CVE-2012-2459 tail duplication; encoding faults: short id of another mempool/extra tx under the announcement's key, "
             "duplicated short ids, wrong nonce, differential prefilled index at the bound +-1 / 16-bit overflow, non-merkle header fields changed; "
             "receiver mempool (real CTxMemPool) and extra pool hold all/some/none of the genuine txs, twins and decoys; blocktxn answer correct / short / "
             "long / reordered / other txs. non-trivial = FillBlock was reached and (an attacker-chosen tx was in play, or reconstruction was OK using >= 2 "
             "of {prefilled, mempool, extra, requested}); distinct = by size bucket + mutation kinds + sources + statuses")
{
    SetMockTime(1700000000);
    Gen g(s);
    // the plan is read first, so that short buffers still yield adversarial cases (the transaction generator is byte-hungry)
    const unsigned plan_nmut = s.chance(170) ? s.range<unsigned>(1, 2) : 0;
    const unsigned plan_kind[2] = {s.range<unsigned>(0, 11), s.range<unsigned>(0, 11)};
    const bool plan_bad_answer = s.chance(90);
    const unsigned plan_answer_kind = s.range<unsigned>(0, 4);
    const unsigned pool_mode = s.range<unsigned>(0, 3); // receiver mempool: 0 all genuine txs, 1/3 some, 2 none
    const unsigned extra_mode = s.range<unsigned>(0, 3);
    const unsigned pre_mode = s.range<unsigned>(0, 5);
    const bool twins_first = s.boolean();
    const unsigned plan_resident_twins = s.chance(90) ? s.range<unsigned>(1, 2) : 0; // twins of genuine txs that simply sit in the receiver's pools

    // ------------------------------------------------------------------ the genuine block
    unsigned n = 0; // non-coinbase txs
    {
        unsigned m = s.range<unsigned>(0, 9);
        if (m <= 5) n = s.range<unsigned>(0, 8);
        else if (m <= 8) n = s.range<unsigned>(9, 40);
        else n = s.range<unsigned>(41, 200);
    }
    const unsigned segwit_pct = s.pick<unsigned>({200, 255, 128, 0});
    std::vector<CTransactionRef> G;
    bool any_wit = false;
    std::vector<CTransactionRef> body;
    for (unsigned i = 0; i < n; ++i) {
        bool sw = s.chance(segwit_pct);
        auto tx = MakeTransactionRef(g.Tx(sw));
        any_wit |= tx->HasWitness();
        body.push_back(tx);
    }
    const bool commit = any_wit || s.chance(160);
    std::vector<unsigned char> wnonce(32, 0);
    if (s.chance(64)) wnonce[5] = 0x77;
    {
        CMutableTransaction cb;
        cb.version = 2;
        cb.vin.resize(1);
        cb.vin[0].prevout.SetNull();
        cb.vin[0].scriptSig = CScript() << 105 << OP_0;
        cb.vout.emplace_back(CAmount(50 * COIN), CScript() << OP_TRUE);
        G.push_back(MakeTransactionRef(cb));
        for (auto& t : body) G.push_back(t);
        if (commit) {
            cb.vin[0].scriptWitness.stack = {wnonce};
            cb.vout.emplace_back(0, CommitmentScript(WitnessRoot(G), wnonce)); // coinbase wtxid counts as 0: root does not depend on the coinbase
            G[0] = MakeTransactionRef(cb);
        }
    }
    CBlockHeader H;
    H.nVersion = 0x20000000;
    H.hashPrevBlock = Hash(std::vector<unsigned char>{uint8_t(g.salt), 0x01});
    H.nTime = 1700000000;
    H.nBits = 0x207fffff;
    H.nNonce = uint32_t(g.salt);
    H.hashMerkleRoot = TxidRoot(G);
    std::vector<uint256> genuine_wtxids, genuine_txids;
    for (auto& t : G) { genuine_wtxids.push_back(t->GetWitnessHash().ToUint256()); genuine_txids.push_back(t->GetHash().ToUint256()); }
    const bool segwit_active = !(!any_wit && !commit && s.chance(64)) ? true : false;

    // ------------------------------------------------------------------ decoys and twins
    std::vector<CTransactionRef> decoys;
    unsigned ndec = s.range<unsigned>(0, 6);
    for (unsigned i = 0; i < ndec; ++i) decoys.push_back(MakeTransactionRef(g.Tx(s.boolean())));
    std::map<size_t, CTransactionRef> twin_of; // position in G -> twin
    bool twin_in_play = false, decoy_in_play = false;

    // ------------------------------------------------------------------ the announced list A and encoding faults
    std::vector<CTransactionRef> A = G;
    std::vector<std::string> kinds;
    auto replacement = [&](size_t pos) -> CTransactionRef {
        // a twin of the genuine tx at pos (if it can have one) or an unrelated tx
        bool can_twin = G[pos]->HasWitness() || pos > 0 || commit;
        if (can_twin && s.chance(150)) {
            auto it = twin_of.find(pos);
            CTransactionRef tw = it != twin_of.end() ? it->second : Twin(G[pos], s.range<unsigned>(0, 2));
            if (tw->GetWitnessHash() != G[pos]->GetWitnessHash()) { twin_of[pos] = tw; twin_in_play = true; return tw; }
        }
        decoy_in_play = true;
        if (decoys.empty() || s.chance(100)) decoys.push_back(MakeTransactionRef(g.Tx(s.boolean())));
        return decoys[s.index(decoys.size())];
    };
    unsigned nmut = plan_nmut;
    bool dup_shortids = false, wrong_nonce = false, header_tweak = false, header_root_tweak = false;
    int index_fault = 0; // 0 none, 1 bound (== size+i+1), 2 16-bit overflow, 3 compactsize > 0xffff
    for (unsigned k = 0; k < nmut; ++k) {
        unsigned kind = plan_kind[k];
        switch (kind) {
        case 0: case 1: case 2: { // substitute one position
            size_t pos = s.chance(40) ? 0 : s.index(A.size());
            if (pos >= A.size()) break;
            A[pos] = replacement(std::min(pos, G.size() - 1));
            kinds.push_back(pos == 0 ? "subst-coinbase" : "subst");
            break;
        }
        case 3: // swap two
            if (A.size() >= 3) { size_t i = 1 + s.index(A.size() - 1), j = 1 + s.index(A.size() - 1); if (i != j) { std::swap(A[i], A[j]); kinds.push_back("swap"); } }
            break;
        case 4: // drop last
            if (A.size() >= 2) { A.pop_back(); kinds.push_back("drop"); }
            break;
        case 5: // append
            decoy_in_play = true;
            if (decoys.empty()) decoys.push_back(MakeTransactionRef(g.Tx(true)));
            A.push_back(decoys[s.index(decoys.size())]);
            kinds.push_back("append");
            break;
        case 6: { // CVE-2012-2459: repeat the tail so that the merkle root is unchanged
            bool done = false;
            for (size_t t : {size_t(1), size_t(2), size_t(4), size_t(8), size_t(16)}) {
                if (A.size() < t || A.size() + t > 400) continue;
                std::vector<CTransactionRef> B = A;
                for (size_t i = 0; i < t; ++i) B.push_back(A[A.size() - t + i]);
                if (TxidRoot(B) == TxidRoot(A) && B.size() != A.size()) { A = B; done = true; break; }
            }
            if (done) kinds.push_back("cve-2012-2459");
            break;
        }
        case 7: dup_shortids = true; kinds.push_back("dup-shortid"); break;
        case 8: wrong_nonce = true; kinds.push_back("wrong-nonce"); break;
        case 9: index_fault = s.range<int>(1, 3); kinds.push_back("index-fault"); break;
        case 10: header_tweak = true; kinds.push_back("header-tweak"); break;
        default: header_root_tweak = true; kinds.push_back("header-root-tweak"); break;
        }
    }
    CBlockHeader AH = H; // announced header
    if (header_tweak) { AH.nNonce ^= 0x55; AH.nTime += 1; }
    if (header_root_tweak) { AH.hashMerkleRoot = TxidRoot(A); } // root of the attacker's list (differs from the genuine root iff the txid list differs)
    const uint64_t nonce = s.range<uint64_t>(0, 0xffffffff) * 0x9e3779b97f4a7c15ULL + 1;

    // twins that are simply resident in the receiver's pools (e.g. a malleated copy arrived earlier), independent of what is announced
    for (unsigned k = 0; k < plan_resident_twins && G.size() > 1; ++k) {
        size_t pos = 1 + s.index(G.size() - 1);
        if (twin_of.count(pos)) continue;
        CTransactionRef tw = Twin(G[pos], s.range<unsigned>(0, 2));
        if (tw->GetWitnessHash() == G[pos]->GetWitnessHash()) continue;
        twin_of[pos] = tw;
        twin_in_play = true;
        st.cls("resident-twin");
    }
    // prefilled subset of A
    std::vector<bool> pre(A.size(), false);
    {
        unsigned mode = pre_mode;
        for (size_t i = 0; i < A.size(); ++i) {
            if (i == 0) pre[i] = !s.chance(24);              // coinbase nearly always prefilled
            else if (mode == 0) pre[i] = false;
            else if (mode == 1) pre[i] = s.chance(128);
            else if (mode == 2) pre[i] = true;
            else pre[i] = s.chance(32);
        }
    }

    // ------------------------------------------------------------------ receiver state: mempool + extra pool
    bilingual_str err;
    CTxMemPool::Options mopts = MemPoolOptionsForTest(g_sim->m_node);
    mopts.check_ratio = 0;
    CTxMemPool pool{mopts, err};
    assert(err.empty());
    std::vector<std::pair<Wtxid, CTransactionRef>> extra;
    std::set<uint256> pool_txids;
    auto to_pool = [&](const CTransactionRef& t) {
        if (t->IsCoinBase()) return;
        if (!pool_txids.insert(t->GetHash().ToUint256()).second) return; // a mempool holds one tx per txid
        TryAddToMempool(pool, TestMemPoolEntryHelper{}.Fee(1000).FromTx(t));
    };
    // twins / attacker txs first in some cases (then the genuine tx cannot enter the pool: same txid)
    auto add_attacker_side = [&] {
        for (auto& [pos, tw] : twin_of) { if (s.chance(150)) to_pool(tw); if (s.chance(150)) extra.emplace_back(tw->GetWitnessHash(), tw); }
        for (auto& d : decoys) { if (s.chance(170)) to_pool(d); else if (s.chance(128)) extra.emplace_back(d->GetWitnessHash(), d); }
    };
    if (twins_first) add_attacker_side();
    for (size_t i = 1; i < G.size(); ++i) {
        bool in_pool = pool_mode == 0 || (pool_mode != 2 && s.chance(150));
        if (in_pool) to_pool(G[i]);
        bool in_extra = extra_mode == 0 ? false : (extra_mode == 1 ? s.chance(60) : (!in_pool && s.chance(128)));
        if (in_extra) extra.emplace_back(G[i]->GetWitnessHash(), G[i]);
    }
    if (!twins_first) add_attacker_side();
    if (s.chance(32) && !extra.empty()) std::reverse(extra.begin(), extra.end());

    // ------------------------------------------------------------------ serialise the announcement by hand (as it would arrive on the wire)
    CBlock announced_full;
    static_cast<CBlockHeader&>(announced_full) = AH;
    announced_full.vtx = A.empty() ? std::vector<CTransactionRef>{G[0]} : A;
    CBlockHeaderAndShortTxIDs keyed{announced_full, nonce};                      // only used for its keyed short-id function (generator side)
    CBlockHeaderAndShortTxIDs keyed_wrong{announced_full, nonce ^ 0x1234567};
    std::vector<uint64_t> sids;
    std::vector<std::pair<uint64_t, CTransactionRef>> prefilled; // (differential index, tx)
    {
        int64_t last = -1;
        for (size_t i = 0; i < A.size(); ++i) {
            if (pre[i]) { prefilled.emplace_back(uint64_t(int64_t(i) - last - 1), A[i]); last = int64_t(i); }
            else sids.push_back((wrong_nonce ? keyed_wrong : keyed).GetShortID(A[i]->GetWitnessHash()));
        }
    }
    if (dup_shortids && sids.size() >= 2) { size_t i = s.index(sids.size()), j = s.index(sids.size()); if (i == j) j = (i + 1) % sids.size(); sids[j] = sids[i]; }
    if (index_fault && !prefilled.empty()) {
        size_t k = s.chance(128) ? prefilled.size() - 1 : s.index(prefilled.size());
        // absolute index of prefilled k as encoded so far
        uint64_t abs = 0;
        for (size_t q = 0; q <= k; ++q) abs += prefilled[q].first + (q ? 1 : 0);
        uint64_t bound = sids.size() + k; // the largest legal absolute index for the k-th prefilled tx
        if (index_fault == 1) {
            int64_t delta = int64_t(bound) - int64_t(abs) + s.range<int>(0, 2); // lands on bound, bound+1 or bound+2
            if (delta > 0) prefilled[k].first += uint64_t(delta);
        } else if (index_fault == 2) {
            prefilled[k].first = 0xffff - (s.chance(128) ? 0 : abs);
        } else {
            prefilled[k].first = 0x10000 + s.range<uint64_t>(0, 3);
        }
    }
    DataStream wire;
    wire << AH << nonce;
    WriteCompactSize(wire, sids.size());
    for (uint64_t id : sids) { uint32_t lsb = uint32_t(id & 0xffffffff); uint16_t msb = uint16_t((id >> 32) & 0xffff); wire << lsb << msb; }
    WriteCompactSize(wire, prefilled.size());
    for (auto& [d, tx] : prefilled) { WriteCompactSize(wire, d); wire << TX_WITH_WITNESS(tx); }

    st.note("n=", n, " commit=", commit, " segwit_active=", segwit_active, " A.size=", A.size(), " prefilled=", prefilled.size(), " sids=", sids.size(),
            " pool=", pool.size(), " extra=", extra.size(), " twins=", twin_of.size(), " decoys=", decoys.size());
    for (auto& k : kinds) { st.note("mut:", k); st.cls("mut:" + k); st.mix(k); }
    if (kinds.empty()) st.cls("honest-encoding");
    st.mix(uint64_t(n < 3 ? n : n < 9 ? 3 : n < 41 ? 4 : 5));
    st.mix(uint64_t(pool_mode * 4 + extra_mode));

    CBlockHeaderAndShortTxIDs cmpct;
    try {
        wire >> cmpct;
    } catch (const std::ios_base::failure&) {
        st.cls("undecodable");
        st.note("announcement undecodable");
        st.mix(uint64_t(0xdec0de));
        return;
    }

    // ------------------------------------------------------------------ reconstruction
    PartiallyDownloadedBlock pdb{&pool};
    ReadStatus init_status = pdb.InitData(cmpct, extra);
    st.steps++;
    VCHECK(init_status == READ_STATUS_OK || init_status == READ_STATUS_FAILED || init_status == READ_STATUS_INVALID, "c38.init-status", int(init_status));
    st.cls(std::string("init-") + StatusName(init_status));
    st.note("InitData=", StatusName(init_status));
    st.mix(uint64_t(init_status));
    if (init_status != READ_STATUS_OK) return; // net_processing never calls FillBlock then

    // what the node would request
    std::vector<size_t> missing_idx;
    size_t total = cmpct.BlockTxCount();
    for (size_t i = 0; i < total; ++i) if (!pdb.IsTxAvailable(i)) missing_idx.push_back(i);
    // the blocktxn answer
    std::vector<CTransactionRef> answer;
    for (size_t i : missing_idx) answer.push_back(i < A.size() ? A[i] : G[0]);
    std::string ans_kind = "correct";
    bool bad_answer = false;
    if (plan_bad_answer) {
        unsigned k = plan_answer_kind;
        if (k == 0 && !answer.empty()) { answer.pop_back(); ans_kind = "short"; bad_answer = true; }
        else if (k == 1) { answer.push_back(decoys.empty() ? G[0] : decoys[0]); ans_kind = "long"; bad_answer = true; }
        else if (k == 2 && answer.size() >= 2) { std::swap(answer[0], answer[answer.size() - 1]); ans_kind = "reordered"; bad_answer = answer[0] != answer[answer.size() - 1]; }
        else if (k == 3 && !answer.empty()) {
            size_t j = s.index(answer.size());
            size_t pos = missing_idx[j];
            if (pos < G.size()) { answer[j] = replacement(pos); ans_kind = "other-tx"; bad_answer = true; }
        } else if (k == 4 && !answer.empty()) {
            // the genuine txs regardless of what was announced (an honest second peer)
            for (size_t j = 0; j < answer.size(); ++j) if (missing_idx[j] < G.size()) answer[j] = G[missing_idx[j]];
            ans_kind = "genuine";
        }
    }
    st.cls("blocktxn-" + ans_kind);
    st.mix(ans_kind);
    st.note("missing=", missing_idx.size(), " answer=", ans_kind);

    CBlock R;
    ReadStatus fill = pdb.FillBlock(R, answer, segwit_active);
    st.steps++;
    st.cls(std::string("fill-") + StatusName(fill));
    st.note("FillBlock=", StatusName(fill));
    st.mix(uint64_t(16 + fill));

    const bool adversarial = !kinds.empty() || bad_answer || twin_in_play;
    size_t sources = (prefilled.empty() ? 0 : 1) + (missing_idx.empty() ? 0 : 1) + ((total > prefilled.size() + missing_idx.size()) ? 1 : 0);
    if (fill == READ_STATUS_OK) {
        // OK ==> exactly the announced block, which must be the genuine one
        VCHECK(R.GetHash() == AH.GetHash(), "c38.ok-header", "reconstructed header differs from the announced header");
        std::vector<uint256> rtx, rw;
        for (auto& t : R.vtx) { rtx.push_back(t->GetHash().ToUint256()); rw.push_back(t->GetWitnessHash().ToUint256()); }
        bool repeated = false;
        VCHECK(MerkleRootOf(rtx, &repeated) == AH.hashMerkleRoot, "c38.ok-merkle", "merkle root of the reconstructed transactions differs from the announced root");
        VCHECK(!repeated, "c38.ok-merkle-duplication", "reconstruction OK for a list with repeated subtrees (CVE-2012-2459 mutation)");
        // not mutated w.r.t. witnesses (BIP141, own check): a commitment binds the wtxids; without one (or before activation) no witness data at all.
        // Only meaningful for lists that start with a coinbase: a list without one (attacker-committed header) can never be accepted as a block,
        // and IsBlockMutated deliberately stops after the 64-byte-transaction check for such lists.
        if (!R.vtx.empty() && R.vtx[0]->IsCoinBase()) {
            int cpos = -1;
            if (segwit_active && !R.vtx.empty()) {
                for (size_t o = 0; o < R.vtx[0]->vout.size(); ++o) {
                    const CScript& spk = R.vtx[0]->vout[o].scriptPubKey;
                    if (spk.size() >= 38 && spk[0] == OP_RETURN && spk[1] == 0x24 && spk[2] == 0xaa && spk[3] == 0x21 && spk[4] == 0xa9 && spk[5] == 0xed) cpos = int(o);
                }
            }
            if (cpos >= 0) {
                const auto& stack = R.vtx[0]->vin[0].scriptWitness.stack;
                VCHECK(stack.size() == 1 && stack[0].size() == 32, "c38.ok-witness-nonce", "reconstruction OK with a bad witness reserved value");
                VCHECK(CommitmentScript(WitnessRoot(R.vtx), stack[0]) == CScript(R.vtx[0]->vout[cpos].scriptPubKey.begin(), R.vtx[0]->vout[cpos].scriptPubKey.begin() + 38),
                       "c38.ok-witness-commitment", "reconstruction OK but the wtxids do not match the coinbase commitment");
            } else {
                for (auto& t : R.vtx) VCHECK(!t->HasWitness(), "c38.ok-unexpected-witness", "reconstruction OK with witness data but no commitment");
            }
        }
        if (AH.hashMerkleRoot == H.hashMerkleRoot) {
            // the announced header commits to the genuine block: exactly that block, nothing else
            VCHECK(rtx == genuine_txids, "c38.ok-txid-list", "FillBlock OK with a txid list different from the genuine block", "got", rtx.size(), "want", genuine_txids.size(), "muts", kinds.size());
            VCHECK(rw == genuine_wtxids, "c38.ok-wtxid-list", "FillBlock OK with a wtxid list different from the genuine block (same txids)", "answer", ans_kind);
        } else {
            // the attacker announced a header committing to its own list A: then A is the announced block
            std::vector<uint256> atx;
            for (auto& t : A) atx.push_back(t->GetHash().ToUint256());
            VCHECK(AH.hashMerkleRoot == TxidRoot(A), "c38.harness", "unexpected announced root");
            VCHECK(rtx == atx, "c38.ok-txid-list-foreign", "FillBlock OK with a txid list different from the list the announced header commits to");
            st.cls("ok-foreign-block");
        }
        if (adversarial) st.cls("ok-despite-attacker");
        if (twin_in_play) st.cls("ok-with-twin-in-play");
    } else {
        if (fill == READ_STATUS_FAILED) st.cls("fill-failed-mutation-check");
    }
    if (twin_in_play) st.cls("twin-in-play");
    if (decoy_in_play) st.cls("decoy-in-play");
    if (!segwit_active) st.cls("segwit-inactive");
    if (n >= 41) st.cls("large-block");
    st.nontrivial = (adversarial && (twin_in_play || decoy_in_play || bad_answer || !kinds.empty())) || (fill == READ_STATUS_OK && sources >= 2);
    st.mix(uint64_t(sources));
    st.mix(uint64_t(twin_in_play * 2 + decoy_in_play));
}
