#!/usr/bin/env python3
"""C50 -- secp256k1 operations agree with the curve's mathematics (engine E2).

C++ (CKey / CPubKey / XOnlyPubKey / EllSwiftPubKey wrappers and the library's strict verifier, through sutd) vs
test_framework/crypto/secp256k1.py (field/group arithmetic), key.py (ECDSA, RFC 6979, BIP340), ellswift.py (BIP324 map).
Kinds:  key (seckey validity + pubkey derivation), pub (parse / validity / (de)compression incl. hybrid and off-curve encodings),
sign (deterministic ECDSA incl. low-R grinding and compact/recoverable form), verify (ECDSA: strict library verifier and the
consensus verifier over strict / non-canonical DER, high-S, edge r/s built by key recovery, wrong key/message, bit flips),
schnorr_sign / schnorr_verify (BIP340, optional taproot tweak), taptweak (CreateTapTweak / CheckTapTweak), ellswift_decode,
ellswift_create, ecdh (BIP324 shared secret).
Scalars come from {0, 1, 2, n-2, n-1, n, n+1, (n-1)/2, (n+1)/2, p-1, p, 2^256-1, random}.
Non-trivial = an edge scalar / non-strict encoding / invalid input is involved, or a signature is produced or checked.
"""
import hashlib

from hypothesis import strategies as st

import e2
from test_framework import key as K
from test_framework.crypto import ellswift as ELL
from test_framework.crypto import secp256k1 as S

N = S.GE.ORDER
P = S.FE.SIZE
HALF = N // 2                        # (n-1)/2: the largest "low" S (BIP62/BIP146: S <= n/2)
EDGE = [0, 1, 2, 3, N - 2, N - 1, N, N + 1, HALF, HALF + 1, HALF - 1, P - 1, P, P + 1, (1 << 256) - 1, 1 << 255, (1 << 255) - 1, P - N, P - N - 1]


def b32(v):
    return (v % (1 << 256)).to_bytes(32, "big")


scalar = st.one_of(st.sampled_from(EDGE), st.integers(1, N - 1), st.integers(0, (1 << 256) - 1), st.integers(1, 1 << 32))
good_key = st.one_of(st.sampled_from([1, 2, 3, N - 1, N - 2, HALF, HALF + 1]), st.integers(1, N - 1), st.integers(1, N - 1))
msg32 = st.one_of(st.binary(min_size=32, max_size=32), st.sampled_from([bytes(32), b"\xff" * 32, b32(N), b32(N - 1), b32(1)]))

# ----------------------------------------------------------------------------------------------------------------
# strategies

@st.composite
def k_key(draw):
    return {"kind": "key", "key": b32(draw(scalar)), "compressed": draw(st.booleans())}


@st.composite
def k_pub(draw):
    mode = draw(st.sampled_from(["valid", "valid", "hybrid", "x_edge", "offcurve", "badprefix", "badsize", "y_wrong"]))
    pt = draw(good_key) * S.G
    x, y = int(pt.x), int(pt.y)
    if mode == "valid":
        enc = pt.to_bytes_compressed() if draw(st.booleans()) else pt.to_bytes_uncompressed()
    elif mode == "hybrid":
        pref = draw(st.sampled_from([6, 7]))
        enc = bytes([pref]) + b32(x) + b32(y)
    elif mode == "x_edge":
        xe = draw(st.one_of(st.sampled_from([0, 1, 2, 3, 4, 5, 6, 7, P - 1, P - 2, P, P + 1, P + 2, (1 << 256) - 1, N, N - 1]), st.integers(0, (1 << 256) - 1)))
        enc = bytes([draw(st.sampled_from([2, 3]))]) + b32(xe)
    elif mode == "offcurve":
        enc = b"\x04" + b32(x) + b32((y + draw(st.integers(1, 5))) % P)
    elif mode == "y_wrong":
        ye = draw(st.sampled_from([0, P - y, P + y if P + y < (1 << 256) else y, P, (1 << 256) - 1]))
        enc = bytes([draw(st.sampled_from([4, 4, 6, 7]))]) + b32(x) + b32(ye)
    elif mode == "badprefix":
        pref = draw(st.sampled_from([0, 1, 5, 8, 0x80, 0xff]))
        enc = bytes([pref]) + (b32(x) if draw(st.booleans()) else b32(x) + b32(y))
    else:
        full = pt.to_bytes_uncompressed()
        n = draw(st.sampled_from([0, 1, 32, 34, 64, 66]))
        enc = (full + b"\0")[:n]
    return {"kind": "pub", "pub": enc, "mode": mode}


@st.composite
def k_sign(draw):
    return {"kind": "sign", "key": b32(draw(good_key)), "msg": draw(msg32), "grind": draw(st.booleans()), "test_case": draw(st.sampled_from([0, 0, 1, 2, 0xffffffff, 77])),
            "compressed": draw(st.booleans())}


DER_FORMS = ["strict", "strict", "strict", "pad_r", "pad_s", "longlen_seq", "longlen_int", "bad_seq_len", "trailing", "neg_r", "neg_s"]
SIG_MODES = ["valid", "valid", "highs", "edge", "edge", "wrongmsg", "wrongkey", "bitflip", "zero_r", "zero_s", "overflow_r", "overflow_s"]


@st.composite
def k_verify(draw):
    return {"kind": "verify", "key": b32(draw(good_key)), "msg": draw(msg32), "nonce": b32(draw(good_key)), "mode": draw(st.sampled_from(SIG_MODES)),
            "form": draw(st.sampled_from(DER_FORMS)), "r_edge": draw(st.one_of(st.sampled_from([1, 2, 3, 4, 5, N - 1, N - 2, HALF, P - N - 1, 1 << 255, (1 << 255) - 1, 1 << 248, 127, 128, 255, 256]), st.integers(1, N - 1))),
            "s_edge": draw(st.one_of(st.sampled_from([1, 2, N - 1, N - 2, HALF, HALF + 1, HALF - 1, 127, 128, 255, 256, 1 << 255, (1 << 255) - 1, 1 << 248]), st.integers(1, N - 1))),
            "wrap": draw(st.booleans()), "bit": draw(st.integers(0, 1 << 20)), "pad": draw(st.integers(1, 3)), "junk": draw(st.binary(min_size=1, max_size=3)),
            "seqlen": draw(st.integers(0, 0x7f)), "compressed": draw(st.booleans()), "other": b32(draw(good_key))}


@st.composite
def k_schnorr_sign(draw):
    mr = draw(st.one_of(st.none(), st.just(bytes(32)), st.binary(min_size=32, max_size=32)))
    return {"kind": "schnorr_sign", "key": b32(draw(scalar if draw(st.integers(0, 5)) == 0 else good_key)), "msg": draw(msg32),
            "aux": draw(st.one_of(st.just(bytes(32)), st.binary(min_size=32, max_size=32))), "merkle_root": mr}


@st.composite
def k_schnorr_verify(draw):
    return {"kind": "schnorr_verify", "key": b32(draw(good_key)), "msg": draw(msg32), "aux": draw(st.binary(min_size=32, max_size=32)),
            "mode": draw(st.sampled_from(["valid", "valid", "bitflip_sig", "bitflip_msg", "bitflip_pub", "r_edge", "s_edge", "pub_edge", "negated_s", "wrongkey", "flip_r", "flip_p"])),
            "bit": draw(st.integers(0, 1 << 20)), "edge": b32(draw(st.sampled_from(EDGE))), "other": b32(draw(good_key))}


@st.composite
def k_taptweak(draw):
    mode = draw(st.sampled_from(["valid", "valid", "valid", "x_edge"]))
    if mode == "valid":
        internal = (draw(good_key) * S.G).to_bytes_xonly()
    else:
        internal = b32(draw(st.one_of(st.sampled_from([0, 1, 2, 5, P - 1, P, P + 1, (1 << 256) - 1]), st.integers(0, (1 << 256) - 1))))
    return {"kind": "taptweak", "internal": internal, "merkle_root": draw(st.one_of(st.none(), st.just(bytes(32)), st.binary(min_size=32, max_size=32))),
            "wrong": draw(st.sampled_from(["none", "parity", "output", "root"])), "bit": draw(st.integers(0, 255))}


fe_edge = st.one_of(st.sampled_from([0, 1, 2, P - 1, P - 2, P, P + 1, P + 2, (1 << 256) - 1, N, 7]), st.integers(0, (1 << 256) - 1))


@st.composite
def ellswift_bytes(draw):
    u, t = draw(fe_edge), draw(fe_edge)
    if draw(st.integers(0, 5)) == 0:
        # the exceptional case u^3 + t^2 + 7 = 0 (BIP324: t is doubled): t = sqrt(-(u^3+7)) when it exists
        r = (-(S.FE(u) ** 3 + 7)).sqrt()
        if r is not None:
            t = int(r) if draw(st.booleans()) else P - int(r)
    return b32(u) + b32(t)


@st.composite
def k_ellswift_decode(draw):
    return {"kind": "ellswift_decode", "ell": draw(ellswift_bytes())}


@st.composite
def k_ellswift_create(draw):
    return {"kind": "ellswift_create", "key": b32(draw(good_key)), "entropy": draw(st.one_of(st.just(bytes(32)), st.binary(min_size=32, max_size=32)))}


@st.composite
def k_ecdh(draw):
    return {"kind": "ecdh", "key": b32(draw(good_key)), "entropy": draw(st.binary(min_size=32, max_size=32)), "theirs": draw(ellswift_bytes()), "initiating": draw(st.booleans())}


def cases():
    return st.one_of(k_key(), k_pub(), k_pub(), k_sign(), k_verify(), k_verify(), k_verify(), k_schnorr_sign(), k_schnorr_verify(), k_schnorr_verify(), k_taptweak(),
                     k_ellswift_decode(), k_ellswift_create(), k_ecdh())


# ----------------------------------------------------------------------------------------------------------------
# reference helpers

def I(b):
    return int.from_bytes(b, "big")


def is_edge(v):
    return v in EDGE or v < 4 or v > N - 3


def ref_parse_pub(enc):
    """SEC1 2.3.4 (incl. the hybrid forms 06/07): -> GE or None"""
    if len(enc) == 33 and enc[0] in (2, 3):
        return S.GE.from_bytes(enc)
    if len(enc) == 65 and enc[0] in (4, 6, 7):
        x, y = S.FE.from_bytes(enc[1:33]), S.FE.from_bytes(enc[33:])
        if x is None or y is None or y ** 2 != x ** 3 + 7:
            return None
        if enc[0] != 4 and (enc[0] == 7) != (not y.is_even()):
            return None
        return S.GE(x, y)
    return None


def der_int(v):
    b = v.to_bytes((v.bit_length() + 8) // 8, "big") if v else b"\0"
    return b


def der(r, s, form="strict", pad=1, junk=b"", seqlen=0):
    rb, sb = der_int(r), der_int(s)
    if form == "pad_r":
        rb = b"\0" * pad + rb
    if form == "pad_s":
        sb = b"\0" * pad + sb
    if form == "neg_r" and rb[0] == 0 and len(rb) > 1:
        rb = rb[1:]
    if form == "neg_s" and sb[0] == 0 and len(sb) > 1:
        sb = sb[1:]
    def tlv(b):
        if form == "longlen_int":
            return b"\x02\x81" + bytes([len(b)]) + b
        return b"\x02" + bytes([len(b)]) + b
    body = tlv(rb) + tlv(sb)
    if form == "longlen_seq":
        out = b"\x30\x81" + bytes([len(body)]) + body
    elif form == "bad_seq_len":
        out = b"\x30" + bytes([seqlen]) + body
    else:
        out = b"\x30" + bytes([len(body)]) + body
    if form == "trailing":
        out += junk
    return out


def ecdsa_math_valid(Q, z, r, s):
    """textbook ECDSA verification (no encoding, no low-S rule)"""
    if Q is None or not (0 < r < N and 0 < s < N):
        return False
    w = pow(s, -1, N)
    R = S.GE.mul((z * w, S.G), (r * w, Q))
    return not R.infinity and int(R.x) % N == r


def ecdsa_sign_k(d, z, k):
    R = k * S.G
    r = int(R.x) % N
    s = pow(k, -1, N) * (z + d * r) % N
    recid = (0 if R.y.is_even() else 1) | (2 if int(R.x) >= N else 0)
    if s > HALF:
        s, recid = N - s, recid ^ 1
    return r, s, recid


def rfc6979(d, msg, extra=b""):
    # RFC 6979 3.2d feeds bits2octets(h1) = the message REDUCED mod n (key.py's sign_ecdsa passes the raw bytes, which only
    # differs for messages >= n; the HMAC-DRBG itself is key.py's)
    return I(K.rfc6979_nonce(b32(d) + b32(I(msg) % N) + extra))


def taptweak_hash(xonly, mr):
    return K.TaggedHash("TapTweak", xonly + (mr if mr is not None else b""))


# ----------------------------------------------------------------------------------------------------------------
# checks

def c_key(sut, ex, c):
    k = I(ex["key"])
    r = sut.call("key_info", key=ex["key"], compressed=ex["compressed"])
    valid = 0 < k < N
    c.eq(r["valid"], valid, "c50.seckey-range", "secret key validity != (0 < k < n)", k=hex(k))
    if valid:
        pt = k * S.G
        c.eq(r["pub"], (pt.to_bytes_compressed() if ex["compressed"] else pt.to_bytes_uncompressed()).hex(), "c50.pubkey-derive", "", k=hex(k))
        c.eq(r["xonly"], pt.to_bytes_xonly().hex(), "c50.pubkey-derive", "x-only")
        c.expect(r["verify_pubkey"], "c50.verify-pubkey", "CKey::VerifyPubKey(GetPubKey()) is false")
    c.nontrivial(is_edge(k))
    c.mix(valid, k if is_edge(k) else k.bit_length(), ex["compressed"])
    c.cls("key-valid" if valid else "key-invalid")
    c.note(f"key {hex(k)} valid={valid}")


def c_pub(sut, ex, c):
    enc = ex["pub"]
    pt = ref_parse_pub(enc)
    r = sut.call("pub_info", pub=enc)
    c.eq(r["fully_valid"], pt is not None, "c50.pubkey-parse", "IsFullyValid != point is a valid SEC1 encoding of a curve point", enc=enc, mode=ex["mode"])
    if pt is not None:
        c.eq(r["decompressed"], pt.to_bytes_uncompressed().hex(), "c50.decompress", "", enc=enc)
        c.eq(r["lib_compressed"], pt.to_bytes_compressed().hex(), "c50.compress", "", enc=enc)
        c.eq(r["lib_uncompressed"], pt.to_bytes_uncompressed().hex(), "c50.decompress", "library serialization", enc=enc)
    else:
        c.expect(r["decompressed"] == "" and r["lib_compressed"] == "", "c50.pubkey-parse", "invalid encoding was parsed", enc=enc, reply=r)
    c.nontrivial(True)
    c.mix(ex["mode"], pt is not None, len(enc), enc[:1])
    c.cls("pub:" + ex["mode"])
    c.cls("pub-valid" if pt is not None else "pub-invalid")
    c.note(f"pubkey encoding mode={ex['mode']} len={len(enc)} prefix={enc[:1].hex()} valid={pt is not None}")


def c_sign(sut, ex, c):
    d, msg = I(ex["key"]), ex["msg"]
    z = I(msg)
    r = sut.call("ecdsa_sign", key=ex["key"], msg=msg, grind=ex["grind"], test_case=ex["test_case"], compressed=ex["compressed"])
    c.expect(r["ok"], "c50.ecdsa-sign", "Sign failed for a valid key")
    # nonce schedule of CKey::Sign (RFC 6979 + optional extra entropy; low-R grinding retries with a little-endian counter)
    if ex["grind"]:
        k = rfc6979(d, msg)
        rr, ss, _ = ecdsa_sign_k(d, z, k)
        counter = 0
        while rr >= (1 << 255):
            counter += 1
            k = rfc6979(d, msg, counter.to_bytes(4, "little") + bytes(28))
            rr, ss, _ = ecdsa_sign_k(d, z, k)
        if counter:
            c.cls("grind-retry")
    else:
        extra = ex["test_case"].to_bytes(4, "little") + bytes(28) if ex["test_case"] else b""
        rr, ss, _ = ecdsa_sign_k(d, z, rfc6979(d, msg, extra))
    c.eq(r["sig"], der(rr, ss).hex(), "c50.ecdsa-sign", "signature differs from deterministic ECDSA (RFC 6979, low-S)", grind=ex["grind"], test_case=ex["test_case"])
    c.expect(ss <= HALF, "c50.ref-selfcheck", "")
    # compact / recoverable form always uses plain RFC 6979
    cr, cs, recid = ecdsa_sign_k(d, z, rfc6979(d, msg))
    want = bytes([27 + recid + (4 if ex["compressed"] else 0)]) + b32(cr) + b32(cs)
    c.eq(r.get("compact"), want.hex(), "c50.sign-compact", "compact signature differs", compressed=ex["compressed"])
    rec = sut.call("recover_compact", msg=msg, sig=want)
    pt = d * S.G
    c.expect(rec["ok"] and rec["pub"] == (pt.to_bytes_compressed() if ex["compressed"] else pt.to_bytes_uncompressed()).hex(), "c50.recover-compact",
             "RecoverCompact does not return the signing key", reply=rec)
    c.nontrivial(True)
    c.mix(ex["grind"], ex["test_case"], d if is_edge(d) else 0, msg[:1], ex["compressed"])
    c.note(f"ecdsa sign key={'edge' if is_edge(d) else 'rand'} grind={ex['grind']} test_case={ex['test_case']}")


def c_verify(sut, ex, c):
    d, msg, mode, form = I(ex["key"]), ex["msg"], ex["mode"], ex["form"]
    z = I(msg)
    Q = d * S.G
    vmsg = msg
    if mode == "edge":
        # a valid signature with chosen (r, s): recover the key that makes it valid, Q = r^-1 (s R - z G)
        r = ex["r_edge"]
        Rx = r + N if (ex["wrap"] and r + N < P) else r
        while not S.GE.is_valid_x(Rx):
            r += 1
            Rx += 1
        if r >= N or Rx >= P:
            r = Rx = 1
            while not S.GE.is_valid_x(Rx):
                r += 1
                Rx += 1
        s = ex["s_edge"]
        R = S.GE.lift_x(Rx)
        Q = S.GE.mul((s * pow(r, -1, N), R), (-z * pow(r, -1, N), S.G))
        if Q.infinity:
            Q, mode = d * S.G, "wrongkey"
        elif Rx >= N:
            c.cls("r-wrapped")
    else:
        r, s, _ = ecdsa_sign_k(d, z, I(ex["nonce"]))
        if mode == "highs":
            s = N - s
        elif mode == "wrongmsg":
            vmsg = hashlib.sha256(msg).digest()
        elif mode == "wrongkey":
            Q = (I(ex["other"]) % N or 1) * S.G
            if Q.x == (d * S.G).x:
                mode = "valid"
        elif mode == "zero_r":
            r = 0
        elif mode == "zero_s":
            s = 0
        elif mode == "overflow_r":
            r += N
        elif mode == "overflow_s":
            s += N
    if r >= (1 << 256) or s >= (1 << 256):
        r, s = r % (1 << 256), s % (1 << 256)
    sig = der(r, s, form, ex["pad"], ex["junk"], ex["seqlen"])
    if form in ("neg_r", "neg_s") and sig == der(r, s):
        form = "strict"
    if form == "bad_seq_len" and sig == der(r, s):
        form = "strict"
    if len(sig) > 127 + 2:
        sig, form = der(r, s), "strict"
    if mode == "bitflip":
        bit = ex["bit"] % (len(sig) * 8)
        sig = sig[:bit // 8] + bytes([sig[bit // 8] ^ (1 << (bit % 8))]) + sig[bit // 8 + 1:]
    pub = Q.to_bytes_compressed() if ex["compressed"] else Q.to_bytes_uncompressed()
    rep = sut.call("ecdsa_verify", pub=pub, msg=vmsg, sig=sig)
    if mode != "bitflip":
        math_ok = ecdsa_math_valid(Q, I(vmsg), r, s)
        # consensus verifier: lax DER (every form generated here carries exactly (r, s)), S normalised, then the math
        c.eq(rep["consensus"], math_ok, "c50.verify-consensus", "CPubKey::Verify != validity of the normalised signature", mode=mode, form=form, r=hex(r), s=hex(s))
        # library verifier on strictly parsed DER, no normalisation: valid AND low-S AND strict encoding
        c.eq(rep["strict"], math_ok and s <= HALF and form == "strict", "c50.verify-strict", "strict verification != valid && low-S && strict DER", mode=mode, form=form, r=hex(r), s=hex(s))
        if 0 < r < N and 0 < s < N:
            c.eq(rep["low_s"], s <= HALF, "c50.check-lows", "CheckLowS != (s <= n/2)", s=hex(s), form=form)
        if form == "strict":
            # key.py agrees with the math (its low_s test is off by one exactly at s = (n-1)/2: see py/README.md)
            pk = K.ECPubKey()
            pk.set(pub)
            c.eq(pk.verify_ecdsa(sig, vmsg, low_s=False), math_ok, "c50.ref-selfcheck", "key.py and textbook ECDSA disagree")
    else:
        # arbitrary damage: the strict verifier must agree with key.py's strict-DER verifier (plus the exact low-S bound)
        pk = K.ECPubKey()
        pk.set(pub)
        ok = False
        try:
            ok = pk.verify_ecdsa(sig, vmsg, low_s=False)
        except IndexError:
            ok = False                      # key.py indexes past a truncated signature: malformed
        if ok:
            rlen = sig[3]
            s2 = I(sig[6 + rlen:])
            ok = s2 <= HALF
        c.eq(rep["strict"], ok, "c50.verify-strict", "strict verification of a damaged signature differs from key.py", sig=sig)
        if rep["strict"]:
            c.expect(rep["consensus"], "c50.verify-consensus", "strictly valid signature rejected by CPubKey::Verify", sig=sig)
    c.nontrivial(True)
    c.mix(mode, form, s > HALF, r if r < 256 else r.bit_length(), s if s < 256 else s.bit_length(), ex["compressed"])
    c.cls("sig:" + mode)
    c.cls("der:" + form)
    if mode != "bitflip":
        c.cls("verify-accept" if rep["consensus"] else "verify-reject")
    if s == HALF:
        c.cls("s-exactly-half")
    c.note(f"ecdsa verify mode={mode} form={form} r={r.bit_length()}b s={s.bit_length()}b high_s={s > HALF} -> consensus={rep['consensus']} strict={rep['strict']}")


def c_schnorr_sign(sut, ex, c):
    d, mr = I(ex["key"]), ex["merkle_root"]
    rep = sut.call("schnorr_sign", key=ex["key"], msg=ex["msg"], aux=ex["aux"], merkle_root=mr)
    valid = 0 < d < N
    c.eq(rep["ok"], valid, "c50.schnorr-sign", "SignSchnorr success != key validity", k=hex(d))
    if valid:
        key = ex["key"]
        if mr is not None:
            xonly, _ = K.compute_xonly_pubkey(key)
            key = K.tweak_add_privkey(key, taptweak_hash(xonly, None if mr == bytes(32) else mr))
            c.cls("schnorr-tweaked")
        want = K.sign_schnorr(key, ex["msg"], ex["aux"])
        c.eq(rep["sig"], want.hex(), "c50.schnorr-sign", "signature differs from BIP340 reference", merkle_root=mr)
        pub, _ = K.compute_xonly_pubkey(key)
        v = sut.call("schnorr_verify", pub=pub, msg=ex["msg"], sig=want)
        c.expect(v["ok"], "c50.schnorr-verify", "valid BIP340 signature rejected")
    c.nontrivial(True)
    c.mix(valid, d if is_edge(d) else 0, mr is None, mr == bytes(32), ex["aux"] == bytes(32))
    c.note(f"schnorr sign key={'edge' if is_edge(d) else 'rand'} tweak={'none' if mr is None else 'keypath' if mr == bytes(32) else 'root'}")


def c_schnorr_verify(sut, ex, c):
    key, msg, mode = ex["key"], ex["msg"], ex["mode"]
    pub, _ = K.compute_xonly_pubkey(key)
    sig = K.sign_schnorr(key, msg, ex["aux"], flip_p=(mode == "flip_p"), flip_r=(mode == "flip_r"))
    bit = ex["bit"]

    def flip(b):
        i = bit % (len(b) * 8)
        return b[:i // 8] + bytes([b[i // 8] ^ (1 << (i % 8))]) + b[i // 8 + 1:]
    if mode == "bitflip_sig":
        sig = flip(sig)
    elif mode == "bitflip_msg":
        msg = flip(msg)
    elif mode == "bitflip_pub":
        pub = flip(pub)
    elif mode == "r_edge":
        sig = ex["edge"] + sig[32:]
    elif mode == "s_edge":
        sig = sig[:32] + ex["edge"]
    elif mode == "pub_edge":
        pub = ex["edge"]
    elif mode == "negated_s":
        sig = sig[:32] + b32(N - I(sig[32:]))
    elif mode == "wrongkey":
        pub, _ = K.compute_xonly_pubkey(ex["other"])
    want = K.verify_schnorr(pub, sig, msg)
    rep = sut.call("schnorr_verify", pub=pub, msg=msg, sig=sig)
    c.eq(rep["ok"], want, "c50.schnorr-verify", "VerifySchnorr differs from BIP340 reference", mode=mode, pub=pub, sig=sig)
    c.eq(rep["pub_valid"], S.GE.from_bytes_xonly(pub) is not None, "c50.xonly-parse", "XOnlyPubKey::IsFullyValid", pub=pub)
    c.nontrivial(True)
    c.mix(mode, want, ex["edge"][:2] if "edge" in mode else b"")
    c.cls("schnorr:" + mode)
    c.cls("schnorr-accept" if want else "schnorr-reject")
    c.note(f"schnorr verify mode={mode} -> {want}")


def c_taptweak(sut, ex, c):
    internal, mr, wrong = ex["internal"], ex["merkle_root"], ex["wrong"]
    tw = taptweak_hash(internal, mr)
    res = K.tweak_add_pubkey(internal, tw)
    chk = None
    if res is not None and mr is not None:
        out, par = res
        if wrong == "parity":
            par = not par
        elif wrong == "output":
            out = out[:31] + bytes([out[31] ^ (1 << (ex["bit"] % 8))])
        chk = {"output": out, "parity": bool(par)}
    mr_q = mr
    if wrong == "root" and mr is not None and res is not None:
        mr_q = mr[:-1] + bytes([mr[-1] ^ 1])
        rep2 = sut.call("taptweak", internal=internal, merkle_root=mr_q, check={"output": res[0], "parity": bool(res[1])})
        c.expect(not rep2["check"], "c50.check-taptweak", "CheckTapTweak accepted a different merkle root")
    rep = sut.call("taptweak", internal=internal, merkle_root=mr, check=chk)
    c.eq(rep["tweak"], tw.hex(), "c50.taptweak-hash", "ComputeTapTweakHash != H_TapTweak(internal || root)")
    c.eq(rep["ok"], res is not None, "c50.taptweak", "CreateTapTweak success != reference", internal=internal)
    if res is not None:
        c.eq(rep["output"], res[0].hex(), "c50.taptweak", "tweaked output key differs")
        c.eq(rep["parity"], bool(res[1]), "c50.taptweak", "output parity differs")
        if chk is not None:
            c.eq(rep["check"], wrong not in ("parity", "output"), "c50.check-taptweak", "CheckTapTweak verdict", wrong=wrong)
    c.nontrivial(True)
    c.mix(res is not None, mr is None, wrong, res[1] if res else None)
    c.cls("taptweak-valid" if res is not None else "taptweak-invalid-internal")
    c.note(f"taptweak internal_valid={res is not None} root={'none' if mr is None else 'set'} wrong={wrong}")


def c_ellswift_decode(sut, ex, c):
    ell = ex["ell"]
    x = ELL.xswiftec(S.FE(I(ell[:32])), S.FE(I(ell[32:])))
    rep = sut.call("ellswift_decode", ellswift=ell)
    c.eq(rep["pub"][2:], x.to_bytes().hex(), "c50.ellswift-decode", "decoded x coordinate differs from XSwiftEC(u, t)", ell=ell)
    u, t = I(ell[:32]), I(ell[32:])
    c.nontrivial(True)
    special = (S.FE(u) ** 3 + S.FE(t) ** 2 + 7 == 0)
    c.mix(u % P in (0, 1, P - 1) or u >= P, t % P in (0, 1, P - 1) or t >= P, special, u.bit_length() // 32, t.bit_length() // 32)
    if special:
        c.cls("ellswift-exceptional")
    if u % P == 0 or t % P == 0:
        c.cls("ellswift-zero")
    if u >= P or t >= P:
        c.cls("ellswift-unreduced")
    c.note(f"ellswift decode u={hex(u)[:12]}.. t={hex(t)[:12]}.. exceptional={special}")


def c_ellswift_create(sut, ex, c):
    d = I(ex["key"])
    rep = sut.call("ellswift_create", key=ex["key"], entropy=ex["entropy"])
    c.expect(rep["ok"], "c50.ellswift-create", "")
    ell = bytes.fromhex(rep["ellswift"])
    pt = d * S.G
    x = ELL.xswiftec(S.FE(I(ell[:32])), S.FE(I(ell[32:])))
    c.eq(x.to_bytes().hex(), pt.to_bytes_xonly().hex(), "c50.ellswift-create", "XSwiftEC(encoding) is not the public key's x", key=ex["key"])
    dec = sut.call("ellswift_decode", ellswift=ell)
    c.eq(dec["pub"], pt.to_bytes_compressed().hex(), "c50.ellswift-roundtrip", "Decode(EllSwiftCreate(key)) != pubkey(key)")
    c.nontrivial(True)
    c.mix(d if is_edge(d) else 0, ex["entropy"] == bytes(32))
    c.note(f"ellswift create key={'edge' if is_edge(d) else 'rand'}")


def c_ecdh(sut, ex, c):
    ours = bytes.fromhex(sut.call("ellswift_create", key=ex["key"], entropy=ex["entropy"])["ellswift"])
    theirs = ex["theirs"]
    rep = sut.call("bip324_ecdh", key=ex["key"], ours=ours, theirs=theirs, initiating=ex["initiating"])
    x = ELL.ellswift_ecdh_xonly(theirs, ex["key"])
    want = K.TaggedHash("bip324_ellswift_xonly_ecdh", (ours + theirs if ex["initiating"] else theirs + ours) + x)
    c.eq(rep["secret"], want.hex(), "c50.ecdh", "BIP324 shared secret differs", initiating=ex["initiating"], theirs=theirs)
    c.nontrivial(True)
    c.mix(ex["initiating"], I(theirs[:32]) >= P, I(theirs[32:]) >= P, I(theirs[:32]) % P == 0, I(theirs[32:]) % P == 0)
    c.note(f"bip324 ecdh initiating={ex['initiating']}")


check = e2.dispatch({"key": c_key, "pub": c_pub, "sign": c_sign, "verify": c_verify, "schnorr_sign": c_schnorr_sign, "schnorr_verify": c_schnorr_verify,
                     "taptweak": c_taptweak, "ellswift_decode": c_ellswift_decode, "ellswift_create": c_ellswift_create, "ecdh": c_ecdh})

if __name__ == "__main__":
    e2.main(__file__, strategy=cases(), check=check)
