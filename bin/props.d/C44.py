# C44: stage list (what ./check C44 quick|thorough runs) and manifest text. Helpers gen()/enum()/hyp()/custom() come from props.py.
SPEC = {
    'level': 'exploration',
    'assumptions': [
        'independent ledger (kits/walletsim): RefLedger replay of the active chain from genesis + node mempool, restricted to the scripts of the harness\' own expansion of the wallet descriptors (never CWallet::IsMine)',
        'trusted = confirmed, or in the mempool with every input spending a wallet output of a confirmed or (recursively) trusted transaction (documented getbalances definition); untrusted_pending = other mempool outputs; immature = coinbase outputs with fewer than 101 confirmations (wallet\'s documented COINBASE_MATURITY+1 rule)',
        'AvailableCoins() with a default CCoinControl and default filter = trusted, mature, value >= 1 sat',
        'comparison at quiescence: validation callbacks run on the scheduler thread as in production and are drained (SyncWithValidationInterfaceQueue) before every comparison',
        'wallet transactions that are neither confirmed, nor in the mempool, nor in conflict with the chain/mempool keep their inputs reserved by design; the harness abandons them (abandontransaction) before comparing. Transactions in conflict with the active chain or the mempool are never abandoned by the harness: the wallet must neutralise them itself',
        'regtest, descriptor wallet with 8 fixed ranged descriptors (4 output types x external/internal), histories <= 24 ops',
    ],
    'stages': [
        gen('vh_c44', 'c44_balances', 192, 3600, min_cases_quick=48, max_seconds_quick=900, max_seconds_thorough=7200,
            floors={'reorg': 0.25, 'reorg-disconnects-wallet-tx': 0.12, 'chain-conflicted-wallet-tx': 0.2, 'maturity-crossed': 0.15, 'untrusted-pending>0': 0.3,
                    'trusted-unconfirmed>0': 0.3, 'double-spend-confirmed': 0.15, 'rbf-replacement': 0.1, 'invalidate': 0.1, 'wallet-created-send': 0.1,
                    'attached-by-rescan': 0.2, 'double-conflict': 0.08, 'double-conflict-newer-block-disconnected': 0.03},
            rule='wallet histories; non-trivial = a reorg disconnected a block holding a wallet tx AND a wallet tx was conflicted by the active chain at a comparison'),
    ],
}

META = {
    'level_text': 'Generated histories (receives, wallet spends incl. unconfirmed chains, mixed-input spends, wallet-created sends, RBF replacements, blocks from mempool '
                  'subsets, double spends confirmed in blocks and on competing branches, 1-3 block reorgs, invalidate/reconsider, coinbase maturation across 99-101 '
                  'confirmations) on a real in-process regtest node with an attached descriptor wallet; after every step the wallet\'s trusted / untrusted_pending / '
                  'immature balances and AvailableCoins() must equal an independent ledger recomputed from the active chain (model replay from genesis) and the node '
                  'mempool. Exploration over bounded histories.',
    'technique': 'stateful property-based testing: operation histories vs independent ledger model (history invariant at quiescence)',
}
