# C28: stage list (what ./check C28 quick|thorough runs) and manifest text. Helpers gen()/enum()/hyp()/custom() come from props.py.
SPEC = {'level': 'exploration',
 'assumptions': ['verdict comparison only when the pool uses < 75 % of its maximum and no entry is old enough to expire (a real submission runs Expire/TrimToSize, a test does not); test and submission are back to back',
                 'verdict = result type + validation result code + reject reason (+ vsize and base fee when VALID); replaced-transaction lists are not compared (a test-accept does not report them)',
                 'consensus clause: VerifyScript of every input under P2SH|DERSIG|CLTV|CSV|WITNESS|NULLDUMMY|TAPROOT (deployments active on regtest at these heights); scripts come from the closed template set of the generator',
                 'the side-effect clause compares the complete PoolSnap (incl. memory usage and the mempool sequence number)'],
 'stages': [{'kind': 'gen',
             'binary': 'vh_c28',
             'target': 'c28_testaccept',
             'cases_quick': 800,
             'cases_thorough': 9000,
             'min_cases_quick': 60,
             'max_seconds_quick': 600,
             'max_seconds_thorough': 14400,
             'floors': {'pair-valid': 0.7, 'pair-invalid': 0.7, 'pair-valid-replacement': 0.1, 'pair-invalid-non-final': 0.15, 'pair-invalid-min relay fee not met': 0.2, 'reorg': 0.4},
             'rule': 'test-accept then submit on mempool histories; non-trivial = >= 3 compared pairs incl. one VALID and one INVALID with a pool of >= 3 entries at some test'}]}

META = {'level_text': 'On generated mempool histories every single-transaction submission (valid, RBF conflicts at the fee threshold, TRUC incl. sibling eviction, timelocks and coinbase spends at '
               'their boundaries, oversized, junk, re-submissions) is first test-accepted and then submitted. The complete pool snapshot must be identical before and after the test, the two '
               'verdicts must agree under the statement\'s guards, and every input of every transaction reported VALID is re-verified with VerifyScript under next-block consensus flags. '
               'Exploration over bounded histories.',
 'technique': 'stateful property-based testing: metamorphic pair (test-accept vs submit) + full-state digest comparison + differential script re-verification under consensus flags'}
