# C17: stage list (what ./check C17 quick|thorough runs) and manifest text. Helpers gen()/enum()/hyp()/custom() come from props.py.
SPEC = {'level': 'exploration',
 'assumptions': ['on-disk BlockManager with the -fastprune file sizes (64 KiB block files; a larger block gets its own file), no pruning: prune + re-download of the '
                 'design entry is not covered; 35% of the cases use on-disk block-tree/coins DBs and restart the node cleanly (flush, new node on a copy of the datadir) up to twice, '
                 'with every block and undo record re-read after the restart and after the writes that follow',
                 'faults are applied to the raw blk/rev files (below the XOR layer); the harness de-obfuscates with the key read from blocks/xor.dat itself',
                 'a length field changed to a value <= MAX_SIZE, and changed transaction bytes, may still yield a successful ReadBlock as long as the block hashes to the '
                 'indexed hash (ReadBlock does not re-check the merkle root; the connect clause is checked separately); ReadRawBlock is only required to fail on '
                 'magic / oversize length',
                 'connect clause: one flipped byte anywhere in the transaction region of a never-connected fork block EXCEPT the coinbase witness item (not covered by the '
                 'txid merkle root nor re-checked at connect time: known finding c17.corrupt-cbwitness-connected, replayed by stage c17_probe_cbwitness from the corpus; draws landing in that region are counted in class cbwitness-region-excluded); the fork is then given the most work'],
 'stages': [{'kind': 'gen',
             'binary': 'vh_c17',
             'target': 'c17_blockstore',
             'cases_quick': 900,
             'cases_thorough': 16000,
             'min_cases_quick': 250,
             'floors': {'multi-file': 0.3, 'reorg': 0.15, 'fault-magic': 0.08, 'fault-length': 0.08, 'fault-header': 0.08, 'fault-tx': 0.08,
                        'fault-undo-body': 0.05, 'fault-undo-checksum': 0.05, 'fault-truncate': 0.05, 'corrupt-fork-not-connected': 0.05, 'restart': 0.15, 'undo-written-after-restart': 0.12, 'precious-reorg': 0.05, 'flush': 0.15},
             'rule': 'block/undo write histories + raw-file faults; non-trivial = records in >=2 block files + undo written after a reorg + >=2 fault regions hit'},
            # regression-only stage (no generated cases): replays corpus/C17/c17_probe_cbwitness/* = the known finding c17.corrupt-cbwitness-connected
            gen('vh_c17', 'c17_probe_cbwitness', 0, 0, tiers=(),
                rule='probe of the coinbase-witness region that c17_blockstore excludes by construction (known finding; replayed from the corpus only)')]}

META = {'level_text': 'Generated block histories (250 B..70 KiB blocks, forks and reorgs so that undo data is written out of order, 64 KiB block files) on an '
               'in-process regtest node with on-disk block storage; after every step every block and undo record is read back through ReadBlock / ReadRawBlock / '
               'ReadBlockUndo and directly from the raw files (de-obfuscated by the harness) against the harness-side serialization, checksum and the '
               'spent coins of the RefLedger model. Then generated faults on the raw files (flips in magic / length / header / transaction bytes / undo body / undo '
               'checksum, truncation, zero tail): a byte diff against the pristine record decides which reads must fail and which may only return the indexed '
               'block; a fork block with a corrupted transaction byte must never enter the active chain. Exploration over bounded histories and single faults.',
 'technique': 'round-trip property-based testing with fault injection (byte-diff oracle derived from the statement)'}
