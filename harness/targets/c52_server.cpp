// C52 (server level) — see c52_http.cpp for the overview.
//
// c52_server : real HTTPServer I/O thread over mocked sockets (DynSock; accepted peers appear as 5.5.5.5:6789).
//   * allow list: generated -rpcallowip entries (single hosts, prefixes, netmask forms, IPv6 entries) are evaluated by an own CIDR
//     reference for 5.5.5.5; not allowed => the connection is closed without reading, dispatching or answering; allowed => served.
//   * the same request stream (clearly valid / one defect, always followed by a closing sentinel request) is delivered twice, once in
//     one piece and once in generated pieces (each piece only after the server consumed the previous one); the dispatched sequence and
//     the reply status lines must be identical.
// c52_auth   : production stack on a loopback TCP port: InitHTTPServer + StartHTTPServer + StartHTTPRPC with -rpcuser/-rpcpassword and
//   two -rpcauth entries; a probe RPC command counts executions. Generated Authorization headers: executed (counter +1, status 200)
//   only if one presented credential pair is configured; no valid credential => 401 and counter unchanged; the canonical form
//   "Basic base64(user:password)" of a configured pair is always executed.
#include <engine/verif.h>

#include <chainparams.h>
#include <common/args.h>
#include <httprpc.h>
#include <httpserver.h>
#include <netbase.h>
#include <rpc/protocol.h>
#include <rpc/server.h>
#include <rpc/util.h>
#include <test/util/net.h>
#include <univalue.h>
#include <util/chaintype.h>
#include <util/time.h>

#include <arpa/inet.h>
#include <netinet/in.h>
#include <netinet/tcp.h>
#include <sys/socket.h>
#include <unistd.h>

#include <atomic>
#include <chrono>
#include <cstring>
#include <memory>
#include <any>
#include <mutex>
#include <set>
#include <string>
#include <thread>
#include <vector>

namespace {
using http_bitcoin::HTTPRequest;
using http_bitcoin::HTTPServer;
using namespace std::chrono_literals;

struct Rng {
    uint64_t x;
    explicit Rng(uint64_t seed) : x(seed ^ 0x0badc0ffee123457ULL) {}
    uint64_t next() { uint64_t z = (x += 0x9e3779b97f4a7c15ULL); z = (z ^ (z >> 30)) * 0xbf58476d1ce4e5b9ULL; z = (z ^ (z >> 27)) * 0x94d049bb133111ebULL; return z ^ (z >> 31); }
    uint64_t below(uint64_t n) { return n ? next() % n : 0; }
};

DynSock::Queue g_accept_queue;

void init_server()
{
    SelectParams(ChainType::REGTEST);
    CreateSock = [](int, int, int) { return std::make_unique<DynSock>(std::make_shared<DynSock::Pipes>(), &g_accept_queue); };
}

void set_allow_list(const std::vector<std::string>& entries)
{
    gArgs.LockSettings([&](common::Settings& settings) {
        if (entries.empty()) { settings.forced_settings.erase("rpcallowip"); return; }
        UniValue arr(UniValue::VARR);
        for (auto& e : entries) arr.push_back(e);
        settings.forced_settings["rpcallowip"] = arr;
    });
}

struct Seen { std::string method_target; std::string body; std::string headers; };

struct Session {
    std::vector<Seen> dispatched;
    std::vector<int> statuses; // status codes of the replies, in order
    bool sentinel{false};
    bool closed_without_reply{false};
    bool timeout{false};
    int phase{0};
    size_t conns_at_end{0};
    std::string raw_replies;
};

/** One server life: start, connect the mock peer, deliver `stream` in pieces, wait for the end marker, shut down. */
Session run_session(const std::string& stream, const std::vector<size_t>& cuts)
{
    Session out;
    std::mutex mu;
    std::atomic<bool> sentinel{false};
    HTTPServer server{[&](std::unique_ptr<HTTPRequest>&& handed_over) {
        std::unique_ptr<HTTPRequest> req{std::move(handed_over)}; // the dispatcher takes ownership (the server re-dispatches a request it still holds)
        {
            std::lock_guard<std::mutex> l(mu);
            if (req->m_target == "/__end__") sentinel = true;
            else out.dispatched.push_back({std::to_string(int(req->m_method)) + " " + req->m_target + " 1." + std::to_string(req->m_version.minor), req->m_body, req->m_headers.Stringify()});
        }
        req->WriteReply(HTTP_OK, "ok\n");
    }};
    bool ok = server.InitHTTPAllowList();
    VCHECK(ok, "c52.allowlist-config", "generated -rpcallowip list was refused");
    auto bound = server.BindAndStartListening(CService{LookupHost("0.0.0.0", false).value(), 0});
    VCHECK(bound.has_value(), "c52.allowlist-config", "mock bind failed");
    server.StartSocketsThreads();
    auto pipes = std::make_shared<DynSock::Pipes>();
    g_accept_queue.Push(std::make_unique<DynSock>(pipes));

    std::string replies;
    bool eof = false;
    auto drain_replies = [&] {
        char buf[4096];
        for (;;) {
            ssize_t n = pipes->send.GetBytes(buf, sizeof buf, 0);
            if (n > 0) { replies.append(buf, size_t(n)); continue; }
            if (n == 0) eof = true;
            break;
        }
    };
    auto recv_drained = [&] { uint8_t b; return pipes->recv.GetBytes(&b, 1, MSG_PEEK) < 0; };
    const auto t0 = std::chrono::steady_clock::now();
    auto expired = [&] { return std::chrono::steady_clock::now() - t0 > 60s; };

    size_t pos = 0;
    for (size_t k = 0; k <= cuts.size() && !eof; ++k) {
        size_t end = k < cuts.size() ? cuts[k] : stream.size();
        if (end <= pos) continue;
        pipes->recv.PushBytes(stream.data() + pos, end - pos);
        pos = end;
        // the next piece goes out only after the server took this one (or gave up on the connection)
        while (!recv_drained() && !eof && !expired()) { drain_replies(); std::this_thread::sleep_for(1ms); }
        if (expired()) out.phase = 1;
    }
    while (!sentinel && !eof && !expired()) { drain_replies(); std::this_thread::sleep_for(1ms); }
    if (expired() && !out.phase) out.phase = 2;
    out.conns_at_end = server.GetConnectionsCount();
    // let the final reply / close arrive
    for (int i = 0; i < 2000 && !eof && !expired(); ++i) { drain_replies(); if (sentinel && replies.find("ok\n") != std::string::npos && server.GetConnectionsCount() == 0) break; std::this_thread::sleep_for(1ms); }
    drain_replies();
    out.timeout = expired();
    out.sentinel = sentinel;
    // orderly shutdown (as StopHTTPServer does)
    server.StopAccepting();
    server.DisconnectAllClients();
    for (int i = 0; i < 30000 && server.GetConnectionsCount() != 0; ++i) std::this_thread::sleep_for(1ms);
    server.InterruptNet();
    server.JoinSocketsThreads();
    server.ClearConnectedClients();
    server.StopListening();
    while (auto left = g_accept_queue.Pop()) {} // a refused peer may still sit in the queue if the server never looked
    drain_replies();
    // status lines
    size_t p = 0;
    while ((p = replies.find("HTTP/1.", p)) != std::string::npos) {
        if (p + 12 <= replies.size() && replies[p + 8] == ' ') out.statuses.push_back(atoi(replies.c_str() + p + 9));
        p += 8;
    }
    out.closed_without_reply = replies.empty();
    out.raw_replies = replies;
    return out;
}

// own CIDR reference for the fixed mock peer 5.5.5.5
bool ref_contains_peer(const uint8_t net[4], int L)
{
    const uint8_t peer[4] = {5, 5, 5, 5};
    for (int i = 0; i < L; ++i) if (((net[i / 8] >> (7 - i % 8)) & 1) != ((peer[i / 8] >> (7 - i % 8)) & 1)) return false;
    return true;
}

std::string simple_request(verif::Src& s, Rng& r, bool& keeps_alive, int& defect_status)
{
    static const char* const M[] = {"GET", "POST", "HEAD", "PUT"};
    static const char* const T[] = {"/", "/rest/x.json", "/wallet/w?a=1", "/a/b"};
    int minor = s.boolean() ? 1 : 0;
    std::string req = std::string(M[s.index(4)]) + " " + T[s.index(4)] + " HTTP/1." + std::to_string(minor) + "\r\n";
    keeps_alive = minor == 1;
    if (minor == 0 && s.boolean()) { req += "Connection: keep-alive\r\n"; keeps_alive = true; }
    req += "Host: h\r\n";
    defect_status = 0;
    unsigned framing = s.range<unsigned>(0, 4);
    std::string body;
    size_t n = s.pick<size_t>({0, 1, 7, 40, 200});
    for (size_t i = 0; i < n; ++i) body.push_back(char('a' + r.below(26)));
    if (framing == 1) req += "Content-Length: " + std::to_string(body.size()) + "\r\n\r\n" + body;
    else if (framing == 2) {
        req += "Transfer-Encoding: chunked\r\n\r\n";
        size_t off = 0;
        while (off < body.size()) { size_t len = std::min<size_t>(body.size() - off, 1 + r.below(16)); char h[16]; snprintf(h, sizeof h, "%zx", len); req += std::string(h) + "\r\n" + body.substr(off, len) + "\r\n"; off += len; }
        req += "0\r\n\r\n";
    } else if (framing == 3) { req += "NoColonHere\r\n\r\n"; defect_status = 400; }
    else if (framing == 4) { req += "Content-Length: 33554433\r\n\r\n"; defect_status = 413; }
    else req += "\r\n";
    return req;
}

} // namespace

VERIF_TARGET(c52_server, init_server, 8, 64,
             "real HTTPServer thread over mock sockets: generated -rpcallowip lists (hosts / prefixes / netmasks around 5.5.5.5, IPv6 entries) vs own CIDR "
             "reference for the mock peer; 1-3 pipelined requests (+ closing sentinel) delivered whole and in generated pieces; non-trivial = peer allowed, >= 2 "
             "requests and >= 3 pieces, or peer refused by a non-empty list; distinct = list shape, request kinds, cuts")
{
    Rng r(s.ConsumeIntegral<uint64_t>());
    SetMockTime(1733878029);
    // ---- allow list
    std::vector<std::string> entries;
    bool allowed = false;
    size_t nent = s.chance(24) ? 0 : 1 + s.index(3);
    for (size_t i = 0; i < nent; ++i) {
        uint8_t net[4] = {5, 5, 5, 5};
        int L = s.pick<int>({32, 31, 30, 24, 23, 16, 9, 8, 6, 1, 0, 32, 25});
        unsigned how = s.range<unsigned>(0, 8);
        if (how == 3) how = 0; else if (how == 0) how = 3; // the simplest choice (0) keeps the peer's own address
        if (how == 0) { int bit = int(s.index(32)); net[bit / 8] ^= uint8_t(0x80 >> (bit % 8)); }     // differs from the peer in one bit
        if (how == 1) { net[3] = uint8_t(r.below(256)); net[2] = uint8_t(r.below(256)); }
        if (how == 2) { std::string e = s.pick<const char*>({"::/0", "::ffff:5.5.5.5", "2001:db8::/32", "::1", "fe80::/10"}); entries.push_back(e);
                        if (e == "::ffff:5.5.5.5") allowed = true; /* documented: the mapped form is the IPv4 address itself */ st.cls("allow-entry-ipv6"); continue; }
        bool contains = ref_contains_peer(net, L);
        char buf[64];
        if (s.boolean() || L == 0) snprintf(buf, sizeof buf, "%u.%u.%u.%u/%d", net[0], net[1], net[2], net[3], L);
        else { uint32_t m = L == 0 ? 0 : 0xffffffffu << (32 - L); snprintf(buf, sizeof buf, "%u.%u.%u.%u/%u.%u.%u.%u", net[0], net[1], net[2], net[3], m >> 24, (m >> 16) & 255, (m >> 8) & 255, m & 255); st.cls("allow-entry-netmask"); }
        std::string e = buf;
        if (L == 32 && s.boolean()) e = e.substr(0, e.find('/'));
        entries.push_back(e);
        if (contains) allowed = true;
        st.mix(uint64_t(L)); st.mix(uint64_t(contains));
    }
    set_allow_list(entries);
    // ---- stream
    std::string stream;
    size_t nreq = 1 + s.index(3);
    std::vector<size_t> req_ends;
    size_t expect_dispatch = 0;
    bool alive = true;
    int expect_error = 0;
    for (size_t i = 0; i < nreq; ++i) {
        bool ka; int defect;
        stream += simple_request(s, r, ka, defect);
        req_ends.push_back(stream.size());
        if (alive && !expect_error) { if (defect) expect_error = defect; else { expect_dispatch++; if (!ka) alive = false; } }
    }
    stream += "GET /__end__ HTTP/1.1\r\nConnection: close\r\n\r\n";
    std::vector<size_t> cuts;
    { std::set<size_t> cs; size_t pieces = 2 + s.index(5); for (size_t i = 0; i < pieces; ++i) cs.insert(1 + r.below(stream.size() - 1)); if (s.boolean()) for (size_t e : req_ends) cs.insert(e); cuts.assign(cs.begin(), cs.end()); }
    std::string lst;
    for (auto& e : entries) lst += e + " ";
    st.note("allow [", lst, "] ref_allowed=", allowed, " requests=", nreq, " bytes=", stream.size(), " pieces=", cuts.size() + 1);

    Session a = run_session(stream, {});
    st.steps++;
    if (a.timeout) {
        std::string esc;
        for (unsigned char ch : stream) { if (ch == '\r') esc += "\\r"; else if (ch == '\n') esc += "\\n"; else esc.push_back(char(ch)); }
        st.note("TIMEOUT phase=", a.phase, " conns=", a.conns_at_end, " dispatched=", a.dispatched.size(), " replies=", a.raw_replies.size(), " stream=", esc);
        st.cls("server-timeout"); set_allow_list({}); SetMockTime(0); return;
    }
    if (!allowed) {
        VCHECK(a.dispatched.empty() && !a.sentinel, "c52.allowlist", "peer 5.5.5.5 is outside every -rpcallowip entry [", lst, "] but requests were dispatched");
        VCHECK(a.closed_without_reply, "c52.allowlist", "peer outside the allow list received a reply");
        st.cls("peer-refused");
        st.nontrivial = !entries.empty();
        set_allow_list({});
        SetMockTime(0);
        return;
    }
    st.cls("peer-allowed");
    // reference for the simple grammar: requests up to the first close / defect are dispatched
    VCHECK(a.dispatched.size() == expect_dispatch, "c52.server-reference", "dispatched", a.dispatched.size(), "expected", expect_dispatch, "of", nreq, "requests");
    if (expect_error) VCHECK(!a.statuses.empty() && a.statuses.back() == expect_error, "c52.server-reference", "defective request answered with", a.statuses.empty() ? 0 : a.statuses.back(), "expected", expect_error);
    Session b = run_session(stream, cuts);
    st.steps++;
    if (b.timeout) { st.cls("server-timeout"); set_allow_list({}); SetMockTime(0); return; }
    VCHECK(a.dispatched.size() == b.dispatched.size(), "c52.fragmentation-invariance", "server dispatched", a.dispatched.size(), "requests unfragmented but", b.dispatched.size(), "in", cuts.size() + 1, "pieces");
    for (size_t i = 0; i < a.dispatched.size(); ++i) {
        VCHECK(a.dispatched[i].method_target == b.dispatched[i].method_target && a.dispatched[i].body == b.dispatched[i].body && a.dispatched[i].headers == b.dispatched[i].headers,
               "c52.fragmentation-invariance", "request", i, "differs between deliveries:", a.dispatched[i].method_target, "vs", b.dispatched[i].method_target);
    }
    VCHECK(a.statuses == b.statuses && a.sentinel == b.sentinel, "c52.fragmentation-invariance", "reply statuses differ between deliveries");
    if (expect_error) st.cls(expect_error == 400 ? "server-400" : "server-413");
    if (a.dispatched.size() >= 2) st.cls("server-pipelined");
    st.mix(uint64_t(nreq)); st.mix(uint64_t(expect_dispatch)); st.mix(uint64_t(expect_error)); st.mix(uint64_t(cuts.size()));
    st.nontrivial = nreq >= 2 && cuts.size() >= 2;
    set_allow_list({});
    SetMockTime(0);
}

// ================================================================================================ c52_auth
namespace {
std::atomic<int> g_probe_count{0};
uint16_t g_port{0};

RPCMethod vprobe()
{
    return RPCMethod{"vprobe", "verification probe: counts executions\n", {}, RPCResult{RPCResult::Type::NUM, "", "count"}, RPCExamples{""},
                     [](const RPCMethod&, const JSONRPCRequest&) -> UniValue { return ++g_probe_count; }};
}

void stop_auth_server()
{
    http_bitcoin::InterruptHTTPServer();
    StopHTTPRPC();
    http_bitcoin::StopHTTPServer();
}

/** both loopback addresses must be free, otherwise another process could answer on 127.0.0.1 while we only got ::1 */
bool port_free(uint16_t port)
{
    int fd = socket(AF_INET, SOCK_STREAM, 0);
    if (fd < 0) return false;
    sockaddr_in sa{};
    sa.sin_family = AF_INET;
    sa.sin_port = htons(port);
    sa.sin_addr.s_addr = htonl(INADDR_LOOPBACK);
    bool ok = bind(fd, reinterpret_cast<sockaddr*>(&sa), sizeof sa) == 0;
    close(fd);
    return ok;
}

void init_auth()
{
    SelectParams(ChainType::REGTEST);
    gArgs.ForceSetArg("-rpcuser", "u0");
    gArgs.ForceSetArg("-rpcpassword", "pw0");
    gArgs.LockSettings([&](common::Settings& settings) {
        UniValue arr(UniValue::VARR);
        arr.push_back("alice:f0e1d2c3b4a59687$f28da836353c49442df58516776ab2efea10ba8675e270c40427449c49f907a9"); // password "s3cr:et"
        arr.push_back("bob:00ff00ff$9e559083c2eae18237a66d5c4e08f9a191b18b783561e648284b9c6758f55b89");           // empty password
        settings.forced_settings["rpcauth"] = arr;
    });
    gArgs.ForceSetArg("-rpcthreads", "2");
    bool up = false;
    for (int attempt = 0; attempt < 40 && !up; ++attempt) {
        g_port = uint16_t(21000 + (uint32_t(getpid()) * 7 + uint32_t(attempt) * 1013) % 20000);
        if (!port_free(g_port)) continue;
        gArgs.ForceSetArg("-rpcport", std::to_string(g_port));
        up = http_bitcoin::InitHTTPServer();
    }
    if (!up) { fprintf(stderr, "c52_auth: cannot bind a loopback port\n"); _exit(3); }
    static const CRPCCommand cmd{"hidden", &vprobe};
    tableRPC.appendCommand("vprobe", &cmd);
    SetRPCWarmupFinished();
    StartRPC();
    if (!StartHTTPRPC(std::any{})) { fprintf(stderr, "c52_auth: StartHTTPRPC failed\n"); _exit(3); }
    http_bitcoin::StartHTTPServer();
    atexit(stop_auth_server);
}

std::string b64(const std::string& in, bool pad = true)
{
    static const char* A = "ABCDEFGHIJKLMNOPQRSTUVWXYZabcdefghijklmnopqrstuvwxyz0123456789+/";
    std::string o;
    size_t i = 0;
    for (; i + 2 < in.size(); i += 3) { uint32_t v = (uint8_t(in[i]) << 16) | (uint8_t(in[i + 1]) << 8) | uint8_t(in[i + 2]); o += A[v >> 18]; o += A[(v >> 12) & 63]; o += A[(v >> 6) & 63]; o += A[v & 63]; }
    if (in.size() - i == 1) { uint32_t v = uint8_t(in[i]) << 16; o += A[v >> 18]; o += A[(v >> 12) & 63]; if (pad) o += "=="; }
    if (in.size() - i == 2) { uint32_t v = (uint8_t(in[i]) << 16) | (uint8_t(in[i + 1]) << 8); o += A[v >> 18]; o += A[(v >> 12) & 63]; o += A[(v >> 6) & 63]; if (pad) o += "="; }
    return o;
}

/** send the request over a fresh loopback connection in pieces; return the full reply (until the server closes) */
std::string http_exchange(const std::string& req, const std::vector<size_t>& cuts)
{
    int fd = socket(AF_INET, SOCK_STREAM, 0);
    if (fd < 0) return "";
    sockaddr_in sa{};
    sa.sin_family = AF_INET;
    sa.sin_port = htons(g_port);
    sa.sin_addr.s_addr = htonl(INADDR_LOOPBACK);
    timeval tv{20, 0};
    setsockopt(fd, SOL_SOCKET, SO_RCVTIMEO, &tv, sizeof tv);
    int one = 1;
    setsockopt(fd, IPPROTO_TCP, TCP_NODELAY, &one, sizeof one);
    if (connect(fd, reinterpret_cast<sockaddr*>(&sa), sizeof sa) != 0) { close(fd); return ""; }
    size_t pos = 0;
    for (size_t k = 0; k <= cuts.size(); ++k) {
        size_t end = k < cuts.size() ? cuts[k] : req.size();
        if (end <= pos) continue;
        ssize_t w = send(fd, req.data() + pos, end - pos, MSG_NOSIGNAL);
        if (w < 0) break;
        pos = end;
        if (k < cuts.size()) std::this_thread::sleep_for(2ms);
    }
    std::string reply;
    char buf[4096];
    for (;;) { ssize_t n = recv(fd, buf, sizeof buf, 0); if (n <= 0) break; reply.append(buf, size_t(n)); }
    close(fd);
    return reply;
}

struct Cred { const char* user; const char* pass; };
const Cred CONFIGURED[] = {{"u0", "pw0"}, {"alice", "s3cr:et"}, {"bob", ""}};
bool ref_configured(const std::string& user, const std::string& pass)
{
    for (auto& c : CONFIGURED) if (user == c.user && pass == c.pass) return true;
    return false;
}
} // namespace

VERIF_TARGET(c52_auth, init_auth, 8, 48,
             "JSON-RPC over the real server on loopback: generated Authorization headers (configured / near-miss user:password pairs, scheme and base64 "
             "variants, missing / duplicated headers) on POST / with a probe command; executed only with a configured credential pair, 401 + not executed "
             "otherwise, canonical valid form always executed; non-trivial = a near-miss or malformed credential was refused or a valid one executed over >= 2 "
             "pieces; distinct = header form, credential relation, method")
{
    Rng r(s.ConsumeIntegral<uint64_t>());
    unsigned form = s.range<unsigned>(0, 13);
    const Cred& c = CONFIGURED[s.index(3)];
    std::string user = c.user, pass = c.pass;
    std::vector<std::string> auth_lines;
    bool any_valid = false;      // a presented (user, pass) pair is configured
    bool canonical_valid = false; // single header "Authorization: Basic <padded base64 of configured pair>"
    const char* label;
    switch (form) {
    case 0: case 1: label = "valid-canonical"; auth_lines.push_back("Authorization: Basic " + b64(user + ":" + pass)); any_valid = canonical_valid = true; break;
    case 2: { label = "wrong-password";
        std::string p = pass;
        switch (s.range<unsigned>(0, 4)) { case 0: p += "x"; break; case 1: if (!p.empty()) p.pop_back(); else p = " "; break; case 2: if (!p.empty()) p[0] ^= 0x20; else p = "0"; break; case 3: p = "pw0" == p ? "s3cr:et" : "pw0"; break; default: p = p + ":" ; }
        auth_lines.push_back("Authorization: Basic " + b64(user + ":" + p)); any_valid = ref_configured(user, p); break; }
    case 3: { label = "wrong-user"; std::string u = s.pick<const char*>({"u1", "U0", "alice ", "", "bobby", "u0:pw0"}); auth_lines.push_back("Authorization: Basic " + b64(u + ":" + pass));
        { std::string up = u + ":" + pass; size_t k = up.find(':'); any_valid = ref_configured(up.substr(0, k), up.substr(k + 1)); } break; }
    case 4: label = "no-header"; break;
    case 5: label = "no-colon"; auth_lines.push_back("Authorization: Basic " + b64(user + pass)); any_valid = false;
        { std::string up = user + pass; size_t k = up.find(':'); if (k != std::string::npos) any_valid = ref_configured(up.substr(0, k), up.substr(k + 1)); } break;
    case 6: label = "bad-base64"; auth_lines.push_back(std::string("Authorization: Basic ") + s.pick<const char*>({"!!!!", "dTA6cHcw*", "=", "dTA6cH cw"})); break;
    case 7: label = "other-scheme"; auth_lines.push_back(std::string("Authorization: ") + s.pick<const char*>({"Bearer ", "Digest ", "Basic", ""}) + b64(user + ":" + pass)); any_valid = true; /* credentials are right; refusing is allowed */ break;
    case 8: label = "scheme-case-or-space"; auth_lines.push_back(std::string("Authorization: ") + s.pick<const char*>({"basic ", "BASIC ", "Basic  ", "Basic \t"}) + b64(user + ":" + pass) + (s.boolean() ? " " : "")); any_valid = true; break;
    case 9: label = "unpadded-base64"; auth_lines.push_back("Authorization: Basic " + b64(user + ":" + pass, false)); any_valid = true; break;
    case 10: label = "two-headers-valid-first"; auth_lines.push_back("Authorization: Basic " + b64(user + ":" + pass)); auth_lines.push_back("Authorization: Basic " + b64("u0:nope")); any_valid = true; break;
    case 11: label = "two-headers-invalid-first"; auth_lines.push_back("Authorization: Basic " + b64("u0:nope")); auth_lines.push_back("Authorization: Basic " + b64(user + ":" + pass)); any_valid = true; break;
    case 12: label = "header-name-case"; auth_lines.push_back(std::string(s.pick<const char*>({"AUTHORIZATION", "authorization", "AuThOrIzAtIoN"})) + ": Basic " + b64(user + ":" + pass)); any_valid = canonical_valid = true; break;
    default: label = "password-of-other-user"; { const Cred& o = CONFIGURED[(s.index(2) + 1 + (&c - CONFIGURED)) % 3]; auth_lines.push_back("Authorization: Basic " + b64(user + ":" + o.pass)); any_valid = ref_configured(user, o.pass); } break;
    }
    bool post = !s.chance(30);
    std::string body = "{\"jsonrpc\":\"2.0\",\"id\":" + std::to_string(r.below(1000)) + ",\"method\":\"vprobe\",\"params\":[]}";
    std::string req = std::string(post ? "POST" : s.pick<const char*>({"GET", "PUT", "HEAD"})) + " / HTTP/1.1\r\nHost: 127.0.0.1\r\nConnection: close\r\n";
    size_t where = s.index(3);
    if (where == 0) for (auto& l : auth_lines) req += l + "\r\n";
    req += "Content-Type: application/json\r\n";
    if (where == 1) for (auto& l : auth_lines) req += l + "\r\n";
    req += "Content-Length: " + std::to_string(body.size()) + "\r\n";
    if (where == 2) for (auto& l : auth_lines) req += l + "\r\n";
    req += "\r\n" + body;
    std::vector<size_t> cuts;
    { std::set<size_t> cs; size_t pieces = s.index(4); for (size_t i = 0; i < pieces; ++i) cs.insert(1 + r.below(req.size() - 1)); cuts.assign(cs.begin(), cs.end()); }

    int before = g_probe_count.load();
    std::string reply = http_exchange(req, cuts);
    int delta = g_probe_count.load() - before;
    int status = reply.size() >= 12 && reply.compare(0, 7, "HTTP/1.") == 0 ? atoi(reply.c_str() + 9) : 0;
    st.steps++;
    st.cls(std::string("auth-") + label);
    st.note(post ? "POST " : "non-POST ", label, " pieces=", cuts.size() + 1, " -> status ", status, " executed=", delta);
    if (status == 0) { st.cls("auth-no-reply-timeout"); return; } // overloaded machine: no verdict rather than a false alarm
    VCHECK(delta == 0 || delta == 1, "c52.auth-gate", "probe executed", delta, "times for one request");
    if (delta == 1) VCHECK(any_valid && post, "c52.auth-gate", "RPC executed without a configured credential pair; form", label, "status", status);
    if (post && !any_valid) VCHECK(status == 401 && delta == 0, "c52.auth-gate", "request without valid credentials got status", status, "executed", delta, "form", label);
    if (post && canonical_valid) VCHECK(status == 200 && delta == 1, "c52.auth-accepts", "canonical valid credentials refused: status", status, "form", label);
    if (!post) VCHECK(delta == 0, "c52.auth-gate", "non-POST request executed an RPC");
    if (delta == 1) st.cls("rpc-executed"); else if (status == 401) st.cls("refused-401");
    st.mix(form); st.mix(uint64_t(post)); st.mix(uint64_t(status)); st.mix(uint64_t(cuts.size())); st.mix(uint64_t(&c - CONFIGURED)); st.mix(where);
    st.nontrivial = (post && !any_valid && !auth_lines.empty()) || (delta == 1 && cuts.size() >= 1);
}
