#!/usr/bin/env python3
"""Orchestrator (DESIGN.md §3.7):  ./check <Cxx> quick|thorough   |   ./check <Cxx> --replay <file>

Exit 0: property held on everything explored. Exit 1 + `VIOLATION property=<id> replay=<path>`: violation.
Exit 2: broken run (build failure, degenerate generator, too few cases) -- never a violation.
"""
import fcntl
import glob
import hashlib
import json
import os
import re
import shutil
import struct
import subprocess
import sys
import time

VERIF = os.path.dirname(os.path.dirname(os.path.abspath(__file__)))
sys.path.insert(0, os.path.join(VERIF, "bin"))
import props  # noqa: E402

BUILD = os.path.join(VERIF, "build")
def _default_jobs():
    # 16 workers on an idle machine; fewer when the machine is already oversubscribed (same cases either way: case i is a
    # function of (seed, target, i), workers only partition the index space)
    try:
        load = os.getloadavg()[0]
    except OSError:
        load = 0
    return 16 if load < 32 else (8 if load < 96 else 4)


NPROC = int(os.environ.get("VERIF_JOBS", "0") or "0") or _default_jobs()
PYVT = shutil.which("python3-vt") or "/opt/veriftools/pyvenv/bin/python3"


def log(*a):
    print(*a, flush=True)


def env_for_runs():
    e = dict(os.environ)
    tmp = os.path.join(BUILD, "work", "tmp")
    os.makedirs(tmp, exist_ok=True)
    e["TMPDIR"] = tmp
    e["CCACHE_DIR"] = os.path.join(BUILD, "ccache")
    e.setdefault("ASAN_OPTIONS", "detect_leaks=0:abort_on_error=0:handle_abort=0:allocator_may_return_null=1:malloc_context_size=8:quarantine_size_mb=16")
    e.setdefault("UBSAN_OPTIONS", "print_stacktrace=1:halt_on_error=1")
    e["PYTHONDONTWRITEBYTECODE"] = "1"
    return e


def ensure_configured(cfg):
    bdir = os.path.join(BUILD, cfg)
    if os.path.exists(os.path.join(bdir, "build.ninja")):
        return True
    r = subprocess.run([os.path.join(VERIF, "bin", "configure.sh"), cfg], env=env_for_runs())
    return r.returncode == 0


def build(cfg, ninja_targets):
    """Incremental rebuild from /repo's working tree; serialised + combined per build tree (bin/vbuild.py)."""
    import vbuild
    t0 = time.time()
    rc, out = vbuild.build(cfg, list(ninja_targets), quiet=True)
    if rc != 0:
        return False, out[-6000:]
    log(f"[build] {cfg} {' '.join(ninja_targets)} ok in {time.time() - t0:.1f}s")
    return True, ""


# ------------------------------------------------------------------------------------------------
# failure signatures

def signature_from_stderr(text):
    """Oracle id for a worker/replay that died: ORACLE-FAIL id, or abort:<signature>."""
    m = re.search(r"ORACLE-FAIL (\S+) ?(.*)", text)
    if m:
        return m.group(1), m.group(2).strip()[:2000]
    for pat, kind in ((r"(\S+:\d+)[^\n]*Assertion `([^\n]*)' failed", "assert"),
                      (r"Assertion failed[^\n]*", "assert"),
                      (r"(\S+:\d+:\d+): runtime error: ([^\n]*)", "ubsan"),
                      (r"SUMMARY: AddressSanitizer: (\S+) (\S+)", "asan"),
                      (r"SUMMARY: ThreadSanitizer: ([^\n]*)", "tsan"),
                      (r"terminate called after throwing an instance of '([^']*)'", "exception"),
                      (r"Internal bug detected[^\n]*", "internal-bug"),
                      (r"([^\n]*\bAssume\b[^\n]*)", "assume")):
        m = re.search(pat, text)
        if m:
            sig = re.sub(r"0x[0-9a-f]+", "0x?", m.group(0))[:300]
            ident = kind + ":" + re.sub(r"[^A-Za-z0-9_.:+-]+", "_", " ".join(g for g in m.groups() if g) if m.groups() else sig)[:120]
            return "abort:" + ident, sig
    return "abort:unknown", text[-400:].strip()


class Failure:
    def __init__(self, stage, oracle, msg, input_path, fmt):
        self.stage, self.oracle, self.msg, self.input_path, self.fmt = stage, oracle, msg, input_path, fmt


# ------------------------------------------------------------------------------------------------
# stage runners. Worker protocol: writes stats-<name>-W.json, shapes-<name>-W.bin; on failure exit!=0 and
# fail-<name>-W.{bin,json} + fail-<name>-W.txt (or, for aborts, current-<name>-W.bin).

def replay_cmd(stage, path):
    k = stage["kind"]
    if k == "fuzz":
        return [os.path.join(BUILD, "san", "vh", stage["binary"]), "--target", stage["target"], "--replay", path]
    if k in ("gen", "enum"):
        exe = os.path.join(BUILD, stage.get("cfg", "san"), "vh", stage["binary"])
        flag = "--replay-enum" if (k == "enum" or path.endswith(".enum")) else "--replay"
        return [exe, "--target", stage["target"], flag, path]
    if k == "hyp":
        return [PYVT, os.path.join(VERIF, "py", stage["module"]), "--replay", path]
    if k == "custom":
        return [os.path.join(VERIF, stage["script"]), "--replay", path]
    raise ValueError(k)


def run_replay(stage, path, timeout=900):
    """-> (failed?, oracle, msg, output)"""
    try:
        r = subprocess.run(replay_cmd(stage, path), env=env_for_runs(), stdout=subprocess.PIPE, stderr=subprocess.PIPE,
                           text=True, errors="replace", timeout=timeout)
    except subprocess.TimeoutExpired:
        return False, "timeout", "", ""
    out = r.stdout + "\n" + r.stderr
    if r.returncode == 0 and "REPLAY-OK" in r.stdout:
        return False, "", "", out
    oracle, msg = signature_from_stderr(r.stderr + "\n" + r.stdout)
    return True, oracle, msg, out


def worker_cmd(stage, tier, seed, w, nworkers, outdir):
    k = stage["kind"]
    n = stage.get("cases_" + tier, stage.get("cases", 1000))
    maxs = stage.get("max_seconds_" + tier, stage.get("max_seconds", 0))
    if k == "gen":
        exe = os.path.join(BUILD, stage.get("cfg", "san"), "vh", stage["binary"])
        c = [exe, "--target", stage["target"], "--gen", "--seed", str(seed), "--worker", str(w), "--nworkers", str(nworkers),
             "--cases", str(n), "--out", outdir]
        if maxs:
            c += ["--max-seconds", str(maxs)]
        return c
    if k == "enum":
        exe = os.path.join(BUILD, stage.get("cfg", "san"), "vh", stage["binary"])
        c = [exe, "--target", stage["target"], "--enumerate", "--worker", str(w), "--nworkers", str(nworkers), "--out", outdir]
        if maxs:
            c += ["--max-seconds", str(maxs)]
        return c
    if k == "hyp":
        c = [PYVT, os.path.join(VERIF, "py", stage["module"]), "--seed", str(seed), "--worker", str(w), "--nworkers", str(nworkers),
             "--examples", str(n), "--out", outdir, "--tier", tier]
        if maxs:
            c += ["--max-seconds", str(maxs)]
        return c
    if k == "custom":
        return [os.path.join(VERIF, stage["script"]), "--seed", str(seed), "--worker", str(w), "--nworkers", str(nworkers),
                "--cases", str(n), "--out", outdir, "--tier", tier] + (["--max-seconds", str(maxs)] if maxs else [])
    raise ValueError(k)


def stage_name(stage):
    if stage["kind"] == "fuzz":
        return "fuzz_" + stage["target"]
    return stage.get("target") or stage.get("name") or os.path.splitext(os.path.basename(stage.get("module", stage.get("script", "stage"))))[0]


def run_fuzz_stage(prop, stage, tier, seed, workdir):
    """libFuzzer campaign in the fz tree, then the resulting corpus is measured (classes / non-trivial shapes) with the san binary."""
    name = stage_name(stage)
    outdir = os.path.join(workdir, name)
    shutil.rmtree(outdir, ignore_errors=True)
    corpus = os.path.join(outdir, "corpus")
    os.makedirs(corpus)
    art = os.path.join(outdir, "artifacts") + "/"
    os.makedirs(art)
    seeds = os.path.join(VERIF, "corpus", prop, stage["target"])
    exe = os.path.join(BUILD, "fz", "vh", stage["binary"])
    secs = int(os.environ.get("VERIF_FUZZ_SECONDS", 0) or stage.get("seconds_" + tier, 120))
    env = env_for_runs()
    env["VH_TARGET"] = stage["target"]
    cmd = [exe, f"-fork={NPROC}", f"-max_total_time={secs}", f"-seed={seed}", f"-artifact_prefix={art}", "-print_final_stats=1",
           f"-max_len={stage.get('max_len', 4096)}", "-ignore_timeouts=1", "-ignore_ooms=1", "-ignore_crashes=0", "-timeout=60", corpus]
    if os.path.isdir(seeds):
        cmd.append(seeds)
    t0 = time.time()
    log_path = os.path.join(outdir, "libfuzzer.log")
    with open(log_path, "w") as lf:
        try:
            subprocess.run(cmd, env=env, stdout=lf, stderr=subprocess.STDOUT, timeout=secs + 600, cwd=outdir)
        except subprocess.TimeoutExpired:
            pass
    logtxt = open(log_path, errors="replace").read()
    failures = []
    for f in sorted(glob.glob(art + "crash-*") + glob.glob(art + "leak-*")):
        failed, oracle, msg, _ = run_replay(stage, f)
        if failed:
            dst = os.path.join(outdir, "fail-" + os.path.basename(f) + ".bin")
            shutil.copyfile(f, dst)
            st_gen = dict(stage)
            st_gen["kind"] = "gen"  # so that the byte shrinker is applied; replays go through the san binary
            st_gen["cfg"] = "san"
            failures.append(Failure(st_gen, oracle, msg, dst, "bin"))
            log(f"[{prop}] fuzz stage {name}: artifact {os.path.basename(f)} oracle={oracle} {msg[:200]}")
    # measure the corpus with the san binary
    magg = {"cases": 0, "nontrivial": 0, "steps": 0, "classes": {}, "class_cases": {}, "samples": [], "distinct_nontrivial": 0}
    mdir = os.path.join(outdir, "measure")
    os.makedirs(mdir)
    sanexe = os.path.join(BUILD, "san", "vh", stage["binary"])
    procs = [subprocess.Popen([sanexe, "--target", stage["target"], "--corpus", corpus, "--worker", str(w), "--nworkers", str(NPROC), "--out", mdir],
                              env=env_for_runs(), stdout=subprocess.DEVNULL, stderr=subprocess.DEVNULL) for w in range(NPROC)]
    for p in procs:
        p.wait()
    shapes = set()
    for f in sorted(glob.glob(os.path.join(mdir, "stats-*.json"))):
        try:
            sj = json.load(open(f))
        except Exception:
            continue
        for k in ("cases", "nontrivial", "steps"):
            magg[k] += sj.get(k, 0)
        for k, v in sj.get("classes", {}).items():
            magg["classes"][k] = magg["classes"].get(k, 0) + v
        for k, v in sj.get("class_cases", {}).items():
            magg["class_cases"][k] = magg["class_cases"].get(k, 0) + v
        magg["samples"] += sj.get("samples", [])[:2]
    for f in glob.glob(os.path.join(mdir, "shapes-*.bin")):
        raw = open(f, "rb").read()
        shapes.update(struct.unpack("<%dQ" % (len(raw) // 8), raw[:len(raw) // 8 * 8]))
    execs = sum(int(x) for x in re.findall(r"stat::number_of_executed_units:\s*(\d+)", logtxt))
    if not execs:  # fork mode prints cumulative progress lines "#N: cov: ..."
        execs = max([int(x) for x in re.findall(r"^#(\d+): cov:", logtxt, re.M)] or [0])
    covs = [int(x) for x in re.findall(r"cov: (\d+)", logtxt)]
    agg = {"name": name, "kind": "fuzz", "cases": max(execs, magg["cases"]), "nontrivial": magg["nontrivial"], "steps": magg["steps"],
           "classes": magg["classes"], "class_cases": magg["class_cases"], "samples": magg["samples"][:4], "stopped_by": {"time": 1},
           "wall_s": round(time.time() - t0, 2), "enum_total": 0, "distinct_nontrivial": len(shapes),
           "rule": stage.get("rule", "libFuzzer coverage-guided campaign (g++ trace-pc via covshim) on the same target; executions counted by libFuzzer; "
                                     "non-trivial/distinct measured by re-running the final corpus through the san binary"),
           "libfuzzer": {"executions": execs, "corpus_files": magg["cases"], "max_cov": max(covs) if covs else 0, "seconds": secs}}
    return agg, failures, shapes


def run_stage(prop, stage, tier, seed, workdir):
    if stage["kind"] == "fuzz":
        return run_fuzz_stage(prop, stage, tier, seed, workdir)
    name = stage_name(stage)
    outdir = os.path.join(workdir, name)
    shutil.rmtree(outdir, ignore_errors=True)
    os.makedirs(outdir)
    nworkers = stage.get("workers_" + tier, stage.get("workers", NPROC))
    procs = []
    t0 = time.time()
    for w in range(nworkers):
        errf = open(os.path.join(outdir, f"stderr-{name}-{w}.txt"), "w")
        outf = open(os.path.join(outdir, f"stdout-{name}-{w}.txt"), "w")
        p = subprocess.Popen(worker_cmd(stage, tier, seed, w, nworkers, outdir), env=env_for_runs(), stdout=outf, stderr=errf,
                             cwd=VERIF)
        procs.append((w, p, errf, outf))
    hard = stage.get("hard_timeout_" + tier, stage.get("hard_timeout", 3 * 3600))
    failures = []
    for w, p, errf, outf in procs:
        try:
            rc = p.wait(timeout=max(1, hard - (time.time() - t0)))
        except subprocess.TimeoutExpired:
            p.kill()
            rc = -999
        errf.close()
        outf.close()
        if rc == 0:
            continue
        err = open(os.path.join(outdir, f"stderr-{name}-{w}.txt"), errors="replace").read()
        if rc == -999:
            log(f"[{prop}] stage {name} worker {w}: hard timeout (inconclusive, not a violation)")
            continue
        if rc == 2 and "ORACLE-FAIL" not in err:
            log(f"[{prop}] stage {name} worker {w}: broken run rc=2: {err[-500:]}")
            failures.append(Failure(stage, "BROKEN", err[-2000:], None, None))
            continue
        oracle, msg = signature_from_stderr(err)
        cand = [os.path.join(outdir, f"fail-{name}-{w}.bin"), os.path.join(outdir, f"fail-{name}-{w}.json"),
                os.path.join(outdir, f"current-{name}-{w}.bin")]
        ipath = None
        for c in cand:
            if os.path.exists(c):
                ipath = c
                break
        if ipath and ipath.endswith(f"current-{name}-{w}.bin"):
            raw = open(ipath, "rb").read()
            n = struct.unpack("<Q", raw[:8])[0]
            ipath = os.path.join(outdir, f"fail-{name}-{w}.bin")
            open(ipath, "wb").write(raw[8:8 + n])
        if ipath and stage["kind"] == "enum":
            raw = open(ipath, "rb").read()
            ipath = ipath[:-4] + ".enum"
            open(ipath, "wb").write(raw[:8])
        failures.append(Failure(stage, oracle, msg, ipath, "json" if (ipath or "").endswith(".json") else "bin"))
        log(f"[{prop}] stage {name} worker {w}: rc={rc} oracle={oracle} {msg[:300]}")
    # collect stats
    agg = {"name": name, "kind": stage["kind"], "cases": 0, "nontrivial": 0, "steps": 0, "classes": {}, "class_cases": {},
           "samples": [], "stopped_by": {}, "wall_s": round(time.time() - t0, 2), "enum_total": 0, "rule": stage.get("rule", "")}
    shapes = set()
    for f in sorted(glob.glob(os.path.join(outdir, "stats-*.json"))):
        try:
            s = json.load(open(f))
        except Exception:
            continue
        agg["cases"] += s.get("cases", 0)
        agg["nontrivial"] += s.get("nontrivial", 0)
        agg["steps"] += s.get("steps", 0)
        agg["enum_total"] = max(agg["enum_total"], s.get("enum_total", 0))
        for k, v in s.get("classes", {}).items():
            agg["classes"][k] = agg["classes"].get(k, 0) + v
        for k, v in s.get("class_cases", {}).items():
            agg["class_cases"][k] = agg["class_cases"].get(k, 0) + v
        sb = s.get("stopped_by", "?")
        agg["stopped_by"][sb] = agg["stopped_by"].get(sb, 0) + 1
        agg["samples"] += s.get("samples", [])[:3]
    for f in glob.glob(os.path.join(outdir, "shapes-*.bin")):
        raw = open(f, "rb").read()
        shapes.update(struct.unpack("<%dQ" % (len(raw) // 8), raw[:len(raw) // 8 * 8]))
    agg["distinct_nontrivial"] = len(shapes)
    return agg, failures, shapes


# ------------------------------------------------------------------------------------------------
# known findings

def load_known(prop):
    out = []
    p = os.path.join(VERIF, "known_findings.txt")
    if not os.path.exists(p):
        return out
    for line in open(p):
        line = line.strip()
        if not line.startswith("finding:"):
            continue
        kv = dict(re.findall(r"(\w[\w-]*)=(\S+)", line))
        if kv.get("property") != prop:
            continue
        out.append({"oracle": kv.get("oracle"), "match": kv.get("match"), "sha": kv.get("input-sha256"), "line": line})
    return out


def match_known(known, oracle, msg, sha):
    for k in known:
        if k["sha"]:
            # a finding pinned to one input matches that input only (so other failures of the same oracle are still reported)
            if k["sha"] == sha and (not k["oracle"] or k["oracle"] == oracle):
                return k
            continue
        if k["oracle"] and k["oracle"] == oracle and (not k["match"] or re.search(k["match"], msg)):
            return k
    return None


# ------------------------------------------------------------------------------------------------

def write_evidence(prop, tier, seed, level, stages, wall, violations, extra_assumptions, notes):
    ev = {
        "property_id": prop, "tier": tier, "seed": seed, "level": level,
        "coverage": {
            "evaluations": sum(s["cases"] for s in stages),
            "distinct_nontrivial": sum(s["distinct_nontrivial"] for s in stages),
            "rule": " || ".join(f"{s['name']}: {s['rule']}" for s in stages),
            "samples": [dict(stage=s["name"], **x) for s in stages for x in s["samples"][:4]][:16],
            "oracle_comparisons": sum(s["steps"] for s in stages),
            "stages": [{k: v for k, v in s.items() if k != "samples"} for s in stages],
        },
        "assumptions": extra_assumptions,
        "wall_s": round(wall, 2),
        "violations": violations,
    }
    if notes:
        ev["coverage"]["notes"] = notes
    if any(s.get("exhaustive") for s in stages):
        ev["coverage"]["exhaustive_stages"] = [s["name"] for s in stages if s.get("exhaustive")]
        if all(s.get("exhaustive") for s in stages):
            ev["coverage"]["exhaustive"] = True
    os.makedirs(os.path.join(VERIF, "evidence"), exist_ok=True)
    tmp = os.path.join(VERIF, "evidence", prop + ".json.tmp")
    json.dump(ev, open(tmp, "w"), indent=1)
    os.replace(tmp, os.path.join(VERIF, "evidence", prop + ".json"))


def sha256_file(p):
    return hashlib.sha256(open(p, "rb").read()).hexdigest()


def confirm_and_report(prop, fail, known, tier, from_corpus=False):
    """shrink, replay 3x, match known findings. -> 'violation' | 'known' | 'unreproduced'"""
    stage = fail.stage
    if fail.input_path is None:
        return "unreproduced", None
    need = stage.get("replays_needed", 3)
    total = stage.get("replays_total", 3)
    # shrink (out of process)
    shrunk = fail.input_path
    if fail.fmt == "bin" and stage["kind"] == "gen" and not from_corpus and not os.environ.get("VERIF_NO_SHRINK"):
        import shrink
        budget = stage.get("shrink_seconds_" + tier, 90 if tier == "quick" else 300)
        try:
            shrunk = shrink.shrink(lambda p: run_replay(stage, p, timeout=stage.get("replay_timeout", 300)), fail.input_path, fail.oracle, budget, NPROC)
        except Exception as e:  # shrinking is best effort
            log(f"[{prop}] shrink failed: {e}")
            shrunk = fail.input_path
    hits = 0
    last_msg = fail.msg
    for _ in range(total):
        failed, oracle, msg, _ = run_replay(stage, shrunk)
        if failed and oracle == fail.oracle:
            hits += 1
            last_msg = msg or last_msg
    if hits < need and shrunk != fail.input_path:
        shrunk = fail.input_path
        hits = 0
        for _ in range(total):
            failed, oracle, msg, _ = run_replay(stage, shrunk)
            if failed and oracle == fail.oracle:
                hits += 1
    if hits < need:
        log(f"[{prop}] UNREPRODUCED oracle={fail.oracle} ({hits}/{total} replays failed) -- not a violation")
        return "unreproduced", None
    sha = sha256_file(shrunk)
    k = match_known(known, fail.oracle, last_msg, sha)
    if k:
        print(f"KNOWN-FINDING: property={prop} {k['line']}", flush=True)
        return "known", None
    d = os.path.join(VERIF, "failures", prop)
    os.makedirs(d, exist_ok=True)
    ext = ".enum" if shrunk.endswith(".enum") else (".json" if fail.fmt == "json" else ".bin")
    dest = os.path.join(d, f"{stage_name(stage)}-{sha[:16]}{ext}")
    shutil.copyfile(shrunk, dest)
    open(dest + ".txt", "w").write(f"oracle={fail.oracle}\nstage={stage_name(stage)}\n{last_msg}\n")
    log(f"[{prop}] oracle={fail.oracle} {last_msg[:500]}")
    print(f"VIOLATION property={prop} replay={dest}", flush=True)
    return "violation", dest


def stage_for_replay(spec, path):
    base = os.path.basename(path)
    for st in spec["stages"]:
        if base.startswith(stage_name(st) + "-") or os.path.basename(os.path.dirname(path)) == stage_name(st):
            return st
    return spec["stages"][0]


def main():
    if len(sys.argv) < 3:
        print(__doc__)
        return 2
    prop = sys.argv[1].upper()
    spec = props.PROPS.get(prop)
    if not spec:
        print(f"unknown or unclaimed property {prop}")
        return 2
    seed = int(os.environ.get("VERIF_SEED", "1") or "1")
    t0 = time.time()
    cfgs = {}
    for st in spec["stages"]:
        if st["kind"] in ("gen", "enum"):
            cfgs.setdefault(st.get("cfg", "san"), set()).add(st["binary"])
        if st["kind"] == "fuzz" and (len(sys.argv) > 2 and sys.argv[2] in st.get("tiers", ("thorough",)) or (len(sys.argv) > 2 and sys.argv[2] == "--replay")):
            cfgs.setdefault("san", set()).add(st["binary"])
            if sys.argv[2] != "--replay":
                cfgs.setdefault("fz", set()).add(st["binary"])
        for cfg, tg in st.get("needs", []):
            cfgs.setdefault(cfg, set()).add(tg)
    for cfg, tgs in cfgs.items():
        ok, out = build(cfg, sorted(tgs))
        if not ok:
            print("BUILD-FAILED\n" + out)
            return 2

    if sys.argv[2] == "--replay":
        path = os.path.abspath(sys.argv[3])
        st = stage_for_replay(spec, path)
        failed, oracle, msg, out = run_replay(st, path)
        print(out)
        if failed:
            print(f"REPLAY-FAILED oracle={oracle} {msg}")
            return 1
        return 0

    tier = sys.argv[2]
    if tier not in ("quick", "thorough"):
        print(__doc__)
        return 2
    known = load_known(prop)
    workdir = os.path.join(BUILD, "work", prop + "-" + tier)
    shutil.rmtree(workdir, ignore_errors=True)
    os.makedirs(workdir)
    violations = 0
    known_hits = 0
    unrepro = 0
    broken = []
    notes = []
    # 1. regression corpus (plain replays that bypass generation)
    corpus_n = 0
    for st in spec["stages"]:
        cdir = os.path.join(VERIF, "corpus", prop, stage_name(st))
        for f in sorted(glob.glob(os.path.join(cdir, "*"))):
            if f.endswith(".txt") or f.endswith(".md") or os.path.isdir(f):
                continue
            corpus_n += 1
            failed, oracle, msg, _ = run_replay(st, f)
            if failed:
                fl = Failure(st, oracle, msg, f, "json" if f.endswith(".json") else "bin")
                r, _ = confirm_and_report(prop, fl, known, tier, from_corpus=True)  # regression inputs are replayed as they are (no shrinking)
                violations += r == "violation"
                known_hits += r == "known"
    if corpus_n:
        notes.append(f"replayed {corpus_n} corpus regression inputs")
    # 2. generated search
    stages_out = []
    for st in spec["stages"]:
        if tier not in st.get("tiers", ("quick", "thorough")):
            continue
        agg, fails, _ = run_stage(prop, st, tier, seed, workdir)
        agg["exhaustive"] = bool(st["kind"] == "enum" and agg["stopped_by"].get("exhausted", 0) and not fails and "time" not in agg["stopped_by"])
        stages_out.append(agg)
        log(f"[{prop}] stage {agg['name']}: cases={agg['cases']} nontrivial={agg['nontrivial']} distinct_nontrivial={agg['distinct_nontrivial']} "
            f"steps={agg['steps']} wall={agg['wall_s']}s stopped_by={agg['stopped_by']}")
        seen = set()
        for fl in fails:
            if fl.oracle == "BROKEN":
                broken.append(f"{agg['name']}: worker broken: {fl.msg[-300:]}")
                continue
            if fl.oracle in seen:
                continue
            seen.add(fl.oracle)
            r, _ = confirm_and_report(prop, fl, known, tier)
            violations += r == "violation"
            known_hits += r == "known"
            unrepro += r == "unreproduced"
        if not fails:
            mn = st.get("min_cases_" + tier, st.get("min_cases", 1))
            if agg["cases"] < mn:
                broken.append(f"{agg['name']}: only {agg['cases']} cases ran (< {mn})")
            for cls, frac in st.get("floors", {}).items():
                got = agg["class_cases"].get(cls, 0)
                if agg["cases"] and got < frac * agg["cases"]:
                    broken.append(f"{agg['name']}: GENERATOR-DEGENERATE class {cls}: {got}/{agg['cases']} < {frac}")
    if unrepro:
        notes.append(f"{unrepro} failure(s) did not reproduce on replay and were not counted")
    if known_hits:
        notes.append(f"{known_hits} failure(s) matched known_findings.txt")
    wall = time.time() - t0
    write_evidence(prop, tier, seed, spec.get("level", "exploration"), stages_out, wall, violations,
                   spec.get("assumptions", []), notes)
    if violations:
        return 1
    if broken:
        for b in broken:
            print("BROKEN-RUN " + b)
        return 2
    ev = json.load(open(os.path.join(VERIF, "evidence", prop + ".json")))
    if ev["coverage"]["distinct_nontrivial"] < 2:
        print("BROKEN-RUN fewer than 2 distinct non-trivial cases")
        return 2
    log(f"[{prop}] OK tier={tier} seed={seed} evaluations={ev['coverage']['evaluations']} distinct_nontrivial={ev['coverage']['distinct_nontrivial']} wall={wall:.1f}s")
    return 0


if __name__ == "__main__":
    sys.exit(main())
