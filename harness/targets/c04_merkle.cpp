// C04 — Block transactions are bound to the header; mutations detected, not blamed (pure targets).
// Oracles (own SHA256d tree over the generic CSHA256 primitive; the code under test uses the specialised SHA256D64 / CHash256 paths):
//   c04.root / c04.mutated-flag : ComputeMerkleRoot == node(L,i) = H(node(L-1,2i), node(L-1,min(2i+1,w-1))) reference; mutated == "some level has an
//                                 equal pair at (2k,2k+1) with both nodes present"
//   c04.dup-tail               : CVE-2012-2459 family: explicit duplication of the last node of an odd level keeps the root and sets mutated
//   c04.block-root / c04.witness-root / c04.path : BlockMerkleRoot / BlockWitnessMerkleRoot / TransactionMerklePath vs reference (txid/wtxid recomputed)
//   c04.is-mutated             : IsBlockMutated == reference predicate written from the statement/BIP141; every malleated variant of a genuine block is
//                                reported, the genuine block is not
//   c04.checkblock             : merkle-level mutation => CheckBlock fails with BLOCK_MUTATED
#include <engine/verif.h>

#include <chainparams.h>
#include <common/args.h>
#include <consensus/merkle.h>
#include <consensus/validation.h>
#include <crypto/sha256.h>
#include <kernel/chainparams.h>
#include <primitives/block.h>
#include <primitives/transaction.h>
#include <script/script.h>
#include <streams.h>
#include <uint256.h>
#include <util/chaintype.h>
#include <validation.h>

#include <algorithm>
#include <memory>
#include <string>
#include <vector>

namespace {
using Bytes = std::vector<uint8_t>;

uint256 ref_sha256d(const unsigned char* p, size_t n)
{
    unsigned char t[32];
    CSHA256().Write(p, n).Finalize(t);
    uint256 out;
    CSHA256().Write(t, 32).Finalize(out.begin());
    return out;
}
uint256 ref_pair(const uint256& a, const uint256& b)
{
    unsigned char cat[64];
    memcpy(cat, a.begin(), 32);
    memcpy(cat + 32, b.begin(), 32);
    return ref_sha256d(cat, 64);
}

struct RefTree {
    std::vector<std::vector<uint256>> levels; //!< levels[0] = leaves ... levels.back() = {root}
    bool mutated{false};
    uint256 root;
    size_t odd_levels{0};      //!< levels with an odd node count > 1
    size_t odd_levels_above{0};//!< ... at level >= 1
};

RefTree ref_tree(const std::vector<uint256>& leaves)
{
    RefTree t;
    if (leaves.empty()) return t; // root = 0
    t.levels.push_back(leaves);
    while (t.levels.back().size() > 1) {
        const auto& cur = t.levels.back();
        size_t w = cur.size();
        if (w & 1) { t.odd_levels++; if (t.levels.size() >= 2) t.odd_levels_above++; }
        std::vector<uint256> next((w + 1) / 2);
        for (size_t i = 0; i < next.size(); ++i) {
            size_t l = 2 * i, r = std::min(2 * i + 1, w - 1);
            if (2 * i + 1 < w && cur[l] == cur[r]) t.mutated = true;
            next[i] = ref_pair(cur[l], cur[r]);
        }
        t.levels.push_back(std::move(next));
    }
    t.root = t.levels.back()[0];
    return t;
}

std::vector<uint256> ref_path(const RefTree& t, size_t pos)
{
    std::vector<uint256> p;
    for (size_t L = 0; L + 1 < t.levels.size(); ++L) {
        size_t w = t.levels[L].size();
        p.push_back(t.levels[L][std::min(pos ^ 1, w - 1)]);
        pos >>= 1;
    }
    return p;
}

uint256 fold_path(uint256 h, size_t pos, const std::vector<uint256>& path)
{
    for (const uint256& sib : path) { h = (pos & 1) ? ref_pair(sib, h) : ref_pair(h, sib); pos >>= 1; }
    return h;
}

/** CVE-2012-2459 family: make the implicit duplication explicit at every odd level <= L (needed so that the last level-L node is a full
 *  block of 2^L explicit leaves), the last step being level L itself. Returns the number of duplications applied. */
size_t dup_tail(std::vector<uint256>& leaves, unsigned L)
{
    size_t applied = 0;
    for (unsigned l = 0; l <= L; ++l) {
        size_t block = size_t{1} << l;
        if (leaves.size() % block != 0) return applied; // cannot happen after the lower levels were made even
        size_t w = leaves.size() / block;
        if (w > 1 && (w & 1)) {
            std::vector<uint256> tail(leaves.end() - block, leaves.end());
            leaves.insert(leaves.end(), tail.begin(), tail.end());
            ++applied;
        }
    }
    return applied;
}

uint256 leaf_from(uint64_t seed, uint64_t i)
{
    uint256 h;
    uint64_t x = seed * 0x9e3779b97f4a7c15ULL + i * 0xd1342543de82ef95ULL + 0x632be59bd9b4e019ULL;
    for (int k = 0; k < 4; ++k) {
        x += 0x9e3779b97f4a7c15ULL; uint64_t z = x; z = (z ^ (z >> 30)) * 0xbf58476d1ce4e5b9ULL; z = (z ^ (z >> 27)) * 0x94d049bb133111ebULL; z ^= z >> 31;
        memcpy(h.begin() + 8 * k, &z, 8);
    }
    return h;
}

void check_list(const std::vector<uint256>& leaves, verif::Stats& st, const char* what)
{
    RefTree t = ref_tree(leaves);
    bool mut = false;
    uint256 root = ComputeMerkleRoot(leaves, &mut);
    st.steps++;
    VCHECK(root == t.root, "c04.root", what, "n", leaves.size(), "impl", root.ToString(), "ref", t.root.ToString());
    VCHECK(mut == t.mutated, "c04.mutated-flag", what, "n", leaves.size(), "impl", mut, "ref", t.mutated);
    uint256 root2 = ComputeMerkleRoot(leaves);
    VCHECK(root2 == t.root, "c04.root", "without mutated pointer", what, "n", leaves.size());
}

/** all CVE variants of `leaves`: same root, mutated, and the implementation agrees */
void check_dup_tails(const std::vector<uint256>& leaves, verif::Stats& st, unsigned only_level = 99)
{
    RefTree t = ref_tree(leaves);
    for (unsigned L = 0; L + 1 < t.levels.size(); ++L) {
        if (only_level != 99 && L != only_level) continue;
        if (!(t.levels[L].size() & 1)) continue;
        std::vector<uint256> v = leaves;
        size_t applied = dup_tail(v, L);
        if (!applied || v.size() > 2000) continue;
        bool mut = false;
        uint256 root = ComputeMerkleRoot(v, &mut);
        st.steps++;
        VCHECK(root == t.root, "c04.dup-tail", "duplicated tail changes the root: n", leaves.size(), "level", L, "variant_n", v.size());
        VCHECK(mut, "c04.dup-tail", "duplicated tail not flagged as mutated: n", leaves.size(), "level", L, "variant_n", v.size());
        RefTree tv = ref_tree(v);
        VCHECK(tv.root == t.root && tv.mutated, "c04.ref-selftest", "reference disagrees with the CVE construction", leaves.size(), L);
        st.cls("dup-tail-variant");
    }
}

// ---- transactions / blocks ---------------------------------------------------------------------------------------
uint256 ref_txid(const CTransaction& tx) { DataStream ds; ds << TX_NO_WITNESS(tx); return ref_sha256d(reinterpret_cast<const unsigned char*>(ds.data()), ds.size()); }
uint256 ref_wtxid(const CTransaction& tx) { DataStream ds; ds << TX_WITH_WITNESS(tx); return ref_sha256d(reinterpret_cast<const unsigned char*>(ds.data()), ds.size()); }
size_t ref_nowit_size(const CTransaction& tx) { DataStream ds; ds << TX_NO_WITNESS(tx); return ds.size(); }
bool ref_has_witness(const CTransaction& tx) { for (auto& in : tx.vin) if (!in.scriptWitness.stack.empty()) return true; return false; }
bool ref_is_coinbase(const CTransaction& tx)
{
    if (tx.vin.size() != 1) return false;
    const COutPoint& o = tx.vin[0].prevout;
    return o.n == 0xffffffffu && o.hash.ToUint256() == uint256();
}
int ref_commit_pos(const CTransaction& cb)
{
    int pos = -1;
    for (size_t i = 0; i < cb.vout.size(); ++i) {
        const CScript& s = cb.vout[i].scriptPubKey;
        if (s.size() >= 38 && s[0] == 0x6a && s[1] == 0x24 && s[2] == 0xaa && s[3] == 0x21 && s[4] == 0xa9 && s[5] == 0xed) pos = int(i); // highest index wins (BIP141)
    }
    return pos;
}
std::vector<uint256> ref_txids(const CBlock& b) { std::vector<uint256> v; for (auto& t : b.vtx) v.push_back(ref_txid(*t)); return v; }
uint256 ref_witness_root(const CBlock& b)
{
    std::vector<uint256> v;
    for (size_t i = 0; i < b.vtx.size(); ++i) v.push_back(i == 0 ? uint256() : ref_wtxid(*b.vtx[i]));
    return ref_tree(v).root;
}
uint256 ref_commitment(const CBlock& b, const Bytes& nonce)
{
    uint256 wr = ref_witness_root(b);
    Bytes cat(wr.begin(), wr.end());
    cat.insert(cat.end(), nonce.begin(), nonce.end());
    return ref_sha256d(cat.data(), cat.size());
}

struct RefVerdict { bool mutated; std::string why; bool merkle_level; bool coinbase_first; };

/** reference for IsBlockMutated, from the statement + BIP141 */
RefVerdict ref_block_mutated(const CBlock& b, bool check_witness_root)
{
    RefTree t = ref_tree(ref_txids(b));
    if (t.root != b.hashMerkleRoot) return {true, "root-mismatch", true, true};
    if (t.mutated) return {true, "duplicate-subtree", true, true};
    if (b.vtx.empty() || !ref_is_coinbase(*b.vtx[0])) {
        for (auto& tx : b.vtx) if (ref_nowit_size(*tx) == 64) return {true, "64-byte-tx", false, false};
        return {false, "no-coinbase", false, false};
    }
    int cpos = ref_commit_pos(*b.vtx[0]);
    if (check_witness_root && cpos >= 0) {
        const auto& stack = b.vtx[0]->vin[0].scriptWitness.stack;
        if (stack.size() != 1 || stack[0].size() != 32) return {true, "nonce-size", false, true};
        uint256 c = ref_commitment(b, stack[0]);
        if (memcmp(c.begin(), &b.vtx[0]->vout[cpos].scriptPubKey[6], 32) != 0) return {true, "commitment-mismatch", false, true};
        return {false, "ok", false, true};
    }
    for (auto& tx : b.vtx) if (ref_has_witness(*tx)) return {true, "unexpected-witness", false, true};
    return {false, "ok", false, true};
}

CScript commit_script(const uint256& c, size_t extra = 0)
{
    Bytes raw = {0x6a, 0x24, 0xaa, 0x21, 0xa9, 0xed};
    raw.insert(raw.end(), c.begin(), c.end());
    raw.resize(raw.size() + extra, 0x00);
    return CScript(raw.begin(), raw.end());
}

CTransactionRef make_tx(uint64_t seed, uint64_t i, bool witness, unsigned wit_items, size_t script_len = 22)
{
    CMutableTransaction m;
    m.version = 2;
    m.vin.resize(1);
    m.vin[0].prevout = COutPoint(Txid::FromUint256(leaf_from(seed ^ 0x7777, i)), uint32_t(i & 3));
    m.vin[0].nSequence = 0xfffffffe;
    if (witness) for (unsigned k = 0; k < std::max(1u, wit_items); ++k) m.vin[0].scriptWitness.stack.emplace_back(size_t(1 + ((i + k) % 40)), uint8_t(0x30 + k));
    Bytes spk(script_len, uint8_t(0x51));
    m.vout.emplace_back(CAmount(1000 + i), CScript(spk.begin(), spk.end()));
    return MakeTransactionRef(m);
}

/** a transaction whose no-witness serialization is exactly 64 bytes (60 bytes of fixed fields + 4 script bytes) */
CTransactionRef make_tx64(uint64_t seed, uint64_t i)
{
    CMutableTransaction m;
    m.version = 1;
    m.vin.resize(1);
    m.vin[0].prevout = COutPoint(Txid::FromUint256(leaf_from(seed ^ 0x6464, i)), 0);
    m.vin[0].scriptSig = CScript() << OP_TRUE;        // 1 byte
    m.vout.emplace_back(CAmount(1), CScript() << OP_TRUE << OP_TRUE << OP_TRUE); // 3 bytes
    return MakeTransactionRef(m);
}

std::unique_ptr<const CChainParams> g_params;
std::vector<CTransactionRef> g_pool; // for the exhaustive target
void init_c04()
{
    if (g_params) return;
    ArgsManager args;
    g_params = CreateChainParams(args, ChainType::REGTEST);
    for (uint64_t i = 0; i < 140; ++i) g_pool.push_back(make_tx(0xc04, i, false, 0));
}

void check_block_roots_and_paths(const CBlock& b, verif::Stats& st, size_t max_paths, verif::Src* s)
{
    std::vector<uint256> ids = ref_txids(b);
    RefTree t = ref_tree(ids);
    bool mut = false;
    uint256 r = BlockMerkleRoot(b, &mut);
    st.steps++;
    VCHECK(r == t.root && mut == t.mutated, "c04.block-root", "n", b.vtx.size(), "impl", r.ToString(), "ref", t.root.ToString(), "mut", mut, t.mutated);
    if (!b.vtx.empty()) {
        uint256 wr = BlockWitnessMerkleRoot(b);
        VCHECK(wr == ref_witness_root(b), "c04.witness-root", "n", b.vtx.size());
    }
    size_t n = b.vtx.size();
    for (size_t k = 0; k < std::min(n, max_paths); ++k) {
        size_t pos = (max_paths >= n) ? k : (k == 0 ? n - 1 : s ? s->index(n) : k);
        std::vector<uint256> p = TransactionMerklePath(b, uint32_t(pos));
        st.steps++;
        VCHECK(fold_path(ids[pos], pos, p) == t.root, "c04.path", "path does not fold to the root: n", n, "pos", pos, "len", p.size());
        VCHECK(p == ref_path(t, pos), "c04.path", "path differs from reference siblings: n", n, "pos", pos);
    }
}
} // namespace

// ==================================================================================================================
VERIF_TARGET(c04_merkle, init_c04, 32, 420,
             "part A: leaf lists of 1..300 hashes with repeated leaves (adjacent at even/odd offsets, copied aligned subtrees at any level, random repeats) "
             "and their CVE-2012-2459 duplicated-tail variants; part B: blocks of 1..60 (sometimes 300) transactions with random witnesses, coinbase witness "
             "commitment (none / one / two, last wins) computed by the reference, and one malleation (duplicated tail at level L, witness stripped, witness byte "
             "changed, coinbase nonce resized / extra item, witness added to an uncommitted block, tx replaced / swapped / dropped, 64-byte txs without coinbase). "
             "Roots, mutation flag, witness root, merkle paths, IsBlockMutated and CheckBlock(BLOCK_MUTATED) vs own SHA256d tree + reference predicate. "
             "non-trivial = tree with an odd level above the leaves, or a malleated variant of a genuine block; "
             "distinct = (n bucket, odd-level pattern, repeat kinds, variant kind, verdict reason)")
{
    uint64_t seed = s.ConsumeIntegral<uint64_t>();
    bool part_b = s.chance(150);
    if (!part_b) {
        size_t n = s.chance(96) ? s.range<size_t>(1, 300) : s.chance(128) ? s.range<size_t>(1, 40) : s.pick<size_t>({1, 2, 3, 5, 6, 7, 9, 11, 13, 17, 19, 21, 25, 33, 35, 37, 41, 49, 65, 67, 97, 129, 131, 193, 255, 257, 300});
        std::vector<uint256> leaves(n);
        for (size_t i = 0; i < n; ++i) leaves[i] = leaf_from(seed, i);
        unsigned nrep = s.range<unsigned>(0, 3);
        uint64_t repmask = 0;
        for (unsigned k = 0; k < nrep && n >= 2; ++k) {
            unsigned kind = s.range<unsigned>(0, 3);
            repmask |= 1u << kind;
            if (kind == 0) { size_t i = s.index(n - 1); leaves[i + 1] = leaves[i]; }                 // adjacent pair, any parity
            else if (kind == 1) { size_t i = s.index(n), j = s.index(n); leaves[j] = leaves[i]; }     // arbitrary repeat
            else if (kind == 2) {                                                                  // aligned subtree copied onto its sibling
                unsigned L = s.range<unsigned>(0, 6);
                size_t block = size_t{1} << L, pairs = n / (2 * block);
                size_t base = pairs ? s.index(pairs) * 2 * block : 0;
                for (size_t q = 0; q < block && base + block + q < n; ++q) leaves[base + block + q] = leaves[base + q];
            } else {                                                                               // subtree copied onto a non-sibling position
                unsigned L = s.range<unsigned>(0, 4);
                size_t block = size_t{1} << L;
                if (n >= 3 * block) { size_t from = s.index(n - block + 1), to = s.index(n - block + 1); for (size_t q = 0; q < block; ++q) leaves[to + q] = leaves[from + q]; }
            }
        }
        check_list(leaves, st, "list");
        RefTree t = ref_tree(leaves);
        check_dup_tails(leaves, st, s.chance(128) ? 99 : s.range<unsigned>(0, 8));
        st.nontrivial = t.odd_levels_above > 0;
        st.mix(uint64_t(0)); st.mix(uint64_t(n < 34 ? n : 34 + n / 16)); st.mix(repmask); st.mix(uint64_t(t.mutated)); st.mix(uint64_t(t.odd_levels)); st.mix(uint64_t(t.odd_levels_above));
        st.cls("part-A-list");
        if (t.mutated) st.cls("list-mutated");
        if (t.odd_levels_above) st.cls("odd-level-above-leaves");
        if (nrep && !t.mutated) st.cls("repeats-but-not-mutated");
        st.note("list n=", n, " repeats=", nrep, " mask=", repmask, " odd_levels=", t.odd_levels, " (above leaves ", t.odd_levels_above, ") mutated=", t.mutated);
        return;
    }
    // ---- part B: blocks -----------------------------------------------------------------------------------------
    size_t ntx = s.chance(16) ? s.range<size_t>(60, 300) : s.chance(128) ? s.range<size_t>(1, 12) : s.range<size_t>(1, 60);
    unsigned commit_mode = s.range<unsigned>(0, 9); // 0,1: none; 2..7: one; 8: two (last valid); 9: two (first valid, last garbage)
    bool committed = commit_mode >= 2;
    bool check_witness = !s.chance(40);
    unsigned vk = s.range<unsigned>(0, 12); // malleation kind, drawn before the per-transaction choices so that short inputs still reach every kind
    uint32_t sel_a = s.ConsumeIntegral<uint32_t>(), sel_b = s.ConsumeIntegral<uint32_t>();
    CBlock g;
    g.nVersion = 0x20000000; g.nTime = 1600000000; g.nBits = 0x207fffff;
    Bytes nonce = s.bytes(4); nonce.resize(32, 0x00);
    {
        CMutableTransaction cb;
        cb.version = 2;
        cb.vin.resize(1);
        cb.vin[0].prevout.SetNull();
        cb.vin[0].scriptSig = CScript() << int64_t(500 + (seed & 0xff)) << OP_0;
        cb.vout.emplace_back(CAmount(50 * COIN), CScript() << OP_TRUE);
        if (committed) cb.vin[0].scriptWitness.stack = {nonce};
        g.vtx.push_back(MakeTransactionRef(cb));
    }
    for (size_t i = 1; i < ntx; ++i) g.vtx.push_back(make_tx(seed, i, committed && s.chance(120), s.range<unsigned>(1, 3)));
    if (committed) {
        uint256 c = ref_commitment(g, nonce); // does not depend on the coinbase outputs (coinbase wtxid counts as 0)
        CMutableTransaction cb(*g.vtx[0]);
        if (commit_mode == 8) cb.vout.emplace_back(0, commit_script(leaf_from(seed, 999)));
        cb.vout.emplace_back(0, commit_script(c, s.chance(32) ? s.range<size_t>(1, 5) : 0));
        if (commit_mode == 9) cb.vout.emplace_back(0, commit_script(leaf_from(seed, 998)));
        g.vtx[0] = MakeTransactionRef(cb);
    }
    g.hashMerkleRoot = ref_tree(ref_txids(g)).root;
    // `g` is never passed to the code under test (its memoisation flags would be copied into the variants)
    RefVerdict gv = ref_block_mutated(g, check_witness);

    // one malleation
    CBlock v = g;
    std::string vname = "none";
    bool changed = false, same_header_malleation = false;
    auto with_tx = [&](size_t idx, auto&& edit) { CMutableTransaction m(*v.vtx[idx]); edit(m); v.vtx[idx] = MakeTransactionRef(m); };
    switch (vk) {
    case 0: break;
    case 1: case 2: { // duplicated tail (CVE-2012-2459) at some odd level
        RefTree t = ref_tree(ref_txids(g));
        std::vector<unsigned> odd;
        for (unsigned L = 0; L + 1 < t.levels.size(); ++L) if (t.levels[L].size() & 1) odd.push_back(L);
        if (!odd.empty()) {
            unsigned L = odd[sel_a % odd.size()];
            // replay dup_tail on the transaction list
            for (unsigned l = 0; l <= L; ++l) {
                size_t block = size_t{1} << l, w = v.vtx.size() / block;
                if (w > 1 && (w & 1)) { std::vector<CTransactionRef> tail(v.vtx.end() - block, v.vtx.end()); v.vtx.insert(v.vtx.end(), tail.begin(), tail.end()); changed = true; }
            }
            vname = "dup-tail-L" + std::to_string(L);
            same_header_malleation = changed;
        }
        break;
    }
    case 3: { // witness stripped from one transaction
        std::vector<size_t> w; for (size_t i = 1; i < v.vtx.size(); ++i) if (ref_has_witness(*v.vtx[i])) w.push_back(i);
        if (!w.empty()) { with_tx(w[sel_a % w.size()], [](CMutableTransaction& m) { m.vin[0].scriptWitness.stack.clear(); }); changed = same_header_malleation = true; vname = "witness-stripped"; }
        break;
    }
    case 4: { // one witness byte changed / item appended
        std::vector<size_t> w; for (size_t i = 1; i < v.vtx.size(); ++i) if (ref_has_witness(*v.vtx[i])) w.push_back(i);
        if (!w.empty()) {
            bool append = (sel_b & 3) == 0;
            with_tx(w[sel_a % w.size()], [&](CMutableTransaction& m) { auto& st0 = m.vin[0].scriptWitness.stack; if (append) st0.emplace_back(1, 0x01); else st0[0][0] ^= 0x01; });
            changed = same_header_malleation = true; vname = append ? "witness-item-added" : "witness-byte-changed";
        }
        break;
    }
    case 5: { // coinbase witness nonce resized / changed
        if (committed) {
            unsigned m5 = sel_a % 5;
            with_tx(0, [&](CMutableTransaction& m) {
                auto& st0 = m.vin[0].scriptWitness.stack;
                if (m5 == 0) st0[0].resize(31); else if (m5 == 1) st0[0].resize(33); else if (m5 == 2) st0.emplace_back(32, 0x00); else if (m5 == 3) st0.clear(); else st0[0][31] ^= 0x80;
            });
            changed = same_header_malleation = true; vname = "coinbase-nonce-" + std::to_string(m5);
        }
        break;
    }
    case 6: { // witness added to a block that commits to none (or to a witness-less tx of a committed block)
        if (v.vtx.size() >= 2) {
            size_t idx = 1 + sel_a % (v.vtx.size() - 1);
            if (!ref_has_witness(*v.vtx[idx])) { with_tx(idx, [](CMutableTransaction& m) { m.vin[0].scriptWitness.stack.emplace_back(2, 0x07); }); changed = same_header_malleation = true; vname = "witness-added"; }
        } else if (!committed) {
            with_tx(0, [](CMutableTransaction& m) { m.vin[0].scriptWitness.stack.emplace_back(32, 0x00); }); changed = same_header_malleation = true; vname = "coinbase-witness-added";
        }
        break;
    }
    case 7: if (v.vtx.size() >= 2) { size_t idx = 1 + sel_a % (v.vtx.size() - 1); v.vtx[idx] = make_tx(seed ^ 0x5555, idx, false, 0); changed = true; vname = "tx-replaced"; } break;
    case 8: if (v.vtx.size() >= 3) { size_t a = 1 + sel_a % (v.vtx.size() - 1), b2 = 1 + sel_b % (v.vtx.size() - 1); if (a != b2) { std::swap(v.vtx[a], v.vtx[b2]); changed = true; vname = "tx-swapped"; } } break;
    case 9: if (v.vtx.size() >= 2) { v.vtx.pop_back(); changed = true; vname = "tx-dropped"; } break;
    case 10: { // coinbase-less list containing 64-byte transactions, header root recomputed (the 64-byte ambiguity)
        v.vtx.erase(v.vtx.begin());
        size_t k64 = sel_a % 3;
        for (size_t q = 0; q < k64; ++q) { CTransactionRef t64 = make_tx64(seed, q); v.vtx.insert(v.vtx.begin() + (sel_b >> (8 * q)) % (v.vtx.size() + 1), t64); }
        v.hashMerkleRoot = ref_tree(ref_txids(v)).root;
        changed = true; vname = "no-coinbase-" + std::to_string(k64) + "x64";
        break;
    }
    case 11: if (v.vtx.size() >= 2) { size_t idx = 1 + sel_a % (v.vtx.size() - 1); v.vtx.insert(v.vtx.begin() + idx, v.vtx[idx]); changed = true; vname = "tx-repeated-in-place"; } break; // adjacent duplicate, any parity
    default: { // commitment output edited (header root changes with it unless recomputed): recompute the root so only the witness commitment is wrong
        if (committed) {
            with_tx(0, [&](CMutableTransaction& m) { int p = ref_commit_pos(CTransaction(m)); if (p >= 0) m.vout[p].scriptPubKey[6 + std::vector<size_t>{0, 7, 31, 31}[sel_a & 3]] ^= uint8_t(1u << (sel_b & 7)); }); // any single bit of the 32 commitment bytes, the last byte often
            v.hashMerkleRoot = ref_tree(ref_txids(v)).root;
            changed = true; vname = "commitment-bytes-wrong";
        }
        break;
    }
    }
    v.fChecked = false; v.m_checked_merkle_root = false; v.m_checked_witness_commitment = false;
    RefVerdict rv = ref_block_mutated(v, check_witness);

    auto run_is_mutated = [&](const CBlock& blk) { CBlock copy = blk; return IsBlockMutated(copy, check_witness); };
    bool got_v = run_is_mutated(v);
    st.steps++;
    st.note("block ntx=", ntx, " commit_mode=", commit_mode, " check_witness=", check_witness, " genuine{mutated=", gv.mutated, " ", gv.why, "} variant=", vname, " changed=", changed,
            " ref{mutated=", rv.mutated, " ", rv.why, "} impl=", got_v);
    if (rv.coinbase_first) VCHECK(got_v == rv.mutated, "c04.is-mutated", "variant", vname, "ntx", v.vtx.size(), "impl", got_v, "ref", rv.mutated, rv.why);
    else if (rv.mutated) VCHECK(got_v, "c04.is-mutated", "64-byte transaction in a coinbase-less list not reported: variant", vname, "ntx", v.vtx.size());
    // the genuine block itself
    bool got_g = run_is_mutated(g);
    VCHECK(got_g == gv.mutated, "c04.is-mutated", "genuine block: impl", got_g, "ref", gv.mutated, gv.why, "commit_mode", commit_mode, "check_witness", check_witness);
    // statement: every same-header malleation of a genuine (unmutated) block is reported
    if (same_header_malleation && !gv.mutated) {
        VCHECK(rv.mutated, "c04.ref-selftest", "reference does not flag a same-header malleation", vname);
        VCHECK(v.GetHash() == g.GetHash(), "c04.ref-selftest", "malleation changed the header", vname);
    }
    // merkle-level mutation => CheckBlock reports BLOCK_MUTATED
    if (rv.merkle_level) {
        CBlock copy = v;
        BlockValidationState state;
        bool ok = CheckBlock(copy, state, g_params->GetConsensus(), /*fCheckPOW=*/false, /*fCheckMerkleRoot=*/true);
        st.steps++;
        VCHECK(!ok && state.GetResult() == BlockValidationResult::BLOCK_MUTATED, "c04.checkblock", "variant", vname, "ok", ok, "reason", state.GetRejectReason());
        st.cls("checkblock-mutated");
    }
    check_block_roots_and_paths(v, st, 3, &s);
    check_block_roots_and_paths(g, st, 2, &s);

    RefTree gt = ref_tree(ref_txids(g));
    st.nontrivial = (same_header_malleation && !gv.mutated) || gt.odd_levels_above > 0;
    st.mix(uint64_t(1)); st.mix(uint64_t(ntx < 34 ? ntx : 34 + ntx / 16)); st.mix(uint64_t(commit_mode >= 2 ? commit_mode >= 8 ? commit_mode : 2 : 0)); st.mix(uint64_t(check_witness));
    st.mix(vname); st.mix(rv.why); st.mix(gv.why); st.mix(uint64_t(gt.odd_levels_above));
    st.cls("part-B-block");
    st.cls("variant:" + (vname.rfind("dup-tail", 0) == 0 ? std::string("dup-tail") : vname.rfind("no-coinbase", 0) == 0 ? std::string("no-coinbase") : vname.rfind("coinbase-nonce", 0) == 0 ? std::string("coinbase-nonce") : vname));
    st.cls("verdict:" + rv.why);
    if (same_header_malleation && !gv.mutated) st.cls("same-header-malleation");
    if (!gv.mutated) st.cls("genuine-clean");
    if (!changed) st.cls("unchanged-variant");
}

// Exhaustive small scope: every list length 1..80 with every single-repeat pattern, every CVE variant and every merkle path position.
VERIF_TARGET(c04_small, init_c04, 0, 8,
             "exhaustive per list length n in 1..80 (transactions from a fixed pool): distinct leaves; every adjacent repeat (i,i+1); every aligned subtree at "
             "every level copied onto its sibling; every CVE-2012-2459 duplicated-tail variant; merkle path of every position; each compared with the "
             "reference tree (root, mutated flag, path siblings, fold-to-root). non-trivial = n with an odd level above the leaves")
{
    const uint64_t TOTAL = 80;
    verif::set_enum_total(TOTAL);
    int64_t idx = verif::enum_index();
    if (idx < 0) idx = int64_t(s.range<uint64_t>(0, TOTAL - 1));
    if (uint64_t(idx) >= TOTAL) return;
    size_t n = size_t(idx) + 1;
    CBlock b;
    for (size_t i = 0; i < n; ++i) b.vtx.push_back(g_pool[i]);
    std::vector<uint256> leaves = ref_txids(b);
    RefTree t = ref_tree(leaves);
    check_list(leaves, st, "distinct");
    VCHECK(!t.mutated, "c04.ref-selftest", "distinct leaves flagged", n);
    check_block_roots_and_paths(b, st, n, nullptr); // every position
    check_dup_tails(leaves, st);
    size_t patterns = 0;
    for (size_t i = 0; i + 1 < n; ++i) { // adjacent repeat: mutated at leaf level iff i even (the reference decides, incl. effects above)
        std::vector<uint256> v = leaves; v[i + 1] = v[i];
        check_list(v, st, "adjacent-repeat"); ++patterns;
        CBlock bv; for (size_t q = 0; q < n; ++q) bv.vtx.push_back(g_pool[q == i + 1 ? i : q]);
        check_block_roots_and_paths(bv, st, 2, nullptr);
    }
    for (unsigned L = 0; (size_t{1} << L) < n; ++L) { // aligned subtree copied onto its sibling
        size_t block = size_t{1} << L;
        for (size_t base = 0; base + block < n; base += 2 * block) {
            std::vector<uint256> v = leaves;
            for (size_t q = 0; q < block && base + block + q < n; ++q) v[base + block + q] = v[base + q];
            check_list(v, st, "subtree-repeat"); ++patterns;
        }
    }
    st.mix(uint64_t(n));
    st.nontrivial = t.odd_levels_above > 0;
    st.cls(t.odd_levels_above ? "n-with-odd-upper-level" : "n-even-upper-levels");
    st.note("n=", n, " levels=", t.levels.size(), " odd_levels=", t.odd_levels, " patterns=", patterns);
}
