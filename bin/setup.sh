#!/bin/bash
# setup_cmd: configure and build the san tree (repo libs + the harness binary of every claimed property) from files on disk only.
# A harness binary that fails to build does not fail the setup: its check reports BUILD-FAILED (exit 2) on its own.
V=$(cd "$(dirname "$0")/.." && pwd)
cd "$V"
export CCACHE_DIR=$V/build/ccache
mkdir -p build/work/tmp
if [ ! -f build/san/build.ninja ]; then
  bin/configure.sh san > build/configure-san.log 2>&1 || { tail -50 build/configure-san.log; echo "setup: configure failed"; exit 1; }
fi
TARGETS=$(python3 - <<'P'
import sys, os
sys.path.insert(0, "bin")
import props
t = set()
for pid, sp in props.PROPS.items():
    for st in sp["stages"]:
        if st["kind"] in ("gen", "enum") and st.get("cfg", "san") == "san":
            t.add(st["binary"])
        for cfg, tg in st.get("needs", []):
            if cfg == "san":
                t.add(tg)
print(" ".join(sorted(t)))
P
)
flock build/san.lock ninja -C build/san -k 0 $TARGETS > build/build-san.log 2>&1
rc=$?
[ $rc -eq 0 ] || { grep -E "FAILED|error:" build/build-san.log | head -40; echo "setup: some harness binaries failed to build (their checks will report BUILD-FAILED)"; }
ls build/san/lib/libbitcoin_node.a > /dev/null 2>&1 || { echo "setup: repository libraries did not build"; tail -40 build/build-san.log; exit 1; }
# tsan tree: only if a claimed stage that runs in the quick tier needs it
TSAN_TARGETS=$(python3 - <<'P'
import sys
sys.path.insert(0, "bin")
import props
t = set()
for pid, sp in props.PROPS.items():
    for st in sp["stages"]:
        if "quick" not in st.get("tiers", ("quick", "thorough")):
            continue
        if st["kind"] in ("gen", "enum") and st.get("cfg", "san") == "tsan":
            t.add(st["binary"])
        for cfg, tg in st.get("needs", []):
            if cfg == "tsan":
                t.add(tg)
print(" ".join(sorted(t)))
P
)
if [ -n "$TSAN_TARGETS" ]; then
  if [ ! -f build/tsan/build.ninja ]; then
    bin/configure.sh tsan > build/configure-tsan.log 2>&1 || { tail -30 build/configure-tsan.log; echo "setup: tsan configure failed (tsan stages will report BUILD-FAILED)"; }
  fi
  [ -f build/tsan/build.ninja ] && { flock build/tsan.lock ninja -C build/tsan -k 0 $TSAN_TARGETS > build/build-tsan.log 2>&1 || { grep -E "FAILED|error:" build/build-tsan.log | head -20; echo "setup: some tsan binaries failed to build"; }; }
fi
echo "setup ok: $(ls build/san/vh 2>/dev/null | wc -l) san harness binaries, $(ls build/tsan/vh 2>/dev/null | wc -l) tsan"
exit 0
