#!/bin/bash
# Configure a build tree of /repo (+ harness targets injected from /verif/harness) under /verif/build/<cfg>.
set -e
cfg=${1:-san}
V=$(cd "$(dirname "$0")/.." && pwd)
B=$V/build/$cfg
mkdir -p "$V/build/work/tmp"
export CCACHE_DIR=$V/build/ccache
COMMON=(-S /repo -B "$B" -G Ninja
  -DCMAKE_PROJECT_INCLUDE=$V/harness/cmake/inject.cmake
  -DCMAKE_BUILD_TYPE=RelWithDebInfo "-DCMAKE_CXX_FLAGS_RELWITHDEBINFO=-O1 -g1" "-DCMAKE_C_FLAGS_RELWITHDEBINFO=-O1 -g1"
  -DBUILD_TESTS=ON -DBUILD_BENCH=OFF -DBUILD_GUI=OFF -DBUILD_FUZZ_BINARY=OFF -DENABLE_IPC=OFF -DENABLE_WALLET=ON -DWITH_ZMQ=OFF
  -DBUILD_DAEMON=OFF -DBUILD_CLI=OFF -DBUILD_TX=OFF -DBUILD_UTIL=OFF -DBUILD_WALLET_TOOL=OFF -DBUILD_BITCOIN_BIN=OFF -DWITH_CCACHE=ON)
case $cfg in
  san)
    cmake "${COMMON[@]}" -DSANITIZERS=address,undefined \
      "-DAPPEND_CPPFLAGS=-DABORT_ON_FAILED_ASSUME -DBITCOIN_VERIF_HOOKS" \
      "-DAPPEND_CXXFLAGS=-fno-sanitize-recover=undefined" "-DAPPEND_LDFLAGS=-fuse-ld=lld" ;;
  tsan)
    cmake "${COMMON[@]}" -DSANITIZERS=thread \
      "-DAPPEND_CPPFLAGS=-DABORT_ON_FAILED_ASSUME -DBITCOIN_VERIF_HOOKS -DDEBUG_LOCKORDER" \
      "-DAPPEND_LDFLAGS=-fuse-ld=lld" ;;
  *) echo "unknown cfg $cfg"; exit 2 ;;
esac
