// C01 — No coins are created beyond the block subsidy schedule (node-level supply history).
// Oracle: (a) RefLedger replays the ACTIVE chain from genesis with its own value rules (coinbase <= own-formula subsidy + model fees,
// every non-coinbase tx in >= out, ranges) -- must never fail; (b) sum of the node's coins DB (cursor walk) == ComputeUTXOStats total
// == model total <= sum of model subsidies; (c) fault catalogue: a block made invalid by exactly one value rule (smallest amount)
// must be rejected with tip and hash_serialized unchanged, and its valid twin must be accepted.
#include <engine/verif.h>
#include <kits/chainsim.h>
#include <kits/consensus_ref.h>

#include <kernel/coinstats.h>

#include <limits>

using namespace verif;
using namespace verif::cref;

namespace {

struct Plan {
    BlockSpec spec;
    std::vector<TxGen::Made> made;
    CAmount fees{0};
    CAmount subsidy{0};
    int height{0};
    bool usable{true};
};

Plan plan_block(ChainSim& sim, ReplayCache& rc, TxGen& tg, Src& s, const uint256& parent, unsigned max_tx, bool need_tx, bool need_fee, uint32_t nonce)
{
    Plan p;
    const RefReplay& pr = rc.Get(parent);
    assert(pr.ok);
    p.height = sim.ledger.At(parent).height + 1;
    p.subsidy = RefLedger::Subsidy(p.height, sim.ledger.halving_interval);
    RefUtxo u = pr.utxo;
    unsigned ntx = s.range<unsigned>((need_tx || need_fee) ? 1 : 0, std::max(1u, max_tx));
    if (max_tx == 0) ntx = 0;
    for (unsigned t = 0; t < ntx; ++t) {
        int mode = (need_fee && t + 1 == ntx) ? 3 : s.pick<int>({0, 1, 1, 2, 3});
        auto m = tg.Make(s, u, p.height, mode);
        if (!m) break;
        p.fees += m->fee();
        p.made.push_back(*m);
        p.spec.txs.push_back(m->tx);
    }
    if ((need_tx || need_fee) && p.made.empty()) p.usable = false;
    if (need_fee && (p.made.empty() || p.made.back().fee() < 1)) p.usable = false;
    p.spec.prev = parent;
    p.spec.fees = p.fees;
    p.spec.extra_nonce = nonce;
    return p;
}

constexpr CAmount I64MIN = std::numeric_limits<int64_t>::min();
constexpr CAmount I64MAX = std::numeric_limits<int64_t>::max();

} // namespace

VERIF_TARGET(c01_supply, nullptr, 48, 1000,
             "histories (<=24 ops) on a regtest node over a 104/146/148-block base (so histories cross the halving at 150): valid blocks with 0-4 "
             "generated txs (zero fee .. all-in-fees, burns, create-and-spend) and coinbase claiming reward-k..reward; fault catalogue on the tip "
             "(coinbase +1/+2/+subsidy/up to MAX_MONEY, coinbase claiming the fee of a removed tx, tx out = in+1, output MAX_MONEY+1, two outputs "
             "summing above MAX_MONEY, 8785 in-range outputs whose sum wraps 2^64 to the legitimate amount (coinbase and spend), -1, INT64_MIN/MAX, same in coinbase outputs) each followed by its valid twin; overtaking reorgs, a faulty "
             "block at the end of a reorg, invalidate/reconsider, re-delivery of rejected blocks, child of a rejected block; after every op the "
             "active chain is replayed by the model and UTXO totals are compared. non-trivial = >=1 rejected catalogue block and >=1 connected "
             "fee-paying tx and >=1 reorg; distinct = op kinds + fault kinds + reorg depths")
{
    ChainSimOpts o;
    if (s.chance(64)) o.coins_cache_bytes = size_t(s.pick<size_t>({4096, 65536}));
    ChainSim sim(o);
    TxGen tg(sim);
    ReplayCache rc(sim.ledger);
    const int base_n = s.pick<int>({104, 104, 146, 148, 104, 147});
    auto base = sim.LoadBase(base_n);
    const int base_h = base_n;
    std::vector<uint256> heads{base.back()};
    std::vector<CBlock> rejected;
    int n_rejected = 0, n_reorg = 0, n_fee_connected = 0, maxdepth = 0;
    bool crossed_halving = false;
    std::set<uint256> fee_blocks; // valid blocks containing a fee-paying tx

    auto check_point = [&](const char* where) {
        uint256 tip = sim.TipHash();
        const RefReplay& r = rc.Get(tip);
        st.steps++;
        VCHECK(r.ok, "c01.active-chain-violates-model", where, "model rule", r.why, "at block", r.bad_block.ToString(), "tip", tip.ToString());
        RefUtxo node = sim.DumpUtxo();
        __int128 sum = 0;
        for (auto& [k, c] : node) sum += c.value;
        VCHECK(sum == r.total, "c01.utxo-total-vs-model", where, "node coins DB sum", int64_t(sum), "model", r.total, "tip", tip.ToString());
        VCHECK(sum <= r.subsidy_sum, "c01.supply-bound", where, "UTXO total", int64_t(sum), "exceeds sum of subsidies", r.subsidy_sum);
        std::optional<kernel::CCoinsStats> stats;
        {
            LOCK(cs_main);
            stats = kernel::ComputeUTXOStats(kernel::CoinStatsHashType::HASH_SERIALIZED, sim.chainstate().CoinsDB(), sim.chainman().m_blockman);
        }
        VCHECK(stats && stats->total_amount, "c01.coinstats-total", where, "ComputeUTXOStats gave no total");
        VCHECK(*stats->total_amount == CAmount(sum), "c01.coinstats-total", where, "ComputeUTXOStats total", *stats->total_amount, "cursor sum", int64_t(sum));
        if (sim.ledger.At(tip).height >= 150) crossed_halving = true;
        // count fee-paying txs on the active chain (for the non-triviality rule)
        n_fee_connected = 0;
        for (auto& [bh, f] : r.fees) if (f > 0) n_fee_connected++;
    };
    auto note_reorg = [&](const uint256& old_tip, const uint256& new_tip) {
        if (new_tip == old_tip || sim.ledger.IsAncestor(old_tip, new_tip)) return;
        uint256 a = old_tip;
        int depth = 0;
        while (!sim.ledger.IsAncestor(a, new_tip)) { a = sim.ledger.At(a).prev; depth++; }
        n_reorg++;
        maxdepth = std::max(maxdepth, depth);
        st.mix(uint64_t(100 + depth));
        st.cls("reorg");
        st.note("reorg depth=", depth);
    };
    auto deliver_valid = [&](const std::shared_ptr<CBlock>& blk, bool expect_tip, const char* what) {
        uint256 old_tip = sim.TipHash();
        auto d = sim.Deliver(blk);
        st.steps++;
        VCHECK(d.processed, "c01.valid-block-rejected", what, "model-valid block not processed:", d.verdict ? StateStr(*d.verdict) : "no verdict", blk->GetHash().ToString());
        if (d.verdict) VCHECK(d.verdict->IsValid(), "c01.valid-block-rejected", what, "model-valid block judged invalid:", StateStr(*d.verdict));
        if (expect_tip) VCHECK(sim.TipHash() == blk->GetHash(), "c01.valid-block-rejected", what, "model-valid block with most work did not become tip", blk->GetHash().ToString());
        note_reorg(old_tip, sim.TipHash());
    };
    auto expect_rejected = [&](const FaultOutcome& fo, const std::string& want_reason, const char* what) {
        st.steps++;
        VCHECK(fo.rejected || !fo.processed, "c01.fault-accepted", what, "block violating a value rule was not rejected; verdict:", fo.have_verdict ? fo.reason : "none",
               "hash", fo.hash.ToString());
        VCHECK(!fo.became_tip, "c01.fault-accepted", what, "invalid block became the tip");
        VCHECK(fo.tip_before == fo.tip_after, "c01.fault-moved-tip", what, "tip changed by a rejected block");
        VCHECK(fo.utxo_before == fo.utxo_after, "c01.fault-changed-utxo", what, "hash_serialized changed by a rejected block");
        if (!want_reason.empty()) VCHECK(fo.reason == want_reason, "c01.reject-reason", what, "expected", want_reason, "got", fo.reason, fo.debug);
        n_rejected++;
    };

    const unsigned nops = s.range<unsigned>(3, 24);
    for (unsigned op = 0; op < nops && !s.exhausted(); ++op) {
        const unsigned kind = s.range<unsigned>(0, 17);
        const uint256 tip = sim.TipHash();
        const int th = sim.ledger.At(tip).height;
        if (kind <= 3) {
            // ---------------- valid block on the tip (mostly) or on a side head
            uint256 parent = s.chance(200) ? tip : heads[s.index(heads.size())];
            Plan p = plan_block(sim, rc, tg, s, parent, 4, false, false, op);
            unsigned claim = s.range<unsigned>(0, 4);
            CAmount full = p.subsidy + p.fees;
            CAmount value = claim <= 1 ? full : claim == 2 ? full - std::min<CAmount>(1, full) : claim == 3 ? s.range<CAmount>(0, full) : 0;
            p.spec.coinbase_value = value;
            auto blk = sim.Build(p.spec);
            deliver_valid(blk, parent == tip, "valid");
            bool replaced = false;
            for (auto& h : heads) if (h == parent) { h = blk->GetHash(); replaced = true; break; }
            if (!replaced) { if (heads.size() < 3) heads.push_back(blk->GetHash()); else heads[s.index(heads.size())] = blk->GetHash(); }
            st.mix(uint64_t(1)); st.mix(uint64_t(p.made.size())); st.mix(uint64_t(claim));
            st.cls("valid-block");
            if (p.fees > 0) st.cls("fee-block");
            if (value < full) st.cls("underclaim");
            for (auto& m : p.made) { if (m.spends_same_block) st.cls("create-and-spend-in-block"); if (m.spends_coinbase) st.cls("coinbase-spent"); }
            st.note("valid h=", p.height, " ntx=", p.made.size(), " fees=", p.fees, " cb=", value, "/", full, parent == tip ? "" : " (side)");
        } else if (kind <= 9) {
            // ---------------- fault catalogue on the tip, then the valid twin
            const unsigned fk = s.range<unsigned>(0, 13);
            const bool need_fee = fk == 1;
            const bool need_tx = (fk >= 2 && fk <= 7) || fk == 13;
            Plan p = plan_block(sim, rc, tg, s, tip, 3, need_tx, need_fee, op);
            if (!p.usable) { st.cls("fault-skipped"); continue; }
            auto twin = sim.Build(p.spec); // claims exactly subsidy + fees
            CBlock bad = CloneBlock(*twin);
            std::string want, label;
            auto set_cb = [&](auto&& edit) { CMutableTransaction cb(*bad.vtx[0]); edit(cb); bad.vtx[0] = MakeTransactionRef(cb); };
            auto set_last_outs = [&](std::vector<CTxOut> outs) { bad.vtx.back() = tg.Remake(p.made.back(), outs); };
            const CAmount full = p.subsidy + p.fees;
            switch (fk) {
            case 0: {
                CAmount delta = s.pick<CAmount>({1, 1, 2, p.subsidy, REF_MAX_MONEY - full});
                if (delta < 1) delta = 1;
                set_cb([&](CMutableTransaction& cb) { cb.vout[0].nValue += delta; });
                want = "bad-cb-amount"; label = "cb-overpay+" + std::string(delta == 1 ? "1" : delta == 2 ? "2" : delta == p.subsidy ? "subsidy" : "toMAX");
                break;
            }
            case 1:
                bad.vtx.pop_back(); // the coinbase still claims the fee of the removed (last, fee >= 1) transaction
                want = "bad-cb-amount"; label = "cb-claims-absent-fee";
                break;
            case 2: {
                std::vector<CTxOut> outs = p.made.back().outs;
                outs[0].nValue += p.made.back().fee() + 1; // out = in + 1
                set_last_outs(outs);
                want = "bad-txns-in-belowout"; label = "tx-out=in+1";
                break;
            }
            case 3: {
                std::vector<CTxOut> outs = p.made.back().outs;
                outs[s.index(outs.size())].nValue = REF_MAX_MONEY + 1;
                set_last_outs(outs);
                want = "bad-txns-vout-toolarge"; label = "tx-vout-MAX+1";
                break;
            }
            case 4: {
                std::vector<CTxOut> outs = p.made.back().outs;
                outs[0].nValue = REF_MAX_MONEY;
                outs.emplace_back(1, sim.keys.Script(SpkType::ANYONE_P2WSH));
                for (size_t k = 1; k + 1 < outs.size(); ++k) outs[k].nValue = 0;
                set_last_outs(outs);
                want = "bad-txns-txouttotal-toolarge"; label = "tx-total-MAX+1";
                break;
            }
            case 5: {
                std::vector<CTxOut> outs = p.made.back().outs;
                outs[s.index(outs.size())].nValue = -1;
                set_last_outs(outs);
                want = "bad-txns-vout-negative"; label = "tx-vout--1";
                break;
            }
            case 6: {
                std::vector<CTxOut> outs = p.made.back().outs;
                outs[s.index(outs.size())].nValue = I64MIN;
                set_last_outs(outs);
                want = "bad-txns-vout-negative"; label = "tx-vout-INT64_MIN";
                break;
            }
            case 7: {
                std::vector<CTxOut> outs = p.made.back().outs;
                outs[s.index(outs.size())].nValue = I64MAX;
                set_last_outs(outs);
                want = "bad-txns-vout-toolarge"; label = "tx-vout-INT64_MAX";
                break;
            }
            case 8: {
                CAmount v = s.pick<CAmount>({-1, I64MIN});
                set_cb([&](CMutableTransaction& cb) { cb.vout.emplace_back(v, sim.keys.Script(SpkType::ANYONE_P2WSH)); });
                want = "bad-txns-vout-negative"; label = "cb-vout-negative";
                break;
            }
            case 9: {
                CAmount v = s.pick<CAmount>({REF_MAX_MONEY + 1, I64MAX});
                set_cb([&](CMutableTransaction& cb) { cb.vout.emplace_back(v, sim.keys.Script(SpkType::ANYONE_P2WSH)); });
                want = "bad-txns-vout-toolarge"; label = "cb-vout-toolarge";
                break;
            }
            case 10:
                set_cb([&](CMutableTransaction& cb) { cb.vout[0].nValue = REF_MAX_MONEY; cb.vout.emplace_back(1, sim.keys.Script(SpkType::ANYONE_P2WSH)); });
                want = "bad-txns-txouttotal-toolarge"; label = "cb-total-MAX+1";
                break;
            case 12: case 13: {
                // CVE-2010-5139 class: >= 8785 outputs, each within [0, MAX_MONEY], whose exact sum is 2^64 + v: a 64-bit running total that is
                // only range-checked at the end wraps round to the small legitimate amount v (12: coinbase, v = subsidy + fees; 13: spend, v = inputs)
                const unsigned __int128 two64 = (unsigned __int128)1 << 64;
                const unsigned n_max = unsigned(two64 / (unsigned __int128)REF_MAX_MONEY);                    // 8784
                const CAmount rem = CAmount(two64 - (unsigned __int128)n_max * (unsigned __int128)REF_MAX_MONEY); // 2^64 - 8784 * MAX_MONEY
                const CAmount v = fk == 12 ? full : p.made.back().in;
                if (rem + v > REF_MAX_MONEY) break;
                const CScript tiny = sim.keys.Script(SpkType::BARE_TRUE); // 1-byte scripts keep the block below 100 KB
                std::vector<CTxOut> outs(n_max, CTxOut(REF_MAX_MONEY, tiny));
                outs.emplace_back(rem + v, sim.keys.Script(SpkType::ANYONE_P2WSH));
                if (fk == 12) { set_cb([&](CMutableTransaction& cb) { cb.vout = outs; }); label = "cb-sum-wraps-2^64"; }
                else { set_last_outs(outs); label = "tx-sum-wraps-2^64"; }
                want = "bad-txns-txouttotal-toolarge";
                break;
            }
            default:
                // coinbase takes subsidy of the previous era / double subsidy
                set_cb([&](CMutableTransaction& cb) { cb.vout[0].nValue = 2 * p.subsidy + p.fees; });
                want = "bad-cb-amount"; label = "cb-double-subsidy";
                if (p.subsidy == 0) { want.clear(); }
                break;
            }
            if (want.empty()) { st.cls("fault-skipped"); continue; }
            sim.Finalize(bad);
            {
                // the model decides: the block must violate a value rule of the model, else the case is dropped (never asserted)
                sim.Register(std::make_shared<const CBlock>(bad));
                RefReplay mr = sim.ledger.Replay(bad.GetHash());
                bool agrees = !mr.ok && ((mr.why == "coinbase-overpays" && want == "bad-cb-amount") || (mr.why == "in-below-out" && want == "bad-txns-in-belowout") ||
                                         (mr.why == "value-out-of-range" && want.rfind("bad-txns-vout", 0) == 0) || (mr.why == "value-out-of-range" && want == "bad-txns-txouttotal-toolarge"));
                if (!agrees) { st.cls("fault-degenerate"); st.note("degenerate fault ", label, " model says ", mr.ok ? "valid" : mr.why); continue; }
            }
            if (s.boolean()) {
                BlockValidationState tv = sim.TestValidity(bad);
                st.steps++;
                VCHECK(!tv.IsValid(), "c01.fault-accepted", label, "TestBlockValidity accepts a block violating a value rule");
                VCHECK(tv.GetRejectReason() == want, "c01.reject-reason", label, "TestBlockValidity: expected", want, "got", tv.GetRejectReason());
            }
            FaultOutcome fo = DeliverFault(sim, bad, true, /*finalize=*/false);
            expect_rejected(fo, want, label.c_str());
            rejected.push_back(bad);
            deliver_valid(twin, true, "twin");
            for (auto& h : heads) if (h == tip) { h = twin->GetHash(); }
            st.mix(uint64_t(2)); st.mix(uint64_t(fk));
            st.cls("fault:" + label);
            if (p.fees > 0) st.cls("fee-block");
            st.note("fault ", label, " h=", p.height, " ntx=", p.made.size(), " fees=", p.fees, " -> ", fo.reason, "; twin accepted");
        } else if (kind <= 13) {
            // ---------------- side branch from 1..3 blocks back: overtaking (valid reorg) or equal work + faulty block on top
            const bool faulty_end = kind == 13;
            int back = s.range<int>(1, 3);
            int fork_h = std::max(base_h, th - back);
            uint256 parent = sim.ledger.AncestorAt(tip, fork_h);
            int len = th - fork_h + (faulty_end ? 0 : 1);
            for (int i = 0; i < len; ++i) {
                Plan p = plan_block(sim, rc, tg, s, parent, 2, false, false, op * 16 + i + 1);
                auto blk = sim.Build(p.spec);
                deliver_valid(blk, !faulty_end && i + 1 == len, "branch");
                parent = blk->GetHash();
            }
            if (!faulty_end) {
                for (auto& h : heads) if (h == tip) h = parent;
                if (std::find(heads.begin(), heads.end(), tip) == heads.end() && heads.size() < 3) heads.push_back(tip);
                st.mix(uint64_t(3)); st.mix(uint64_t(len));
                st.cls("overtake");
                st.note("overtake from h=", fork_h, " len=", len);
            } else {
                Plan p = plan_block(sim, rc, tg, s, parent, 2, false, false, op * 16 + 15);
                auto twin = sim.Build(p.spec);
                CBlock bad = CloneBlock(*twin);
                CMutableTransaction cb(*bad.vtx[0]);
                cb.vout[0].nValue += 1;
                bad.vtx[0] = MakeTransactionRef(cb);
                uint256 branch_tip = parent;
                FaultOutcome fo = DeliverFault(sim, bad);
                st.steps++;
                VCHECK(fo.rejected, "c01.fault-accepted", "reorg-end", "overpaying block at the end of a reorg not rejected; verdict:", fo.have_verdict ? fo.reason : "none");
                VCHECK(fo.reason == "bad-cb-amount", "c01.reject-reason", "reorg-end expected bad-cb-amount got", fo.reason);
                VCHECK(fo.tip_after == tip || fo.tip_after == branch_tip, "c01.fault-moved-tip", "reorg-end: tip is neither the old tip nor the valid part of the branch", fo.tip_after.ToString());
                n_rejected++;
                rejected.push_back(bad);
                note_reorg(tip, fo.tip_after);
                st.mix(uint64_t(4)); st.mix(uint64_t(len));
                st.cls("fault:reorg-end-cb+1");
                st.note("equal-work branch from h=", fork_h, " len=", len, " + overpaying block -> ", fo.reason, fo.tip_after == tip ? " (stayed)" : " (moved to branch)");
                if (std::find(heads.begin(), heads.end(), branch_tip) == heads.end() && len > 0) { if (heads.size() < 3) heads.push_back(branch_tip); else heads[1] = branch_tip; }
            }
        } else if (kind == 14) {
            // ---------------- invalidate the tip, check, reconsider
            if (th <= base_h) continue;
            CBlockIndex* pi;
            { LOCK(cs_main); pi = sim.chainman().m_blockman.LookupBlockIndex(tip); }
            BlockValidationState state;
            sim.chainstate().InvalidateBlock(state, pi);
            sim.SyncSignals();
            note_reorg(tip, sim.TipHash());
            check_point("after-invalidate");
            {
                LOCK(cs_main);
                sim.chainstate().ResetBlockFailureFlags(pi);
                sim.chainman().RecalculateBestHeader();
            }
            sim.chainstate().ActivateBestChain(state);
            sim.SyncSignals();
            st.mix(uint64_t(5));
            st.cls("invalidate");
            st.note("invalidate+reconsider tip h=", th);
        } else if (kind == 15) {
            // ---------------- re-deliver a rejected block
            if (rejected.empty()) continue;
            CBlock again = rejected[s.index(rejected.size())];
            FaultOutcome fo = DeliverFault(sim, again, true, /*finalize=*/false);
            st.steps++;
            VCHECK(fo.rejected || !fo.processed, "c01.fault-accepted", "re-delivered invalid block not rejected");
            VCHECK(fo.untouched(), "c01.fault-moved-tip", "re-delivered invalid block changed tip or UTXO set");
            st.mix(uint64_t(6));
            st.cls("redeliver-rejected");
            st.note("re-deliver rejected -> ", fo.reason);
        } else {
            // ---------------- a well-formed child of a rejected block
            if (rejected.empty()) continue;
            const CBlock& par = rejected[s.index(rejected.size())];
            BlockSpec spec;
            spec.prev = par.GetHash();
            spec.extra_nonce = op;
            auto child = sim.Build(spec);
            CBlock c2 = CloneBlock(*child);
            FaultOutcome fo = DeliverFault(sim, c2, true, /*finalize=*/false);
            st.steps++;
            VCHECK(fo.rejected || !fo.processed, "c01.fault-accepted", "child of a rejected block accepted");
            VCHECK(fo.untouched(), "c01.fault-moved-tip", "child of a rejected block changed tip or UTXO set");
            st.mix(uint64_t(7));
            st.cls("child-of-rejected");
            st.note("child of rejected -> ", fo.reason);
        }
        check_point("after-op");
    }
    check_point("end");
    st.nontrivial = n_rejected >= 1 && n_fee_connected >= 1 && n_reorg >= 1;
    if (n_rejected) st.cls("has-rejected-fault");
    if (n_fee_connected) st.cls("fee-tx-on-active-chain");
    if (crossed_halving) st.cls("crossed-halving");
    st.mix(uint64_t(n_reorg)); st.mix(uint64_t(maxdepth)); st.mix(uint64_t(base_n));
    st.note("base=", base_n, " rejected=", n_rejected, " reorgs=", n_reorg, " fee-blocks-on-chain=", n_fee_connected, " tip h=", sim.TipHeight());
}
