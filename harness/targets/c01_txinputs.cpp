// C01 — value rules that no honest regtest chain can reach.
//  c01_txinputs: Consensus::CheckTxInputs on synthetic coin views with 64-bit boundary values vs a 128-bit reference.
//  c01_feeacc:   TestBlockValidity on a node whose coins view was seeded with huge (but individually in-range) coins, so that
//                per-tx input sums and the per-block accumulated fee cross MAX_MONEY; verdict vs an inline 128-bit block model.
#include <engine/verif.h>
#include <kits/chainsim.h>
#include <kits/consensus_ref.h>

#include <coins.h>
#include <consensus/tx_check.h>
#include <consensus/tx_verify.h>
#include <test/util/script.h>

#include <limits>
#include <set>

using namespace verif;
using namespace verif::cref;

namespace {
constexpr int64_t MAXM = 2100000000000000LL; // 21,000,000 * 100,000,000 (statement), not amount.h
constexpr int64_t I64MAX = std::numeric_limits<int64_t>::max();
constexpr int64_t I64MIN = std::numeric_limits<int64_t>::min();
// -1 is excluded: a CTxOut value of -1 is the in-memory marker of a spent/null coin, such a coin cannot be added to a view
const std::initializer_list<int64_t> VALS = {0, 1, MAXM - 1, MAXM, MAXM + 1, -2, I64MIN, I64MAX, MAXM / 2, MAXM / 2 + 1, MAXM / 3 + 1, I64MAX - MAXM};

bool near_boundary(__int128 v)
{
    auto nb = [&](__int128 b) { return v >= b - 2 && v <= b + 2; };
    return nb(0) || nb(MAXM) || nb(I64MAX) || nb(I64MIN);
}
} // namespace

VERIF_TARGET(c01_txinputs, nullptr, 24, 256,
             "Consensus::CheckTxInputs on a synthetic CCoinsViewCache: 1-6 inputs whose coins have boundary-dictionary 64-bit values (0, +-1, MAX_MONEY+-1, "
             "INT64_MIN/MAX, halves/thirds of MAX_MONEY), coinbase flags with depth 98..101, missing coins; outputs pass CheckTransaction and sum to "
             "in-1/in/in+1/random; (ok, fee) must equal a 128-bit reference, the reason must be one of the violated rules (equal when unique). "
             "Precondition respected: coin values are clamped so the running int64 input sum cannot overflow before the range check. "
             "non-trivial = a value or sum within +-2 of 0/MAX_MONEY/INT64 limits participates; distinct = verdict + boundary kinds + nin")
{
    // one cache object per process (its pool allocator maps 256 KiB on construction), emptied by the documented reset guard
    static CCoinsViewCache view(&CoinsViewEmpty::Get());
    { auto wipe = view.CreateResetGuard(); }
    const int spend_height = s.chance(200) ? s.range<int>(100, 400) : s.range<int>(0, std::numeric_limits<int>::max());
    const unsigned nin = s.range<unsigned>(1, 6);
    struct In { bool present; int64_t value; bool coinbase; int height; };
    std::vector<In> ins;
    CMutableTransaction mtx;
    mtx.version = 2;
    bool near = false;
    __int128 prefix = 0; // model running sum while it is still in range (mirrors nothing: only used to keep the int64 precondition)
    bool prefix_live = true;
    for (unsigned i = 0; i < nin; ++i) {
        In in{};
        in.present = !s.chance(20);
        unsigned vm = s.range<unsigned>(0, 3);
        in.value = vm == 0 ? s.range<int64_t>(0, MAXM / 8) : vm == 1 ? s.range<int64_t>(0, MAXM) : s.biased64(VALS);
        // precondition: no signed overflow of the running sum (the implementation adds before it range-checks; unreachable from a validated UTXO set)
        if (prefix_live && in.present && in.value > 0 && prefix + in.value > I64MAX) in.value = int64_t(I64MAX - prefix);
        if (in.value == -1) in.value = -2;
        in.coinbase = s.chance(64);
        in.height = in.coinbase ? std::clamp(spend_height - s.range<int>(97, 102), 0, 0x7ffffffe) : s.range<int>(0, std::max(0, std::min(spend_height, 0x7ffffffe)));
        if (in.present) {
            if (prefix_live) {
                if (in.value < 0 || in.value > MAXM || prefix + in.value > MAXM) prefix_live = false; // the scan stops at the first out-of-range input
                else prefix += in.value;
            }
            if (near_boundary(in.value)) near = true;
        }
        Txid txid = Txid::FromUint256(uint256(uint8_t(i + 1)));
        COutPoint op(txid, uint32_t(s.index(3)));
        mtx.vin.emplace_back(op, CScript(), 0xffffffff);
        if (in.present) view.AddCoin(op, Coin(CTxOut(in.value, CScript() << OP_TRUE), in.height, in.coinbase), /*possible_overwrite=*/false);
        ins.push_back(in);
    }
    // reference verdict over 128-bit integers
    std::set<std::string> violated;
    bool missing = false;
    for (auto& in : ins) if (!in.present) missing = true;
    __int128 sum = 0;
    bool premature = false, range = false;
    if (!missing) {
        for (auto& in : ins) {
            if (in.coinbase && int64_t(spend_height) - int64_t(in.height) < 100) premature = true;
            sum += in.value;
            if (in.value < 0 || in.value > MAXM) range = true;
            if (sum < 0 || sum > MAXM) range = true;
            if (near_boundary(sum)) near = true;
        }
    }
    // outputs: must pass CheckTransaction (each in [0, MAX_MONEY], total <= MAX_MONEY)
    __int128 want_out;
    unsigned om = s.range<unsigned>(0, 4);
    __int128 base_sum = (missing || range) ? __int128(s.range<int64_t>(0, MAXM)) : sum;
    want_out = om == 0 ? base_sum : om == 1 ? base_sum - 1 : om == 2 ? base_sum + 1 : om == 3 ? __int128(s.range<int64_t>(0, MAXM)) : 0;
    if (want_out < 0) want_out = 0;
    if (want_out > MAXM) want_out = MAXM;
    unsigned nout = s.range<unsigned>(1, 3);
    __int128 rest = want_out;
    for (unsigned k = 0; k < nout; ++k) {
        int64_t v = (k + 1 == nout) ? int64_t(rest) : s.range<int64_t>(0, int64_t(rest));
        rest -= v;
        mtx.vout.emplace_back(v, CScript() << OP_TRUE);
    }
    const CTransaction tx(mtx);
    {
        TxValidationState pre;
        bool pre_ok = CheckTransaction(tx, pre);
        assert(pre_ok); // generator invariant: distinct prevouts, non-null, outputs in range
    }
    bool below = false;
    if (missing) violated.insert("bad-txns-inputs-missingorspent");
    else {
        if (premature) violated.insert("bad-txns-premature-spend-of-coinbase");
        if (range) violated.insert("bad-txns-inputvalues-outofrange");
        if (!range && sum < want_out) { below = true; violated.insert("bad-txns-in-belowout"); }
    }
    // note: when an input-range violation exists the in>=out comparison is not reached; "below" is only defined for in-range sums
    const bool ref_ok = violated.empty();
    const __int128 ref_fee = sum - want_out;

    TxValidationState state;
    CAmount fee = -12345;
    bool ok = Consensus::CheckTxInputs(tx, state, view, spend_height, fee);
    st.steps++;
    st.note("nin=", nin, " spend_h=", spend_height, " sum=", (missing ? std::string("n/a") : std::to_string(int64_t(std::clamp<__int128>(sum, I64MIN, I64MAX)))), " out=", int64_t(want_out),
            " expect=", (ref_ok ? std::string("OK") : *violated.begin()), " got=", (ok ? std::string("OK") : state.GetRejectReason()));
    VCHECK(ok == ref_ok, "c01.txinputs-verdict", "impl_ok", ok, "impl_reason", state.GetRejectReason(), "ref_violations", violated.size(), ref_ok ? "" : *violated.begin());
    if (ok) {
        VCHECK(__int128(fee) == ref_fee, "c01.txinputs-fee", "impl fee", fee, "ref fee", int64_t(ref_fee));
        VCHECK(fee >= 0 && fee <= MAXM, "c01.txinputs-fee", "fee out of range", fee);
    } else {
        VCHECK(violated.count(state.GetRejectReason()), "c01.txinputs-reason", "impl reason", state.GetRejectReason(), "is not among the violated rules; first:", *violated.begin());
        VCHECK(fee == -12345, "c01.txinputs-fee", "fee written on failure", fee);
    }
    (void)below;
    st.nontrivial = near;
    for (auto& v : violated) st.mix(v);
    st.mix(uint64_t(near)); st.mix(uint64_t(nin)); st.mix(uint64_t(om));
    st.cls(ref_ok ? "accepted" : "rejected:" + *violated.begin());
    if (violated.size() >= 2) st.cls("multi-violation");
    if (near) st.cls("near-boundary");
}

// ------------------------------------------------------------------------------------------------------------------------------

VERIF_TARGET(c01_feeacc, nullptr, 24, 200,
             "a regtest node at genesis whose coins view is seeded with 1-5 anyone-can-spend coins of huge values (each in [0, MAX_MONEY]; sums cross "
             "MAX_MONEY); a block at height 1 with 1-4 txs spending them (1-2 inputs each) with chosen fees so that per-tx input sums and the running "
             "block fee total land on MAX_MONEY-1/MAX_MONEY/MAX_MONEY+1, coinbase claiming subsidy+fees (capped at MAX_MONEY) or +1; TestBlockValidity "
             "verdict and reason must equal an inline 128-bit model (inputvalues-outofrange / in-belowout / accumulated-fee-outofrange / bad-cb-amount). "
             "non-trivial = an input sum or fee prefix within +-2 of MAX_MONEY; distinct = verdict + which tx + boundary offsets")
{
    ChainSim sim{ChainSimOpts{}};
    const uint256 genesis = sim.TipHash();
    const CAmount subsidy = RefLedger::Subsidy(1, sim.ledger.halving_interval);
    const unsigned ntx = s.range<unsigned>(1, 4);
    // choose fees first: target prefix profile
    std::vector<std::vector<int64_t>> tx_inputs; // values per tx
    std::vector<int64_t> tx_out;
    bool near = false;
    __int128 fee_prefix = 0;
    std::string expect;  // first violated rule in block order ("" = valid)
    int bad_tx = -1;
    auto nb = [&](__int128 v) { return v >= __int128(MAXM) - 2 && v <= __int128(MAXM) + 2; };
    unsigned coin_id = 0;
    std::vector<CTransactionRef> txs;
    for (unsigned t = 0; t < ntx; ++t) {
        unsigned nin = s.range<unsigned>(1, 2);
        std::vector<int64_t> vals;
        __int128 in = 0;
        // input values: aim the tx input sum / the running fee total at MAX_MONEY +- d
        int64_t d = s.range<int64_t>(-2, 2);
        unsigned aim = s.pick<unsigned>({0, 1, 1, 2, 3, 1}); // 0 small, 1 fee prefix -> MAX+d, 2 input sum -> MAX+d (two inputs), 3 random large
        for (unsigned k = 0; k < nin; ++k) {
            int64_t v;
            if (aim == 0) v = s.range<int64_t>(0, 1000000);
            else if (aim == 1) { __int128 w = __int128(MAXM) + d - fee_prefix - in; v = (k + 1 == nin) ? int64_t(std::clamp<__int128>(w, 0, MAXM)) : s.range<int64_t>(0, int64_t(std::clamp<__int128>(w, 0, MAXM))); }
            else if (aim == 2) { __int128 w = __int128(MAXM) + d - in; v = (k + 1 == nin) ? int64_t(std::clamp<__int128>(w, 0, MAXM)) : s.range<int64_t>(0, MAXM); }
            else v = s.range<int64_t>(0, MAXM);
            vals.push_back(v);
            in += v;
        }
        // outputs: all-in-fees, or leave a chosen fee
        __int128 in_capped = std::min<__int128>(in, MAXM);
        unsigned fm = s.pick<unsigned>({0, 0, 1, 2, 3, 0});
        int64_t out = fm == 0 ? 0 : fm == 1 ? int64_t(in_capped) : fm == 2 ? s.range<int64_t>(0, int64_t(in_capped)) : int64_t(std::min<__int128>(in + 1, MAXM)); // fm==3: out = in+1 (in-belowout)
        tx_inputs.push_back(vals);
        tx_out.push_back(out);
        // model, in block order
        if (expect.empty()) {
            bool range = false;
            __int128 run = 0;
            for (int64_t v : vals) { run += v; if (v < 0 || v > MAXM || run > MAXM) range = true; }
            if (nb(run)) near = true;
            if (range) { expect = "bad-txns-inputvalues-outofrange"; bad_tx = int(t); }
            else if (run < out) { expect = "bad-txns-in-belowout"; bad_tx = int(t); }
            else {
                fee_prefix += run - out;
                if (nb(fee_prefix)) near = true;
                if (fee_prefix > MAXM) { expect = "bad-txns-accumulated-fee-outofrange"; bad_tx = int(t); }
            }
        }
        // build the tx and seed its coins
        std::vector<std::pair<COutPoint, RefCoin>> coins;
        for (int64_t v : vals) {
            ++coin_id;
            COutPoint op(Txid::FromUint256(uint256(uint8_t(0x40 + coin_id))), coin_id % 3);
            RefCoin rc{v, P2WSH_OP_TRUE, 0, false};
            coins.emplace_back(op, rc);
            LOCK(cs_main);
            sim.chainstate().CoinsTip().AddCoin(op, Coin(CTxOut(v, P2WSH_OP_TRUE), 0, false), /*possible_overwrite=*/false);
        }
        std::vector<CTxOut> outs{CTxOut(out, out == 0 ? sim.keys.Script(SpkType::OP_RETURN) : P2WSH_OP_TRUE)};
        txs.push_back(MakeTransactionRef(sim.MakeTx(coins, outs)));
    }
    // coinbase: subsidy + fees (only meaningful when the fee total is in range), capped so the coinbase itself passes CheckTransaction
    __int128 fees_ok = expect.empty() ? fee_prefix : 0;
    __int128 full = __int128(subsidy) + fees_ok;
    unsigned cm = s.range<unsigned>(0, 3);
    __int128 claim = cm == 0 ? full : cm == 1 ? full + 1 : cm == 2 ? full - 1 : __int128(subsidy);
    claim = std::clamp<__int128>(claim, 0, MAXM);
    if (expect.empty() && claim > full) expect = "bad-cb-amount";
    BlockSpec spec;
    spec.prev = genesis;
    spec.txs = txs;
    spec.coinbase_value = CAmount(claim);
    auto blk = sim.Build(spec);
    BlockValidationState tv = sim.TestValidity(*blk);
    st.steps++;
    st.note("ntx=", ntx, " fee_total=", int64_t(std::min<__int128>(fee_prefix, I64MAX)), " claim=", int64_t(claim), " expect=", expect.empty() ? "valid" : expect, " at tx ", bad_tx,
            " got=", StateStr(tv));
    VCHECK(tv.IsValid() == expect.empty(), "c01.feeacc-verdict", "TestBlockValidity", StateStr(tv), "model expects", expect.empty() ? "valid" : expect, "at tx", bad_tx);
    if (!expect.empty()) VCHECK(tv.GetRejectReason() == expect, "c01.feeacc-reason", "got", StateStr(tv), "model expects", expect, "at tx", bad_tx);
    st.nontrivial = near;
    st.mix(expect); st.mix(uint64_t(bad_tx + 1)); st.mix(uint64_t(ntx)); st.mix(uint64_t(near)); st.mix(uint64_t(cm));
    st.cls(expect.empty() ? "accepted" : "rejected:" + expect);
    if (near) st.cls("near-MAX_MONEY");
}
