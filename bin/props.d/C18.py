# C18: stage list (what ./check C18 quick|thorough runs) and manifest text. Helpers gen()/enum()/hyp()/custom() come from props.py.
SPEC = {
    "level": "exploration",
    "assumptions": [
        "reference encoder written from the format descriptions (coins.h: VARINT(height*2+coinbase) + compressed txout; compressor.cpp comment for the amount "
        "compression, evaluated on the decimal string; compressor.h for special script types 0..5 / size+6; serialize.h for VARINT, self-tested on its documented vectors)",
        "curve membership of uncompressed keys decided by y^2 = x^3 + 7 mod p with canonical coordinates in boost cpp_int",
        "amounts restricted to [0, 21M BTC] (documented precondition of CompressAmount); scripts above 10,000 bytes are only checked on the write side "
        "(they are unspendable and the loader replaces them by design)",
        "database round trip through CCoinsViewCache::Flush into an in-memory LevelDB CCoinsViewDB (one per worker process)",
    ],
    "stages": [
        gen("vh_c18", "c18_coincodec", 600000, 10000000, max_seconds_quick=600, min_cases_quick=20000,
            floors={"special:0": 0.03, "special:1": 0.03, "special:2": 0.01, "special:3": 0.01, "special:4": 0.01, "special:5": 0.01, "script-near-miss": 0.15,
                    "amount:e=9": 0.02, "amount:e=1..8": 0.04, "amount:near-round": 0.1, "db-roundtrip": 0.1, "height=0": 0.03, "height>=2^30": 0.05,
                    "script:generic-oversize": 0.005, "multi-undo": 0.1},
            rule="coin/undo bytes == reference encoder, all round trips; non-trivial = special or near-miss script, or amount with trailing zeros / near d*10^e"),
        enum("vh_c18", "c18_amounts_small", rule="exhaustive: all amounts 0..2,000,000 and all whole-coin amounts k*1e8 (k<=21M): compress == reference, decompress inverts"),
        gen("vh_c18", "up_script", 150000, 2000000, max_seconds_quick=600, rule="upstream fuzz target script (CompressScript/DecompressScript round trip asserts + sanitizers), supplementary"),
        # coverage-guided libFuzzer campaign on the same target (thorough tier only; fz tree = g++ trace-pc + covshim)
        fuzz('vh_c18', 'c18_coincodec', 300, max_len=400),
    ],
}

META = {
    "level_text": "600k generated coins per quick run (boundary-biased amounts, every special script template with near misses at each template position, valid / "
                  "off-curve / hybrid / non-canonical uncompressed keys, script lengths around every encoding boundary, height and coinbase extremes) are serialized as "
                  "Coin, TxInUndo and CTxUndo records and compared byte-for-byte with an independent reference encoder, read back, and a sample is written through "
                  "a real CCoinsViewDB; plus an exhaustive sweep of 23M amounts. Exploration: sampled inputs; the exhaustive part covers only the listed amount ranges.",
    "technique": "property-based testing: structured generator + independent reference encoder (differential) + serialize/deserialize and database round trips, exhaustive amount sub-range",
}
