// Shared helpers of the wallet persistence / crash targets (C42, C43, C62). Header-only: every property is its own binary
// (harness/targets/cNN_*.cpp -> vh_cNN), this file is included by each of them and is not a kit.
//
//   Env / Mark            : environment access, unbuffered "MARK ..." lines (write(1)) that the E3 recorder (crashlib.parse_trace)
//                           interleaves in order with the file operations; marks are only written when VH_W_MARKS=1
//   DescModel             : independent index of wallet scripts: descriptor id -> own expansion (Descriptor::Expand from the
//                           descriptor STRING; never DescriptorScriptPubKeyMan's script map / next_index)
//   ImportDescriptor      : importdescriptors-equivalent (AddWalletDescriptor [+ AddActiveScriptPubKeyMan])
//   PrepareImage/LoadImage: open a copy of a wallet directory (crash image) in a fresh node through CWallet::LoadExisting
//   AppendPlan / ReadPlan : blocks a workload built, for the recovery process
//   Records, snapshots, GroupOf / CheckGroups : record-level view of the database and the atomic-group oracle
//   CanonicalDump         : what a wallet records, from its in-memory state (clean-restart oracle)
//   Secret, ScanFile/Dir  : byte-pattern scan for private key material
//   CopyDir               : recursive directory copy
#ifndef VERIF_TARGETS_C43_WALLETLIB_H
#define VERIF_TARGETS_C43_WALLETLIB_H

#include <kits/walletsim.h>

#include <addresstype.h>
#include <crypto/hex_base.h>
#include <hash.h>
#include <key_io.h>
#include <primitives/block.h>
#include <script/descriptor.h>
#include <script/signingprovider.h>
#include <streams.h>
#include <util/fs.h>
#include <util/strencodings.h>
#include <util/string.h>
#include <util/translation.h>
#include <wallet/db.h>
#include <wallet/transaction.h>
#include <wallet/types.h>
#include <wallet/scriptpubkeyman.h>
#include <wallet/wallet.h>
#include <wallet/walletutil.h>

#include <unistd.h>

#include <algorithm>
#include <cctype>
#include <cstdlib>
#include <fstream>
#include <functional>
#include <filesystem>
#include <map>
#include <memory>
#include <optional>
#include <set>
#include <string>
#include <vector>

namespace wl {

using verif::ChainSim;
using verif::WalletSim;
using verif::WalletSimOpts;

inline std::string Env(const char* k) { const char* v = getenv(k); return v ? v : ""; }
inline bool MarksOn() { static const bool on = Env("VH_W_MARKS") == "1"; return on; }
/** One unbuffered line on fd 1; strace records it in order with the file operations of this thread. */
inline void Mark(const std::string& line)
{
    if (!MarksOn()) return;
    std::string l = "MARK " + line + "\n";
    ssize_t r = ::write(1, l.data(), l.size());
    (void)r;
}

inline void CopyDir(const fs::path& from, const fs::path& to)
{
    std::filesystem::create_directories(to);
    std::filesystem::copy(from, to, std::filesystem::copy_options::recursive | std::filesystem::copy_options::overwrite_existing);
}

inline const OutputType ALL_TYPES[4] = {OutputType::LEGACY, OutputType::P2SH_SEGWIT, OutputType::BECH32, OutputType::BECH32M};
inline const char* TypeName(OutputType t)
{
    switch (t) {
    case OutputType::LEGACY: return "pkh";
    case OutputType::P2SH_SEGWIT: return "sh-wpkh";
    case OutputType::BECH32: return "wpkh";
    case OutputType::BECH32M: return "tr";
    default: return "?";
    }
}

/** Own expansion of a descriptor string for indices [0, range): scripts (empty vector entry = not expandable without private keys). */
struct Expansion {
    uint256 id;                   //!< DescriptorID of the parsed descriptor (what the wallet uses as ScriptPubKeyMan id)
    bool ranged{false};
    std::vector<CScript> scripts; //!< by index; stops at the first index that cannot be expanded with the given string's keys
};

inline Expansion ExpandString(const std::string& desc_str, int range)
{
    Expansion e;
    FlatSigningProvider keys;
    std::string error;
    auto parsed = Parse(desc_str, keys, error, /*require_checksum=*/false);
    if (parsed.size() == 1) {
        e.id = DescriptorID(*parsed[0]);
        e.ranged = parsed[0]->IsRange();
        for (int i = 0; i < range; ++i) {
            std::vector<CScript> scripts;
            FlatSigningProvider out;
            if (!parsed[0]->Expand(i, keys, scripts, out) || scripts.size() != 1) break;
            e.scripts.push_back(scripts[0]);
            if (!e.ranged) break;
        }
    }
    return e;
}

/** Expansions of strings that repeat in every case (the fixed harness descriptors) are computed once per process. */
inline std::shared_ptr<const Expansion> ExpandCached(const std::string& desc_str, int range, bool persistent)
{
    static std::map<std::pair<std::string, int>, std::shared_ptr<const Expansion>> cache;
    auto key = std::make_pair(desc_str, range);
    auto it = cache.find(key);
    if (it != cache.end()) return it->second;
    auto e = std::make_shared<const Expansion>(ExpandString(desc_str, range));
    if (persistent && cache.size() < 64) cache.emplace(key, e);
    return e;
}

/** script -> (descriptor id, index) over every descriptor the harness has seen in the wallet. */
struct DescModel {
    int range{96};
    std::map<uint256, std::shared_ptr<const Expansion>> by_id;
    std::map<CScript, std::pair<uint256, int>> by_script;

    /** `alias`: the id the wallet uses for this descriptor (ScriptPubKeyMan::GetID()), when the string is the NORMALISED public form whose
     *  own id differs (descriptors generated by the wallet have hardened steps after the extended key). */
    uint256 AddString(const std::string& desc_str, bool persistent = false, const uint256* alias = nullptr)
    {
        auto e = ExpandCached(desc_str, range, persistent);
        if (e->id.IsNull()) return e->id;
        if (alias && !by_id.count(*alias)) by_id[*alias] = e;
        if (by_id.count(e->id)) return e->id;
        by_id[e->id] = e;
        for (size_t i = 0; i < e->scripts.size(); ++i) by_script.emplace(e->scripts[i], std::make_pair(e->id, int(i)));
        return e->id;
    }
    /** Learn the descriptors the wallet holds now (public strings; harness-imported ones were added with their private string before). */
    void Refresh(wallet::CWallet& w)
    {
        std::vector<std::pair<std::string, uint256>> strs;
        {
            LOCK(w.cs_wallet);
            for (auto* spkm : w.GetAllScriptPubKeyMans()) {
                auto* d = dynamic_cast<wallet::DescriptorScriptPubKeyMan*>(spkm);
                if (!d || by_id.count(d->GetID())) continue;
                std::string s;
                if (d->GetDescriptorString(s, /*priv=*/false)) strs.emplace_back(s, d->GetID());
            }
        }
        for (auto& [s, id] : strs) AddString(s, false, &id);
    }
    std::optional<std::pair<uint256, int>> Lookup(const CScript& spk) const
    {
        auto it = by_script.find(spk);
        if (it == by_script.end()) return std::nullopt;
        return it->second;
    }
    const CScript* ScriptAt(const uint256& id, int index) const
    {
        auto it = by_id.find(id);
        if (it == by_id.end() || index < 0 || size_t(index) >= it->second->scripts.size()) return nullptr;
        return &it->second->scripts[index];
    }
};

/** importdescriptors-equivalent. Returns the id of the ScriptPubKeyMan, or nullopt (+ error). Throws what the wallet throws. */
inline std::optional<uint256> ImportDescriptor(wallet::CWallet& w, const std::string& desc_str, bool active, bool internal, int range_end,
                                               const std::string& label, std::string* error_out = nullptr)
{
    FlatSigningProvider keys;
    std::string error;
    auto parsed = Parse(desc_str, keys, error, /*require_checksum=*/false);
    if (parsed.size() != 1) { if (error_out) *error_out = error; return std::nullopt; }
    const auto type = parsed[0]->GetOutputType();
    const bool ranged = parsed[0]->IsRange();
    wallet::WalletDescriptor wd{std::move(parsed[0]), /*creation_time=*/1, /*range_start=*/0, /*range_end=*/ranged ? range_end : 1, /*next_index=*/0};
    LOCK(w.cs_wallet);
    auto r = w.AddWalletDescriptor(wd, keys, label, internal);
    if (!r) { if (error_out) *error_out = util::ErrorString(r).original; return std::nullopt; }
    const uint256 id = r->get().GetID();
    if (active && type && ranged) w.AddActiveScriptPubKeyMan(id, *type, internal);
    return id;
}

/** Copy the wallet directory `image_dir` (crash image) into `sim`'s datadir as wallet "w". Nothing is opened yet: the caller may first
 *  look at the database on record level (ReadImageRecords) and then calls ws->Reload(&error) (CWallet::LoadExisting). */
inline std::unique_ptr<WalletSim> PrepareImage(ChainSim& sim, const std::string& image_dir, int keypool)
{
    WalletSimOpts wo;
    wo.name = "w";
    wo.on_disk = false; // placeholder wallet on the mockable database; replaced by the image below
    wo.rescan = false;
    wo.keypool = 1;
    auto ws = std::make_unique<WalletSim>(sim, wo);
    ws->Unload();
    CopyDir(fs::PathFromString(image_dir), ws->DbDir());
    ws->opts.on_disk = true;
    ws->opts.unsafe_sync = true; // the recovery process itself is never crashed; hot journals are rolled back regardless of the sync mode
    ws->opts.keypool = keypool;
    return ws;
}

inline std::unique_ptr<WalletSim> LoadImage(ChainSim& sim, const std::string& image_dir, int keypool, bool* ok, std::string* error)
{
    auto ws = PrepareImage(sim, image_dir, keypool);
    *ok = ws->Reload(error);
    return ws;
}

// ---------------------------------------------------------------------------------------------------------------------------------
// Blocks built by a workload, so that the recovery process can give the wallet the same chain (as c16's plan file).

inline void AppendPlan(const std::string& path, const CBlock& b)
{
    if (path.empty()) return;
    DataStream ds;
    ds << TX_WITH_WITNESS(b);
    std::ofstream f(path, std::ios::binary | std::ios::app);
    uint32_t n = ds.size();
    f.write(reinterpret_cast<const char*>(&n), 4);
    f.write(reinterpret_cast<const char*>(ds.data()), ds.size());
}

inline std::vector<std::shared_ptr<CBlock>> ReadPlan(const std::string& path)
{
    std::vector<std::shared_ptr<CBlock>> out;
    std::ifstream f(path, std::ios::binary);
    while (f) {
        uint32_t n;
        if (!f.read(reinterpret_cast<char*>(&n), 4)) break;
        std::vector<std::byte> buf(n);
        if (!f.read(reinterpret_cast<char*>(buf.data()), n)) break;
        DataStream ds{buf};
        auto b = std::make_shared<CBlock>();
        ds >> TX_WITH_WITNESS(*b);
        out.push_back(b);
    }
    return out;
}

// ---------------------------------------------------------------------------------------------------------------------------------
// Record level: the (key, value) rows of the wallet database, read through a plain cursor (no CWallet involved). Snapshots taken by a
// workload at quiescent points are compared with the rows of a crash image: the atomicity oracle of C43 / C42.

using Records = std::map<std::string, std::string>; //!< hex(key) -> hex(value)

inline bool DumpRecords(wallet::WalletDatabase& db, Records& out)
{
    out.clear();
    auto batch = db.MakeBatch();
    if (!batch) return false;
    auto cursor = batch->GetNewCursor();
    if (!cursor) return false;
    while (true) {
        DataStream k, v;
        auto status = cursor->Next(k, v);
        if (status == wallet::DatabaseCursor::Status::DONE) break;
        if (status == wallet::DatabaseCursor::Status::FAIL) return false;
        out[HexStr(std::span<const std::byte>(k.data(), k.size()))] = HexStr(std::span<const std::byte>(v.data(), v.size()));
    }
    return true;
}

/** Rows of the wallet database in directory `dir` (opened like the wallet opens it: a hot journal is rolled back). */
inline bool ReadImageRecords(const fs::path& dir, Records& out, std::string* error)
{
    wallet::DatabaseOptions dbo;
    dbo.require_existing = true;
    dbo.require_format = wallet::DatabaseFormat::SQLITE;
    dbo.use_unsafe_sync = true;
    wallet::DatabaseStatus status;
    bilingual_str err;
    auto db = wallet::MakeDatabase(dir, dbo, status, err);
    if (!db) { if (error) *error = err.original; return false; }
    bool ok = DumpRecords(*db, out);
    if (!ok && error) *error = "cursor failed";
    return ok;
}

inline void WriteSnapshot(const std::string& path, const Records& r)
{
    std::ofstream f(path, std::ios::trunc);
    for (const auto& [k, v] : r) f << k << " " << v << "\n";
}

inline bool ReadSnapshot(const std::string& path, Records& r)
{
    r.clear();
    std::ifstream f(path);
    if (!f) return false;
    std::string k, v, line;
    while (std::getline(f, line)) {
        auto sp = line.find(' ');
        if (sp == std::string::npos) { if (!line.empty()) r[line] = ""; continue; }
        r[line.substr(0, sp)] = line.substr(sp + 1);
    }
    return true;
}

/** Decoded head of a record key: the type string and, for descriptor records, the descriptor id (hex of the 32 serialized bytes). */
struct RecKey {
    std::string type;
    std::string id_hex;   //!< next 32 bytes after the type (descriptor id / txid), if present
    std::string rest_hex; //!< everything after the type
};

inline RecKey ParseKey(const std::string& hexkey)
{
    RecKey k;
    auto raw = ParseHex(hexkey);
    if (raw.empty() || raw[0] >= 253 || raw.size() < size_t(1 + raw[0])) return k;
    k.type.assign(raw.begin() + 1, raw.begin() + 1 + raw[0]);
    k.rest_hex = HexStr(std::span<const unsigned char>(raw.data() + 1 + raw[0], raw.size() - 1 - raw[0]));
    if (k.rest_hex.size() >= 64) k.id_hex = k.rest_hex.substr(0, 64);
    return k;
}

inline std::set<std::string> DescriptorIds(const Records& r)
{
    std::set<std::string> ids;
    for (const auto& [k, v] : r) { RecKey rk = ParseKey(k); if (rk.type == "walletdescriptor") ids.insert(rk.id_hex); }
    return ids;
}

/** Atomic group a changed record belongs to, for an operation of kind `op` ("" = the statement promises nothing for this record).
 *  The groups are the database transactions the statement lists: descriptor setup (all records of the newly generated descriptors and
 *  the active-descriptor pointers), encryption (master key + every private key record of the existing descriptors), keypool top-up
 *  (per descriptor: cache items + range), transaction removal, address-book removal. */
inline std::string GroupOf(const RecKey& k, const std::string& op, const std::set<std::string>& ids_before)
{
    const bool desc_meta = k.type == "walletdescriptor" || k.type == "walletdescriptorcache" || k.type == "walletdescriptorlhcache";
    const bool desc_key = k.type == "walletdescriptorkey" || k.type == "walletdescriptorckey";
    if (op == "encrypt" || op == "create-generated") {
        if (k.type == "mkey") return op == "encrypt" ? "encrypt" : "";
        const bool is_new = !ids_before.count(k.id_hex);
        if (desc_key) return is_new ? "setup" : (op == "encrypt" ? "encrypt" : "");
        if (desc_meta) return is_new ? "setup" : "";
        if (k.type == "activeexternalspk" || k.type == "activeinternalspk") return "setup";
        return "";
    }
    if (op == "topup") return desc_meta ? "topup:" + k.id_hex.substr(0, 16) : "";
    if (op == "removetxs") return (k.type == "tx" || k.type == "wtxvariant") ? "removetxs" : "";
    if (op == "deladdr") return (k.type == "name" || k.type == "purpose" || k.type == "destdata") ? "deladdr" : "";
    return "";
}

struct GroupVerdict {
    bool ok{true};
    std::string why;
    int groups{0}, keys{0}, present{0}, absent{0}; //!< groups found entirely in the after-state / entirely in the before-state
};

/** Every atomic group of the operation must appear in `R` entirely as in `A` (absent) or entirely as in `B` (present). */
inline GroupVerdict CheckGroups(const Records& A, const Records& B, const Records& R, const std::string& op)
{
    GroupVerdict gv;
    const std::set<std::string> ids_before = DescriptorIds(A);
    std::map<std::string, std::vector<std::string>> groups; // label -> changed keys
    auto get = [](const Records& m, const std::string& k) -> const std::string* { auto it = m.find(k); return it == m.end() ? nullptr : &it->second; };
    auto same = [](const std::string* a, const std::string* b) { return (!a && !b) || (a && b && *a == *b); };
    std::set<std::string> all;
    for (auto& [k, v] : A) all.insert(k);
    for (auto& [k, v] : B) all.insert(k);
    for (const std::string& k : all) {
        if (same(get(A, k), get(B, k))) continue;
        std::string g = GroupOf(ParseKey(k), op, ids_before);
        if (!g.empty()) groups[g].push_back(k);
    }
    for (auto& [g, keys] : groups) {
        gv.groups++;
        gv.keys += keys.size();
        size_t as_a = 0, as_b = 0;
        std::string odd;
        for (auto& k : keys) {
            const bool ea = same(get(R, k), get(A, k)), eb = same(get(R, k), get(B, k));
            as_a += ea; as_b += eb;
            if (!ea && !eb && odd.empty()) odd = k;
        }
        if (as_b == keys.size()) { gv.present++; continue; }
        if (as_a == keys.size()) { gv.absent++; continue; }
        gv.ok = false;
        std::string first_a, first_b;
        for (auto& k : keys) {
            if (first_b.empty() && same(get(R, k), get(B, k)) && !same(get(R, k), get(A, k))) first_b = k;
            if (first_a.empty() && same(get(R, k), get(A, k)) && !same(get(R, k), get(B, k))) first_a = k;
        }
        gv.why = "atomic group '" + g + "' of operation '" + op + "' is partially applied: " + util::ToString(keys.size()) + " changed records, " +
                 util::ToString(as_b) + " as after, " + util::ToString(as_a) + " as before; e.g. already applied: " + ParseKey(first_b).type + " " + first_b.substr(0, 96) +
                 " | still old: " + ParseKey(first_a).type + " " + first_a.substr(0, 96) + (odd.empty() ? "" : " | neither: " + odd.substr(0, 96));
        return gv;
    }
    return gv;
}

// ---------------------------------------------------------------------------------------------------------------------------------
// Canonical dump of what a wallet records, from its in-memory state through public members only (C43, clean-restart clause).

inline std::string StateStr(const wallet::CWalletTx& wtx) { return wallet::TxStateString(wtx.m_state); }

inline std::vector<std::string> CanonicalDump(wallet::CWallet& w)
{
    std::vector<std::string> out;
    LOCK(w.cs_wallet);
    out.push_back(strprintf("flags %x", w.GetWalletFlags()));
    out.push_back(strprintf("encrypted %d", int(w.HasEncryptionKeys())));
    for (const auto& [id, mk] : w.mapMasterKeys) {
        out.push_back(strprintf("mkey %u salt=%s crypted=%s method=%u iter=%u", id, HexStr(mk.vchSalt), HexStr(mk.vchCryptedKey), mk.nDerivationMethod, mk.nDeriveIterations));
    }
    out.push_back(strprintf("orderposnext %d", w.nOrderPosNext));
    out.push_back(strprintf("bestblock %d %s", w.GetLastBlockHeight(), w.GetLastBlockHash().ToString()));
    // descriptors
    std::map<uint256, std::string> descs;
    for (auto* spkm : w.GetAllScriptPubKeyMans()) {
        auto* d = dynamic_cast<wallet::DescriptorScriptPubKeyMan*>(spkm);
        if (!d) { descs[spkm->GetID()] = "non-descriptor spkm"; continue; }
        std::string pub, priv;
        const bool have_pub = d->GetDescriptorString(pub, /*priv=*/false);
        wallet::WalletDescriptor wd = WITH_LOCK(d->cs_desc_man, return d->GetWalletDescriptor());
        std::string line = strprintf("desc %s created=%d range=[%d,%d) next=%d privkeys=%d crypted=%d", have_pub ? pub : wd.descriptor->ToString(), wd.creation_time,
                                     wd.range_start, wd.range_end, wd.next_index, int(d->HavePrivateKeys()), int(d->HaveCryptedKeys()));
        if (!w.HasEncryptionKeys() && d->HavePrivateKeys() && d->GetDescriptorString(priv, /*priv=*/true)) line += " priv=" + priv;
        // the script set the descriptor watches (sorted): the persisted cache must regenerate exactly these
        std::vector<std::string> spks;
        for (const CScript& spk : d->GetScriptPubKeys()) spks.push_back(HexStr(spk));
        std::sort(spks.begin(), spks.end());
        HashWriter hw;
        for (auto& x : spks) hw << x;
        line += strprintf(" scripts=%u:%s", spks.size(), hw.GetHash().ToString().substr(0, 16));
        std::string slots;
        for (OutputType t : ALL_TYPES) for (bool internal : {false, true}) if (w.GetScriptPubKeyMan(t, internal) == spkm) slots += strprintf(" active(%s,%s)", TypeName(t), internal ? "int" : "ext");
        descs[d->GetID()] = line + slots;
    }
    for (auto& [id, line] : descs) out.push_back(line);
    // transactions
    std::map<Txid, std::string> txs;
    for (const auto& [txid, wtx] : w.mapWallet) {
        std::string line = strprintf("wtx %s wtxid=%s state=%s received=%u smart=%u pos=%d", txid.ToString(), wtx.GetWitnessHash().ToString().substr(0, 16), StateStr(wtx),
                                     wtx.nTimeReceived, wtx.nTimeSmart, wtx.nOrderPos);
        line += strprintf(" variants=%u", wtx.GetTxs().size());
        if (wtx.m_comment) line += " comment=" + *wtx.m_comment;
        if (wtx.m_comment_to) line += " to=" + *wtx.m_comment_to;
        if (wtx.m_replaces_txid) line += " replaces=" + wtx.m_replaces_txid->ToString();
        if (wtx.m_replaced_by_txid) line += " replaced_by=" + wtx.m_replaced_by_txid->ToString();
        for (auto& m : wtx.m_messages) line += " msg=" + m;
        txs[txid] = line;
    }
    for (auto& [id, line] : txs) out.push_back(line);
    // address book
    std::map<std::string, std::string> book;
    for (const auto& [dest, data] : w.m_address_book) {
        std::string line = "addr " + EncodeDestination(dest) + (data.label ? " label='" + *data.label + "'" : " <change>");
        if (data.purpose) line += " purpose=" + wallet::PurposeToString(*data.purpose);
        if (data.previously_spent) line += " previously_spent";
        for (auto& [id, val] : data.receive_requests) line += " rr[" + id + "]=" + val;
        book[EncodeDestination(dest)] = line;
    }
    for (auto& [a, line] : book) out.push_back(line);
    // persistently locked coins (non-persistent locks are documented not to survive a restart)
    for (const auto& [coin, persistent] : w.m_locked_coins) if (persistent) out.push_back("locked " + coin.ToString());
    return out;
}

inline std::string FirstDifference(const std::vector<std::string>& a, const std::vector<std::string>& b)
{
    std::set<std::string> sa(a.begin(), a.end()), sb(b.begin(), b.end());
    std::string out;
    int n = 0;
    for (auto& x : a) if (!sb.count(x) && n++ < 4) out += " BEFORE-ONLY[" + x.substr(0, 300) + "]";
    n = 0;
    for (auto& y : b) if (!sa.count(y) && n++ < 4) out += " AFTER-ONLY[" + y.substr(0, 300) + "]";
    return out;
}

// ---------------------------------------------------------------------------------------------------------------------------------
// Secret scanning (C42)

struct Secret {
    std::string what;                  //!< e.g. "raw key of wpkh(WIF)", "WIF", "tprv string"
    std::vector<unsigned char> bytes;  //!< byte pattern
};

inline void AddKeyForms(std::vector<Secret>& out, const CKey& key, const std::string& owner)
{
    std::vector<unsigned char> raw(UCharCast(key.begin()), UCharCast(key.end()));
    out.push_back({"raw 32-byte private key of " + owner, raw});
    const std::string hex = HexStr(raw);
    out.push_back({"hex private key of " + owner, std::vector<unsigned char>(hex.begin(), hex.end())});
    const std::string wif = EncodeSecret(key);
    out.push_back({"WIF private key of " + owner, std::vector<unsigned char>(wif.begin(), wif.end())});
}

inline void AddExtKeyForms(std::vector<Secret>& out, const CExtKey& xk, const std::string& owner)
{
    AddKeyForms(out, xk.key, owner);
    const std::string b58 = EncodeExtKey(xk);
    out.push_back({"base58 extended private key of " + owner, std::vector<unsigned char>(b58.begin(), b58.end())});
    unsigned char code[BIP32_EXTKEY_SIZE];
    xk.Encode(code);
    // xprv payload: chain code || 0x00 || key (the last 65 bytes of the 74-byte BIP32 serialization)
    out.push_back({"BIP32 payload (chaincode||00||key) of " + owner, std::vector<unsigned char>(code + 9, code + BIP32_EXTKEY_SIZE)});
}

/** Extended private keys / WIF keys that appear in a private descriptor string. */
inline void AddSecretsOfDescriptorString(std::vector<Secret>& out, const std::string& priv_desc)
{
    size_t i = 0;
    auto is_b58 = [](char c) { return std::isalnum(static_cast<unsigned char>(c)) && c != '0' && c != 'O' && c != 'I' && c != 'l'; };
    while (i < priv_desc.size()) {
        if (!is_b58(priv_desc[i])) { ++i; continue; }
        size_t j = i;
        while (j < priv_desc.size() && is_b58(priv_desc[j])) ++j;
        const std::string tok = priv_desc.substr(i, j - i);
        i = j;
        if (tok.size() < 50) continue;
        CExtKey xk = DecodeExtKey(tok);
        if (xk.key.IsValid()) { AddExtKeyForms(out, xk, "descriptor " + priv_desc.substr(0, 12) + ".."); continue; }
        CKey k = DecodeSecret(tok);
        if (k.IsValid()) AddKeyForms(out, k, "descriptor " + priv_desc.substr(0, 12) + "..");
    }
}

/** First secret found in the bytes of `file`, or "" if none. */
inline std::string ScanFile(const fs::path& file, const std::vector<Secret>& secrets)
{
    std::ifstream f(static_cast<const std::filesystem::path&>(file), std::ios::binary);
    if (!f) return "";
    std::vector<unsigned char> data((std::istreambuf_iterator<char>(f)), std::istreambuf_iterator<char>());
    for (const Secret& s : secrets) {
        if (s.bytes.empty()) continue;
        auto it = std::search(data.begin(), data.end(), s.bytes.begin(), s.bytes.end());
        if (it != data.end()) return s.what + " at offset " + util::ToString(it - data.begin()) + " of " + fs::PathToString(file.filename()) + " (" + util::ToString(data.size()) + " bytes)";
    }
    return "";
}

inline std::string ScanDir(const fs::path& dir, const std::vector<Secret>& secrets, const std::function<bool(const std::string&)>& want = nullptr)
{
    std::vector<fs::path> files;
    for (auto& e : std::filesystem::directory_iterator(static_cast<const std::filesystem::path&>(dir))) if (e.is_regular_file()) files.push_back(fs::path(e.path()));
    std::sort(files.begin(), files.end());
    for (auto& p : files) {
        if (want && !want(fs::PathToString(p.filename()))) continue;
        std::string hit = ScanFile(p, secrets);
        if (!hit.empty()) return hit;
    }
    return "";
}

} // namespace wl

#endif // VERIF_TARGETS_C43_WALLETLIB_H
