// C22 — The mempool stays consistent and every entry is valid for the next block.
// Histories on a MempoolSim node; after EVERY operation the real pool is snapshotted and re-derived independently:
//   (a) CheckSnapshot: every input is an unspent output of the active chain (RefLedger replay) or an output of another pool tx, no
//       outpoint spent twice, entry fee == in - out, parent/child/ancestor/descendant/cluster answers == recomputation from inputs,
//       totals == sums;
//   (b) the model's own next-block rules (inputs, amounts, maturity, nLockTime, BIP68) accept ALL pool txs in topological order;
//   (c) strong clause: a harness-built block holding ALL pool txs (clusters whole, topological) passes TestBlockValidity on the tip.
// CTxMemPool::check() (ratio 1) runs as an additional monitor.
#include <engine/verif.h>
#include <kits/mempoolsim.h>

#include <hash.h>

#include <set>

using namespace verif;

namespace {

bool TxIsTimeSensitive(const CTransaction& tx)
{
    bool nonfinal_seq = false, bip68 = false;
    for (const auto& in : tx.vin) {
        if (in.nSequence != 0xffffffffU) nonfinal_seq = true;
        if (tx.version >= 2 && !(in.nSequence & (1U << 31)) && (in.nSequence & 0xffff) != 0) bip68 = true;
    }
    return (tx.nLockTime != 0 && nonfinal_seq) || bip68;
}

struct Hist {
    MempoolSim& ms;
    Stats& st;
    int checks{0};
    bool reorg_with_sensitive{false};
    int reorgs{0}, maxdepth{0};
    size_t max_pool{0};
    uint256 last_block_check_key; //!< (tip, pool txids, fees) at the last strong-clause check: unchanged state is not re-validated

    bool PoolHasSensitive(const PoolSnap& snap)
    {
        for (const auto& [id, e] : snap.entries) if (e.spends_coinbase || TxIsTimeSensitive(*e.tx)) return true;
        return false;
    }

    void CheckAll(const char* where)
    {
        const PoolSnap& snap = ms.Sync();
        max_pool = std::max(max_pool, snap.entries.size());
        st.steps++;
        checks++;
        const PoolIssue is = CheckSnapshot(snap, ms.ChainUtxo());
        if (is) {
            const std::string oid = "c22." + is.id;
            VCHECK(false, oid, where, is.msg, "pool", snap.entries.size(), "tip height", snap.tip_height);
        }
        if (snap.entries.empty()) return;
        const ModelPool& m = ms.Belief();
        std::vector<CTransactionRef> all;
        const auto topo = m.TopoOrder();
        for (const auto& t : *topo) all.push_back(m.txs.at(t));
        const std::string verdict = ms.ModelNextBlockVerdict(all);
        VCHECK(verdict.empty(), "c22.model-next-block", where, "a pool transaction is not valid for the next block by the model:", verdict, "tip height", snap.tip_height);
        {
            HashWriter hw;
            hw << snap.tip;
            for (const auto& [id, e] : snap.entries) hw << e.tx->GetWitnessHash().ToUint256() << e.fee;
            const uint256 key = hw.GetHash();
            if (key == last_block_check_key) return;
            last_block_check_key = key;
        }
        st.steps++;
        for (const CBlock& b : ms.WholePoolBlocks(snap)) {
            const BlockValidationState bs = ms.sim().TestValidity(b);
            VCHECK(bs.IsValid(), "c22.whole-pool-block", where, "block holding", b.vtx.size() - 1, "pool txs on the tip fails TestBlockValidity:", StateStr(bs), "tip height", snap.tip_height);
        }
    }

    void NoteReorg(int depth, bool sensitive_before)
    {
        reorgs++;
        maxdepth = std::max(maxdepth, depth);
        st.cls("reorg");
        if (depth >= 2) st.cls("reorg-depth>=2");
        if (sensitive_before) { reorg_with_sensitive = true; st.cls("reorg-with-sensitive-entry"); }
        st.mix(uint64_t(200 + depth));
    }
};

uint64_t ReasonHash(const std::string& r)
{
    uint64_t h = 1469598103934665603ULL;
    for (unsigned char c : r) { h ^= c; h *= 1099511628211ULL; }
    return h;
}

} // namespace

VERIF_TARGET(c22_mempool_history, nullptr, 140, 2200,
             "histories (6-48 ops) on a regtest node (110-block base + funding block; cluster-count limit 2..64, optional 1 MB -maxmempool, 1 h expiry): submit generated "
             "transactions/packages (plain, chains, merges, RBF conflicts at the fee threshold, TRUC parent/child/sibling, ephemeral-dust and CPFP packages, nLockTime and BIP68 at "
             "their boundary, coinbase spends at the maturity boundary, oversized, junk, re-submissions), mine a block from a pool subset plus conflicting non-pool txs, reorg by "
             "InvalidateBlock depth 1-3 or by a competing longer branch, reconsider, mock-time jumps + Expire, PrioritiseTransaction, TrimToSize; after every op the pool is "
             "re-derived independently and a block of ALL pool txs must pass TestBlockValidity. non-trivial = a reorg happened while the pool (or the disconnected blocks) held a "
             "time-locked or coinbase-spending transaction; distinct = op kinds, generated kinds, accept/reject reasons, reorg depths")
{
    MempoolSimOpts o;
    static const char* const kCount[] = {"-limitclustercount=64", "-limitclustercount=2", "-limitclustercount=3", "-limitclustercount=5", "-limitclustercount=9", "-limitclustercount=24"};
    const unsigned cfg = s.range<unsigned>(0, 5);
    o.extra_args.push_back(kCount[cfg]);
    const unsigned cfg2 = s.range<unsigned>(0, 3);
    if (cfg2 == 1) { o.extra_args.push_back("-maxmempool=1"); o.extra_args.push_back("-limitclustersize=25"); st.cls("cfg-maxmempool-1MB"); }
    if (cfg2 == 2) { o.extra_args.push_back("-mempoolexpiry=1"); st.cls("cfg-expiry-1h"); }
    if (cfg2 == 3) { o.extra_args.push_back("-limitclustersize=12"); }
    MempoolSim ms(o);
    Hist h{ms, st};
    st.mix(uint64_t(cfg * 4 + cfg2));
    Note(st, "cfg ", kCount[cfg], " cfg2=", cfg2);
    // a few blocks above the funding block so that reorgs of depth 1-3 are possible from the first op on
    for (int i = 0; i < 3; ++i) ms.MineTxs({});
    h.CheckAll("start");

    const unsigned nops = s.range<unsigned>(6, 48);
    unsigned accepted = 0, submitted = 0;
    auto submit = [&](const GenTx& g) {
        submitted++;
        st.cls(std::string("gen-") + GenKindName(g.kind));
        st.mix(uint64_t(10 + unsigned(g.kind)));
        if (!g.package.empty()) {
            auto r = ms.SubmitPackage(g.package);
            unsigned ok = 0;
            for (const auto& t : g.package) if (ms.pool().exists(t->GetHash())) ok++;
            if (ok == g.package.size()) { accepted++; st.cls("package-accepted"); }
            st.mix(uint64_t(ok));
            st.mix(ReasonHash(r.m_state.GetRejectReason()));
            Note(st, "pkg ", g.note, " -> ", PkgStateStr(r));
        } else {
            auto r = ms.Submit(g.tx);
            const bool ok = r.m_result_type == MempoolAcceptResult::ResultType::VALID;
            if (ok) {
                accepted++;
                st.cls(std::string("accepted-") + GenKindName(g.kind));
                if (!r.m_replaced_transactions.empty()) st.cls("replacement-happened");
            }
            st.mix(ReasonHash(r.m_state.GetRejectReason()));
            Note(st, "tx ", g.note, " fee=", g.fee, " -> ", TxStateStr(r));
        }
    };
    auto sensitive_in_tip_blocks = [&](int depth) {
        std::set<Txid> coinbases;
        for (const auto& [bh, rb] : ms.sim().ledger.blocks) if (!rb.vtx.empty()) coinbases.insert(rb.vtx[0]->GetHash());
        uint256 cur = ms.TipHash();
        for (int i = 0; i < depth; ++i) {
            const RefBlock& b = ms.sim().ledger.At(cur);
            for (size_t k = 1; k < b.vtx.size(); ++k) {
                if (TxIsTimeSensitive(*b.vtx[k])) return true;
                for (const auto& in : b.vtx[k]->vin) if (coinbases.count(in.prevout.hash)) return true;
            }
            if (b.height == 0) break;
            cur = b.prev;
        }
        return false;
    };
    // number of blocks of the old active chain that are no longer active
    auto disconnected = [&](const uint256& old_tip) {
        int d = 0;
        uint256 cur = old_tip;
        const uint256 tip = ms.TipHash();
        while (!ms.sim().ledger.IsAncestor(cur, tip)) { cur = ms.sim().ledger.At(cur).prev; d++; }
        return d;
    };
    auto do_invalidate = [&](int depth) {
        const bool sens = h.PoolHasSensitive(ms.LastSnap()) || sensitive_in_tip_blocks(depth);
        const int before = ms.TipHeight();
        const uint256 old_tip = ms.TipHash();
        const uint256 inv = ms.InvalidateTip(depth);
        if (inv.IsNull()) return;
        const int d = disconnected(old_tip);
        Note(st, "invalidate depth=", depth, " height ", before, "->", ms.TipHeight());
        st.cls("invalidate");
        if (d > 0) h.NoteReorg(d, sens);
    };

    for (unsigned op = 0; op < nops && !s.exhausted(); ++op) {
        const unsigned kind = s.range<unsigned>(0, 19);
        st.mix(uint64_t(kind));
        if (kind <= 8) {
            submit(ms.Gen(s));
        } else if (kind == 9 || kind == 10) {
            // boundary entry, then take the chain back under it: the entry must leave the pool if it is no longer valid for the next block
            static const GenKind kinds[] = {GenKind::COINBASE_SPEND, GenKind::LOCKTIME, GenKind::BIP68, GenKind::CHAIN};
            GenTx g = ms.GenOfKind(s, kinds[s.index(4)]);
            submit(g);
            h.CheckAll("after-boundary-submit");
            if (s.chance(64)) { auto m = ms.MineFromPool({}, {}, 0); Note(st, "empty block"); h.CheckAll("after-empty-block"); (void)m; }
            do_invalidate(s.range<int>(1, 3));
            st.cls("boundary-then-reorg");
        } else if (kind == 11 || kind == 12) {
            // mine a block from a subset of the pool (+ancestors) and non-pool transactions, some conflicting with pool entries
            const PoolSnap& snap = ms.LastSnap();
            std::set<Txid> subset;
            const unsigned mode = s.range<unsigned>(0, 3);
            for (const auto& [id, e] : snap.entries) {
                if (mode == 0 || (mode == 1 && s.boolean()) || (mode == 2 && s.chance(64))) subset.insert(id);
            }
            std::vector<CTransactionRef> extra;
            const unsigned nextra = s.range<unsigned>(0, 3);
            for (unsigned i = 0; i < nextra; ++i) extra.push_back(ms.GenBlockOnlyTx(s, /*conflict_with_pool=*/s.chance(160)));
            const int64_t dt = s.pick<int64_t>({0, 0, 1, 600, 3000});
            auto m = ms.MineFromPool(subset, extra, dt);
            VCHECK(m.delivery.processed && m.became_tip, "c22.harness-block-rejected", "model-valid block was not accepted:", m.delivery.verdict ? StateStr(*m.delivery.verdict) : "no verdict",
                   "txs", m.block->vtx.size(), "processed", m.delivery.processed, "new", m.delivery.new_block, "block height", ms.sim().ledger.At(m.block->GetHash()).height,
                   "tip height", ms.TipHeight(), "block time", m.block->nTime, "now", ms.Now());
            st.cls("mined-block");
            if (nextra && !snap.entries.empty()) st.cls("mined-with-nonpool-txs");
            st.mix(uint64_t(m.block->vtx.size()));
            Note(st, "mine subset=", subset.size(), " extra=", nextra, " dt=", dt, " -> block txs=", m.block->vtx.size() - 1, " dropped=", m.dropped.size());
        } else if (kind == 13) {
            do_invalidate(s.range<int>(1, 3));
        } else if (kind == 14) {
            // competing longer branch: fork 1-3 below the tip; its first block re-mines some disconnected txs, conflicts and fresh txs
            const int depth = s.range<int>(1, 3);
            const bool sens = h.PoolHasSensitive(ms.LastSnap()) || sensitive_in_tip_blocks(depth);
            std::vector<CTransactionRef> txs;
            uint256 cur = ms.TipHash();
            for (int i = 0; i < depth; ++i) {
                const RefBlock& b = ms.sim().ledger.At(cur);
                for (size_t k = 1; k < b.vtx.size(); ++k) if (s.chance(96)) txs.push_back(b.vtx[k]);
                cur = b.prev;
            }
            std::reverse(txs.begin(), txs.end());
            const unsigned nextra = s.range<unsigned>(0, 2);
            for (unsigned i = 0; i < nextra; ++i) if (auto t = ms.GenBlockOnlyTx(s, s.chance(128))) txs.push_back(t);
            const uint256 old_tip = ms.TipHash();
            const int old_h = ms.TipHeight();
            auto mined = ms.ForkAndOvertake(depth, txs, s.pick<int64_t>({0, 0, 700}));
            bool all_ok = true;
            for (const auto& m : mined) all_ok = all_ok && m.delivery.processed;
            VCHECK(all_ok && !mined.empty() && mined.back().became_tip, "c22.harness-block-rejected", "model-valid competing branch did not become the active chain");
            const int fork_h = old_h - disconnected(old_tip);
            Note(st, "overtake depth=", old_h - fork_h, " first-block txs=", mined.front().block->vtx.size() - 1, " old tip ", old_tip.ToString().substr(0, 8));
            if (old_h - fork_h > 0) { st.cls("overtake"); h.NoteReorg(old_h - fork_h, sens); } else st.cls("extend-tip");
        } else if (kind == 15) {
            const bool sens = h.PoolHasSensitive(ms.LastSnap());
            const uint256 old_tip = ms.TipHash();
            ms.ReconsiderAll();
            const int d = disconnected(old_tip);
            Note(st, "reconsider-all -> height ", ms.TipHeight(), " disconnected=", d);
            st.cls("reconsider");
            if (d > 0) h.NoteReorg(d, sens);
        } else if (kind == 16) {
            const int64_t dt = s.pick<int64_t>({30, 600, 1900, 3700, 7300, 50000});
            ms.AdvanceTime(dt);
            int n = -1;
            if (s.boolean()) n = ms.Expire(s.pick<int64_t>({3600, 1800, 600, 100000}));
            Note(st, "time +", dt, " expire removed=", n);
            st.cls("time-jump");
            if (n > 0) st.cls("expired-some");
        } else if (kind == 17) {
            const PoolSnap& snap = ms.LastSnap();
            if (snap.entries.empty()) continue;
            auto it = snap.entries.begin();
            std::advance(it, s.index(snap.entries.size()));
            const CAmount delta = s.pick<CAmount>({1000, -1000, 100000, -100000, 5000000, -5000000, 1});
            ms.Prioritise(it->first, delta);
            Note(st, "prioritise ", it->first.ToString().substr(0, 8), " ", delta);
            st.cls("prioritise");
        } else if (kind == 18) {
            const size_t usage = ms.LastSnap().usage;
            const size_t target = usage * s.range<size_t>(1, 4) / 4;
            ms.TrimToSize(target);
            Note(st, "trim to ", target, " of ", usage);
            st.cls("trim");
        } else {
            // burst: a chain/cluster builder to reach the limits
            const unsigned n = s.range<unsigned>(2, 6);
            for (unsigned i = 0; i < n; ++i) { submit(ms.GenOfKind(s, s.chance(200) ? GenKind::CHAIN : GenKind::MERGE)); ms.Sync(); }
            st.cls("burst");
        }
        h.CheckAll("after-op");
    }
    st.nontrivial = h.reorg_with_sensitive && accepted >= 2;
    st.mix(uint64_t(h.reorgs));
    st.mix(uint64_t(h.maxdepth));
    if (h.max_pool >= 10) st.cls("pool>=10");
    if (h.max_pool >= 25) st.cls("pool>=25");
    Note(st, "submitted=", submitted, " accepted=", accepted, " reorgs=", h.reorgs, " maxdepth=", h.maxdepth, " max_pool=", h.max_pool, " checks=", h.checks);
}
