// C13 — Validation caches never change a verdict (function level).
//
// One long-lived ValidationCache per case receives a sequence of CheckInputScripts calls (inline, or via pvChecks + running the returned checks as ConnectBlock does)
// on a fixed, self-consistent coin world (an outpoint always maps to the same output: the documented precondition of the script-execution cache), re-submitting the
// same transactions under different flag sets (subsets / supersets / flags that flip their validity), their same-txid-different-witness twins, and transactions
// that share signature hashes (legacy scriptSig variants, multisig with a repeated signature). cacheSigStore / cacheFullScriptStore are random.
// Oracle: a CACHE-FREE evaluation of the same call written by the harness: VerifyScript per input with a plain TransactionSignatureChecker (no
// CachingTransactionSignatureChecker, no script-execution cache):
//   c13.verdict   accepted-with-caches == accepted-without-caches
//   c13.reason    on rejection the reject reason names the script error of the first failing input of the cache-free evaluation
#include <engine/verif.h>
#include <kits/chainsim.h>

#include <arith_uint256.h>
#include <coins.h>
#include <policy/policy.h>
#include <script/interpreter.h>
#include <script/script_error.h>
#include <script/sigcache.h>
#include <test/util/setup_common.h>
#include <validation.h>

#include <map>
#include <set>

using namespace verif;

// external linkage in validation.cpp ("Non-static (and redeclared) in src/test/txvalidationcache_tests.cpp")
bool CheckInputScripts(const CTransaction& tx, TxValidationState& state, const CCoinsViewCache& inputs, script_verify_flags flags, bool cacheSigStore,
                       bool cacheFullScriptStore, PrecomputedTransactionData& txdata, ValidationCache& validation_cache,
                       std::vector<CScriptCheck>* pvChecks) EXCLUSIVE_LOCKS_REQUIRED(cs_main);

namespace {

// function-local static: constructed at run time, hence destroyed BEFORE the globals (gArgs) its destructor uses
void init13() { static const auto setup = MakeNoLogFileContext<const BasicTestingSetup>(ChainType::REGTEST); (void)setup; }

enum class CoinKind { P2PKH, BARE_MSIG_SIB, P2WPKH, WSH_MULTISIG, P2TR, P2SH_MSIG_SIB, BARE_CLTV, P2SH_P2WPKH, BARE_MULTISIG1, BARE_CSV, P2PK, WSH_TRUE, KINDS };

struct WorldCoin {
    COutPoint op;
    CTxOut out;
    CoinKind kind;
    size_t key{0}, key2{0};
    CScript witness_script; //!< for WSH kinds
    int64_t lock{0};        //!< CLTV height / CSV blocks
    // *_MSIG_SIB: legacy 2-of-2 over two 65-byte public keys that share prefix byte and X and differ in Y
    CKey good_key;                 //!< uncompressed
    std::optional<CKey> sib_key;   //!< present if the sibling is the negated point (a real key), absent if it is an off-curve / wrong-parity encoding
    bool good_last{true};          //!< script is <sibling> <good> (CHECKMULTISIG tries the LAST key first)
};

/** n - d for the secp256k1 group order n: the key whose public point is (X, p - Y) */
CKey NegatedKey(const CKey& k)
{
    static const arith_uint256 order = UintToArith256(uint256::FromHex("fffffffffffffffffffffffffffffffebaaedce6af48a03bbfd25e8cd0364141").value());
    std::vector<unsigned char> be(reinterpret_cast<const unsigned char*>(k.begin()), reinterpret_cast<const unsigned char*>(k.end()));
    std::vector<unsigned char> le(be.rbegin(), be.rend());
    const arith_uint256 d = UintToArith256(uint256(std::span<const unsigned char>(le)));
    const uint256 r = ArithToUint256(order - d);
    std::vector<unsigned char> rbe(r.begin(), r.end());
    std::reverse(rbe.begin(), rbe.end());
    CKey out;
    out.Set(rbe.begin(), rbe.end(), /*fCompressedIn=*/false);
    return out;
}

const char* KindName(CoinKind k)
{
    switch (k) {
    case CoinKind::P2PKH: return "p2pkh"; case CoinKind::P2WPKH: return "p2wpkh"; case CoinKind::P2SH_P2WPKH: return "p2sh-p2wpkh"; case CoinKind::P2TR: return "p2tr";
    case CoinKind::P2PK: return "p2pk"; case CoinKind::BARE_CLTV: return "cltv"; case CoinKind::BARE_CSV: return "csv"; case CoinKind::WSH_MULTISIG: return "wsh-2of2";
    case CoinKind::BARE_MULTISIG1: return "bare-1of1"; case CoinKind::WSH_TRUE: return "wsh-true"; case CoinKind::BARE_MSIG_SIB: return "bare-2of2-sibling-keys";
    case CoinKind::P2SH_MSIG_SIB: return "p2sh-2of2-sibling-keys"; default: return "?";
    }
}

struct Variant {
    CTransactionRef tx;
    std::string note;
};

/** insert a superfluous leading zero into R of a DER signature (last byte = hash type): still parsed by the lax parser, rejected by DERSIG/STRICTENC/LOW_S */
bool MakeLaxDer(std::vector<unsigned char>& sig)
{
    // 30 L 02 rl r.. 02 sl s.. ht
    if (sig.size() < 9 || sig[0] != 0x30 || sig[2] != 0x02) return false;
    const size_t rl = sig[3];
    if (4 + rl >= sig.size()) return false;
    sig.insert(sig.begin() + 4, 0x00);
    sig[3] = uint8_t(rl + 1);
    sig[1] = uint8_t(sig[1] + 1);
    return true;
}

struct RefVerdict { bool ok{true}; ScriptError err{SCRIPT_ERR_OK}; unsigned input{0}; };

/** cache-free evaluation: every input through VerifyScript with the plain (non-caching) signature checker */
RefVerdict CacheFree(const CTransaction& tx, const std::vector<CTxOut>& spent, script_verify_flags flags)
{
    PrecomputedTransactionData txdata;
    txdata.Init(tx, std::vector<CTxOut>(spent));
    RefVerdict v;
    for (unsigned i = 0; i < tx.vin.size(); ++i) {
        ScriptError err = SCRIPT_ERR_UNKNOWN_ERROR;
        const TransactionSignatureChecker checker(&tx, i, spent[i].nValue, txdata, MissingDataBehavior::ASSERT_FAIL);
        if (!VerifyScript(tx.vin[i].scriptSig, spent[i].scriptPubKey, &tx.vin[i].scriptWitness, flags, checker, &err)) {
            v.ok = false; v.err = err; v.input = i;
            return v;
        }
    }
    return v;
}

script_verify_flags FixFlags(script_verify_flags f)
{
    if (f & SCRIPT_VERIFY_CLEANSTACK) f |= SCRIPT_VERIFY_P2SH | SCRIPT_VERIFY_WITNESS; // preconditions asserted by VerifyScript
    if (f & SCRIPT_VERIFY_WITNESS) f |= SCRIPT_VERIFY_P2SH;
    return f;
}

} // namespace

VERIF_TARGET(c13_checkinputs, init13, 200, 2400,
             "a world of 6-10 coins (legacy bare/P2SH 2-of-2 multisig over two 65-byte keys with equal prefix and X [04 or hybrid 06/07; sibling = negated point or off-curve Y] spent with one signature twice, P2PKH, P2WPKH, P2SH-P2WPKH, P2TR key path, P2PK, bare CLTV/CSV anyone-can-spend, P2WSH 2-of-2 multisig, bare 1-of-1 multisig, P2WSH OP_TRUE) and "
             "3-5 base transactions spending 1-3 of them, each with defect variants (corrupted signature = witness twin for segwit inputs, lax-DER signature, undefined hash type, "
             "unsatisfied CLTV/CSV, non-null multisig dummy, repeated multisig signature, extra scriptSig push / NOP, extra witness item); 40-160 CheckInputScripts calls on ONE "
             "ValidationCache (0, 4 KiB or 64 KiB per cache) with flag sets drawn from a per-case palette (none, P2SH, P2SH|WITNESS, consensus, standard, random) +- one flag, random "
             "cacheSigStore/cacheFullScriptStore, inline or pvChecks; every call is compared with a cache-free evaluation. non-trivial = some wtxid evaluated under >= 2 flag sets "
             "with an accept followed by a reject, and some call was an expected script-cache hit; distinct = tx/variant kinds, flag palette, verdict pattern")
{
    LOCK(cs_main);
    KeyRing keys;
    // ---------------- coin world
    CCoinsViewCache view(&CoinsViewEmpty::Get());
    std::vector<WorldCoin> world;
    const unsigned ncoins = s.range<unsigned>(6, 10);
    for (unsigned i = 0; i < ncoins; ++i) {
        WorldCoin c;
        c.kind = CoinKind(i < unsigned(CoinKind::KINDS) && s.chance(150) ? i : s.range<unsigned>(0, unsigned(CoinKind::KINDS) - 1));
        c.key = s.index(8); c.key2 = (c.key + 1 + s.index(7)) % 8;
        c.op = COutPoint(Txid::FromUint256(uint256{uint8_t(0x20 + i)}), s.range<uint32_t>(0, 2));
        CScript spk;
        switch (c.kind) {
        case CoinKind::P2PKH: spk = keys.Script(SpkType::P2PKH, c.key); break;
        case CoinKind::P2WPKH: spk = keys.Script(SpkType::P2WPKH, c.key); break;
        case CoinKind::P2SH_P2WPKH: spk = keys.Script(SpkType::P2SH_P2WPKH, c.key); break;
        case CoinKind::P2TR: spk = keys.Script(SpkType::P2TR, c.key); break;
        case CoinKind::P2PK: spk = keys.Script(SpkType::P2PK, c.key); break;
        case CoinKind::BARE_CLTV: c.lock = 500; spk = CScript() << c.lock << OP_CHECKLOCKTIMEVERIFY << OP_DROP << OP_TRUE; break;
        case CoinKind::BARE_CSV: c.lock = 10; spk = CScript() << c.lock << OP_CHECKSEQUENCEVERIFY << OP_DROP << OP_TRUE; break;
        case CoinKind::WSH_MULTISIG:
            c.witness_script = CScript() << OP_2 << ToByteVector(keys.keys[c.key].GetPubKey()) << ToByteVector(keys.keys[c.key2].GetPubKey()) << OP_2 << OP_CHECKMULTISIG;
            spk = GetScriptForDestination(WitnessV0ScriptHash(c.witness_script));
            break;
        case CoinKind::BARE_MULTISIG1: spk = CScript() << OP_1 << ToByteVector(keys.keys[c.key].GetPubKey()) << OP_1 << OP_CHECKMULTISIG; break;
        case CoinKind::BARE_MSIG_SIB:
        case CoinKind::P2SH_MSIG_SIB: {
            c.good_key.Set(keys.keys[c.key].begin(), keys.keys[c.key].end(), /*fCompressedIn=*/false);
            const CPubKey good_pk = c.good_key.GetPubKey();
            std::vector<unsigned char> good(good_pk.begin(), good_pk.end()), sib;
            const unsigned form = s.range<unsigned>(0, 3);
            if (form == 0) { // sibling = the negated point: same prefix 04, same X, Y' = p - Y; a real key (n - d)
                c.sib_key = NegatedKey(c.good_key);
                const CPubKey sp = c.sib_key->GetPubKey();
                sib.assign(sp.begin(), sp.end());
                VCHECK(sib.size() == 65 && good.size() == 65 && std::equal(sib.begin(), sib.begin() + 33, good.begin()) && sib != good, "c13.harness", "negated key is not a sibling encoding");
                st.cls("sibling-key:negated-point");
            } else if (form == 1) { // off-curve Y
                sib = good; sib[64] ^= 0x01;
                st.cls("sibling-key:off-curve");
            } else if (form == 2) { // hybrid encodings: both carry the parity prefix of the good key; the sibling has another Y (wrong parity / off curve)
                good[0] = uint8_t(6 | (good[64] & 1));
                sib = good; sib[64] ^= uint8_t(s.pick<unsigned>({1, 2, 0x80}));
                st.cls("sibling-key:hybrid");
            } else { // arbitrary other Y
                sib = good; sib[40] ^= 0x5a;
                st.cls("sibling-key:off-curve");
            }
            c.good_last = !s.chance(64);
            c.witness_script = CScript() << OP_2;
            if (c.good_last) c.witness_script << sib << good; else c.witness_script << good << sib;
            c.witness_script << OP_2 << OP_CHECKMULTISIG;
            spk = c.kind == CoinKind::BARE_MSIG_SIB ? c.witness_script : GetScriptForDestination(ScriptHash(c.witness_script));
            break;
        }
        default: c.kind = CoinKind::WSH_TRUE; spk = keys.Script(SpkType::ANYONE_P2WSH); break;
        }
        c.out = CTxOut(CAmount(100000 + 1000 * i), spk);
        view.AddCoin(c.op, Coin(c.out, 10, false), false);
        world.push_back(c);
        st.cls(std::string("coin:") + KindName(c.kind));
    }
    // ---------------- transactions and variants
    std::vector<Variant> txs;
    std::map<Txid, std::vector<CTxOut>> spent_of; // by txid; twins share it. Legacy variants with another txid get their own entry.
    const unsigned nbase = s.range<unsigned>(3, 5);
    for (unsigned b = 0; b < nbase; ++b) {
        const unsigned nin = s.range<unsigned>(1, 3);
        std::vector<size_t> picks;
        for (unsigned k = 0; k < nin; ++k) { size_t j = s.index(world.size()); if (std::find(picks.begin(), picks.end(), j) == picks.end()) picks.push_back(j); }
        const bool satisfy_locks = !s.chance(60);
        CMutableTransaction m;
        m.version = 2;
        m.nLockTime = 0;
        std::map<COutPoint, RefCoin> spent;
        for (size_t j : picks) {
            const WorldCoin& c = world[j];
            CTxIn in(c.op);
            in.nSequence = 0xfffffffd;
            if (c.kind == CoinKind::BARE_CSV) in.nSequence = satisfy_locks ? uint32_t(c.lock) : uint32_t(c.lock - 1);
            if (c.kind == CoinKind::BARE_CLTV) m.nLockTime = satisfy_locks ? uint32_t(c.lock) : uint32_t(c.lock - 1);
            m.vin.push_back(in);
            spent[c.op] = RefCoin{c.out.nValue, c.out.scriptPubKey, 10, false};
        }
        m.vout.emplace_back(CAmount(50000 + b), keys.Script(SpkType::P2WPKH, b));
        const int hashtype = s.chance(40) ? 4 : 1; // 4: undefined type, behaves like ALL, refused by STRICTENC
        keys.Sign(m, spent, hashtype);
        // manual signatures for the multisig kinds
        auto sign_manual = [&](CMutableTransaction& tx, bool repeat_sig, bool nonnull_dummy) {
            for (size_t i = 0; i < tx.vin.size(); ++i) {
                const WorldCoin& c = world[picks[i]];
                if (c.kind == CoinKind::WSH_MULTISIG) {
                    std::vector<unsigned char> s1, s2;
                    const uint256 h = SignatureHash(c.witness_script, tx, unsigned(i), SIGHASH_ALL, c.out.nValue, SigVersion::WITNESS_V0);
                    keys.keys[c.key].Sign(h, s1); s1.push_back(SIGHASH_ALL);
                    keys.keys[c.key2].Sign(h, s2); s2.push_back(SIGHASH_ALL);
                    tx.vin[i].scriptWitness.stack = {nonnull_dummy ? std::vector<unsigned char>{0x01} : std::vector<unsigned char>{}, s1, repeat_sig ? s1 : s2,
                                                     std::vector<unsigned char>(c.witness_script.begin(), c.witness_script.end())};
                } else if (c.kind == CoinKind::BARE_MSIG_SIB || c.kind == CoinKind::P2SH_MSIG_SIB) {
                    // scriptCode = the multisig script; one genuine signature of the good key, and (if the sibling is a real key and no defect is wanted) one of the sibling
                    std::vector<unsigned char> sg, ss;
                    const uint256 h = SignatureHash(c.witness_script, tx, unsigned(i), SIGHASH_ALL, c.out.nValue, SigVersion::BASE);
                    c.good_key.Sign(h, sg); sg.push_back(SIGHASH_ALL);
                    const bool same_sig_twice = repeat_sig || !c.sib_key;
                    if (same_sig_twice) ss = sg; else { c.sib_key->Sign(h, ss); ss.push_back(SIGHASH_ALL); }
                    tx.vin[i].scriptSig = CScript();
                    if (nonnull_dummy) tx.vin[i].scriptSig << OP_1; else tx.vin[i].scriptSig << OP_0;
                    if (c.good_last) tx.vin[i].scriptSig << ss << sg; else tx.vin[i].scriptSig << sg << ss;
                    if (c.kind == CoinKind::P2SH_MSIG_SIB) tx.vin[i].scriptSig << std::vector<unsigned char>(c.witness_script.begin(), c.witness_script.end());
                } else if (c.kind == CoinKind::BARE_MULTISIG1) {
                    std::vector<unsigned char> s1;
                    const uint256 h = SignatureHash(c.out.scriptPubKey, tx, unsigned(i), SIGHASH_ALL, c.out.nValue, SigVersion::BASE);
                    keys.keys[c.key].Sign(h, s1); s1.push_back(SIGHASH_ALL);
                    tx.vin[i].scriptSig = CScript();
                    if (nonnull_dummy) tx.vin[i].scriptSig << OP_1; else tx.vin[i].scriptSig << OP_0;
                    tx.vin[i].scriptSig << s1;
                }
            }
        };
        // legacy scriptSigs of the multisig kind are part of the txid: sign the bare multisig first (its sighash ignores scriptSigs), witness multisig afterwards
        sign_manual(m, false, false);
        std::vector<CTxOut> spent_outs;
        for (size_t j : picks) spent_outs.push_back(world[j].out);
        auto add = [&](const CMutableTransaction& t, const std::string& note) {
            Variant v{MakeTransactionRef(t), note};
            spent_of[v.tx->GetHash()] = spent_outs;
            txs.push_back(v);
        };
        for (size_t j : picks) if ((world[j].kind == CoinKind::BARE_MSIG_SIB || world[j].kind == CoinKind::P2SH_MSIG_SIB)) st.cls(world[j].sib_key ? "tx:sibling-keys-two-signatures" : "tx:same-sig-vs-sibling-keys");
        std::string kinds;
        for (size_t j : picks) { kinds += KindName(world[j].kind); kinds += ","; }
        add(m, strprintf("base%d[%s%s%s]", b, kinds, satisfy_locks ? "" : "locks-unsatisfied,", hashtype == 4 ? "hashtype4" : ""));
        st.mix(kinds);
        // defect variants
        const unsigned nvar = s.range<unsigned>(1, 3);
        for (unsigned v = 0; v < nvar; ++v) {
            CMutableTransaction t(m);
            const size_t i = s.index(t.vin.size());
            const WorldCoin& c = world[picks[i]];
            const unsigned defect = s.range<unsigned>(0, 5);
            std::string dn;
            auto first_sig = [&]() -> std::vector<unsigned char>* {
                // the signature bytes of input i, if they live in the witness
                if (!t.vin[i].scriptWitness.stack.empty()) {
                    for (auto& e : t.vin[i].scriptWitness.stack) if (e.size() >= 60 && e.size() <= 75 && e != t.vin[i].scriptWitness.stack.back()) return &e;
                    if (c.kind == CoinKind::P2TR) return &t.vin[i].scriptWitness.stack[0];
                    if (c.kind == CoinKind::P2WPKH || c.kind == CoinKind::P2SH_P2WPKH) return &t.vin[i].scriptWitness.stack[0];
                }
                return nullptr;
            };
            auto edit_scriptsig_sig = [&](const std::function<bool(std::vector<unsigned char>&)>& f) {
                // re-build scriptSig with the first signature-sized push edited
                CScript out;
                bool done = false;
                CScript::const_iterator pc = t.vin[i].scriptSig.begin();
                opcodetype opc;
                std::vector<unsigned char> data;
                while (pc < t.vin[i].scriptSig.end() && t.vin[i].scriptSig.GetOp(pc, opc, data)) {
                    if (!done && data.size() >= 60 && data.size() <= 75) { done = f(data); out << data; }
                    else if (opc <= OP_PUSHDATA4) out << data;
                    else out << opc;
                }
                if (done) t.vin[i].scriptSig = out;
                return done;
            };
            const bool is_sib = c.kind == CoinKind::BARE_MSIG_SIB || c.kind == CoinKind::P2SH_MSIG_SIB;
            const bool is_msig = c.kind == CoinKind::WSH_MULTISIG || c.kind == CoinKind::BARE_MULTISIG1 || is_sib;
            if (defect == 0 || (defect == 5 && !is_msig)) { // corrupted signature
                dn = "bad-sig";
                if (auto* sg = first_sig()) { if (sg->size() > 12) (*sg)[10] ^= 0x01; else dn.clear(); }
                else if (!edit_scriptsig_sig([](std::vector<unsigned char>& d) { d[10] ^= 0x01; return true; })) dn.clear();
            } else if (defect == 1) { // lax DER
                dn = "lax-der";
                if (c.kind == CoinKind::P2TR) dn.clear();
                else if (auto* sg = first_sig()) { if (!MakeLaxDer(*sg)) dn.clear(); }
                else if (!edit_scriptsig_sig([](std::vector<unsigned char>& d) { return MakeLaxDer(d); })) dn.clear();
            } else if (defect == 2 || defect == 5) { // multisig: repeated signature / non-null dummy; others: extra scriptSig element
                if (is_msig) {
                    const bool rep = is_sib ? !s.chance(48) : (c.kind == CoinKind::WSH_MULTISIG && s.boolean());
                    dn = rep ? "multisig-repeated-sig" : "multisig-nonnull-dummy";
                    // only touch input i: re-sign everything manually with the defect, then restore the other manual inputs
                    CMutableTransaction t2(t);
                    sign_manual(t2, rep, !rep);
                    t.vin[i].scriptSig = t2.vin[i].scriptSig;
                    t.vin[i].scriptWitness = t2.vin[i].scriptWitness;
                } else if (t.vin[i].scriptWitness.IsNull() || c.kind == CoinKind::P2SH_P2WPKH) {
                    dn = "scriptsig-extra-push";
                    CScript ns; ns << OP_1; ns.insert(ns.end(), t.vin[i].scriptSig.begin(), t.vin[i].scriptSig.end()); // prepend
                    t.vin[i].scriptSig = ns;
                } else {
                    dn = "witness-extra-item";
                    t.vin[i].scriptWitness.stack.insert(t.vin[i].scriptWitness.stack.begin(), std::vector<unsigned char>{0x01});
                }
            } else if (defect == 3) { // NOP in scriptSig (SIGPUSHONLY) / upgradable NOP (DISCOURAGE_UPGRADABLE_NOPS)
                dn = s.boolean() ? "scriptsig-nop" : "scriptsig-nop10";
                CScript ns; ns << (dn == "scriptsig-nop" ? OP_NOP : OP_NOP10); ns.insert(ns.end(), t.vin[i].scriptSig.begin(), t.vin[i].scriptSig.end());
                t.vin[i].scriptSig = ns;
            } else { // strip the witness of a segwit input (valid only without WITNESS)
                dn = "witness-stripped";
                if (t.vin[i].scriptWitness.IsNull()) dn.clear(); else t.vin[i].scriptWitness.SetNull();
            }
            if (dn.empty()) continue;
            // a legacy edit changes the txid; the bare-multisig / legacy signatures stay valid (scriptSigs are not signed) but witness-v0/taproot signatures of OTHER
            // inputs stay valid too (they do not commit to scriptSigs) -- nothing to re-sign.
            if (is_sib && dn == "multisig-repeated-sig") st.cls("tx:same-sig-vs-sibling-keys");
            add(t, strprintf("base%d/%s@%d(%s)", b, dn, i, KindName(c.kind)));
            st.cls("variant:" + dn);
        }
    }
    // ---------------- flag palette
    std::vector<script_verify_flags> palette{SCRIPT_VERIFY_NONE, script_verify_flags{SCRIPT_VERIFY_P2SH}, SCRIPT_VERIFY_P2SH | SCRIPT_VERIFY_WITNESS, MANDATORY_SCRIPT_VERIFY_FLAGS,
                                             STANDARD_SCRIPT_VERIFY_FLAGS};
    palette.push_back(FixFlags(script_verify_flags::from_int(s.range<uint64_t>(0, MAX_SCRIPT_VERIFY_FLAGS))));
    palette.push_back(MANDATORY_SCRIPT_VERIFY_FLAGS & ~script_verify_flags{SCRIPT_VERIFY_TAPROOT});
    palette.push_back(MANDATORY_SCRIPT_VERIFY_FLAGS & ~(SCRIPT_VERIFY_CHECKLOCKTIMEVERIFY | SCRIPT_VERIFY_CHECKSEQUENCEVERIFY | SCRIPT_VERIFY_NULLDUMMY | SCRIPT_VERIFY_DERSIG));

    // ---------------- the long-lived cache
    const size_t cache_bytes = s.pick<size_t>({65536, 4096, 0, 65536});
    ValidationCache vc(cache_bytes, cache_bytes);
    st.mix(uint64_t(cache_bytes));

    struct Hist { std::set<uint64_t> flagsets; bool accepted_once{false}; bool accept_then_reject{false}; };
    std::map<Wtxid, Hist> hist;
    std::map<Txid, std::map<Wtxid, int>> twin_verdicts; // txid -> wtxid -> bit0 accepted somewhere, bit1 rejected somewhere
    std::set<std::pair<Wtxid, uint64_t>> stored; // (wtxid, flags) the model believes to be in the script-execution cache
    unsigned expected_hits = 0, accepts = 0, rejects = 0;
    const unsigned ncalls = s.range<unsigned>(40, 160);
    for (unsigned k = 0; k < ncalls && !s.exhausted(); ++k) {
        const size_t ti = s.chance(150) && k > 0 ? s.index(std::min<size_t>(txs.size(), 3)) : s.index(txs.size()); // revisit a few transactions often
        const Variant& v = txs[ti];
        script_verify_flags flags = palette[s.index(palette.size())];
        const unsigned tweak = s.range<unsigned>(0, 5);
        if (tweak == 1) flags |= script_verify_flags::from_int(uint64_t{1} << s.range<unsigned>(0, MAX_SCRIPT_VERIFY_FLAGS_BITS - 1));
        if (tweak == 2) flags &= ~script_verify_flags::from_int(uint64_t{1} << s.range<unsigned>(0, MAX_SCRIPT_VERIFY_FLAGS_BITS - 1));
        flags = FixFlags(flags);
        const bool sig_store = s.chance(170);
        const bool full_store = s.chance(170);
        const bool deferred = s.chance(60);
        const std::vector<CTxOut>& spent = spent_of.at(v.tx->GetHash());
        const uint64_t fint = flags.as_int();

        const RefVerdict ref = CacheFree(*v.tx, spent, flags);

        TxValidationState state;
        PrecomputedTransactionData txdata;
        bool ok;
        std::string reason;
        bool script_cache_hit_observed = false;
        if (!deferred) {
            ok = CheckInputScripts(*v.tx, state, view, flags, sig_store, full_store, txdata, vc, nullptr);
            if (!ok) reason = state.GetRejectReason();
        } else {
            std::vector<CScriptCheck> checks;
            ok = CheckInputScripts(*v.tx, state, view, flags, sig_store, full_store, txdata, vc, &checks);
            if (!ok) reason = state.GetRejectReason();
            script_cache_hit_observed = ok && checks.empty();
            for (auto& chk : checks) {
                if (auto r = chk(); r.has_value()) { ok = false; reason = ScriptErrorString(r->first); break; }
            }
        }
        st.steps++;
        const std::string fl = strprintf("%x", fint);
        st.note("call ", v.note, " flags=", fl, " store=", sig_store, "/", full_store, deferred ? " deferred" : "", " -> ", ok ? "ok" : reason, " | cache-free: ", ref.ok ? "ok" : ScriptErrorString(ref.err));
        VCHECK(ok == ref.ok, "c13.verdict", "with caches:", ok ? "accepted" : "rejected (" + reason + ")", "cache-free:", ref.ok ? "accepted" : "rejected (" + ScriptErrorString(ref.err) + ")",
               "tx", v.note, "wtxid", v.tx->GetWitnessHash().ToString(), "flags", fl, "stores", sig_store, full_store, "deferred", deferred, "call", k);
        if (!ok) VCHECK(reason.find(ScriptErrorString(ref.err)) != std::string::npos, "c13.reason", "reject reason", reason, "does not name the cache-free script error",
                        ScriptErrorString(ref.err), "tx", v.note, "flags", fl);
        // bookkeeping for classes / non-triviality
        const Wtxid w = v.tx->GetWitnessHash();
        Hist& hh = hist[w];
        hh.flagsets.insert(fint);
        if (ok) { accepts++; hh.accepted_once = true; } else { rejects++; if (hh.accepted_once) hh.accept_then_reject = true; }
        twin_verdicts[v.tx->GetHash()][w] |= ok ? 1 : 2;
        const auto key = std::make_pair(w, fint);
        if (stored.count(key)) { expected_hits++; if (!full_store) stored.erase(key); }
        else if (ok && full_store && !deferred) stored.insert(key);
        if (script_cache_hit_observed) st.cls("script-cache-hit-observed");
        st.mix(uint64_t(ok));
    }
    bool atr = false, multi = false, twin_flip = false;
    for (const auto& [w, hh] : hist) { if (hh.accept_then_reject) atr = true; if (hh.flagsets.size() >= 2) multi = true; }
    for (const auto& [t, m] : twin_verdicts) {
        if (m.size() < 2) continue;
        st.cls("same-txid-different-witness-evaluated");
        bool a = false, r = false;
        for (const auto& [w, bits] : m) { if (bits & 1) a = true; if (bits & 2) r = true; }
        if (a && r) twin_flip = true;
    }
    if (atr) st.cls("accept-then-reject-same-wtxid");
    if (twin_flip) st.cls("twin-accepted-and-rejected");
    if (expected_hits) st.cls("expected-script-cache-hit");
    if (accepts) st.cls("some-accepted");
    if (rejects) st.cls("some-rejected");
    st.nontrivial = atr && multi && expected_hits > 0;
    st.mix(uint64_t(atr)); st.mix(uint64_t(twin_flip)); st.mix(uint64_t(txs.size()));
}
