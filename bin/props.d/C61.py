# C61: stage list (what ./check C61 quick|thorough runs) and manifest text. Helpers gen()/enum()/hyp()/custom() come from props.py.
SPEC = {'level': 'exploration',
 'assumptions': ['reference containers: libstdc++ std::vector / std::deque / std::deque<bool> / std::map / std::list',
                 'moved-from VecDeque / bitdeque objects are only cleared or assigned to (valid-but-unspecified state); moved-from prevectors must be empty',
                 'prevector is instantiated with trivially copyable element types only (its documented domain); iterators are never kept across mutations',
                 'pool: Deallocate is always called with the size/alignment of the matching Allocate; the reference model of chunk/free-list accounting is '
                 'written from the class comment of PoolResource (size classes of max(alignof(void*),ALIGN) bytes, bump allocation, leftover donation)',
                 'prevector::operator< (size-first order) is not compared with std::vector (documented deviation)'],
 'stages': [gen('vh_c61', 'c61_prevector', 16000, 300000, min_cases_quick=8000,
                floors={'inline->heap': 0.5, 'heap->inline': 0.4, 'copy/move/swap-with-heap-storage': 0.4, 'swap:inline<->heap': 0.1, 'move:heap': 0.2},
                rule='op sequences on prevector<8,int>/<28,u8>/<36,u8> vs std::vector; non-trivial = storage crossed inline<->heap both ways + copy/move/swap with heap storage'),
            gen('vh_c61', 'c61_vecdeque', 16000, 300000, min_cases_quick=8000,
                floors={'ring-wrapped': 0.4, 'realloc-while-wrapped': 0.3, 'copy/move/swap-while-wrapped': 0.25, 'VecDeque<tracked>': 0.3},
                rule='op sequences on VecDeque<int>/<tracked> vs std::deque; non-trivial = ring wrapped + realloc while wrapped + copy/move/swap while wrapped'),
            gen('vh_c61', 'c61_bitdeque', 8000, 150000, min_cases_quick=4000,
                floors={'front-word-boundary-crossed': 0.3, 'middle-insert/erase-multiword': 0.3, 'bitdeque<32768>': 0.05},
                rule='op sequences on bitdeque<7/64/128/32768> vs std::deque<bool>; non-trivial = front and back word boundaries crossed + interior insert/erase in a multi-word container'),
            gen('vh_c61', 'c61_pool', 12000, 220000, min_cases_quick=6000,
                floors={'reuse': 0.4, 'extra-chunks': 0.4, 'leftover-donated': 0.3, 'fallback-new': 0.4, 'mode:node-containers': 0.15, 'zero-byte-request': 0.05},
                rule='Allocate/Deallocate sequences vs interval map + accounting model; node containers with PoolAllocator vs std containers'),
            gen('vh_c61', 'up_prevector', 1500, 30000, rule='upstream fuzz target prevector, supplementary'),
            gen('vh_c61', 'up_bitdeque', 6000, 100000, rule='upstream fuzz target bitdeque, supplementary'),
            gen('vh_c61', 'up_vecdeque', 3000, 60000, rule='upstream fuzz target vecdeque, supplementary'),
            gen('vh_c61', 'up_pool_resource', 6000, 100000, rule='upstream fuzz target pool_resource, supplementary'),
        # coverage-guided libFuzzer campaign on the same target (thorough tier only; fz tree = g++ trace-pc + covshim)
        fuzz('vh_c61', 'c61_prevector', 300, max_len=2400),
        fuzz('vh_c61', 'c61_pool', 300, max_len=1600),
    ]}

META = {'level_text': 'Stateful generated search: operation sequences (up to 3000 operations, sizes concentrated on the inline capacity / word size / ring capacity / '
               'chunk boundaries) on prevector, VecDeque, bitdeque and the pool resource, each executed in lock-step with a standard-library model; after every '
               'operation the complete observable state must be equal (all elements through every access path, iterators, comparisons, capacity guarantees; for '
               'the pool: alignment, non-overlap, content preservation, reuse, exact chunk/free-list accounting). ASan/UBSan catch out-of-bounds and lifetime errors. '
               'Exploration over bounded histories.',
 'technique': 'stateful property-based testing: model-based (std::vector / std::deque / interval-map allocator model) with full-state comparison after every operation',
 'level_note': 'trusted base: libstdc++ containers, ASan/UBSan'}
