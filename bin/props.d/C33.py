# C33: stage list (what ./check C33 quick|thorough runs) and manifest text. Helpers gen()/enum()/hyp()/custom() come from props.py.
SPEC = {
    "level": "exploration",
    "assumptions": [
        "HeadersSyncState is driven directly (as net_processing does after its own PoW check): only PoW-valid, non-empty batches are fed",
        "synthetic consensus parameters: powLimit 2^251-1 (cheap grinding, no 256-bit overflow in the transition rule), retarget interval 4, min-difficulty exception off",
        "own model: work = sum floor(2^256/(target+1)) in cpp_int; own permitted-transition reference; on a failing second-pass batch the model assumes the whole batch was accepted (weakest assumption)",
        "commitment clause is statistical: the hasher salt is drawn from the (deterministically seeded) RNG; a violation requires >= 40 independent 1-bit commitments to match (<= 2^-40 per case)",
        "'followed by a full buffer' is checked as >= redownload_buffer_size accepted later headers (the weaker reading of the statement)",
    ],
    "stages": [
        gen("vh_c33", "c33_headerssync", 15000, 250000, max_seconds_quick=600, min_cases_quick=1000,
            floors={"reached-redownload": 0.3, "released-some": 0.15, "released-by-buffer": 0.02, "released-after-work-proven": 0.1, "p2:switch-chain": 0.1,
                    "commitment-clause-eligible": 0.04, "low-work-peer": 0.05, "tight-length-bound": 0.1, "outcome:complete": 0.05, "outcome:redownload-failed": 0.05},
            rule="peer behaviours over synthetic header chains vs own release-discipline model; non-trivial = reached REDOWNLOAD and (released >= 1 or adversarial second pass)"),
        gen("vh_c33", "up_headers_sync_state", 10000, 150000, max_seconds_quick=600, rule="upstream fuzz target headers_sync_state (asserts + sanitizers), supplementary"),
        # coverage-guided libFuzzer campaign on the same target (thorough tier only; fz tree = g++ trace-pc + covshim)
        fuzz('vh_c33', 'c33_headerssync', 300, max_len=400),
    ],
}

META = {
    "level_text": "Generated two-pass header syncs (honest, low-work, stopping, non-connecting, impermissible-difficulty and chain-switching peers; commitment periods 1-8, buffers "
                  "8-400, tight and loose chain-length bounds) are checked batch by batch against an independent model: nothing is released before the first pass proved the work, "
                  "released headers are exactly the continuous second-pass chain, each followed by a full buffer unless the second pass proved the work itself, each with permitted "
                  "nBits and valid PoW, bounded commitment memory, and a 2^-40 statistical clause that a switched chain is never released. Exploration over sampled histories.",
    "technique": "stateful property-based testing: generated peer behaviours vs independent release-discipline model (history invariant) with big-integer work accounting",
}
