# C34: stage list (what ./check C34 quick|thorough runs) and manifest text. Helpers gen()/enum()/hyp()/custom() come from props.py.
SPEC = {'level': 'exploration',
 'assumptions': ['reference model written from the specification comment of txrequest.h: one announcement per (txhash, peer); CANDIDATE/REQUESTED/COMPLETED; '
                 'expiry processed at GetRequestable (expiry <= now fails); candidates viable iff reqtime <= now (also after the clock went backwards)',
                 'the specification picks uniformly at random among equally-preferred viable candidates: the deciding oracle is set-valued (any of them is '
                 'accepted, a sole one is mandatory, a sweep over all peers advises each requestable txhash exactly once, revealed tie-break order must stay '
                 'consistent); the stricter list-equality oracle resolves the pick with TxRequestTracker::ComputePriority (testing accessor of the tracker)',
                 'times stay positive; 2-8 peers, 1-16 txhashes, <= 400 operations per history; deterministic tracker (salt 0)'],
 'stages': [gen('vh_c34', 'c34_txrequest', 24000, 400000, min_cases_quick=6000,
                floors={'advised': 0.5, 'choice-among>=2-viable': 0.2, 'preferred-and-nonpreferred-viable': 0.15, 're-request-after-failure': 0.2,
                        'request-expired': 0.3, 'expiry==now': 0.15, 'reqtime==now': 0.25, 'clock-backwards': 0.4, 'unexpected-second-request': 0.04,
                        'forgotten-when-only-completed-remain': 0.3, 'sweep': 0.4, 'forget-txhash': 0.3, 'disconnect-peer': 0.3},
                rule='operation histories vs announcement-level model; non-trivial = >= 3 advised requests, a choice among >= 2 viable candidates, '
                     'and a re-request after a failed request'),
            gen('vh_c34', 'up_txrequest', 20000, 400000, rule="upstream fuzz target 'txrequest' (its own naive model); supplementary"),
        # coverage-guided libFuzzer campaign on the same target (thorough tier only; fz tree = g++ trace-pc + covshim)
        fuzz('vh_c34', 'c34_txrequest', 300, max_len=1400),
    ]}

META = {'level_text': 'Generated operation histories (24k per quick run, up to 400 operations over up to 8 peers x 16 txhashes, clock moving forward, backward and '
               'to +-1us around every reqtime/expiry) run in lock-step against an announcement-level reference model: every GetRequestable answer (single peer '
               'and all-peer sweeps), every expired list and all Count*/Size/GetCandidatePeers values after every operation must match; the five clauses of '
               'the statement (one outstanding request, no second request for one announcement, not before reqtime, preferred first, forgotten when only '
               'failed remain) are separate oracle ids. Exploration over bounded histories.',
 'technique': 'stateful property-based testing: operation histories vs independent announcement-level model (set-valued choice, revealed-preference '
              'consistency, exact lists), internal SanityCheck; upstream txrequest fuzz target as supplementary stage',
 'level_note': 'trusted base: the model (~90 lines). The uniform randomness of the tie-break is not tested (deterministic salt).'}
