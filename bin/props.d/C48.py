# C48: serialization and text encodings (engine E2: Hypothesis + sutd vs test_framework/messages.py and stdlib codecs).
SPEC = {
    'level': 'exploration',
    'assumptions': [
        'references: test_framework/messages.py (serializer; its deserializer is lax, so rejection claims are derived from BIP144/serialize.h: canonical '
        'CompactSize, strict prefixes, impossible counts, superfluous/unknown witness flags), Python bytes.hex/fromhex, base64 module (RFC 4648), '
        'big-integer base58 from the definition, decimal arithmetic',
        'C++ objects are reached through bytes only (sutd deser = Unserialize then Serialize); P2P payloads without a C++ class '
        '(version, cfilter*, sendtxrcncl) are not covered',
        'transactions with zero inputs and non-zero outputs are only checked in the no-witness encoding (BIP144 marker ambiguity); addrv2 IPv6 '
        'addresses with embedded-IPv4/TORv2 prefixes (decoded as invalid by design) are excluded from byte equality',
        'sizes: up to 300 elements per vector, scripts up to 65537 bytes (CompactSize boundaries 252/253 and 0xffff/0x10000), strings up to ~120 chars',
        'base64/base32 strings with non-zero padding bits: only "accepted => canonical" is claimed (RFC 4648 3.5 allows rejecting them)',
    ],
    'stages': [
        hyp('c48_messages.py', 4000, 100000, needs=[('san', 'sutd')], min_cases_quick=1500,
            floors={'type:tx': 0.04, 'type:block': 0.02, 'tx-witness': 0.01, 'noncanonical': 0.1, 'hugecount': 0.1, 'kind:txspecial': 0.03, 'superfluous-witness': 0.02,
                    'type:addrv2': 0.01, 'type:cmpctblock': 0.01, 'kind:compactsize': 0.005},
            rule='one object (tx/block/header/P2P payload/CompactSize) per case + truncation, trailing bytes, non-canonical and impossible counts; '
                 'non-trivial = object has >= 1 element; distinct = type+element count+size class+perturbations'),
        hyp('c48_codec.py', 16000, 300000, needs=[('san', 'sutd')], min_cases_quick=6000,
            floors={'codec:hex': 0.03, 'codec:base58': 0.03, 'codec:base58check': 0.03, 'codec:base64': 0.03, 'codec:base32': 0.03, 'kind:money': 0.05, 'kind:int': 0.05,
                    'verdict:False': 0.1, 'verdict:True': 0.1, 'money-valid': 0.02, 'money-rejected': 0.02, 'int-valid': 0.01, 'int-rejected': 0.01},
            rule='one encode/decode/parse per case with a mutation of the canonical string; non-trivial = non-empty payload or mutated string; '
                 'distinct = codec+length+mutation kind+verdict'),
    ],
}

META = {
    'level_text': 'Generated transactions (with/without witness, empty vectors, 252-300 element vectors, scripts across the 1/3/5-byte CompactSize boundaries), blocks, '
                  'headers and 20 P2P payload types are serialized by the independent Python implementation, decoded and re-encoded by the C++ code and compared byte '
                  'for byte (plus txid/wtxid/block hash vs SHA256d of the Python bytes); every case also tries a truncation, trailing bytes, a non-canonical CompactSize '
                  'and an impossible count, all of which must be rejected. Text codecs are compared with reference encoders/decoders over canonical strings and '
                  'single-edit mutations. Exploration, not exhaustive.',
    'technique': 'property-based differential testing (Hypothesis) against an independent serializer and reference codecs; round-trip and rejection properties',
    'level_note': 'Trusted: messages.py serializer, Python stdlib codecs. The Python deserializer is laxer than the C++ one, so "malformed is rejected" is decided from the BIPs, not from it.',
}
