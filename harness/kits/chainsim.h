// ChainSim + RefLedger (DESIGN.md §3.4): an in-process regtest node with knobs, a block/transaction builder that can
// extend ANY known block, and an independent ledger model (RefLedger) that shares no code with coins.cpp/validation.cpp.
#ifndef VERIF_KITS_CHAINSIM_H
#define VERIF_KITS_CHAINSIM_H

#include <arith_uint256.h>
#include <chain.h>
#include <coins.h>
#include <consensus/amount.h>
#include <consensus/validation.h>
#include <key.h>
#include <node/blockstorage.h>
#include <primitives/block.h>
#include <primitives/transaction.h>
#include <script/script.h>
#include <script/signingprovider.h>
#include <test/util/setup_common.h>
#include <txmempool.h>
#include <validation.h>
#include <validationinterface.h>

#include <functional>
#include <map>
#include <memory>
#include <optional>
#include <set>
#include <string>
#include <vector>

namespace verif {

// ------------------------------------------------------------------------------------------------
// RefLedger: independent model of the block tree and of the UTXO set along any path.

struct RefCoin {
    CAmount value{0};
    CScript spk;
    int height{0};
    bool coinbase{false};
    bool operator==(const RefCoin& o) const { return value == o.value && spk == o.spk && height == o.height && coinbase == o.coinbase; }
};
using RefUtxo = std::map<COutPoint, RefCoin>;

struct RefBlock {
    uint256 hash;
    uint256 prev;
    int height{0};
    uint32_t time{0};
    int32_t version{0};
    uint32_t bits{0};
    std::vector<CTransactionRef> vtx;
    int64_t work_units{0}; //!< regtest: every block has equal work, so cumulative work is proportional to height+1
};

struct RefReplay {
    bool ok{true};
    std::string why;              //!< first model rule violated (model's own names, see RefLedger::Replay)
    uint256 bad_block;            //!< block at which the violation happened
    RefUtxo utxo;                 //!< UTXO map after the last successfully applied block
    CAmount total{0};             //!< sum of utxo values
    CAmount subsidy_sum{0};       //!< sum of model subsidies along the path (excluding genesis, whose coinbase is unspendable)
    std::map<uint256, CAmount> fees; //!< per block: total fees of its non-coinbase txs
    std::map<uint256, RefUtxo> utxo_at; //!< optional snapshots (if requested)
};

class RefLedger
{
public:
    int halving_interval{150};           //!< regtest
    int coinbase_maturity{100};
    bool enforce_bip30{true};
    std::map<uint256, RefBlock> blocks;
    uint256 genesis;

    void SetGenesis(const CBlock& g);
    /** Register a block (parent must be known). Does not judge validity. */
    const RefBlock& Add(const CBlock& b);
    bool Known(const uint256& h) const { return blocks.count(h) > 0; }
    const RefBlock& At(const uint256& h) const { return blocks.at(h); }
    /** median of the timestamps of the last 11 blocks ending at h (own implementation of BIP113's definition) */
    int64_t MedianTimePast(const uint256& h) const;
    std::vector<uint256> Path(const uint256& tip) const; //!< genesis .. tip
    bool IsAncestor(const uint256& anc, const uint256& desc) const;
    uint256 AncestorAt(const uint256& tip, int height) const;
    static CAmount Subsidy(int height, int interval);
    /** Replay the path genesis..tip from scratch with the model's own rules:
     *  missing-or-spent-input, immature-coinbase-spend, value-out-of-range, in-below-out, coinbase-overpays,
     *  bip30-overwrite (an output would overwrite an existing unspent output), duplicate-input. Scripts are NOT evaluated. */
    RefReplay Replay(const uint256& tip, bool keep_snapshots = false) const;
};

// ------------------------------------------------------------------------------------------------
// Keys / script templates with validity known by construction.

enum class SpkType { ANYONE_P2WSH, P2WPKH, P2PKH, P2TR, P2SH_P2WPKH, P2PK, OP_RETURN, BARE_TRUE };

class KeyRing
{
public:
    KeyRing(); //!< 8 deterministic harness keys
    std::vector<CKey> keys;
    FlatSigningProvider provider;
    CScript Script(SpkType t, size_t key_index = 0) const;
    /** Sign every input of `tx` whose spent coin is given in `spent` (anyone-can-spend inputs get their witness).
     *  Returns false if some input could not be completed. */
    bool Sign(CMutableTransaction& tx, const std::map<COutPoint, RefCoin>& spent, int sighash = 1) const;
};

// ------------------------------------------------------------------------------------------------
// ChainSim: the node.

struct ChainSimOpts {
    std::vector<const char*> extra_args{};
    int worker_threads{0};
    int prevout_threads{0};
    bool immediate_signals{true};       //!< false: scheduler thread + SerialTaskRunner (as production)
    bool coins_db_in_memory{true};
    bool block_tree_db_in_memory{true};
    bool min_validation_cache{false};     //!< script-execution and signature caches of 0 bytes
    size_t validation_cache_bytes{1 << 20}; //!< per cache; production default is 16 MiB each (slow to allocate per case under ASan)
    int check_block_index{1};
    std::optional<uint256> assumed_valid{};
    std::optional<arith_uint256> minimum_chain_work{};
    uint64_t prune_target{0};
    bool fast_prune{false};
    std::optional<size_t> coins_cache_bytes{};
    bool with_mempool_checks{false};      //!< CTxMemPool::check() after every block/tx (allocates a 256 KiB coins cache each time)
    /** last-minute edits of the option structs */
    std::function<void(ChainstateManager::Options&)> tweak_chainman{};
    /** called with the (fresh, empty) network datadir before the chainstate manager is created: lets a caller
     *  pre-populate it with an existing datadir image (crash recovery, restart tests) */
    std::function<void(const fs::path& datadir_net)> before_load{};
    /** true: assert that LoadChainstate/VerifyLoadedChainstate/ActivateBestChain succeed (default). false: record the
     *  outcome in ChainSim::load_ok / load_error / load_stage and do not abort (node may be unusable afterwards) */
    bool assert_load{true};
    /** run ActivateBestChain as part of construction (default); false leaves the tip exactly as loaded from disk */
    bool activate_on_load{true};
    /** VerifyLoadedChainstate depth/level as init.cpp would use by default (-checkblocks=6 -checklevel=3) */
    int check_blocks{6};
    int check_level{3};
};

struct BlockSpec {
    uint256 prev;                               //!< parent (must be known to the ledger)
    std::vector<CTransactionRef> txs{};         //!< non-coinbase transactions, in block order
    CAmount fees{0};                            //!< fees the coinbase claims on top of the subsidy
    std::optional<CAmount> coinbase_value{};    //!< override: total coinbase output value
    std::optional<uint32_t> time{};             //!< default max(MTP+1, parent.time+1)
    int32_t version{0x20000000};
    CScript coinbase_spk{};                     //!< default: anyone-can-spend P2WSH
    std::optional<CScript> coinbase_scriptsig{};//!< default: BIP34 height push + OP_0
    bool commit_witness{true};
    std::optional<uint32_t> bits{};
    uint32_t extra_nonce{0};                    //!< makes otherwise identical blocks differ
    std::vector<CTxOut> extra_coinbase_outputs{};
};

class VerdictCatcher : public CValidationInterface
{
public:
    std::map<uint256, BlockValidationState> states;
    std::vector<std::string> log; //!< "C <hash>" / "D <hash>" / "T <hash>" in callback order
protected:
    void BlockChecked(const std::shared_ptr<const CBlock>& block, const BlockValidationState& state) override { states[block->GetHash()] = state; }
    void BlockConnected(const kernel::ChainstateRole&, const std::shared_ptr<const CBlock>& block, const CBlockIndex*) override { log.push_back("C " + block->GetHash().ToString()); }
    void BlockDisconnected(const std::shared_ptr<const CBlock>& block, const CBlockIndex*) override { log.push_back("D " + block->GetHash().ToString()); }
};

class ChainSim : public BasicTestingSetup
{
public:
    explicit ChainSim(ChainSimOpts opts = {});
    ~ChainSim();

    ChainSimOpts m_opts;
    bool load_ok{true};
    std::string load_stage;   //!< "load" | "verify" | "activate" | "exception" when !load_ok
    std::string load_error;
    RefLedger ledger;
    KeyRing keys;
    std::shared_ptr<VerdictCatcher> catcher;
    std::map<uint256, std::shared_ptr<const CBlock>> block_store; //!< every block built or registered

    ChainstateManager& chainman() { return *m_node.chainman; }
    Chainstate& chainstate() { return m_node.chainman->ActiveChainstate(); }
    CTxMemPool& mempool() { return *m_node.mempool; }
    uint256 TipHash();
    int TipHeight();

    /** Build a block on spec.prev (valid header context by default: time, bits, BIP34 height, witness commitment, merkle root, nonce). */
    std::shared_ptr<CBlock> Build(const BlockSpec& spec);
    /** Recompute merkle root (+ witness commitment if `commit`) and grind the nonce after the caller edited the block. */
    void Finalize(CBlock& b, bool commit_witness = true, bool regrind = true);
    /** Register a block with the ledger/block_store (Build does it already). */
    void Register(const std::shared_ptr<const CBlock>& b);

    struct Delivery { bool processed{false}; bool new_block{false}; std::optional<BlockValidationState> verdict; };
    /** ProcessNewBlock + verdict from the BlockChecked notification (if any was emitted). */
    Delivery Deliver(const std::shared_ptr<const CBlock>& b, bool force = true, bool min_pow_checked = true);
    /** TestBlockValidity against the active tip (block must build on it). */
    BlockValidationState TestValidity(const CBlock& b, bool check_pow = true, bool check_merkle = true);

    /** Mine `n` valid empty blocks on the active tip (coinbase to anyone-can-spend P2WSH); returns their hashes. */
    std::vector<uint256> MineEmpty(int n);
    /** Re-usable pre-mined base chain: blocks are built once per process and re-delivered to this node. */
    std::vector<uint256> LoadBase(int n);

    /** Flush the coins cache to the DB and dump it. */
    RefUtxo DumpUtxo();
    /** hash_serialized (ComputeUTXOStats) after a flush */
    uint256 UtxoHash();
    /** Compare node UTXO (after flush) with the model's replay of the active chain; returns empty string if equal. */
    std::string CompareUtxoWithModel();

    /** A spend of `coins` paying `outs`, signed/witnessed according to the spent scripts. */
    CMutableTransaction MakeTx(const std::vector<std::pair<COutPoint, RefCoin>>& coins, const std::vector<CTxOut>& outs,
                               uint32_t locktime = 0, uint32_t sequence = 0xffffffff, uint32_t version = 2);
    void SyncSignals();
};

std::string StateStr(const BlockValidationState& s);

} // namespace verif

#endif // VERIF_KITS_CHAINSIM_H
