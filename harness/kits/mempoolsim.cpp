#include <kits/mempoolsim.h>

#include <chainparams.h>
#include <consensus/consensus.h>
#include <hash.h>
#include <policy/policy.h>
#include <pow.h>
#include <test/fuzz/util/mempool.h>
#include <test/util/script.h>
#include <test/util/txmempool.h>
#include <util/time.h>
#include <util/translation.h>

#include <algorithm>
#include <cstdlib>
#include <iostream>
#include <numeric>

namespace verif {

// ---------------------------------------------------------------- own timelock / dust model

bool ModelIsFinal(const CTransaction& tx, int block_height, int64_t prev_mtp)
{
    if (tx.nLockTime == 0) return true;
    const int64_t lt = tx.nLockTime;
    const int64_t cmp = lt < 500000000 ? int64_t(block_height) : prev_mtp; // BIP113: time locks compare against the predecessor's MTP
    if (lt < cmp) return true;
    for (const auto& in : tx.vin) {
        if (in.nSequence != 0xffffffffU) return false;
    }
    return true;
}

ModelSeqLock ModelSequenceLocks(const CTransaction& tx, const std::vector<int>& coin_heights, const std::function<int64_t(int)>& mtp_at)
{
    ModelSeqLock r;
    if (tx.version < 2) return r; // BIP68 applies to version >= 2 only
    for (size_t i = 0; i < tx.vin.size(); ++i) {
        const uint32_t seq = tx.vin[i].nSequence;
        if (seq & (1U << 31)) continue;          // disable flag
        const int ch = coin_heights[i];
        if (seq & (1U << 22)) {                  // time based, 512 s granularity, measured from the MTP of the block before the coin's block
            const int64_t base = mtp_at(std::max(ch - 1, 0));
            r.min_time = std::max<int64_t>(r.min_time, base + (int64_t(seq & 0xffff) << 9) - 1);
        } else {
            r.min_height = std::max(r.min_height, ch + int(seq & 0xffff) - 1);
        }
    }
    return r;
}

static bool ModelUnspendableScript(const CScript& spk) { return (spk.size() > 0 && spk[0] == OP_RETURN) || spk.size() > 10000; }

static bool ModelIsWitnessProgram(const CScript& spk)
{
    if (spk.size() < 4 || spk.size() > 42) return false;
    if (spk[0] != OP_0 && (spk[0] < OP_1 || spk[0] > OP_16)) return false;
    return size_t(spk[1]) + 2 == spk.size();
}

CAmount ModelDustThreshold(const CTxOut& out, CAmount rate)
{
    if (ModelUnspendableScript(out.scriptPubKey)) return 0;
    const size_t n = out.scriptPubKey.size();
    size_t sz = 8 + (n < 253 ? 1 : 3) + n;                          // serialized output
    sz += ModelIsWitnessProgram(out.scriptPubKey) ? (32 + 4 + 1 + 26 + 4) : (32 + 4 + 1 + 107 + 4); // cheapest input spending it
    return (CAmount(sz) * rate + 999) / 1000;
}
bool ModelIsDust(const CTxOut& out, CAmount rate) { return out.nValue < ModelDustThreshold(out, rate); }

namespace {
struct ParsedOp { int opcode; std::vector<unsigned char> data; };
/** minimal script tokenizer; stops at the first malformed push (as the sigop counters do) */
std::vector<ParsedOp> ParseScript(const std::vector<unsigned char>& b)
{
    std::vector<ParsedOp> out;
    size_t i = 0;
    while (i < b.size()) {
        const int op = b[i++];
        size_t n = 0;
        if (op >= 1 && op <= 75) n = size_t(op);
        else if (op == 76) { if (i + 1 > b.size()) break; n = b[i]; i += 1; }
        else if (op == 77) { if (i + 2 > b.size()) break; n = size_t(b[i]) | (size_t(b[i + 1]) << 8); i += 2; }
        else if (op == 78) { if (i + 4 > b.size()) break; n = size_t(b[i]) | (size_t(b[i + 1]) << 8) | (size_t(b[i + 2]) << 16) | (size_t(b[i + 3]) << 24); i += 4; }
        if (op <= 78) {
            if (i + n > b.size()) break;
            out.push_back({op, std::vector<unsigned char>(b.begin() + i, b.begin() + i + n)});
            i += n;
        } else {
            out.push_back({op, {}});
        }
    }
    return out;
}
int64_t CountSigOps(const std::vector<unsigned char>& script, bool accurate)
{
    int64_t n = 0;
    int last = 0xff;
    for (const auto& p : ParseScript(script)) {
        if (p.opcode == 0xac || p.opcode == 0xad) n += 1;                       // OP_CHECKSIG, OP_CHECKSIGVERIFY
        else if (p.opcode == 0xae || p.opcode == 0xaf) {                         // OP_CHECKMULTISIG(VERIFY)
            if (accurate && last >= 0x51 && last <= 0x60) n += last - 0x50; else n += 20;
        }
        last = p.opcode;
    }
    return n;
}
std::vector<unsigned char> Bytes(const CScript& s) { return std::vector<unsigned char>(s.begin(), s.end()); }
bool IsP2SHBytes(const std::vector<unsigned char>& b) { return b.size() == 23 && b[0] == 0xa9 && b[1] == 0x14 && b[22] == 0x87; }
/** witness program: version + program, or version -1 */
std::pair<int, std::vector<unsigned char>> WitnessProgramOf(const std::vector<unsigned char>& b)
{
    if (b.size() < 4 || b.size() > 42) return {-1, {}};
    if (b[0] != 0 && (b[0] < 0x51 || b[0] > 0x60)) return {-1, {}};
    if (size_t(b[1]) + 2 != b.size()) return {-1, {}};
    return {b[0] == 0 ? 0 : b[0] - 0x50, std::vector<unsigned char>(b.begin() + 2, b.end())};
}
} // namespace

int64_t ModelSigOpCost(const CTransaction& tx, const std::function<std::optional<CScript>(const COutPoint&)>& spk_of)
{
    int64_t legacy = 0;
    for (const auto& in : tx.vin) legacy += CountSigOps(Bytes(in.scriptSig), false);
    for (const auto& out : tx.vout) legacy += CountSigOps(Bytes(out.scriptPubKey), false);
    int64_t cost = legacy * 4;
    if (tx.IsCoinBase()) return cost;
    for (const auto& in : tx.vin) {
        const auto spk = spk_of(in.prevout);
        if (!spk) continue;
        std::vector<unsigned char> prog_script = Bytes(*spk);
        if (IsP2SHBytes(prog_script)) {
            // redeem script = last push of a push-only scriptSig
            const auto ops = ParseScript(Bytes(in.scriptSig));
            bool push_only = !ops.empty();
            for (const auto& p : ops) if (p.opcode > 0x60) push_only = false;
            if (!push_only) continue;
            const std::vector<unsigned char>& redeem = ops.back().data;
            cost += 4 * CountSigOps(redeem, true);
            prog_script = redeem;
        }
        const auto [ver, prog] = WitnessProgramOf(prog_script);
        if (ver == 0 && prog.size() == 20) cost += 1;
        else if (ver == 0 && prog.size() == 32 && !in.scriptWitness.stack.empty()) cost += CountSigOps(in.scriptWitness.stack.back(), true);
    }
    return cost;
}

CScript P2AScript() { return CScript() << OP_1 << std::vector<unsigned char>{0x4e, 0x73}; }

// ---------------------------------------------------------------- ModelPool

ModelPool ModelPool::From(const std::vector<CTransactionRef>& list)
{
    ModelPool m;
    for (const auto& tx : list) m.txs[tx->GetHash()] = tx;
    for (const auto& [id, tx] : m.txs) {
        m.parents[id];
        m.children[id];
    }
    for (const auto& [id, tx] : m.txs) {
        for (const auto& in : tx->vin) {
            m.spenders[in.prevout].push_back(id);
            if (in.prevout.hash != id && m.txs.count(in.prevout.hash)) {
                m.parents[id].insert(in.prevout.hash);
                m.children[in.prevout.hash].insert(id);
            }
        }
    }
    return m;
}

static std::set<Txid> Closure(const std::map<Txid, std::set<Txid>>& edges, const Txid& t)
{
    std::set<Txid> seen{t};
    std::vector<Txid> todo{t};
    while (!todo.empty()) {
        Txid c = todo.back();
        todo.pop_back();
        auto it = edges.find(c);
        if (it == edges.end()) continue;
        for (const auto& n : it->second) {
            if (seen.insert(n).second) todo.push_back(n);
        }
    }
    return seen;
}

std::set<Txid> ModelPool::Ancestors(const Txid& t) const { return Closure(parents, t); }
std::set<Txid> ModelPool::Descendants(const Txid& t) const { return Closure(children, t); }

std::vector<std::vector<Txid>> ModelPool::Clusters() const
{
    std::vector<Txid> ids;
    std::map<Txid, size_t> idx;
    for (const auto& [id, tx] : txs) { idx[id] = ids.size(); ids.push_back(id); }
    std::vector<size_t> uf(ids.size());
    std::iota(uf.begin(), uf.end(), size_t{0});
    std::function<size_t(size_t)> find = [&](size_t x) { while (uf[x] != x) { uf[x] = uf[uf[x]]; x = uf[x]; } return x; };
    for (const auto& [id, tx] : txs) {
        for (const auto& in : tx->vin) {
            auto it = idx.find(in.prevout.hash);
            if (it == idx.end()) continue;
            size_t a = find(idx[id]), b = find(it->second);
            if (a != b) uf[std::max(a, b)] = std::min(a, b);
        }
    }
    std::map<size_t, std::vector<Txid>> comp;
    for (size_t i = 0; i < ids.size(); ++i) comp[find(i)].push_back(ids[i]);
    std::vector<std::vector<Txid>> out;
    for (auto& [r, v] : comp) out.push_back(v); // ids is sorted, so each component is sorted and components are ordered by smallest member
    return out;
}

std::optional<std::vector<Txid>> ModelPool::TopoOrder() const
{
    std::map<Txid, size_t> missing;
    std::set<Txid> ready;
    for (const auto& [id, p] : parents) {
        missing[id] = p.size();
        if (p.empty()) ready.insert(id);
    }
    std::vector<Txid> out;
    while (!ready.empty()) {
        Txid t = *ready.begin();
        ready.erase(ready.begin());
        out.push_back(t);
        for (const auto& c : children.at(t)) {
            if (--missing[c] == 0) ready.insert(c);
        }
    }
    if (out.size() != txs.size()) return std::nullopt;
    return out;
}

std::vector<Txid> ModelPool::ClosedTopo(const std::set<Txid>& subset) const
{
    std::set<Txid> want;
    for (const auto& t : subset) {
        if (!Has(t)) continue;
        for (const auto& a : Ancestors(t)) want.insert(a);
    }
    std::vector<Txid> out;
    auto topo = TopoOrder();
    if (!topo) return out;
    for (const auto& t : *topo) if (want.count(t)) out.push_back(t);
    return out;
}

// ---------------------------------------------------------------- PoolSnap

std::vector<CTransactionRef> PoolSnap::Txs() const
{
    std::vector<CTransactionRef> v;
    for (const auto& [id, e] : entries) v.push_back(e.tx);
    return v;
}

uint256 PoolSnap::Digest() const
{
    HashWriter h;
    h << uint64_t(entries.size());
    for (const auto& [id, e] : entries) {
        h << id.ToUint256() << e.tx->GetWitnessHash().ToUint256() << e.fee << e.modified_fee << e.vsize << e.weight << e.time << e.height << e.sequence
          << e.spends_coinbase << e.sigop_cost << e.lp_height << e.lp_time << e.lp_block << uint64_t(e.mem_usage) << e.chunk_fee << e.chunk_size;
        for (const auto* s : {&e.parents, &e.children, &e.ancestors, &e.descendants, &e.cluster}) {
            h << uint64_t(s->size());
            for (const auto& t : *s) h << t.ToUint256();
        }
    }
    h << uint64_t(order.size());
    for (const auto& t : order) h << t.ToUint256();
    h << total_vsize << total_fee << uint64_t(usage) << sequence << min_fee_per_kvb << txns_updated << tip << tip_height;
    h << uint64_t(deltas.size());
    for (const auto& [t, d] : deltas) h << t.ToUint256() << d;
    h << uint64_t(unbroadcast.size());
    for (const auto& t : unbroadcast) h << t.ToUint256();
    return h.GetHash();
}

std::string PoolSnap::Diff(const PoolSnap& o) const
{
    for (const auto& [id, e] : entries) {
        auto it = o.entries.find(id);
        if (it == o.entries.end()) return "entry " + id.ToString() + " only in first";
        const auto& f = it->second;
        if (e.tx->GetWitnessHash() != f.tx->GetWitnessHash()) return "wtxid differs for " + id.ToString();
        if (e.fee != f.fee || e.modified_fee != f.modified_fee) return "fee/modified fee differs for " + id.ToString();
        if (e.vsize != f.vsize || e.weight != f.weight || e.sigop_cost != f.sigop_cost) return "size differs for " + id.ToString();
        if (e.time != f.time || e.height != f.height || e.sequence != f.sequence) return "time/height/sequence differs for " + id.ToString();
        if (e.spends_coinbase != f.spends_coinbase || e.lp_height != f.lp_height || e.lp_time != f.lp_time || e.lp_block != f.lp_block) return "lockpoints differ for " + id.ToString();
        if (e.parents != f.parents || e.children != f.children) return "links differ for " + id.ToString();
        if (e.ancestors != f.ancestors || e.descendants != f.descendants || e.cluster != f.cluster) return "graph answers differ for " + id.ToString();
        if (e.chunk_fee != f.chunk_fee || e.chunk_size != f.chunk_size) return "chunk feerate differs for " + id.ToString();
        if (e.mem_usage != f.mem_usage) return "entry memory usage differs for " + id.ToString();
    }
    for (const auto& [id, e] : o.entries) if (!entries.count(id)) return "entry " + id.ToString() + " only in second";
    if (order != o.order) return "infoAll order differs";
    if (total_vsize != o.total_vsize || total_fee != o.total_fee) return "totals differ";
    if (usage != o.usage) return strprintf("DynamicMemoryUsage differs %d vs %d", usage, o.usage);
    if (sequence != o.sequence) return strprintf("mempool sequence differs %d vs %d", sequence, o.sequence);
    if (min_fee_per_kvb != o.min_fee_per_kvb) return strprintf("min fee differs %d vs %d", min_fee_per_kvb, o.min_fee_per_kvb);
    if (deltas != o.deltas) return "prioritisation deltas differ";
    if (unbroadcast != o.unbroadcast) return "unbroadcast set differs";
    if (txns_updated != o.txns_updated) return "transactions-updated counter differs";
    if (tip != o.tip) return "tip differs";
    return "";
}

PoolIssue CheckSnapshot(const PoolSnap& snap, const RefUtxo& chain_utxo)
{
    const ModelPool m = ModelPool::From(snap.Txs());
    if (!m.TopoOrder()) return {"cycle", "pool transactions form a dependency cycle"};
    uint64_t sum_vsize = 0;
    CAmount sum_fee = 0;
    for (const auto& [id, e] : snap.entries) {
        __int128 in = 0, out = 0;
        std::set<COutPoint> own;
        for (const auto& txin : e.tx->vin) {
            const COutPoint& op = txin.prevout;
            if (!own.insert(op).second) return {"double-spend", "tx " + id.ToString() + " spends " + op.ToString() + " twice"};
            auto sp = m.spenders.find(op);
            if (sp != m.spenders.end() && sp->second.size() > 1) {
                return {"double-spend", "outpoint " + op.ToString() + " spent by " + sp->second[0].ToString() + " and " + sp->second[1].ToString()};
            }
            auto pit = m.txs.find(op.hash);
            if (pit != m.txs.end()) {
                if (op.n >= pit->second->vout.size()) return {"output-index", "tx " + id.ToString() + " spends non-existent output " + op.ToString()};
                const CTxOut& o = pit->second->vout[op.n];
                if (ModelUnspendableScript(o.scriptPubKey)) return {"input-missing", "tx " + id.ToString() + " spends unspendable output " + op.ToString()};
                in += o.nValue;
            } else {
                auto uit = chain_utxo.find(op);
                if (uit == chain_utxo.end()) return {"input-missing", "tx " + id.ToString() + " spends " + op.ToString() + " which is neither an unspent output of the active chain nor a pool output"};
                in += uit->second.value;
            }
        }
        for (const auto& o : e.tx->vout) out += o.nValue;
        if (in - out != e.fee) return {"fee", strprintf("tx %s entry fee %d but inputs - outputs = %d", id.ToString(), e.fee, int64_t(in - out))};
        const int64_t w = int64_t(::GetSerializeSize(TX_NO_WITNESS(*e.tx))) * 3 + int64_t(::GetSerializeSize(TX_WITH_WITNESS(*e.tx)));
        if (w != e.weight) return {"totals", strprintf("tx %s entry weight %d but serialized weight %d", id.ToString(), e.weight, w)};
        const int64_t vs = (std::max<int64_t>(w, e.sigop_cost * 20) + 3) / 4;
        if (vs != e.vsize) return {"totals", strprintf("tx %s entry vsize %d but weight %d sigops %d give %d", id.ToString(), e.vsize, w, e.sigop_cost, vs)};
        sum_vsize += e.vsize;
        sum_fee += e.fee;
        // links
        if (e.parents != m.parents.at(id)) return {"links", "parents of " + id.ToString() + strprintf(": pool says %d, inputs say %d", e.parents.size(), m.parents.at(id).size())};
        if (e.children != m.children.at(id)) return {"links", "children of " + id.ToString() + strprintf(": pool says %d, inputs say %d", e.children.size(), m.children.at(id).size())};
        const auto anc = m.Ancestors(id);
        if (e.ancestors != anc) return {"closure", "ancestors of " + id.ToString() + strprintf(": graph says %d, inputs say %d", e.ancestors.size(), anc.size())};
        const auto desc = m.Descendants(id);
        if (e.descendants != desc) return {"closure", "descendants of " + id.ToString() + strprintf(": graph says %d, inputs say %d", e.descendants.size(), desc.size())};
    }
    for (const auto& comp : m.Clusters()) {
        const std::set<Txid> want(comp.begin(), comp.end());
        for (const auto& t : comp) {
            if (snap.entries.at(t).cluster != want) return {"cluster", "cluster of " + t.ToString() + strprintf(": graph says %d members, union-find says %d", snap.entries.at(t).cluster.size(), want.size())};
        }
    }
    if (sum_vsize != snap.total_vsize) return {"totals", strprintf("GetTotalTxSize %d != sum of entries %d", snap.total_vsize, sum_vsize)};
    if (sum_fee != snap.total_fee) return {"totals", strprintf("GetTotalFee %d != sum of entries %d", snap.total_fee, sum_fee)};
    if (snap.order.size() != snap.entries.size()) return {"totals", strprintf("infoAll lists %d transactions, pool has %d", snap.order.size(), snap.entries.size())};
    return {};
}

// ---------------------------------------------------------------- notifications

class MempoolSim::Recorder : public CValidationInterface
{
public:
    std::vector<PoolEvent> events;
protected:
    void TransactionAddedToMempool(const NewMempoolTransactionInfo& tx, uint64_t seq) override
    {
        PoolEvent e;
        e.kind = PoolEvent::ADDED;
        e.txid = tx.info.m_tx->GetHash(); e.tx = tx.info.m_tx; e.seq = seq; e.fee = tx.info.m_fee; e.vsize = tx.info.m_virtual_transaction_size;
        events.push_back(e);
    }
    void TransactionRemovedFromMempool(const CTransactionRef& tx, MemPoolRemovalReason reason, uint64_t seq) override
    {
        PoolEvent e;
        e.kind = PoolEvent::REMOVED;
        e.txid = tx->GetHash(); e.tx = tx; e.reason = reason; e.seq = seq;
        events.push_back(e);
    }
    void BlockConnected(const kernel::ChainstateRole&, const std::shared_ptr<const CBlock>& block, const CBlockIndex*) override
    {
        PoolEvent e;
        e.kind = PoolEvent::BLOCK_CONNECTED;
        e.block = block->GetHash();
        events.push_back(e);
    }
    void BlockDisconnected(const std::shared_ptr<const CBlock>& block, const CBlockIndex*) override
    {
        PoolEvent e;
        e.kind = PoolEvent::BLOCK_DISCONNECTED;
        e.block = block->GetHash();
        events.push_back(e);
    }
};

const std::vector<PoolEvent>& MempoolSim::Events() const { return m_rec->events; }
size_t MempoolSim::EventCount() const { return m_rec->events.size(); }

// ---------------------------------------------------------------- helpers

const char* GenKindName(GenKind k)
{
    switch (k) {
    case GenKind::PLAIN: return "plain";
    case GenKind::CHAIN: return "chain";
    case GenKind::MERGE: return "merge";
    case GenKind::CONFLICT: return "conflict";
    case GenKind::TRUC_PARENT: return "truc-parent";
    case GenKind::TRUC_CHILD: return "truc-child";
    case GenKind::TRUC_SIBLING: return "truc-sibling";
    case GenKind::TRUC_MIXED: return "truc-mixed";
    case GenKind::DUSTY_PKG: return "dusty-pkg";
    case GenKind::DUST_CHILD: return "dust-child";
    case GenKind::CPFP_PKG: return "cpfp-pkg";
    case GenKind::LOCKTIME: return "locktime";
    case GenKind::BIP68: return "bip68";
    case GenKind::COINBASE_SPEND: return "coinbase-spend";
    case GenKind::BIG: return "big";
    case GenKind::JUNK: return "junk";
    case GenKind::RESUBMIT: return "resubmit";
    }
    return "?";
}

bool TraceEnabled()
{
    static const bool on = std::getenv("VH_TRACE") != nullptr;
    return on;
}
void TraceLine(const std::string& line) { std::cerr << "TRACE " << line << std::endl; }

std::string TxStateStr(const MempoolAcceptResult& r)
{
    switch (r.m_result_type) {
    case MempoolAcceptResult::ResultType::VALID: return "VALID";
    case MempoolAcceptResult::ResultType::MEMPOOL_ENTRY: return "MEMPOOL_ENTRY";
    case MempoolAcceptResult::ResultType::DIFFERENT_WITNESS: return "DIFFERENT_WITNESS";
    case MempoolAcceptResult::ResultType::INVALID: break;
    }
    return "INVALID:" + r.m_state.GetRejectReason();
}

std::string PkgStateStr(const PackageMempoolAcceptResult& r)
{
    std::string s = r.m_state.IsValid() ? "PKG-OK" : "PKG-INVALID:" + r.m_state.GetRejectReason();
    for (const auto& [w, tr] : r.m_tx_results) s += " [" + TxStateStr(tr) + "]";
    return s;
}

// ---------------------------------------------------------------- MempoolSim

MempoolSim::MempoolSim(MempoolSimOpts o) : opts(o)
{
    SetMockTime(0);
    ChainSimOpts co;
    co.extra_args = o.extra_args;
    co.with_mempool_checks = o.with_mempool_checks;
    co.coins_cache_bytes = o.coins_cache_bytes;
    co.min_validation_cache = o.min_validation_cache;
    if (o.validation_cache_bytes) co.validation_cache_bytes = *o.validation_cache_bytes;
    m_sim = std::make_unique<ChainSim>(co);
    ChainSim& sim = *m_sim;
    if (o.tweak_mempool) {
        CTxMemPool::Options mo = MemPoolOptionsForTest(sim.m_node);
        if (!o.with_mempool_checks) mo.check_ratio = 0;
        o.tweak_mempool(mo);
        bilingual_str err;
        auto np = std::make_unique<CTxMemPool>(mo, err);
        assert(err.empty());
        static_cast<DummyChainState&>(sim.chainstate()).SetMempool(np.get());
        sim.m_node.mempool = std::move(np);
    }
    for (SpkType t : {SpkType::ANYONE_P2WSH, SpkType::P2WPKH, SpkType::P2PKH, SpkType::P2TR, SpkType::P2SH_P2WPKH, SpkType::P2PK}) {
        for (size_t k = 0; k < sim.keys.keys.size(); ++k) m_spendable_spks.insert(sim.keys.Script(t, k));
    }
    m_spendable_spks.insert(P2AScript());
    m_rec = std::make_shared<Recorder>();
    sim.m_node.validation_signals->RegisterSharedValidationInterface(m_rec);

    auto base = sim.LoadBase(o.base_blocks);
    m_now = int64_t(sim.ledger.At(base.back()).time) + 600;
    SetMockTime(m_now);
    if (o.funding_block) {
        // fan two mature coinbases out into outputs of every spendable script type (values ~1.3 BTC each)
        const RefUtxo& u = ChainUtxo();
        std::vector<CTransactionRef> txs;
        int used = 0;
        for (const auto& [op, c] : u) {
            if (!c.coinbase || !IsMatureAtNext(c)) continue;
            if (c.height == TipHeight() + 1 - 100 || c.height == TipHeight() + 2 - 100) continue; // keep the boundary coinbases for the generator
            std::vector<CTxOut> outs;
            const int n = 18;
            const CAmount each = (c.value - 10000) / n;
            for (int i = 0; i < n; ++i) {
                SpkType t = SpkType::ANYONE_P2WSH;
                if (i % 3 == 1) t = std::vector<SpkType>{SpkType::P2WPKH, SpkType::P2TR, SpkType::P2PKH, SpkType::P2SH_P2WPKH, SpkType::P2PK, SpkType::P2WPKH}[(i / 3) % 6];
                outs.emplace_back(each, sim.keys.Script(t, size_t(i + used) % 8));
            }
            txs.push_back(MakeTransactionRef(sim.MakeTx({{op, c}}, outs)));
            if (++used == 2) break;
        }
        auto m = MineTxs(txs);
        assert(m.became_tip);
    }
    Sync();
}

MempoolSim::~MempoolSim()
{
    if (m_sim && m_sim->m_node.validation_signals && m_rec) m_sim->m_node.validation_signals->UnregisterSharedValidationInterface(m_rec);
    m_sim.reset();
    SetMockTime(0);
}

void MempoolSim::AdvanceTime(int64_t seconds)
{
    m_now += seconds;
    SetMockTime(m_now);
}

void MempoolSim::TouchClockForBlock(uint32_t block_time)
{
    // a block must not be more than two hours ahead of the node's clock
    if (int64_t(block_time) > m_now) {
        m_now = block_time;
        SetMockTime(m_now);
    }
}

int MempoolSim::TipHeight() { return m_sim->TipHeight(); }
uint256 MempoolSim::TipHash() { return m_sim->TipHash(); }
int64_t MempoolSim::TipMTP() { return m_sim->ledger.MedianTimePast(TipHash()); }
int64_t MempoolSim::MtpAtHeight(int h)
{
    const uint256 tip = TipHash();
    h = std::clamp(h, 0, m_sim->ledger.At(tip).height);
    return m_sim->ledger.MedianTimePast(m_sim->ledger.AncestorAt(tip, h));
}

const RefUtxo& MempoolSim::ChainUtxo()
{
    const uint256 tip = TipHash();
    if (tip != m_utxo_tip) {
        RefReplay r = m_sim->ledger.Replay(tip);
        assert(r.ok);
        m_utxo = std::move(r.utxo);
        m_utxo_tip = tip;
    }
    return m_utxo;
}

PoolSnap MempoolSim::Snapshot()
{
    PoolSnap s;
    CTxMemPool& p = pool();
    LOCK2(cs_main, p.cs);
    for (auto it = p.mapTx.begin(); it != p.mapTx.end(); ++it) {
        const CTxMemPoolEntry& e = *it;
        PoolEntrySnap x;
        x.tx = e.GetSharedTx();
        x.fee = e.GetFee();
        x.modified_fee = e.GetModifiedFee();
        x.vsize = e.GetTxSize();
        x.weight = e.GetTxWeight();
        x.time = e.GetTime().count();
        x.height = e.GetHeight();
        x.sequence = e.GetSequence();
        x.spends_coinbase = e.GetSpendsCoinbase();
        x.sigop_cost = e.GetSigOpCost();
        x.lp_height = e.GetLockPoints().height;
        x.lp_time = e.GetLockPoints().time;
        if (e.GetLockPoints().maxInputBlock) x.lp_block = e.GetLockPoints().maxInputBlock->GetBlockHash();
        x.mem_usage = e.DynamicMemoryUsage();
        for (const auto& r : p.GetParents(e)) x.parents.insert(r.get().GetTx().GetHash());
        for (const auto& r : p.GetChildren(e)) x.children.insert(r.get().GetTx().GetHash());
        for (const auto& a : p.CalculateMemPoolAncestors(e)) x.ancestors.insert(a->GetTx().GetHash());
        x.ancestors.insert(e.GetTx().GetHash());
        CTxMemPool::setEntries desc;
        p.CalculateDescendants(it, desc);
        for (const auto& d : desc) x.descendants.insert(d->GetTx().GetHash());
        for (const auto* c : p.GetCluster(e.GetTx().GetHash())) x.cluster.insert(c->GetTx().GetHash());
        const FeePerWeight cf = p.GetMainChunkFeerate(e);
        x.chunk_fee = cf.fee;
        x.chunk_size = cf.size;
        s.entries[e.GetTx().GetHash()] = std::move(x);
    }
    for (const auto& info : p.infoAll()) s.order.push_back(info.tx->GetHash());
    s.total_vsize = p.GetTotalTxSize();
    s.total_fee = p.GetTotalFee();
    s.usage = p.DynamicMemoryUsage();
    s.sequence = p.GetSequence();
    s.min_fee_per_kvb = p.GetMinFee().GetFeePerK();
    s.deltas = p.mapDeltas;
    s.unbroadcast = p.GetUnbroadcastTxs();
    s.txns_updated = p.GetTransactionsUpdated();
    s.tip = m_sim->chainman().ActiveChain().Tip()->GetBlockHash();
    s.tip_height = m_sim->chainman().ActiveChain().Height();
    return s;
}

const PoolSnap& MempoolSim::Sync()
{
    m_last = Snapshot();
    m_belief = ModelPool::From(m_last.Txs());
    for (const auto& [id, e] : m_last.entries) known_txs[id] = e.tx;
    return m_last;
}

bool MempoolSim::CanSpend(const CScript& spk) const { return m_spendable_spks.count(spk) > 0; }

bool MempoolSim::IsMatureAtNext(const RefCoin& c) { return !c.coinbase || (TipHeight() + 1) - c.height >= 100; }

std::optional<RefCoin> MempoolSim::LookupCoin(const COutPoint& op)
{
    const RefUtxo& u = ChainUtxo();
    auto it = u.find(op);
    if (it != u.end()) return it->second;
    auto k = known_txs.find(op.hash);
    if (k != known_txs.end() && op.n < k->second->vout.size()) return RefCoin{k->second->vout[op.n].nValue, k->second->vout[op.n].scriptPubKey, -1, false};
    return std::nullopt;
}

std::vector<Spendable> MempoolSim::Spendables()
{
    std::vector<Spendable> v;
    for (const auto& [op, c] : ChainUtxo()) {
        if (!CanSpend(c.spk)) continue;
        Spendable sp{op, c, false, std::nullopt};
        auto it = m_belief.spenders.find(op);
        if (it != m_belief.spenders.end()) sp.spent_by = it->second.front();
        v.push_back(sp);
    }
    // unconfirmed outputs, oldest pool entry first (entry sequence, then txid)
    std::vector<std::pair<std::pair<uint64_t, int64_t>, Txid>> aged;
    for (const auto& [id, e] : m_last.entries) aged.push_back({{e.sequence, e.time}, id});
    std::sort(aged.begin(), aged.end());
    for (const auto& [k, id] : aged) {
        const auto& tx = m_belief.txs.at(id);
        for (uint32_t n = 0; n < tx->vout.size(); ++n) {
            if (!CanSpend(tx->vout[n].scriptPubKey)) continue;
            Spendable sp{COutPoint(id, n), RefCoin{tx->vout[n].nValue, tx->vout[n].scriptPubKey, -1, false}, true, std::nullopt};
            auto it = m_belief.spenders.find(sp.op);
            if (it != m_belief.spenders.end()) sp.spent_by = it->second.front();
            v.push_back(sp);
        }
    }
    return v;
}

Spendable* MempoolSim::PickWhere(Src& s, std::vector<Spendable>& v, const std::function<bool(const Spendable&)>& pred, bool prefer_late)
{
    std::vector<size_t> idx;
    for (size_t i = 0; i < v.size(); ++i) if (pred(v[i])) idx.push_back(i);
    if (idx.empty()) return nullptr;
    size_t j;
    if (prefer_late && s.chance(176)) {
        j = idx.size() - 1 - s.index(std::min<size_t>(idx.size(), 4));
    } else {
        j = s.index(idx.size());
    }
    return &v[idx[j]];
}

CScript MempoolSim::OutScript(Src& s)
{
    const unsigned r = s.range<unsigned>(0, 11);
    SpkType t = SpkType::ANYONE_P2WSH;
    switch (r) {
    case 7: t = SpkType::P2WPKH; break;
    case 8: t = SpkType::P2TR; break;
    case 9: t = SpkType::P2PKH; break;
    case 10: t = SpkType::P2SH_P2WPKH; break;
    case 11: t = SpkType::P2PK; break;
    default: break;
    }
    return m_sim->keys.Script(t, t == SpkType::ANYONE_P2WSH ? 0 : s.index(8));
}

CTransactionRef MempoolSim::Build(const TxPlan& plan)
{
    std::vector<std::pair<COutPoint, RefCoin>> coins;
    CAmount in = 0;
    for (const auto& sp : plan.inputs) { coins.emplace_back(sp.op, sp.coin); in += sp.coin.value; }
    CAmount fixed = 0;
    for (const auto& o : plan.fixed_outputs) fixed += o.nValue;
    CAmount left = in - plan.fee - fixed;
    std::vector<CTxOut> outs;
    size_t nch = plan.change_scripts.size();
    if (nch > 0 && left > 0) {
        if (left / CAmount(nch) < 1000) nch = 1;
        const CAmount each = left / CAmount(nch);
        for (size_t i = 0; i < nch; ++i) outs.emplace_back(i == 0 ? left - each * CAmount(nch - 1) : each, plan.change_scripts[i]);
    }
    for (const auto& o : plan.fixed_outputs) outs.push_back(o);
    CMutableTransaction mtx = m_sim->MakeTx(coins, outs, plan.locktime, 0xfffffffdU, plan.version);
    bool resign = false;
    for (size_t i = 0; i < plan.sequences.size() && i < mtx.vin.size(); ++i) {
        if (mtx.vin[i].nSequence != plan.sequences[i]) { mtx.vin[i].nSequence = plan.sequences[i]; resign = true; }
    }
    if (resign) {
        std::map<COutPoint, RefCoin> spent;
        for (const auto& [op, c] : coins) spent[op] = c;
        for (auto& i : mtx.vin) { i.scriptSig.clear(); i.scriptWitness.SetNull(); }
        m_sim->keys.Sign(mtx, spent);
    }
    CTransactionRef tx = MakeTransactionRef(mtx);
    Remember(tx);
    return tx;
}

namespace {
int64_t VSizeOf(const CTransaction& tx) { return (GetTransactionWeight(tx) + 3) / 4; }

CTxOut Padding(size_t bytes)
{
    CScript s;
    s << OP_RETURN;
    std::vector<unsigned char> data(bytes, 0x5a);
    s << data;
    return CTxOut(0, s);
}
} // namespace

GenTx MempoolSim::Gen(Src& s)
{
    // weights: zero byte => PLAIN
    static const std::vector<GenKind> table{
        GenKind::PLAIN, GenKind::PLAIN, GenKind::CHAIN, GenKind::CHAIN, GenKind::CHAIN, GenKind::MERGE, GenKind::CONFLICT, GenKind::CONFLICT,
        GenKind::TRUC_PARENT, GenKind::TRUC_CHILD, GenKind::TRUC_SIBLING, GenKind::TRUC_MIXED, GenKind::DUSTY_PKG, GenKind::DUST_CHILD, GenKind::CPFP_PKG,
        GenKind::LOCKTIME, GenKind::LOCKTIME, GenKind::BIP68, GenKind::BIP68, GenKind::COINBASE_SPEND, GenKind::COINBASE_SPEND, GenKind::BIG, GenKind::JUNK, GenKind::RESUBMIT};
    return GenOfKind(s, table[s.index(table.size())]);
}

GenTx MempoolSim::GenOfKind(Src& s, GenKind kind)
{
    GenTx g;
    g.kind = kind;
    std::vector<Spendable> sp = Spendables();
    const int next_h = TipHeight() + 1;
    auto fresh_confirmed = [&](const Spendable& x) { return !x.unconfirmed && !x.spent_by && IsMatureAtNext(x.coin) && !x.coin.coinbase && !ModelIsDust(CTxOut(x.coin.value, x.coin.spk)); };
    auto fresh_any_confirmed = [&](const Spendable& x) { return !x.unconfirmed && !x.spent_by && IsMatureAtNext(x.coin) && x.coin.value > 100000; };
    auto fresh_unconfirmed = [&](const Spendable& x) { return x.unconfirmed && !x.spent_by && !ModelIsDust(CTxOut(x.coin.value, x.coin.spk)); };
    auto take = [&](Spendable* p, std::vector<Spendable>& into) -> bool {
        if (!p) return false;
        for (const auto& e : into) if (e.op == p->op) return false;
        into.push_back(*p);
        return true;
    };
    auto pick_fee = [&](int64_t vsize) -> CAmount {
        switch (s.range<unsigned>(0, 7)) {
        case 5: return std::max<CAmount>(0, MinRelayFee(vsize) + s.range<int>(-1, 1));
        case 6: return 0;
        case 7: return vsize * 300;
        default: return vsize * s.range<CAmount>(1, 40);
        }
    };
    // build with a provisional fee, measure, decide the fee, rebuild
    auto finish = [&](TxPlan plan, std::optional<CAmount> forced_fee = std::nullopt) -> CTransactionRef {
        if (plan.inputs.empty()) return nullptr;
        plan.fee = 1000;
        CTransactionRef probe = Build(plan);
        known_txs.erase(probe->GetHash());
        plan.fee = forced_fee ? *forced_fee : pick_fee(VSizeOf(*probe));
        CAmount in = 0, fixed = 0;
        for (const auto& i : plan.inputs) in += i.coin.value;
        for (const auto& o : plan.fixed_outputs) fixed += o.nValue;
        if (plan.fee > in - fixed) plan.fee = std::max<CAmount>(0, in - fixed);
        g.fee = plan.fee;
        return Build(plan);
    };
    auto change = [&](unsigned lo, unsigned hi) {
        std::vector<CScript> v;
        const unsigned n = s.range<unsigned>(lo, hi);
        for (unsigned i = 0; i < n; ++i) v.push_back(OutScript(s));
        return v;
    };
    auto fallback_plain = [&]() {
        TxPlan plan;
        if (!take(PickWhere(s, sp, fresh_confirmed), plan.inputs)) take(PickWhere(s, sp, fresh_any_confirmed), plan.inputs);
        if (s.chance(48)) take(PickWhere(s, sp, fresh_confirmed), plan.inputs);
        plan.change_scripts = change(1, 3);
        g.tx = finish(plan);
        g.note = strprintf("plain ins=%d", plan.inputs.size());
    };

    switch (kind) {
    case GenKind::PLAIN: {
        fallback_plain();
        break;
    }
    case GenKind::CHAIN: {
        TxPlan plan;
        if (!take(PickWhere(s, sp, fresh_unconfirmed, /*prefer_late=*/true), plan.inputs)) { g.kind = GenKind::PLAIN; fallback_plain(); break; }
        if (s.chance(40)) take(PickWhere(s, sp, fresh_confirmed), plan.inputs);
        plan.version = m_belief.txs.at(plan.inputs[0].op.hash)->version == 3 ? 3 : 2;
        plan.change_scripts = change(1, 2);
        g.tx = finish(plan);
        g.note = strprintf("chain on %s", plan.inputs[0].op.hash.ToString().substr(0, 8));
        break;
    }
    case GenKind::MERGE: {
        TxPlan plan;
        const unsigned n = s.range<unsigned>(2, 4);
        for (unsigned i = 0; i < n; ++i) {
            take(PickWhere(s, sp, [&](const Spendable& x) {
                if (!fresh_unconfirmed(x)) return false;
                for (const auto& e : plan.inputs) if (e.op.hash == x.op.hash) return false;
                return m_belief.txs.at(x.op.hash)->version != 3;
            }), plan.inputs);
        }
        if (plan.inputs.size() < 2) take(PickWhere(s, sp, fresh_confirmed), plan.inputs);
        if (plan.inputs.empty()) { g.kind = GenKind::PLAIN; fallback_plain(); break; }
        plan.change_scripts = change(1, 2);
        g.tx = finish(plan);
        g.note = strprintf("merge of %d", plan.inputs.size());
        break;
    }
    case GenKind::CONFLICT: {
        TxPlan plan;
        auto spent = [&](const Spendable& x) { return x.spent_by.has_value() && (x.unconfirmed || IsMatureAtNext(x.coin)); };
        if (!take(PickWhere(s, sp, spent, true), plan.inputs)) { g.kind = GenKind::PLAIN; fallback_plain(); break; }
        const unsigned extra = s.range<unsigned>(0, 3);
        if (extra == 1) take(PickWhere(s, sp, fresh_confirmed), plan.inputs);
        if (extra == 2) take(PickWhere(s, sp, spent), plan.inputs);       // conflicts with a second pool tx
        if (extra == 3) take(PickWhere(s, sp, fresh_unconfirmed), plan.inputs);
        // version follows an unconfirmed parent if there is one
        for (const auto& i : plan.inputs) if (i.unconfirmed && m_belief.txs.at(i.op.hash)->version == 3) plan.version = 3;
        if (!plan.inputs[0].unconfirmed && s.chance(64)) plan.version = 3;
        plan.change_scripts = change(1, 2);
        // model conflict set: direct conflicts and all their descendants; fee rule thresholds from the snapshot's modified fees
        std::set<Txid> evict;
        for (const auto& i : plan.inputs) if (i.spent_by) for (const auto& d : m_belief.Descendants(*i.spent_by)) evict.insert(d);
        CAmount evicted_fees = 0;
        for (const auto& t : evict) evicted_fees += m_last.entries.at(t).modified_fee;
        plan.fee = 1000;
        CTransactionRef probe = Build(plan);
        known_txs.erase(probe->GetHash());
        const int64_t vs = VSizeOf(*probe);
        const CAmount threshold = evicted_fees + MinRelayFee(vs);
        std::optional<CAmount> fee;
        switch (s.range<unsigned>(0, 5)) {
        case 0: fee = threshold + s.range<CAmount>(0, 20000); break;
        case 1: fee = threshold; break;
        case 2: fee = std::max<CAmount>(0, threshold - 1); break;
        case 3: fee = threshold + 1; break;
        case 4: fee = threshold * 3 + 5000; break;
        default: break; // unrelated fee
        }
        g.tx = finish(plan, fee);
        g.boundary_ok = fee && *fee >= threshold;
        g.note = strprintf("conflict with %d txs (evicted fees %d, threshold %d, fee %d)", evict.size(), evicted_fees, threshold, g.fee);
        break;
    }
    case GenKind::TRUC_PARENT: {
        TxPlan plan;
        plan.version = 3;
        if (!take(PickWhere(s, sp, fresh_confirmed), plan.inputs)) { g.kind = GenKind::PLAIN; fallback_plain(); break; }
        plan.change_scripts = change(2, 3);
        const unsigned pad = s.range<unsigned>(0, 5);
        if (pad == 3) plan.fixed_outputs.push_back(Padding(9000));
        if (pad == 4) { // around the 10 000 vB cap
            TxPlan probe_plan = plan; probe_plan.fee = 1000;
            CTransactionRef probe = Build(probe_plan); known_txs.erase(probe->GetHash());
            const int64_t base = VSizeOf(*probe);
            const int64_t want = 10000 + s.range<int>(-1, 1);
            plan.fixed_outputs.push_back(Padding(size_t(std::max<int64_t>(300, want - base - 15))));
        }
        g.tx = finish(plan);
        g.note = strprintf("truc parent vsize=%d", VSizeOf(*g.tx));
        break;
    }
    case GenKind::TRUC_CHILD:
    case GenKind::TRUC_SIBLING: {
        const bool sibling = kind == GenKind::TRUC_SIBLING;
        TxPlan plan;
        plan.version = 3;
        auto pred = [&](const Spendable& x) {
            if (!fresh_unconfirmed(x)) return false;
            if (m_belief.txs.at(x.op.hash)->version != 3) return false;
            const bool has_child = !m_belief.children.at(x.op.hash).empty();
            return has_child == sibling;
        };
        if (!take(PickWhere(s, sp, pred, true), plan.inputs)) { g = GenOfKind(s, GenKind::TRUC_PARENT); break; }
        if (s.chance(48)) take(PickWhere(s, sp, fresh_confirmed), plan.inputs);
        plan.change_scripts = change(1, 2);
        if (s.chance(64)) { // around the 1000 vB child cap
            TxPlan probe_plan = plan; probe_plan.fee = 1000;
            CTransactionRef probe = Build(probe_plan); known_txs.erase(probe->GetHash());
            const int64_t base = VSizeOf(*probe);
            const int64_t want = 1000 + s.range<int>(-1, 1);
            if (want - base - 15 >= 256) plan.fixed_outputs.push_back(Padding(size_t(want - base - 15)));
        }
        g.tx = finish(plan);
        g.note = strprintf("truc %s of %s vsize=%d", sibling ? "sibling" : "child", plan.inputs[0].op.hash.ToString().substr(0, 8), VSizeOf(*g.tx));
        break;
    }
    case GenKind::TRUC_MIXED: {
        TxPlan plan;
        const unsigned variant = s.range<unsigned>(0, 3);
        if (variant == 0) { // v3 child of a non-v3 parent
            plan.version = 3;
            take(PickWhere(s, sp, [&](const Spendable& x) { return fresh_unconfirmed(x) && m_belief.txs.at(x.op.hash)->version != 3; }, true), plan.inputs);
        } else if (variant == 1) { // non-v3 child of a v3 parent
            plan.version = 2;
            take(PickWhere(s, sp, [&](const Spendable& x) { return fresh_unconfirmed(x) && m_belief.txs.at(x.op.hash)->version == 3; }, true), plan.inputs);
        } else if (variant == 2) { // v3 with two unconfirmed v3 parents
            plan.version = 3;
            for (int i = 0; i < 2; ++i) take(PickWhere(s, sp, [&](const Spendable& x) {
                if (!fresh_unconfirmed(x) || m_belief.txs.at(x.op.hash)->version != 3) return false;
                for (const auto& e : plan.inputs) if (e.op.hash == x.op.hash) return false;
                return true; }), plan.inputs);
        } else { // v3 grandchild
            plan.version = 3;
            take(PickWhere(s, sp, [&](const Spendable& x) { return fresh_unconfirmed(x) && m_belief.txs.at(x.op.hash)->version == 3 && !m_belief.parents.at(x.op.hash).empty(); }, true), plan.inputs);
        }
        if (plan.inputs.empty()) { g = GenOfKind(s, GenKind::TRUC_PARENT); break; }
        plan.change_scripts = change(1, 2);
        g.tx = finish(plan);
        g.boundary_ok = false;
        g.note = strprintf("truc mixed variant %d", variant);
        break;
    }
    case GenKind::DUSTY_PKG: {
        // parent: zero fee, one dust output (variants: fee != 0, two dust outputs); child: spends the dust (variant: does not)
        TxPlan pp;
        if (!take(PickWhere(s, sp, fresh_confirmed), pp.inputs)) { g.kind = GenKind::PLAIN; fallback_plain(); break; }
        pp.version = s.chance(128) ? 3 : 2;
        const unsigned variant = s.range<unsigned>(0, 7);
        const bool anchor = s.boolean();
        const CScript dust_spk = anchor ? P2AScript() : m_sim->keys.Script(SpkType::ANYONE_P2WSH);
        const CAmount thr = ModelDustThreshold(CTxOut(0, dust_spk));
        CAmount dust_value = s.pick<CAmount>({0, 1, thr - 1, thr});
        pp.fixed_outputs.emplace_back(dust_value, dust_spk);
        if (variant == 5) pp.fixed_outputs.emplace_back(0, m_sim->keys.Script(SpkType::ANYONE_P2WSH));
        pp.change_scripts = {m_sim->keys.Script(SpkType::ANYONE_P2WSH)};
        CAmount pfee = variant == 4 ? s.pick<CAmount>({1, 200}) : 0;
        CTransactionRef parent = finish(pp, pfee);
        // child
        TxPlan cp;
        cp.version = pp.version;
        const uint32_t change_index = 0;
        const uint32_t dust_index = 1;
        cp.inputs.push_back(Spendable{COutPoint(parent->GetHash(), change_index), RefCoin{parent->vout[change_index].nValue, parent->vout[change_index].scriptPubKey, -1, false}, true, std::nullopt});
        if (variant != 6) cp.inputs.push_back(Spendable{COutPoint(parent->GetHash(), dust_index), RefCoin{parent->vout[dust_index].nValue, parent->vout[dust_index].scriptPubKey, -1, false}, true, std::nullopt});
        if (variant == 7) cp.inputs.erase(cp.inputs.begin()); // spends only the dust: cannot pay a fee
        cp.change_scripts = change(1, 2);
        CTransactionRef child = finish(cp, variant == 7 ? std::optional<CAmount>(0) : std::optional<CAmount>(VSizeOf(*parent) * 4 + s.range<CAmount>(400, 4000)));
        g.package = {parent, child};
        g.tx = child;
        g.boundary_ok = variant < 4;
        g.note = strprintf("dusty package v%d variant %d dust=%d thr=%d anchor=%d parent fee=%d", pp.version, variant, dust_value, thr, anchor, pfee);
        break;
    }
    case GenKind::DUST_CHILD: {
        // a pool tx with an unspent dust output: spend another output of it with or without the dust
        TxPlan plan;
        std::optional<Spendable> dust;
        for (const auto& x : sp) {
            if (x.unconfirmed && !x.spent_by && ModelIsDust(CTxOut(x.coin.value, x.coin.spk))) { dust = x; if (s.boolean()) break; }
        }
        if (!dust) { g = GenOfKind(s, GenKind::DUSTY_PKG); break; }
        take(PickWhere(s, sp, [&](const Spendable& x) { return fresh_unconfirmed(x) && x.op.hash == dust->op.hash; }), plan.inputs);
        const bool with_dust = s.boolean();
        if (with_dust) plan.inputs.push_back(*dust);
        if (plan.inputs.empty() || s.chance(64)) take(PickWhere(s, sp, fresh_confirmed), plan.inputs);
        if (plan.inputs.empty()) { g.kind = GenKind::PLAIN; fallback_plain(); break; }
        plan.version = m_belief.txs.at(dust->op.hash)->version == 3 ? 3 : 2;
        plan.change_scripts = change(1, 2);
        g.tx = finish(plan);
        g.boundary_ok = with_dust;
        g.note = strprintf("child of dusty %s with_dust=%d", dust->op.hash.ToString().substr(0, 8), with_dust);
        break;
    }
    case GenKind::CPFP_PKG: {
        const unsigned np = s.range<unsigned>(1, 3);
        std::vector<CTransactionRef> parents;
        TxPlan cp;
        for (unsigned i = 0; i < np; ++i) {
            TxPlan pp;
            if (!take(PickWhere(s, sp, [&](const Spendable& x) {
                    if (!fresh_confirmed(x)) return false;
                    for (const auto& p : parents) for (const auto& in : p->vin) if (in.prevout == x.op) return false;
                    return true; }), pp.inputs)) break;
            pp.change_scripts = change(1, 2);
            const CAmount pfee = s.pick<CAmount>({0, 0, 10, 200, 5000});
            CTransactionRef parent = finish(pp, pfee);
            parents.push_back(parent);
            cp.inputs.push_back(Spendable{COutPoint(parent->GetHash(), 0), RefCoin{parent->vout[0].nValue, parent->vout[0].scriptPubKey, -1, false}, true, std::nullopt});
        }
        if (parents.empty()) { g.kind = GenKind::PLAIN; fallback_plain(); break; }
        if (s.chance(32)) take(PickWhere(s, sp, fresh_unconfirmed, true), cp.inputs); // in-pool parent too
        cp.change_scripts = change(1, 2);
        CTransactionRef child = finish(cp, s.pick<CAmount>({20000, 3000, 100, 0}));
        g.package = parents;
        g.package.push_back(child);
        g.tx = child;
        g.note = strprintf("cpfp package parents=%d child fee=%d", parents.size(), g.fee);
        break;
    }
    case GenKind::LOCKTIME: {
        TxPlan plan;
        if (!take(PickWhere(s, sp, fresh_confirmed), plan.inputs) && !take(PickWhere(s, sp, fresh_unconfirmed), plan.inputs)) { g.kind = GenKind::PLAIN; fallback_plain(); break; }
        plan.sequences = {0xfffffffeU};
        const bool by_time = s.boolean();
        const int d = s.range<int>(-2, 1); // d < 0: final for the next block; d >= 0: not yet
        if (by_time) {
            // final for the next block iff locktime < MTP(tip)
            const int64_t mtp = TipMTP();
            plan.locktime = uint32_t(mtp + d);
            g.boundary_ok = (mtp + d) < mtp;
        } else {
            // final for the next block iff locktime < tip+1
            plan.locktime = uint32_t(std::max(0, next_h + d));
            g.boundary_ok = (next_h + d) < next_h || plan.locktime == 0;
        }
        if (s.chance(24)) { plan.sequences = {0xffffffffU}; g.boundary_ok = true; } // locktime disabled by final sequences
        plan.change_scripts = change(1, 2);
        g.tx = finish(plan);
        g.note = strprintf("locktime %s lt=%d (next height %d, mtp %d) final=%d", by_time ? "time" : "height", plan.locktime, next_h, TipMTP(), g.boundary_ok);
        break;
    }
    case GenKind::BIP68: {
        TxPlan plan;
        plan.version = s.chance(16) ? 1 : 2;
        auto pred = [&](const Spendable& x) { return fresh_confirmed(x) && next_h - x.coin.height < 60000; };
        std::vector<Spendable> by_height = sp; // most recently confirmed coins last: their lock points are the ones a reorg invalidates
        std::stable_sort(by_height.begin(), by_height.end(), [](const Spendable& a, const Spendable& b) { return a.coin.height < b.coin.height; });
        if (!take(PickWhere(s, by_height, pred, true), plan.inputs)) { g.kind = GenKind::PLAIN; fallback_plain(); break; }
        const int ch = plan.inputs[0].coin.height;
        const bool by_time = s.boolean();
        const int d = s.range<int>(-1, 1);
        uint32_t seq;
        if (by_time) {
            // satisfied iff MTP(ch-1) + k*512 - 1 < MTP(tip)  <=>  k*512 <= MTP(tip) - MTP(ch-1)
            const int64_t span = TipMTP() - MtpAtHeight(std::max(ch - 1, 0));
            const int64_t k = std::clamp<int64_t>(span / 512 + d, 0, 0xffff);
            seq = (1U << 22) | uint32_t(k);
            g.boundary_ok = k * 512 <= span;
        } else {
            // satisfied iff ch + k - 1 < next_h  <=>  k <= next_h - ch
            const int k = std::clamp(next_h - ch + d, 0, 0xffff);
            seq = uint32_t(k);
            g.boundary_ok = k <= next_h - ch;
        }
        if (plan.version < 2) g.boundary_ok = true;
        plan.sequences = {seq};
        if (s.chance(40) && take(PickWhere(s, sp, fresh_unconfirmed), plan.inputs)) plan.sequences.push_back(s.boolean() ? 0U : 1U); // relative lock on an unconfirmed input: 0 ok, 1 not
        if (plan.sequences.size() == 2 && plan.sequences[1] == 1 && plan.version >= 2) g.boundary_ok = false;
        plan.change_scripts = change(1, 2);
        g.tx = finish(plan);
        g.note = strprintf("bip68 %s seq=%x coin height %d next %d ok=%d", by_time ? "time" : "height", seq, ch, next_h, g.boundary_ok);
        break;
    }
    case GenKind::COINBASE_SPEND: {
        TxPlan plan;
        const int want = next_h - 100 + s.pick<int>({0, 0, 1, -1, -3}); // height of the coinbase: next_h-100 is exactly mature
        auto pred = [&](const Spendable& x) { return !x.unconfirmed && !x.spent_by && x.coin.coinbase && x.coin.height == want; };
        if (!take(PickWhere(s, sp, pred), plan.inputs)) {
            if (!take(PickWhere(s, sp, [&](const Spendable& x) { return !x.unconfirmed && !x.spent_by && x.coin.coinbase && IsMatureAtNext(x.coin); }, true), plan.inputs)) { g.kind = GenKind::PLAIN; fallback_plain(); break; }
        }
        g.boundary_ok = IsMatureAtNext(plan.inputs[0].coin);
        plan.change_scripts = change(2, 4);
        g.tx = finish(plan);
        g.note = strprintf("coinbase spend of height %d at next height %d mature=%d", plan.inputs[0].coin.height, next_h, g.boundary_ok);
        break;
    }
    case GenKind::BIG: {
        TxPlan plan;
        if (!take(PickWhere(s, sp, fresh_confirmed), plan.inputs) && !take(PickWhere(s, sp, fresh_unconfirmed), plan.inputs)) { g.kind = GenKind::PLAIN; fallback_plain(); break; }
        if (s.chance(64)) take(PickWhere(s, sp, fresh_unconfirmed, true), plan.inputs);
        const size_t pad = s.pick<size_t>({2000, 6000, 12000, 19000, 24000, 40000, 90000});
        plan.fixed_outputs.push_back(Padding(pad));
        plan.change_scripts = change(1, 2);
        g.tx = finish(plan);
        g.note = strprintf("big pad=%d vsize=%d", pad, VSizeOf(*g.tx));
        break;
    }
    case GenKind::JUNK: {
        const unsigned variant = s.range<unsigned>(0, 4);
        TxPlan plan;
        take(PickWhere(s, sp, fresh_confirmed), plan.inputs);
        if (plan.inputs.empty()) { g.kind = GenKind::PLAIN; fallback_plain(); break; }
        plan.change_scripts = change(1, 1);
        plan.fee = 2000;
        g.boundary_ok = false;
        if (variant == 0) { // missing input
            Spendable ghost = plan.inputs[0];
            ghost.op = COutPoint(Txid::FromUint256(uint256{uint8_t(s.range<unsigned>(1, 255))}), 0);
            plan.inputs.push_back(ghost);
            g.tx = Build(plan);
        } else if (variant == 1) { // outputs exceed inputs
            plan.fee = -s.range<CAmount>(1, 100000);
            g.tx = Build(plan);
        } else if (variant == 2) { // duplicate input
            CMutableTransaction m(*Build(plan));
            m.vin.push_back(m.vin[0]);
            g.tx = MakeTransactionRef(m);
            Remember(g.tx);
        } else if (variant == 3) { // bad witness (wrong script for the anyone-can-spend coin, or a wrecked signature)
            CMutableTransaction m(*Build(plan));
            if (!m.vin[0].scriptWitness.stack.empty()) m.vin[0].scriptWitness.stack[0] = std::vector<unsigned char>{0x00};
            else if (m.vin[0].scriptSig.size() > 10) m.vin[0].scriptSig[5] ^= 1;
            g.tx = MakeTransactionRef(m);
            Remember(g.tx);
        } else { // nonstandard output script
            plan.fixed_outputs.emplace_back(5000, CScript() << OP_TRUE);
            g.tx = Build(plan);
        }
        g.fee = plan.fee;
        g.note = strprintf("junk variant %d", variant);
        break;
    }
    case GenKind::RESUBMIT: {
        if (known_txs.empty()) { g.kind = GenKind::PLAIN; fallback_plain(); break; }
        auto it = known_txs.begin();
        std::advance(it, s.index(known_txs.size()));
        g.tx = it->second;
        g.note = "resubmit " + it->first.ToString().substr(0, 8) + (m_belief.Has(it->first) ? " (in pool)" : "");
        break;
    }
    }
    if (!g.tx) { g.kind = GenKind::PLAIN; fallback_plain(); }
    if (!g.tx) {
        // nothing spendable at all (e.g. every confirmed coin is already used by a pool tx): never hand out a null transaction;
        // a spend of a non-existent outpoint is rejected by the node (missing inputs)
        CMutableTransaction m;
        m.version = 2;
        m.vin.emplace_back(COutPoint(Txid::FromUint256(uint256{uint8_t(0xee)}), ++m_nonce), CScript(), 0xfffffffdU);
        m.vout.emplace_back(10000, m_sim->keys.Script(SpkType::ANYONE_P2WSH));
        g.kind = GenKind::JUNK;
        g.tx = MakeTransactionRef(m);
        g.package.clear();
        g.boundary_ok = false;
        g.fee = 0;
        g.note = "junk (nothing spendable)";
        Remember(g.tx);
    }
    return g;
}

CTransactionRef MempoolSim::GenBlockOnlyTx(Src& s, bool conflict_with_pool)
{
    std::vector<Spendable> sp = Spendables();
    TxPlan plan;
    Spendable* p = nullptr;
    if (conflict_with_pool) p = PickWhere(s, sp, [&](const Spendable& x) { return !x.unconfirmed && x.spent_by && IsMatureAtNext(x.coin); });
    if (!p) p = PickWhere(s, sp, [&](const Spendable& x) { return !x.unconfirmed && !x.spent_by && IsMatureAtNext(x.coin) && !x.coin.coinbase; });
    if (!p) return nullptr;
    plan.inputs.push_back(*p);
    plan.fee = s.range<CAmount>(0, 5000);
    plan.change_scripts = {OutScript(s)};
    if (s.boolean()) plan.change_scripts.push_back(OutScript(s));
    return Build(plan);
}

// ---------------------------------------------------------------- submission

MempoolAcceptResult MempoolSim::Submit(const CTransactionRef& tx, bool test_accept)
{
    Remember(tx);
    LOCK(cs_main);
    return m_sim->chainman().ProcessTransaction(tx, test_accept);
}

PackageMempoolAcceptResult MempoolSim::SubmitPackage(const Package& pkg, bool test_accept)
{
    for (const auto& t : pkg) Remember(t);
    LOCK(cs_main);
    auto r = ProcessNewPackage(m_sim->chainstate(), pool(), pkg, test_accept, /*client_maxfeerate=*/{});
    pool().check(m_sim->chainstate().CoinsTip(), m_sim->chainman().ActiveChain().Height() + 1);
    return r;
}

void MempoolSim::Prioritise(const Txid& txid, CAmount delta) { pool().PrioritiseTransaction(txid, delta); }

int MempoolSim::Expire(int64_t older_than)
{
    LOCK2(cs_main, pool().cs);
    return pool().Expire(std::chrono::seconds{m_now - older_than});
}

void MempoolSim::TrimToSize(size_t bytes)
{
    LOCK2(cs_main, pool().cs);
    pool().TrimToSize(bytes);
}

void MempoolSim::RunPoolCheck()
{
    LOCK(cs_main);
    pool().check(m_sim->chainstate().CoinsTip(), m_sim->chainman().ActiveChain().Height() + 1);
}

// ---------------------------------------------------------------- blocks

namespace {
struct ModelBlockCtx {
    RefUtxo utxo;
    int height;
    int64_t prev_mtp;
    std::function<int64_t(int)> mtp_at;
};

/** "" if tx can be the next transaction of the block being assembled (and apply it), else the violated model rule */
std::string ModelApplyTx(ModelBlockCtx& c, const CTransaction& tx, CAmount& fee_out)
{
    const CAmount MAXM = 2100000000000000LL;
    if (tx.vin.empty() || tx.vout.empty()) return "empty";
    if (tx.IsCoinBase()) return "coinbase";
    std::set<COutPoint> seen;
    std::vector<int> heights;
    __int128 in = 0, out = 0;
    for (const auto& i : tx.vin) {
        if (!seen.insert(i.prevout).second) return "duplicate-input";
        auto it = c.utxo.find(i.prevout);
        if (it == c.utxo.end()) return "missing-input " + i.prevout.ToString();
        if (it->second.coinbase && c.height - it->second.height < 100) return "immature-coinbase";
        in += it->second.value;
        heights.push_back(it->second.height);
    }
    for (const auto& o : tx.vout) {
        if (o.nValue < 0 || o.nValue > MAXM) return "value-range";
        out += o.nValue;
    }
    if (out > MAXM || in > MAXM) return "value-range";
    if (in < out) return "in-below-out";
    if (!ModelIsFinal(tx, c.height, c.prev_mtp)) return "non-final";
    const ModelSeqLock sl = ModelSequenceLocks(tx, heights, c.mtp_at);
    if (!(sl.min_height < c.height && sl.min_time < c.prev_mtp)) return "bip68";
    for (uint32_t n = 0; n < tx.vout.size(); ++n) if (c.utxo.count(COutPoint(tx.GetHash(), n))) return "bip30";
    for (const auto& i : tx.vin) c.utxo.erase(i.prevout);
    for (uint32_t n = 0; n < tx.vout.size(); ++n) {
        if (ModelUnspendableScript(tx.vout[n].scriptPubKey)) continue;
        c.utxo[COutPoint(tx.GetHash(), n)] = RefCoin{tx.vout[n].nValue, tx.vout[n].scriptPubKey, c.height, false};
    }
    fee_out = CAmount(in - out);
    return "";
}
} // namespace

std::string MempoolSim::ModelNextBlockVerdict(const std::vector<CTransactionRef>& txs, CAmount* fees_out)
{
    ModelBlockCtx c{ChainUtxo(), TipHeight() + 1, TipMTP(), [this](int h) { return MtpAtHeight(h); }};
    CAmount fees = 0;
    for (const auto& tx : txs) {
        CAmount f = 0;
        std::string why = ModelApplyTx(c, *tx, f);
        if (!why.empty()) return why + " in " + tx->GetHash().ToString();
        fees += f;
    }
    if (fees_out) *fees_out = fees;
    return "";
}

std::shared_ptr<CBlock> MempoolSim::BuildBlockOn(const uint256& parent, const std::vector<CTransactionRef>& candidates, int64_t time_delta,
                                                 uint32_t extra_nonce, std::vector<CTransactionRef>* dropped)
{
    ChainSim& sim = *m_sim;
    ModelBlockCtx c;
    if (parent == TipHash()) {
        c.utxo = ChainUtxo();
    } else {
        RefReplay r = sim.ledger.Replay(parent);
        assert(r.ok);
        c.utxo = std::move(r.utxo);
    }
    c.height = sim.ledger.At(parent).height + 1;
    c.prev_mtp = sim.ledger.MedianTimePast(parent);
    c.mtp_at = [&sim, parent](int h) { return sim.ledger.MedianTimePast(sim.ledger.AncestorAt(parent, std::clamp(h, 0, sim.ledger.At(parent).height))); };
    BlockSpec spec;
    spec.prev = parent;
    int64_t weight = 4000;
    for (const auto& tx : candidates) {
        CAmount f = 0;
        const int64_t w = GetTransactionWeight(*tx);
        bool dup = false;
        for (const auto& t : spec.txs) if (t->GetHash() == tx->GetHash()) dup = true;
        if (!dup && weight + w < 3'900'000 && ModelApplyTx(c, *tx, f).empty()) {
            spec.txs.push_back(tx);
            spec.fees += f;
            weight += w;
        } else if (dropped) {
            dropped->push_back(tx);
        }
    }
    const int64_t def_time = std::max<int64_t>(c.prev_mtp + 1, int64_t(sim.ledger.At(parent).time) + 1);
    spec.time = uint32_t(def_time + std::max<int64_t>(0, time_delta));
    spec.extra_nonce = extra_nonce ? extra_nonce : ++m_nonce;
    TouchClockForBlock(*spec.time);
    return sim.Build(spec);
}

CBlock MempoolSim::MakeCandidateBlock(const std::vector<CTransactionRef>& txs, CAmount fees)
{
    ChainSim& sim = *m_sim;
    const uint256 tip = TipHash();
    const RefBlock& p = sim.ledger.At(tip);
    CBlock b;
    b.nVersion = 0x20000000;
    b.hashPrevBlock = tip;
    b.nTime = uint32_t(std::max<int64_t>(sim.ledger.MedianTimePast(tip) + 1, int64_t(p.time) + 1));
    b.nBits = Params().GenesisBlock().nBits;
    b.nNonce = 0;
    const int height = p.height + 1;
    CMutableTransaction cb;
    cb.version = 2;
    cb.vin.resize(1);
    cb.vin[0].prevout.SetNull();
    cb.vin[0].scriptSig = CScript() << height << CScriptNum(int64_t(++m_nonce)) << OP_0;
    cb.vin[0].nSequence = CTxIn::MAX_SEQUENCE_NONFINAL;
    cb.nLockTime = uint32_t(height - 1);
    cb.vout.emplace_back(RefLedger::Subsidy(height, sim.ledger.halving_interval) + fees, P2WSH_OP_TRUE);
    b.vtx.push_back(MakeTransactionRef(cb));
    for (const auto& t : txs) b.vtx.push_back(t);
    TouchClockForBlock(b.nTime);
    sim.Finalize(b, true, true);
    return b;
}

std::vector<CBlock> MempoolSim::WholePoolBlocks(const PoolSnap& snap, int64_t max_weight)
{
    const ModelPool m = ModelPool::From(snap.Txs());
    std::vector<CBlock> out;
    std::vector<CTransactionRef> cur;
    int64_t w = 4000, sigops = 400;
    CAmount fees = 0;
    auto flush = [&] {
        if (cur.empty()) return;
        out.push_back(MakeCandidateBlock(cur, fees));
        cur.clear(); w = 4000; sigops = 400; fees = 0;
    };
    for (const auto& comp : m.Clusters()) {
        const std::vector<Txid> order = m.ClosedTopo(std::set<Txid>(comp.begin(), comp.end()));
        int64_t cw = 0, cs = 0;
        CAmount cf = 0;
        for (const auto& t : order) { const auto& e = snap.entries.at(t); cw += e.weight; cs += e.sigop_cost; cf += e.fee; }
        if (!cur.empty() && (w + cw > max_weight || sigops + cs > 70000)) flush();
        for (const auto& t : order) cur.push_back(m.txs.at(t));
        w += cw; sigops += cs; fees += cf;
    }
    flush();
    return out;
}

MempoolSim::Mined MempoolSim::MineTxs(const std::vector<CTransactionRef>& txs, int64_t time_delta)
{
    Mined r;
    r.block = BuildBlockOn(TipHash(), txs, time_delta, 0, &r.dropped);
    r.delivery = m_sim->Deliver(r.block);
    r.became_tip = TipHash() == r.block->GetHash();
    return r;
}

MempoolSim::Mined MempoolSim::MineFromPool(const std::set<Txid>& subset, const std::vector<CTransactionRef>& extra, int64_t time_delta)
{
    std::vector<CTransactionRef> txs;
    for (const auto& t : m_belief.ClosedTopo(subset)) txs.push_back(m_belief.txs.at(t));
    for (const auto& t : extra) if (t) txs.push_back(t);
    return MineTxs(txs, time_delta);
}

uint256 MempoolSim::InvalidateTip(int depth)
{
    ChainSim& sim = *m_sim;
    const int tip_h = TipHeight();
    const int floor_h = opts.base_blocks + (opts.funding_block ? 1 : 0) + 1;
    int target = tip_h - depth + 1;
    if (target < floor_h) target = floor_h;
    if (target > tip_h) return uint256{};
    const uint256 h = sim.ledger.AncestorAt(TipHash(), target);
    CBlockIndex* pi;
    { LOCK(cs_main); pi = sim.chainman().m_blockman.LookupBlockIndex(h); }
    assert(pi);
    BlockValidationState state;
    sim.chainstate().InvalidateBlock(state, pi);
    // like the invalidateblock RPC: settle on the best remaining valid chain (another branch may now have the most work)
    BlockValidationState state2;
    sim.chainstate().ActivateBestChain(state2);
    sim.SyncSignals();
    m_invalidated.push_back(h);
    return h;
}

void MempoolSim::ReconsiderAll()
{
    ChainSim& sim = *m_sim;
    {
        LOCK(cs_main);
        for (const auto& h : m_invalidated) {
            CBlockIndex* pi = sim.chainman().m_blockman.LookupBlockIndex(h);
            if (pi) sim.chainstate().ResetBlockFailureFlags(pi);
        }
        sim.chainman().RecalculateBestHeader();
    }
    m_invalidated.clear();
    BlockValidationState state;
    sim.chainstate().ActivateBestChain(state);
    sim.SyncSignals();
}

std::vector<MempoolSim::Mined> MempoolSim::ForkAndOvertake(int depth, const std::vector<CTransactionRef>& first_block_txs, int64_t time_delta)
{
    ChainSim& sim = *m_sim;
    std::vector<Mined> out;
    const int tip_h = TipHeight();
    const int floor_h = opts.base_blocks + (opts.funding_block ? 1 : 0);
    const int fork_h = std::max(floor_h, tip_h - depth);
    uint256 parent = sim.ledger.AncestorAt(TipHash(), fork_h);
    const int n = tip_h - fork_h + 1;
    for (int i = 0; i < n; ++i) {
        Mined r;
        r.block = BuildBlockOn(parent, i == 0 ? first_block_txs : std::vector<CTransactionRef>{}, i == 0 ? time_delta : 0, 0, &r.dropped);
        r.delivery = sim.Deliver(r.block);
        r.became_tip = TipHash() == r.block->GetHash();
        parent = r.block->GetHash();
        out.push_back(r);
    }
    return out;
}

} // namespace verif
