#include <kits/mempoolhist.h>

#include <algorithm>

namespace verif {

uint64_t StrHash(const std::string& r)
{
    uint64_t h = 1469598103934665603ULL;
    for (unsigned char c : r) { h ^= c; h *= 1099511628211ULL; }
    return h;
}

bool TxIsTimeSensitive(const CTransaction& tx)
{
    bool nonfinal_seq = false, bip68 = false;
    for (const auto& in : tx.vin) {
        if (in.nSequence != 0xffffffffU) nonfinal_seq = true;
        if (tx.version >= 2 && !(in.nSequence & (1U << 31)) && (in.nSequence & 0xffff) != 0) bip68 = true;
    }
    return (tx.nLockTime != 0 && nonfinal_seq) || bip68;
}

MempoolSimOpts PickHistoryConfig(Src& s, Stats& st)
{
    MempoolSimOpts o;
    static const char* const kCount[] = {"-limitclustercount=64", "-limitclustercount=2", "-limitclustercount=3", "-limitclustercount=5", "-limitclustercount=9", "-limitclustercount=24"};
    const unsigned cfg = s.range<unsigned>(0, 5);
    o.extra_args.push_back(kCount[cfg]);
    const unsigned cfg2 = s.range<unsigned>(0, 3);
    if (cfg2 == 1) { o.extra_args.push_back("-maxmempool=1"); o.extra_args.push_back("-limitclustersize=25"); st.cls("cfg-maxmempool-1MB"); }
    if (cfg2 == 2) { o.extra_args.push_back("-mempoolexpiry=1"); st.cls("cfg-expiry-1h"); }
    if (cfg2 == 3) { o.extra_args.push_back("-limitclustersize=12"); }
    st.mix(uint64_t(cfg * 4 + cfg2));
    Note(st, "cfg ", kCount[cfg], " cfg2=", cfg2);
    return o;
}

MempoolHistory::MempoolHistory(MempoolSim& ms_, Src& s_, Stats& st_, HistoryHooks h) : ms(ms_), s(s_), st(st_), hooks(std::move(h)) {}

void MempoolHistory::AfterOp(const char* where)
{
    const PoolSnap& snap = ms.Sync();
    max_pool = std::max(max_pool, snap.entries.size());
    if (hooks.check) hooks.check(where);
}

void MempoolHistory::WarmUp(int blocks)
{
    for (int i = 0; i < blocks; ++i) ms.MineTxs({});
    AfterOp("start");
}

bool MempoolHistory::PoolHasSensitive()
{
    for (const auto& [id, e] : ms.LastSnap().entries) if (e.spends_coinbase || TxIsTimeSensitive(*e.tx)) return true;
    return false;
}

bool MempoolHistory::SensitiveInTipBlocks(int depth)
{
    std::set<Txid> coinbases;
    for (const auto& [bh, rb] : ms.sim().ledger.blocks) if (!rb.vtx.empty()) coinbases.insert(rb.vtx[0]->GetHash());
    uint256 cur = ms.TipHash();
    for (int i = 0; i < depth; ++i) {
        const RefBlock& b = ms.sim().ledger.At(cur);
        for (size_t k = 1; k < b.vtx.size(); ++k) {
            if (TxIsTimeSensitive(*b.vtx[k])) return true;
            for (const auto& in : b.vtx[k]->vin) if (coinbases.count(in.prevout.hash)) return true;
        }
        if (b.height == 0) break;
        cur = b.prev;
    }
    return false;
}

int MempoolHistory::Disconnected(const uint256& old_tip)
{
    int d = 0;
    uint256 cur = old_tip;
    const uint256 tip = ms.TipHash();
    while (!ms.sim().ledger.IsAncestor(cur, tip)) { cur = ms.sim().ledger.At(cur).prev; d++; }
    return d;
}

void MempoolHistory::NoteReorg(int depth, bool sensitive_before)
{
    reorgs++;
    blocks_disconnected += depth;
    maxdepth = std::max(maxdepth, depth);
    st.cls("reorg");
    if (depth >= 2) st.cls("reorg-depth>=2");
    if (sensitive_before) { reorg_with_sensitive = true; st.cls("reorg-with-sensitive-entry"); }
    st.mix(uint64_t(200 + depth));
}

void MempoolHistory::DoInvalidate(int depth)
{
    if (hooks.before_chain_op) hooks.before_chain_op("invalidate");
    const bool sens = PoolHasSensitive() || SensitiveInTipBlocks(depth);
    const int before = ms.TipHeight();
    const uint256 old_tip = ms.TipHash();
    const uint256 inv = ms.InvalidateTip(depth);
    if (inv.IsNull()) return;
    const int d = Disconnected(old_tip);
    Note(st, "invalidate depth=", depth, " height ", before, "->", ms.TipHeight(), " disconnected=", d);
    st.cls("invalidate");
    if (d > 0) NoteReorg(d, sens);
}

bool MempoolHistory::Submit(const GenTx& g)
{
    if (!g.tx) return false; // (defensive: the generator always returns a transaction)
    submitted++;
    st.cls(std::string("gen-") + GenKindName(g.kind));
    st.mix(uint64_t(10 + unsigned(g.kind)));
    bool all = false;
    if (!g.package.empty()) {
        const PackageMempoolAcceptResult r = hooks.submit_pkg ? hooks.submit_pkg(g) : ms.SubmitPackage(g.package);
        unsigned ok = 0;
        for (const auto& t : g.package) if (ms.pool().exists(t->GetHash())) ok++;
        all = ok == g.package.size();
        if (all) { accepted++; st.cls("package-accepted"); st.cls(std::string("accepted-") + GenKindName(g.kind)); }
        st.mix(uint64_t(ok));
        st.mix(StrHash(r.m_state.GetRejectReason()));
        Note(st, "pkg ", g.note, " -> ", PkgStateStr(r));
    } else {
        const MempoolAcceptResult r = hooks.submit_tx ? hooks.submit_tx(g) : ms.Submit(g.tx);
        all = r.m_result_type == MempoolAcceptResult::ResultType::VALID;
        if (all) {
            accepted++;
            st.cls(std::string("accepted-") + GenKindName(g.kind));
            if (!r.m_replaced_transactions.empty()) st.cls("replacement-happened");
        }
        st.mix(StrHash(r.m_state.GetRejectReason()));
        Note(st, "tx ", g.note, " fee=", g.fee, " -> ", TxStateStr(r));
        last_tx_result.emplace(r);
    }
    if (hooks.after_submit) hooks.after_submit(g, all);
    return all;
}

bool MempoolHistory::Step()
{
    if (s.exhausted()) return false;
    ops++;
    unsigned kind = s.range<unsigned>(0, 19);
    if (!hooks.allow_disconnect && (kind == 13 || kind == 14 || kind == 15)) kind = 0;
    if (!hooks.allow_time && kind == 16) kind = 1;
    if (!hooks.allow_prioritise && kind == 17) kind = 2;
    if (!hooks.allow_trim && kind == 18) kind = 3;
    st.mix(uint64_t(kind));
    if (kind <= 8) {
        Submit(ms.Gen(s));
    } else if (kind == 9 || kind == 10) {
        // boundary entry, then take the chain back under it: the entry must leave the pool if it is no longer valid for the next block
        static const GenKind kinds[] = {GenKind::COINBASE_SPEND, GenKind::LOCKTIME, GenKind::BIP68, GenKind::CHAIN};
        Submit(ms.GenOfKind(s, kinds[s.index(4)]));
        AfterOp("after-boundary-submit");
        if (s.chance(64) || !hooks.allow_disconnect) {
            if (hooks.before_chain_op) hooks.before_chain_op("mine");
            ms.MineFromPool({}, {}, 0);
            blocks_mined++;
            Note(st, "empty block");
            AfterOp("after-empty-block");
        }
        if (hooks.allow_disconnect) {
            DoInvalidate(s.range<int>(1, 3));
            st.cls("boundary-then-reorg");
        }
    } else if (kind == 11 || kind == 12) {
        // mine a block from a subset of the pool (+ancestors) and non-pool transactions, some conflicting with pool entries
        if (hooks.before_chain_op) hooks.before_chain_op("mine");
        const PoolSnap& snap = ms.LastSnap();
        std::set<Txid> subset;
        const unsigned mode = s.range<unsigned>(0, 3);
        for (const auto& [id, e] : snap.entries) {
            if (mode == 0 || (mode == 1 && s.boolean()) || (mode == 2 && s.chance(64))) subset.insert(id);
        }
        std::vector<CTransactionRef> extra;
        const unsigned nextra = s.range<unsigned>(0, 3);
        for (unsigned i = 0; i < nextra; ++i) extra.push_back(ms.GenBlockOnlyTx(s, /*conflict_with_pool=*/s.chance(160)));
        const int64_t dt = s.pick<int64_t>({0, 0, 1, 600, 3000});
        const bool had_pool = !snap.entries.empty();
        auto m = ms.MineFromPool(subset, extra, dt);
        if (!(m.delivery.processed && m.became_tip)) {
            fail(hooks.prefix + ".harness-block-rejected", strprintf("model-valid block was not accepted: %s txs=%d processed=%d new=%d block height %d tip height %d block time %d now %d",
                 m.delivery.verdict ? StateStr(*m.delivery.verdict) : "no verdict", m.block->vtx.size(), m.delivery.processed, m.delivery.new_block,
                 ms.sim().ledger.At(m.block->GetHash()).height, ms.TipHeight(), m.block->nTime, ms.Now()));
        }
        blocks_mined++;
        st.cls("mined-block");
        if (nextra && had_pool) st.cls("mined-with-nonpool-txs");
        st.mix(uint64_t(m.block->vtx.size()));
        Note(st, "mine subset=", subset.size(), " extra=", nextra, " dt=", dt, " -> block txs=", m.block->vtx.size() - 1, " dropped=", m.dropped.size());
    } else if (kind == 13) {
        DoInvalidate(s.range<int>(1, 3));
    } else if (kind == 14) {
        // competing longer branch: fork 1-3 below the tip; its first block re-mines some disconnected txs, conflicts and fresh txs
        if (hooks.before_chain_op) hooks.before_chain_op("overtake");
        const int depth = s.range<int>(1, 3);
        const bool sens = PoolHasSensitive() || SensitiveInTipBlocks(depth);
        std::vector<CTransactionRef> txs;
        uint256 cur = ms.TipHash();
        for (int i = 0; i < depth; ++i) {
            const RefBlock& b = ms.sim().ledger.At(cur);
            for (size_t k = 1; k < b.vtx.size(); ++k) if (s.chance(96)) txs.push_back(b.vtx[k]);
            cur = b.prev;
        }
        std::reverse(txs.begin(), txs.end());
        const unsigned nextra = s.range<unsigned>(0, 2);
        for (unsigned i = 0; i < nextra; ++i) if (auto t = ms.GenBlockOnlyTx(s, s.chance(128))) txs.push_back(t);
        const uint256 old_tip = ms.TipHash();
        auto mined = ms.ForkAndOvertake(depth, txs, s.pick<int64_t>({0, 0, 700}));
        bool all_ok = true;
        for (const auto& m : mined) all_ok = all_ok && m.delivery.processed;
        if (!(all_ok && !mined.empty() && mined.back().became_tip)) fail(hooks.prefix + ".harness-block-rejected", "model-valid competing branch did not become the active chain");
        blocks_mined += int(mined.size());
        const int d = Disconnected(old_tip);
        Note(st, "overtake depth=", d, " first-block txs=", mined.front().block->vtx.size() - 1, " old tip ", old_tip.ToString().substr(0, 8));
        if (d > 0) { st.cls("overtake"); NoteReorg(d, sens); } else st.cls("extend-tip");
    } else if (kind == 15) {
        if (hooks.before_chain_op) hooks.before_chain_op("reconsider");
        const bool sens = PoolHasSensitive();
        const uint256 old_tip = ms.TipHash();
        ms.ReconsiderAll();
        const int d = Disconnected(old_tip);
        Note(st, "reconsider-all -> height ", ms.TipHeight(), " disconnected=", d);
        st.cls("reconsider");
        if (d > 0) NoteReorg(d, sens);
    } else if (kind == 16) {
        const int64_t dt = s.pick<int64_t>({30, 600, 1900, 3700, 7300, 50000});
        ms.AdvanceTime(dt);
        int n = -1;
        if (s.boolean()) n = ms.Expire(s.pick<int64_t>({3600, 1800, 600, 100000}));
        Note(st, "time +", dt, " expire removed=", n);
        st.cls("time-jump");
        if (n > 0) st.cls("expired-some");
    } else if (kind == 17) {
        const PoolSnap& snap = ms.LastSnap();
        if (!snap.entries.empty()) {
            auto it = snap.entries.begin();
            std::advance(it, s.index(snap.entries.size()));
            const CAmount delta = s.pick<CAmount>({1000, -1000, 100000, -100000, 5000000, -5000000, 1});
            ms.Prioritise(it->first, delta);
            Note(st, "prioritise ", it->first.ToString().substr(0, 8), " ", delta);
            st.cls("prioritise");
        }
    } else if (kind == 18) {
        const size_t usage = ms.LastSnap().usage;
        const size_t target = usage * s.range<size_t>(1, 4) / 4;
        ms.TrimToSize(target);
        Note(st, "trim to ", target, " of ", usage);
        st.cls("trim");
    } else {
        // burst: a chain/cluster builder to reach the limits
        const unsigned n = s.range<unsigned>(2, 6);
        for (unsigned i = 0; i < n; ++i) { Submit(ms.GenOfKind(s, s.chance(200) ? GenKind::CHAIN : GenKind::MERGE)); AfterOp("in-burst"); }
        st.cls("burst");
    }
    AfterOp("after-op");
    return true;
}

void MempoolHistory::Finish()
{
    st.mix(uint64_t(reorgs));
    st.mix(uint64_t(maxdepth));
    if (max_pool >= 10) st.cls("pool>=10");
    if (max_pool >= 25) st.cls("pool>=25");
    Note(st, "ops=", ops, " submitted=", submitted, " accepted=", accepted, " mined=", blocks_mined, " reorgs=", reorgs, " maxdepth=", maxdepth, " max_pool=", max_pool);
}

} // namespace verif
