# C58: stage list (what ./check C58 quick|thorough runs) and manifest text. Helpers gen()/enum()/hyp()/custom() come from props.py.
SPEC = {'level': 'exploration',
 'assumptions': ['40% of the cases put the node in the state "minimum chain work reached, initial block download left (mock time next to the tip time), tip then invalidated back below the minimum" before the unrequested deliveries',
                 'regtest: every block has the same proof (2 work units, own cpp_int computation from nBits), so "work >= tip work" coincides with "height >= tip height"; '
                 'the three conditions are still evaluated separately and the minimum-chain-work boundary is placed at +-1 work unit',
                 'delivered blocks are valid empty blocks whose parent header is known (header connects); the converse direction (eligible => stored) is taken from '
                 'the DESIGN entry, the statement itself is the only-if direction plus "dropped = nothing stored, not marked invalid, acceptable later"',
                 '"nothing written" = every regular file in blocks/ byte-identical (64 KiB -fastprune block files) and BlockManager usage unchanged; the block-tree DB is in memory'],
 'stages': [{'kind': 'gen',
             'binary': 'vh_c58',
             'target': 'c58_unrequested',
             'cases_quick': 1500,
             'cases_thorough': 24000,
             'min_cases_quick': 400,
             'floors': {'stored-at-boundary': 0.2, 'dropped-at-boundary': 0.2, 'dropped-too-far-ahead': 0.1, 'dropped-less-work': 0.1,
                        'dropped-below-minwork': 0.1, 'stored-equal-work': 0.08, 'redelivery-accepted': 0.3, 'ibd-left-then-tip-below-minwork': 0.1, 'post-ibd-below-minwork-drop': 0.06},
             'rule': 'unrequested deliveries at work / height+288 / minimum-chain-work boundaries; non-trivial = stored and dropped deliveries within +-1 of a '
                     'boundary + an accepted requested redelivery'}]}

META = {'level_text': 'Generated histories of unrequested block deliveries (force_processing=false) on an in-process regtest node, placed around the three '
               'boundaries of the statement (tip work, tip height + 288, minimum chain work +-1 unit), with tip advances, duplicates and requested redelivery. '
               'An own predicate with exact cpp_int chain work decides what must be stored; for dropped blocks the check demands no BLOCK_HAVE_DATA, no '
               'failure flag, byte-identical block files and unchanged usage, and that the same block is stored (and can become tip) when delivered as '
               'requested. Exploration over bounded histories.',
 'technique': 'property-based testing with an explicit predicate oracle (boundary-biased generator, storage observed through index flags and raw block files)'}
