#include <kits/walletsim.h>

#include <chainparams.h>
#include <common/args.h>
#include <interfaces/chain.h>
#include <key_io.h>
#include <node/types.h>
#include <policy/policy.h>
#include <script/descriptor.h>
#include <script/sign.h>
#include <script/signingprovider.h>
#include <test/util/random.h>
#include <util/string.h>
#include <util/time.h>
#include <util/translation.h>
#include <wallet/coincontrol.h>
#include <wallet/db.h>
#include <wallet/receive.h>
#include <wallet/scriptpubkeyman.h>
#include <wallet/spend.h>
#include <wallet/test/util.h>
#include <wallet/walletutil.h>

#include <functional>
#include <tuple>

namespace verif {

using wallet::CWallet;

// ---------------------------------------------------------------- fixed descriptors + independent script set

namespace {
// regtest/testnet master key used by upstream's wallet fuzz targets (public test vector, no value)
const char* const FIXED_TPRV = "tprv8ZgxMBicQKsPd1QwsGgzfu2pcPYbBosZhJknqreRHgsWx32nNEhMjGQX2cgFL8n6wz9xdDYwLcs78N4nsCo32cxEX8RBtwGsEGgybLiQJfk";
constexpr int FIXED_RANGE = 128;

struct Expanded {
    std::map<CScript, WsScriptInfo> scripts;
    std::map<std::tuple<int, bool, int>, CScript> by_key;
};

/** Expand one (ranged) descriptor string for indices [0, range) with Descriptor::Expand only. */
void ExpandInto(const std::string& desc_str, bool internal, int range, Expanded& out)
{
    FlatSigningProvider keys;
    std::string error;
    auto parsed = Parse(desc_str, keys, error, /*require_checksum=*/false);
    assert(parsed.size() == 1);
    const auto type = parsed[0]->GetOutputType();
    assert(type);
    for (int i = 0; i < range; ++i) {
        std::vector<CScript> scripts;
        FlatSigningProvider unused;
        bool ok = parsed[0]->Expand(i, keys, scripts, unused);
        assert(ok && scripts.size() == 1);
        out.scripts[scripts[0]] = WsScriptInfo{*type, internal, i};
        out.by_key[{int(*type), internal, i}] = scripts[0];
        if (!parsed[0]->IsRange()) break;
    }
}

const Expanded& FixedExpanded()
{
    static Expanded e = [] {
        Expanded x;
        const auto& descs = WalletSimFixedDescriptors();
        for (size_t i = 0; i < descs.size(); ++i) ExpandInto(descs[i], /*internal=*/(i % 2) == 1, FIXED_RANGE, x);
        return x;
    }();
    return e;
}
} // namespace

const std::vector<std::string>& WalletSimFixedDescriptors()
{
    static const std::vector<std::string> descs = [] {
        std::vector<std::string> v;
        for (const char* fmt : {"pkh(%s/%d/*)", "sh(wpkh(%s/%d/*))", "tr(%s/%d/*)", "wpkh(%s/%d/*)"}) {
            for (int internal : {0, 1}) {
                v.push_back(strprintf(tfm::RuntimeFormat{fmt}, std::string("[5aa9973a/66h/4h/2h]") + FIXED_TPRV, internal));
            }
        }
        return v;
    }();
    return descs;
}

CScript WalletSimFixedScript(OutputType type, bool internal, int index)
{
    return FixedExpanded().by_key.at({int(type), internal, index});
}

// ---------------------------------------------------------------- base chain paying the fixed wallet

std::vector<uint256> LoadWalletBase(ChainSim& sim, int n)
{
    static std::vector<std::shared_ptr<const CBlock>> cache; // deterministic blocks over genesis, built once per process
    std::vector<uint256> out;
    for (int i = 0; i < n; ++i) {
        if (size_t(i) >= cache.size()) {
            BlockSpec s;
            s.prev = sim.TipHash();
            int height = i + 1;
            if (height >= 5 && height <= 7) s.coinbase_spk = WalletSimFixedScript(OutputType::BECH32, /*internal=*/false, height - 5);
            s.extra_nonce = 0x57; // distinct from ChainSim::LoadBase blocks
            cache.push_back(sim.Build(s));
        } else {
            sim.Register(cache[i]);
        }
        // no per-block SyncSignals (ChainSim::Deliver): with scheduler-thread signals that is one thread hand-over per block
        bool new_block = false;
        bool processed = sim.chainman().ProcessNewBlock(cache[i], /*force_processing=*/true, /*min_pow_checked=*/true, &new_block);
        assert(processed);
        assert(sim.TipHash() == cache[i]->GetHash());
        out.push_back(cache[i]->GetHash());
    }
    sim.SyncSignals();
    return out;
}

// ---------------------------------------------------------------- WalletSim

fs::path WalletSim::DbDir() const
{
    return sim.m_args.GetDataDirNet() / "wallets" / fs::PathFromString(opts.name);
}

WalletSim::WalletSim(ChainSim& sim_in, WalletSimOpts o) : sim(sim_in), opts(std::move(o))
{
    // Deterministic randomness for everything the wallet draws (coin selection shuffles, change position, change target,
    // generated seeds): BasicTestingSetup seeded the global RNG with a per-process value.
    SeedRandomStateForTest(SeedRand::ZEROS);
    if (GetMockTime().count() == 0) SetMockTime(int64_t(Params().GenesisBlock().nTime) + 3600);

    std::unique_ptr<wallet::WalletDatabase> db;
    if (opts.on_disk) {
        wallet::DatabaseOptions dbo;
        dbo.require_create = true;
        dbo.require_format = wallet::DatabaseFormat::SQLITE;
        dbo.use_unsafe_sync = opts.unsafe_sync;
        wallet::DatabaseStatus status;
        bilingual_str error;
        db = wallet::MakeDatabase(DbDir(), dbo, status, error);
        if (!db) throw std::runtime_error("walletsim: cannot create wallet database: " + error.original);
    } else {
        db = wallet::CreateMockableWalletDatabase();
    }
    w = std::make_shared<CWallet>(sim.m_node.chain.get(), opts.name, std::move(db));
    w->m_keypool_size = opts.keypool;
    w->m_fallback_fee = CFeeRate{opts.fallback_fee_per_kvb};
    w->m_allow_fallback_fee = opts.fallback_fee_per_kvb > 0;
    w->SetBroadcastTransactions(false); // ChainSim has no PeerManager: the harness submits to the mempool itself (Submit)
    {
        LOCK(w->cs_wallet);
        w->SetWalletFlag(wallet::WALLET_FLAG_DESCRIPTORS | opts.extra_flags);
        const int height = *Assert(w->chain().getHeight());
        w->SetLastBlockProcessed(height, w->chain().getBlockHash(height));
    }
    if (opts.generated_seed) {
        LOCK(w->cs_wallet);
        w->SetupDescriptorScriptPubKeyMans();
    } else {
        for (size_t i = 0; i < WalletSimFixedDescriptors().size(); ++i) {
            const bool internal = (i % 2) == 1;
            FlatSigningProvider keys;
            std::string error;
            auto parsed = Parse(WalletSimFixedDescriptors()[i], keys, error, /*require_checksum=*/false);
            assert(parsed.size() == 1 && parsed[0]->IsRange());
            const OutputType type = *Assert(parsed[0]->GetOutputType());
            wallet::WalletDescriptor w_desc{std::move(parsed[0]), /*creation_time=*/1, /*range_start=*/0, /*range_end=*/1, /*next_index=*/0};
            LOCK(w->cs_wallet);
            auto& spkm = Assert(w->AddWalletDescriptor(w_desc, keys, /*label=*/"", internal))->get();
            w->AddActiveScriptPubKeyMan(spkm.GetID(), type, internal);
        }
    }
    BuildModelScripts();
    Attach();
}

WalletSim::~WalletSim()
{
    Unload();
}

void WalletSim::BuildModelScripts()
{
    m_scripts.clear();
    descriptors.clear();
    if (!opts.generated_seed) {
        const Expanded& e = FixedExpanded();
        for (const auto& [spk, info] : e.scripts) if (info.index < opts.model_range) m_scripts.emplace(spk, info);
        // public form of the descriptors, for callers that want to print / re-import them
        for (const auto& d : WalletSimFixedDescriptors()) {
            FlatSigningProvider keys;
            std::string error;
            auto parsed = Parse(d, keys, error, false);
            descriptors.push_back(parsed[0]->ToString());
        }
        return;
    }
    Expanded e;
    LOCK(w->cs_wallet);
    for (auto* spkm : w->GetAllScriptPubKeyMans()) {
        auto* dspkm = dynamic_cast<wallet::DescriptorScriptPubKeyMan*>(spkm);
        if (!dspkm) continue;
        std::string s;
        if (!dspkm->GetDescriptorString(s, /*priv=*/false)) continue;
        descriptors.push_back(s);
        const auto internal = w->IsInternalScriptPubKeyMan(spkm);
        ExpandInto(s, internal.value_or(false), opts.model_range, e);
    }
    m_scripts = std::move(e.scripts);
}

void WalletSim::Attach()
{
    w->m_chain_notifications_handler = w->chain().handleNotifications(w);
    const int height = *Assert(w->chain().getHeight());
    if (opts.rescan && height > 0) Rescan();
    else WITH_LOCK(w->cs_wallet, w->chain().requestMempoolTransactions(*w));
}

void WalletSim::Rescan()
{
    {
        wallet::WalletRescanReserver reserver(*w);
        bool reserved = reserver.reserve();
        assert(reserved);
        auto res = w->ScanForWalletTransactions(w->chain().getBlockHash(0), /*start_height=*/0, /*max_height=*/{}, reserver, /*save_progress=*/false);
        assert(res.status == CWallet::ScanResult::SUCCESS);
        LOCK(w->cs_wallet);
        w->SetLastBlockProcessed(*res.last_scanned_height, res.last_scanned_block);
    }
    WITH_LOCK(w->cs_wallet, w->chain().requestMempoolTransactions(*w));
}

void WalletSim::Unload()
{
    if (!w) return;
    sim.SyncSignals(); // drain queued callbacks that still reference the wallet
    w->m_chain_notifications_handler.reset();
    w.reset();
}

bool WalletSim::Reload(std::string* error_out)
{
    assert(opts.on_disk);
    Unload();
    if (!m_context) {
        m_context = std::make_unique<wallet::WalletContext>();
        m_context->chain = sim.m_node.chain.get();
        m_context->args = sim.m_node.args;
    }
    sim.m_node.args->ForceSetArg("-keypool", util::ToString(opts.keypool));
    wallet::DatabaseOptions dbo;
    dbo.require_existing = true;
    dbo.require_format = wallet::DatabaseFormat::SQLITE;
    dbo.use_unsafe_sync = opts.unsafe_sync;
    wallet::DatabaseStatus status;
    bilingual_str error;
    auto db = wallet::MakeDatabase(DbDir(), dbo, status, error);
    if (!db) { if (error_out) *error_out = error.original; return false; }
    std::vector<bilingual_str> warnings;
    w = CWallet::LoadExisting(*m_context, opts.name, std::move(db), error, warnings);
    if (!w) { if (error_out) *error_out = error.original; return false; }
    w->SetBroadcastTransactions(false);
    w->m_fallback_fee = CFeeRate{opts.fallback_fee_per_kvb};
    w->m_allow_fallback_fee = opts.fallback_fee_per_kvb > 0;
    WITH_LOCK(w->cs_wallet, w->chain().requestMempoolTransactions(*w));
    BuildModelScripts();
    return true;
}

// ---------------------------------------------------------------- scripts

CTxDestination WalletSim::NewDestination(OutputType type, bool internal)
{
    auto r = internal ? w->GetNewChangeDestination(type) : w->GetNewDestination(type, "");
    if (!r) throw std::runtime_error("walletsim: no new destination: " + util::ErrorString(r).original);
    if (!ModelIsMine(GetScriptForDestination(*r))) throw std::runtime_error("walletsim: handed-out script outside the model range (raise WalletSimOpts::model_range)");
    return *r;
}

CScript WalletSim::NewScript(OutputType type, bool internal)
{
    return GetScriptForDestination(NewDestination(type, internal));
}

std::optional<WsScriptInfo> WalletSim::ModelScriptInfo(const CScript& spk) const
{
    auto it = m_scripts.find(spk);
    if (it == m_scripts.end()) return std::nullopt;
    return it->second;
}

// ---------------------------------------------------------------- node interaction

MempoolAcceptResult WalletSim::Submit(const CTransactionRef& tx, bool test_accept)
{
    if (!test_accept) Track(tx);
    auto r = WITH_LOCK(cs_main, return sim.chainman().ProcessTransaction(tx, test_accept));
    sim.SyncSignals();
    return r;
}

ChainSim::Delivery WalletSim::Deliver(const std::shared_ptr<const CBlock>& b)
{
    for (const auto& tx : b->vtx) Track(tx);
    return sim.Deliver(b);
}

bool WalletSim::SignTx(CMutableTransaction& mtx)
{
    LOCK(w->cs_wallet);
    return w->SignTransaction(mtx);
}

std::optional<CMutableTransaction> WalletSim::MakeTx(const std::vector<std::pair<COutPoint, RefCoin>>& coins, const std::vector<CTxOut>& outs,
                                                      uint32_t sequence, uint32_t locktime, uint32_t version)
{
    CMutableTransaction tx;
    tx.version = version;
    tx.nLockTime = locktime;
    std::map<COutPoint, RefCoin> spent;
    std::map<COutPoint, Coin> cmap;
    for (const auto& [op, c] : coins) {
        tx.vin.emplace_back(op, CScript(), sequence);
        spent[op] = c;
        cmap[op] = Coin(CTxOut(c.value, c.spk), c.height > 0 ? c.height : MEMPOOL_HEIGHT, c.coinbase);
    }
    tx.vout = outs;
    sim.keys.Sign(tx, spent); // harness keys + anyone-can-spend templates (inputs it cannot solve are left alone)
    std::map<int, bilingual_str> errors;
    if (!w->SignTransaction(tx, cmap, SIGHASH_DEFAULT, errors)) return std::nullopt;
    return tx;
}

std::vector<CTransactionRef> WalletSim::MempoolTxs() const
{
    std::map<Txid, CTransactionRef> sorted;
    for (const auto& info : sim.mempool().infoAll()) sorted[info.tx->GetHash()] = info.tx;
    std::vector<CTransactionRef> v;
    for (auto& [id, tx] : sorted) v.push_back(tx);
    return v;
}

WalletSim::Mined WalletSim::Mine(const uint256& parent, const std::vector<CTransactionRef>& candidates, const CScript& coinbase_spk, uint32_t extra_nonce, const RefUtxo* base)
{
    RefUtxo utxo;
    if (base) utxo = *base;
    else { RefReplay pr = sim.ledger.Replay(parent); assert(pr.ok); utxo = std::move(pr.utxo); }
    const int height = sim.ledger.At(parent).height + 1;
    auto [txs, fees] = WsSelectValid(std::move(utxo), height, candidates);
    BlockSpec spec;
    spec.prev = parent;
    spec.txs = txs;
    spec.fees = fees;
    spec.extra_nonce = extra_nonce;
    if (!coinbase_spk.empty()) spec.coinbase_spk = coinbase_spk;
    Mined m;
    m.block = sim.Build(spec);
    m.txs = std::move(txs);
    m.delivery = Deliver(m.block);
    return m;
}

RefUtxo WsUtxoWithMempool(const WsLedger& L)
{
    RefUtxo utxo = L.chain_utxo;
    std::vector<CTransactionRef> pending = L.mempool_txs;
    bool progress = true;
    while (!pending.empty() && progress) { // apply in dependency order
        progress = false;
        for (size_t i = 0; i < pending.size();) {
            const auto& tx = pending[i];
            bool have = true;
            for (const auto& in : tx->vin) if (!utxo.count(in.prevout)) { have = false; break; }
            if (!have) { ++i; continue; }
            for (const auto& in : tx->vin) utxo.erase(in.prevout);
            for (uint32_t o = 0; o < tx->vout.size(); ++o) utxo[COutPoint(tx->GetHash(), o)] = RefCoin{tx->vout[o].nValue, tx->vout[o].scriptPubKey, -1, false};
            pending.erase(pending.begin() + i);
            progress = true;
        }
    }
    return utxo;
}

std::pair<std::vector<CTransactionRef>, CAmount> WsSelectValid(RefUtxo utxo, int height, const std::vector<CTransactionRef>& candidates)
{
    std::vector<CTransactionRef> out;
    CAmount fees = 0;
    std::set<Txid> taken;
    bool progress = true;
    while (progress) {
        progress = false;
        for (const auto& tx : candidates) {
            if (taken.count(tx->GetHash())) continue;
            // height-based nLockTime (the wallet's anti-fee-sniping sets it to its tip height): final only in a higher block
            bool ok = tx->nLockTime == 0 || int64_t(tx->nLockTime) < int64_t(height);
            CAmount in = 0, outv = 0;
            std::set<COutPoint> seen;
            for (const auto& i : tx->vin) {
                if (!ok) break;
                auto it = utxo.find(i.prevout);
                if (it == utxo.end() || !seen.insert(i.prevout).second || (it->second.coinbase && height - it->second.height < 100)) { ok = false; break; }
                in += it->second.value;
            }
            if (!ok) continue;
            for (const auto& o : tx->vout) outv += o.nValue;
            if (in < outv) continue;
            for (const auto& i : tx->vin) utxo.erase(i.prevout);
            for (uint32_t o = 0; o < tx->vout.size(); ++o) utxo[COutPoint(tx->GetHash(), o)] = RefCoin{tx->vout[o].nValue, tx->vout[o].scriptPubKey, height, false};
            fees += in - outv;
            out.push_back(tx);
            taken.insert(tx->GetHash());
            progress = true;
        }
    }
    return {out, fees};
}

// ---------------------------------------------------------------- independent ledger

WsLedger WalletSim::Ledger() const
{
    WsLedger L;
    const uint256 tip = sim.TipHash();
    RefReplay r = sim.ledger.Replay(tip);
    if (!r.ok) { L.ok = false; L.why = "model rejects the active chain: " + r.why + " at " + r.bad_block.ToString(); return L; }
    L.tip = tip;
    L.tip_height = sim.ledger.At(tip).height;
    for (const uint256& h : sim.ledger.Path(tip)) for (const auto& tx : sim.ledger.At(h).vtx) L.in_chain.insert(tx->GetHash());

    std::map<Txid, CTransactionRef> mp;
    std::set<COutPoint> mp_spent;
    L.mempool_txs = MempoolTxs();
    for (const auto& tx : L.mempool_txs) {
        mp[tx->GetHash()] = tx;
        L.mempool.insert(tx->GetHash());
        for (const auto& in : tx->vin) mp_spent.insert(in.prevout);
    }
    // trusted rule (documented: "outputs created by the wallet or confirmed outputs"): an unconfirmed transaction is trusted iff it is in
    // the mempool and every input spends an output paying a wallet script whose transaction is confirmed or (recursively) trusted
    std::map<Txid, bool> memo;
    std::function<bool(const CTransactionRef&)> is_trusted = [&](const CTransactionRef& tx) -> bool {
        auto mit = memo.find(tx->GetHash());
        if (mit != memo.end()) return mit->second;
        bool ok = true;
        for (const auto& in : tx->vin) {
            auto cit = r.utxo.find(in.prevout);
            if (cit != r.utxo.end()) { // parent confirmed on the active chain
                if (!ModelIsMine(cit->second.spk)) { ok = false; break; }
                continue;
            }
            auto pit = mp.find(in.prevout.hash);
            if (pit == mp.end() || in.prevout.n >= pit->second->vout.size()) { ok = false; break; }
            if (!ModelIsMine(pit->second->vout[in.prevout.n].scriptPubKey)) { ok = false; break; }
            if (!is_trusted(pit->second)) { ok = false; break; }
        }
        return memo[tx->GetHash()] = ok;
    };
    auto add = [&](const COutPoint& op, WsCoin c) {
        if (c.immature) L.immature += c.value;
        else if (c.trusted) L.trusted += c.value;
        else L.untrusted_pending += c.value;
        if (!c.immature && c.trusted && c.value >= 1) L.spendable[op] = c.value;
        L.coins[op] = std::move(c);
    };
    for (const auto& [op, c] : r.utxo) {
        if (!ModelIsMine(c.spk) || mp_spent.count(op)) continue;
        WsCoin wc;
        wc.value = c.value; wc.spk = c.spk; wc.height = c.height; wc.coinbase = c.coinbase;
        wc.depth = L.tip_height - c.height + 1;
        wc.trusted = true;
        wc.immature = c.coinbase && wc.depth <= 100;
        add(op, std::move(wc));
    }
    for (const auto& [txid, tx] : mp) {
        for (uint32_t i = 0; i < tx->vout.size(); ++i) {
            COutPoint op(txid, i);
            if (!ModelIsMine(tx->vout[i].scriptPubKey) || mp_spent.count(op)) continue;
            WsCoin wc;
            wc.value = tx->vout[i].nValue; wc.spk = tx->vout[i].scriptPubKey; wc.height = -1; wc.depth = 0;
            wc.trusted = is_trusted(tx);
            add(op, std::move(wc));
        }
    }
    L.chain_utxo = std::move(r.utxo);
    return L;
}

WsView WalletSim::View() const
{
    WsView v;
    const wallet::Balance bal = wallet::GetBalance(*w);
    v.trusted = bal.m_mine_trusted;
    v.untrusted_pending = bal.m_mine_untrusted_pending;
    v.immature = bal.m_mine_immature;
    // every production caller passes a coin control: with the default filter (check_version_trucness) a null pointer is dereferenced as soon as
    // the wallet holds an unconfirmed coin (wallet/spend.cpp, "coinControl->m_version")
    const wallet::CCoinControl cc;
    LOCK(w->cs_wallet);
    for (const wallet::COutput& c : wallet::AvailableCoins(*w, &cc).All()) v.available[c.outpoint] = c.txout.nValue;
    return v;
}

std::string WalletSim::CompareWithLedger(const std::set<COutPoint>& locked) const
{
    return CompareWithLedger(Ledger(), locked);
}

std::string WalletSim::CompareWithLedger(const WsLedger& L, const std::set<COutPoint>& locked) const
{
    if (!L.ok) return L.why;
    const WsView v = View();
    std::string d;
    if (v.trusted != L.trusted) d += strprintf("trusted: wallet %d ledger %d; ", v.trusted, L.trusted);
    if (v.untrusted_pending != L.untrusted_pending) d += strprintf("untrusted_pending: wallet %d ledger %d; ", v.untrusted_pending, L.untrusted_pending);
    if (v.immature != L.immature) d += strprintf("immature: wallet %d ledger %d; ", v.immature, L.immature);
    for (const auto& [op, val] : L.spendable) {
        if (locked.count(op)) continue;
        auto it = v.available.find(op);
        if (it == v.available.end()) { d += strprintf("AvailableCoins misses %s (%d, depth %d); ", op.ToString(), val, L.coins.at(op).depth); break; }
        if (it->second != val) { d += strprintf("AvailableCoins value of %s: wallet %d ledger %d; ", op.ToString(), it->second, val); break; }
    }
    for (const auto& [op, val] : v.available) {
        if (!L.spendable.count(op) || locked.count(op)) { d += strprintf("AvailableCoins lists %s (%d) which the ledger does not hold as spendable%s; ", op.ToString(), val, locked.count(op) ? " (locked)" : ""); break; }
    }
    return d;
}

WalletSim::Floating WalletSim::FloatingTxs() const
{
    Floating f;
    const uint256 tip = sim.TipHash();
    std::set<Txid> in_chain;
    std::map<COutPoint, Txid> spender; // by the active chain or by the mempool
    for (const uint256& h : sim.ledger.Path(tip)) {
        for (const auto& tx : sim.ledger.At(h).vtx) {
            in_chain.insert(tx->GetHash());
            if (!tx->IsCoinBase()) for (const auto& in : tx->vin) spender[in.prevout] = tx->GetHash();
        }
    }
    std::set<Txid> in_mempool;
    for (const auto& tx : MempoolTxs()) {
        in_mempool.insert(tx->GetHash());
        for (const auto& in : tx->vin) spender[in.prevout] = tx->GetHash();
    }
    auto floating = [&](const Txid& id) { return !in_chain.count(id) && !in_mempool.count(id); };
    std::map<Txid, bool> memo;
    std::function<bool(const Txid&)> dead = [&](const Txid& id) -> bool {
        auto mit = memo.find(id);
        if (mit != memo.end()) return mit->second;
        memo[id] = false; // cycle guard (cannot happen)
        const CTransactionRef& tx = m_tracked.at(id);
        bool is_dead = tx->IsCoinBase();
        for (const auto& in : tx->vin) {
            if (is_dead) break;
            auto sit = spender.find(in.prevout);
            if (sit != spender.end() && sit->second != id) { is_dead = true; break; }
            if (m_tracked.count(in.prevout.hash) && floating(in.prevout.hash) && dead(in.prevout.hash)) { is_dead = true; break; }
        }
        return memo[id] = is_dead;
    };
    for (const auto& [id, tx] : m_tracked) {
        if (!floating(id)) continue;
        (dead(id) ? f.dead : f.alive).push_back(id);
    }
    return f;
}

int WalletSim::AbandonFloating()
{
    return AbandonFloating(FloatingTxs());
}

int WalletSim::AbandonFloating(const Floating& f)
{
    int n = 0;
    for (const Txid& id : f.alive) {
        LOCK(w->cs_wallet);
        if (!w->GetWalletTx(id)) continue;
        if (!w->TransactionCanBeAbandoned(id)) continue;
        if (w->AbandonTransaction(id)) ++n;
    }
    return n;
}

} // namespace verif
