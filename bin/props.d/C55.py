# C55: stage list (what ./check C55 quick|thorough runs) and manifest text. Helpers gen()/enum()/hyp()/custom() come from props.py.
SPEC = {'level': 'exploration',
 'assumptions': ['"normal submission accepts at load time" is decided by a twin node: a fresh node on the same chain with the same pre-existing pool, fed the records the '
                 'harness reader parses from the very bytes given to the loader, through PrioritiseTransaction(saved delta) + ProcessTransaction, skipping records with '
                 'time < load time - expiry (two nodes cannot coexist in one process: node A, loader B and twin C are created one after the other)',
                 'the harness has its own reader of the file layout (u64 version, v2 key + XOR by file offset mod 8, count, records, delta map, unbroadcast set); transactions are '
                 'decoded with the repo deserializer (trusted base, cf. C48)',
                 'a record whose time equals load time - expiry exactly is avoided (the loader treats it as expired, CTxMemPool::Expire would keep it)',
                 'the strict "never removes existing entries" clause is asserted only when the pre-existing pool does not compete with a saved transaction for an outpoint and the '
                 'records are undamaged (clean/truncated/trailing-bytes files); otherwise entries may only leave if normal submission of the same records removes them too',
                 'deltas of saved transactions that were not restored (expired/rejected) are not judged (the statement is silent)',
                 'default 300 MB pool: nothing leaves for size reasons'],
 'stages': [gen('vh_c55', 'c55_persist', 320, 5600, min_cases_quick=120,
                floors={'fault:clean': 0.25, 'clean-full-restore': 0.05, 'restored-partially': 0.08, 'saved:prioritised-entry': 0.4, 'saved:unbroadcast-entry': 0.4,
                        'saved:absent-delta': 0.3, 'absent-deltas-checked': 0.25, 'load-time:entry-just-expired': 0.06, 'load-time:entry-just-unexpired': 0.06,
                        'non-empty-pool-before-load': 0.2, 'load-reported-failure': 0.12, 'format:v1': 0.15, 'format:v2': 0.4, 'block-after-dump': 0.05},
                rule='pool history on node A, dump, (faulted) file loaded into fresh node B vs twin C fed by normal submission; non-trivial = >=3 saved entries incl. prioritised or '
                     'unbroadcast, some restored, and some not restored or a faulty file loaded into a non-empty pool')]}

META = {'level_text': 'Generated mempool histories (mock-time gaps, replacements, prioritisation of present and absent txids, unbroadcast marks) on a real in-process node are dumped; '
               'the dump is read back by an independent reader and must describe the pool exactly; the clean, truncated, bit-flipped, count-edited or extended file is loaded into '
               'a fresh node (optionally with a non-empty pool, after a block, at load times around the expiry boundary) and compared with a twin node that received the readable '
               'records through normal submission: same transaction set, saved entry times/fee deltas/unbroadcast flags/order, deltas of absent transactions restored, truncation '
               'reported as failure. Exploration over bounded histories (<= ~20 entries).',
 'technique': 'stateful property-based testing: round trip + fault injection on the file + twin-node differential (normal submission as the acceptance model)',
 'level_note': 'trusted base: MempoolSim kit, transaction deserializer, harness reader of the mempool.dat layout'}
