# C07: stage list (what ./check C07 quick|thorough runs) and manifest text. Helpers gen()/enum()/hyp()/custom() come from props.py.
SPEC = {
    "level": "exploration",
    "assumptions": [
        "reference definition of the compact format: N = mantissa * 256^(exponent-3) (floor), sign bit 0x00800000, overflow <=> N >= 2^256, "
        "canonical encoding = smallest exponent whose mantissa fits 23 bits (arith_uint256.h documentation), evaluated in boost cpp_int",
        "retarget reference: encode(min(floor(decode(base) * clamp(t_last - t_first, T/4, 4T) / T), powLimit)), base = last block (first block of the "
        "period under BIP94); testnet min-difficulty rule as documented in pow.cpp/BIP94",
        "previous nBits restricted to values a valid chain can carry (canonical, non-zero, <= powLimit); block times are 32-bit (CBlockIndex::nTime)",
        "built-in chains only: main, testnet3, testnet4, signet, regtest",
        "node-level target c07_headers: regtest only (required nBits is always the limit there: no retargeting), header version fixed at 0x20000000, one-directional "
        "(accepted => all rules hold); own median-time-past over an own header tree",
    ],
    "stages": [
        gen("vh_c07", "c07_compact", 900000, 14000000, max_seconds_quick=600, min_cases_quick=20000,
            floors={"negative": 0.05, "overflow": 0.05, "valid-target": 0.1, "hash-at-target+-1": 0.05, "target-at-limit+-1": 0.03, "pow-accepted": 0.05},
            rule="nBits/powLimit/hash near every boundary vs cpp_int reference; non-trivial = negative | overflow-border exponent | exp<=3 | hash at target+-1 | target at limit+-1"),
        enum("vh_c07", "c07_lattice", rule="exhaustive: 256 exponents x sign x 4096-mantissa lattice = 2,097,152 nBits, each vs reference (decode, encode, DeriveTarget x3 limits, PoW at target/target+1)"),
        gen("vh_c07", "c07_retarget", 700000, 10000000, max_seconds_quick=600, min_cases_quick=20000,
            floors={"span-clamped": 0.1, "span-at-clamp-bound+-1": 0.05, "limited-by-powlimit": 0.02, "bip94-first!=last": 0.01,
                    "min-difficulty-time-boundary": 0.03, "min-difficulty-walk-back": 0.005, "difficulty-changed": 0.1},
            rule="GetNextWorkRequired/CalculateNextWorkRequired == reference on all built-in chains; required is a permitted transition"),
        gen("vh_c07", "c07_permitted", 600000, 9000000, max_seconds_quick=600, min_cases_quick=20000,
            floors={"retarget-height-biting": 0.15, "new-at-window-bound+-1": 0.05, "refused-at-retarget": 0.03, "permitted": 0.2},
            rule="PermittedDifficultyTransition == cpp_int window reference; non-trivial = new target within one mantissa unit of a window bound at a biting retarget height"),
        gen("vh_c07", "c07_headers", 600, 12000, max_seconds_quick=600, min_cases_quick=60,
            floors={"accepted": 0.5, "refused:time-too-old": 0.2, "refused:time-too-new": 0.1, "refused:bad-diffbits": 0.15, "refused:high-hash": 0.15,
                    "accepted-at-mtp+1": 0.1, "accepted-at-now+2h": 0.1, "time==mtp": 0.15, "time==now+2h+1": 0.1},
            rule="regtest node: headers at the MTP / now+2h / nBits / PoW boundaries through ProcessNewBlockHeaders; every accepted header satisfies the own reference of the rules"),
        gen("vh_c07", "up_pow", 60000, 1000000, max_seconds_quick=600, rule="upstream fuzz target pow (asserts + sanitizers), supplementary"),
        gen("vh_c07", "up_pow_transition", 20000, 300000, max_seconds_quick=600, rule="upstream fuzz target pow_transition (required => permitted on mainnet), supplementary"),
        # coverage-guided libFuzzer campaign on the same target (thorough tier only; fz tree = g++ trace-pc + covshim)
        fuzz('vh_c07', 'c07_retarget', 300, max_len=256),
    ],
}

META = {
    "level_text": "An exhaustive 2.1M-value nBits lattice (every exponent byte x sign x 4096 boundary-rich mantissas) and ~2M generated cases per quick run compare "
                  "SetCompact/GetCompact/DeriveTarget/CheckProofOfWork, GetNextWorkRequired/CalculateNextWorkRequired and PermittedDifficultyTransition with an "
                  "independent arbitrary-precision (boost cpp_int) reference on all five built-in chains, and check that every required difficulty is a "
                  "permitted transition. Exploration: sampled inputs (plus one exhaustive sub-lattice); not a proof over all 2^32 nBits x times.",
    "technique": "property-based testing: boundary-biased generators + exhaustive lattice vs independent big-integer reference model (differential), subset relation required => permitted",
    "level_note": "The timestamp clauses (median-time-past, 2 h future) and end-to-end header acceptance are exercised by the node-level history target c07_headers on regtest only; "
                  "retargeting on a live node (mainnet-like parameters) is covered by the pure targets, not end to end.",
}
