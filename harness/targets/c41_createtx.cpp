// C41 — Wallet-created transactions are correct, sufficiently funded and not overpaying.
// Oracle on every successful CreateTransaction (all amounts / ownership from WalletSim's independent ledger, never from the wallet):
//   inputs distinct; each input preset by the caller or a spendable wallet coin of the ledger (unspent by chain+mempool, mature, not
//   locked, within the caller's depth/safety options); every recipient without the subtract flag gets exactly its amount; the n
//   subtract-fee recipients are reduced by R/n each, the first additionally by R mod n, for one common R <= fee; at most one extra
//   output, at the reported change position, paying a script of the harness' own expansion of the wallet descriptors; fee = in - out
//   >= requested feerate x final signed vsize and <= max tx fee; when every recipient is standard and the feerate is >= 1 sat/vB the
//   node's test-accept accepts the signed transaction.
#include <engine/verif.h>
#include <kits/walletsim.h>

#include <addresstype.h>
#include <consensus/validation.h>
#include <policy/feerate.h>
#include <policy/policy.h>
#include <test/util/script.h>
#include <util/time.h>
#include <wallet/coincontrol.h>
#include <wallet/spend.h>

#include <algorithm>
#include <map>
#include <set>

using namespace verif;

namespace {

constexpr int64_t REGTEST_GENESIS_TIME = 1296688602;
constexpr CAmount FUND_FEE = 5000;
const OutputType TYPES[] = {OutputType::BECH32, OutputType::LEGACY, OutputType::P2SH_SEGWIT, OutputType::BECH32M};

int64_t own_vsize(const CTransaction& tx)
{
    // BIP141: weight = 3 * stripped size + total size; vsize = ceil(weight / 4)
    int64_t stripped = int64_t(GetSerializeSize(TX_NO_WITNESS(tx)));
    int64_t total = int64_t(GetSerializeSize(TX_WITH_WITNESS(tx)));
    return (3 * stripped + total + 3) / 4;
}

void run_case(verif::Src& s, verif::Stats& st, const bool literal)
{
    SetMockTime(REGTEST_GENESIS_TIME + 3600);
    ChainSimOpts o;
    o.immediate_signals = false; // see kits/walletsim.h
    o.extra_args = {"-acceptnonstdtxn=0"}; // regtest accepts non-standard transactions by default; the statement's test-accept clause is about a node with standardness rules (dust, ...)
    auto simp = std::make_unique<ChainSim>(o);
    ChainSim& sim = *simp;
    LoadWalletBase(sim, 104);
    auto wsp = std::make_unique<WalletSim>(sim, WalletSimOpts{});
    WalletSim& ws = *wsp;

    std::vector<CScript> handed_out; // for address reuse
    auto wallet_script = [&](bool internal = false) {
        if (!handed_out.empty() && s.chance(40)) return handed_out[s.index(handed_out.size())];
        CScript spk = ws.NewScript(TYPES[s.index(std::size(TYPES))], internal);
        if (!internal) handed_out.push_back(spk);
        return spk;
    };
    WsLedger L = ws.Ledger();
    auto foreign_coins = [&](const RefUtxo& utxo, int next_height) {
        std::vector<std::pair<COutPoint, RefCoin>> out;
        for (auto& [op, c] : utxo) if (c.spk == P2WSH_OP_TRUE && !(c.coinbase && next_height - c.height < 100) && c.value >= 1000000) out.emplace_back(op, c);
        return out;
    };

    // ------------------------------------------------------------------ funding history
    std::set<OutputType> funded_types;
    unsigned nfund = s.range<unsigned>(1, 4);
    for (unsigned f = 0; f < nfund; ++f) {
        RefUtxo view = WsUtxoWithMempool(L);
        auto fc = foreign_coins(view, L.tip_height + 1);
        if (fc.empty()) break;
        auto coin = fc[s.index(fc.size())];
        unsigned nout = s.range<unsigned>(1, 5);
        std::vector<CTxOut> outs;
        CAmount rest = coin.second.value - FUND_FEE;
        for (unsigned k = 0; k < nout; ++k) {
            CAmount v = s.pick<CAmount>({1000000, 100000, 10000000, 100000000, 546, 1000, 294, 5000, 30000, 250000000});
            if (s.chance(60)) v += s.range<int>(-3, 200);
            CScript spk = wallet_script();
            CAmount dust = 546; // standard dust thresholds at 3 sat/vB by output type (the funding transaction itself must be standard)
            if (auto info = ws.ModelScriptInfo(spk)) {
                funded_types.insert(info->type);
                dust = info->type == OutputType::BECH32 ? 294 : info->type == OutputType::BECH32M ? 330 : info->type == OutputType::P2SH_SEGWIT ? 540 : 546;
            }
            v = std::clamp<CAmount>(v, dust, rest / 3);
            outs.emplace_back(v, spk);
            rest -= v;
        }
        if (s.chance(150) && rest > 10000000) { outs.emplace_back(2000000, sim.keys.Script(SpkType::P2WPKH, 1)); rest -= 2000000; } // a foreign coin usable as external input
        outs.emplace_back(rest, P2WSH_OP_TRUE);
        auto mtx = ws.MakeTx({coin}, outs);
        VCHECK(mtx.has_value(), "c41.harness", "cannot build funding tx");
        auto fres = ws.Submit(MakeTransactionRef(*mtx));
        VCHECK(fres.m_result_type == MempoolAcceptResult::ResultType::VALID, "c41.harness", "funding transaction rejected:", fres.m_state.ToString());
        // confirm now (with everything pending), later, or never (stays an untrusted unconfirmed receive)
        unsigned how = s.range<unsigned>(0, 3);
        L = ws.Ledger();
        if (how <= 1) {
            auto m = ws.Mine(sim.TipHash(), L.mempool_txs, {}, 100 + f, &L.chain_utxo);
            VCHECK(m.delivery.processed && sim.TipHash() == m.block->GetHash(), "c41.harness", "funding block rejected");
            L = ws.Ledger();
        }
    }
    if (s.chance(100)) { // extra confirmations: the base coinbases (100/99/98 confirmations at height 104) cross the maturity boundary
        int nb = s.range<int>(1, 3);
        for (int b = 0; b < nb; ++b) { auto m = ws.Mine(sim.TipHash(), {}, {}, 200 + b); VCHECK(m.delivery.processed, "c41.harness", "empty block rejected"); }
        L = ws.Ledger();
    }
    // locked coins
    std::set<COutPoint> locked;
    if (s.chance(80) && !L.coins.empty()) {
        unsigned nl = s.range<unsigned>(1, 2);
        for (unsigned k = 0; k < nl; ++k) {
            auto it = L.coins.begin();
            std::advance(it, s.index(L.coins.size()));
            LOCK(ws.w->cs_wallet);
            ws.w->LockCoin(it->first, /*persist=*/false);
            locked.insert(it->first);
        }
        st.cls("locked-coins");
    }
    if (funded_types.size() >= 3) st.cls("coins-of->=3-output-types");
    st.mix(uint64_t(nfund)); st.mix(uint64_t(funded_types.size()));

    // ------------------------------------------------------------------ CreateTransaction calls
    bool ok_change = false, ok_sffo = false, ok_multi_in = false;
    unsigned ncreate = s.range<unsigned>(1, 5);
    for (unsigned c = 0; c < ncreate && !s.exhausted(); ++c) {
        L = ws.Ledger();
        {
            // the wallet's view of its coins vs the ledger is C44's subject; here it is only recorded
            std::string diff = ws.CompareWithLedger(L, locked);
            if (!diff.empty()) { st.cls("wallet-view-differs-from-ledger"); st.note("pre-create diff: ", diff); }
        }
        RefUtxo view = WsUtxoWithMempool(L);
        wallet::CCoinControl cc;
        const CAmount rate = s.pick<CAmount>({10000, 1000, 1001, 2500, 25000, 100000, 1000000, 999, 0, 5000000});
        cc.m_feerate = CFeeRate{rate};
        cc.fOverrideFeeRate = s.chance(50);
        cc.m_include_unsafe_inputs = s.chance(70);
        if (s.chance(40)) cc.m_min_depth = s.range<int>(0, 3);
        if (s.chance(30)) cc.m_max_depth = s.range<int>(1, 120);
        if (s.chance(60)) cc.m_change_type = TYPES[s.index(std::size(TYPES))];
        cc.m_avoid_partial_spends = s.chance(50);
        if (s.chance(60)) cc.m_signal_bip125_rbf = s.boolean();
        if (s.chance(30)) cc.m_locktime = uint32_t(s.range<int>(0, L.tip_height));
        if (s.chance(20)) cc.m_max_tx_weight = s.pick<int>({4000, 1200, 400000, 800});
        // preset inputs
        std::map<COutPoint, CAmount> preset; // value by outpoint
        bool has_external = false;
        if (s.chance(70)) {
            unsigned np = s.range<unsigned>(1, 2);
            for (unsigned k = 0; k < np && !L.coins.empty(); ++k) {
                auto it = L.coins.begin();
                std::advance(it, s.index(L.coins.size()));
                if (it->second.immature) continue; // a caller-supplied immature coin would make the transaction invalid by the caller's own fault
                cc.Select(it->first);
                preset[it->first] = it->second.value;
            }
            if (s.chance(110)) {
                // an external input: a confirmed coin of the harness key ring (P2WPKH), with solving data
                for (auto& [op, coin] : view) {
                    if (coin.spk == sim.keys.Script(SpkType::P2WPKH, 1) && coin.height > 0) {
                        cc.Select(op).SetTxOut(CTxOut(coin.value, coin.spk));
                        cc.m_external_provider = sim.keys.provider;
                        preset[op] = coin.value;
                        has_external = true;
                        break;
                    }
                }
            }
            cc.m_allow_other_inputs = !s.chance(60);
            st.cls("preset-inputs");
        }
        // recipients
        unsigned nr = s.range<unsigned>(1, 6);
        // "near-coin" requests: one recipient asking for slightly less than one spendable coin, so that a changeless (BnB / exact knapsack) selection
        // or a change output around the viable minimum results
        const bool near_coin = s.chance(70) && !L.spendable.empty();
        if (near_coin) { nr = 1; st.cls("near-coin-request"); }
        std::vector<wallet::CRecipient> rcp;
        std::vector<CScript> rcp_spk;
        const bool all_standard = true;
        CAmount budget = std::max<CAmount>(L.trusted, 1000);
        for (unsigned k = 0; k < nr; ++k) {
            CScript spk;
            unsigned dk = s.range<unsigned>(0, 6);
            switch (dk) {
            case 0: case 1: spk = P2WSH_OP_TRUE; break;
            case 2: spk = sim.keys.Script(SpkType::P2WPKH, 1); break;
            case 3: spk = sim.keys.Script(SpkType::P2TR, 2); break;
            case 4: spk = sim.keys.Script(SpkType::P2PKH, 3); break;
            case 5: spk = wallet_script(); st.cls("self-recipient"); break;
            default: spk = sim.keys.Script(SpkType::P2SH_P2WPKH, 4); break;
            }
            CTxDestination dest;
            bool extracted = ExtractDestination(spk, dest);
            VCHECK(extracted, "c41.harness", "recipient script without destination");
            CAmount amount;
            switch (s.range<unsigned>(0, 7)) {
            case 0: amount = budget / (nr + 1); break;
            case 1: amount = budget / nr + s.range<int>(-2000, 2000); break; // around the whole balance
            case 2: amount = s.pick<CAmount>({294, 330, 546, 547, 1000}); break; // dust-adjacent
            case 3: amount = budget / 50; break;
            case 4: amount = s.range<CAmount>(1000, std::max<CAmount>(2000, budget / 2)); break;
            case 5: amount = budget / (2 * nr); break;
            default: {
                // just below the value of one wallet coin: the selection can exceed the payment by less than a viable change output
                amount = 100000;
                if (!L.spendable.empty()) { auto it = L.spendable.begin(); std::advance(it, s.index(L.spendable.size())); amount = it->second - s.range<int>(0, 700); }
                break;
            }
            }
            if (near_coin) { auto it = L.spendable.begin(); std::advance(it, s.index(L.spendable.size())); amount = it->second - s.range<int>(0, 1500); }
            if (amount < 0) amount = 1000;
            bool sffo = s.chance(70);
            rcp.push_back({dest, amount, sffo});
            rcp_spk.push_back(spk);
        }
        std::optional<unsigned int> change_pos;
        if (s.chance(80)) change_pos = s.range<unsigned>(0, nr + 1);
        const bool sign = !has_external;

        const auto res = wallet::CreateTransaction(*ws.w, rcp, change_pos, cc, sign);
        st.mix(uint64_t(bool(res))); st.mix(uint64_t(nr));
        if (!res) {
            st.cls("create-failed");
            st.note("create#", c, " rate=", rate, " nr=", nr, " failed: ", util::ErrorString(res).original);
            continue;
        }
        st.cls("create-ok");
        CMutableTransaction mtx(*res->tx);
        if (!sign) {
            // complete the signatures: wallet inputs through the wallet, the external one with the harness key
            std::map<COutPoint, RefCoin> spent;
            for (auto& in : mtx.vin) { auto it = view.find(in.prevout); if (it != view.end()) spent[in.prevout] = it->second; }
            std::map<COutPoint, Coin> cmap;
            for (auto& [op, rc] : spent) cmap[op] = Coin(CTxOut(rc.value, rc.spk), rc.height > 0 ? rc.height : 1, rc.coinbase);
            sim.keys.Sign(mtx, spent); // the external input first, then the wallet's own inputs
            std::map<int, bilingual_str> errs;
            ws.w->SignTransaction(mtx, cmap, SIGHASH_DEFAULT, errs);
        }
        const CTransaction tx(mtx);
        st.steps++;
        // O1/O2 inputs
        std::set<COutPoint> seen;
        CAmount in_value = 0;
        std::set<OutputType> in_types;
        for (const auto& in : tx.vin) {
            VCHECK(seen.insert(in.prevout).second, "c41.inputs-distinct", "input repeated", in.prevout.ToString());
            auto pit = preset.find(in.prevout);
            if (pit != preset.end()) { in_value += pit->second; continue; }
            auto it = L.coins.find(in.prevout);
            VCHECK(it != L.coins.end(), "c41.input-not-spendable", "input is neither preset nor an unspent wallet coin of the ledger", in.prevout.ToString());
            const WsCoin& coin = it->second;
            VCHECK(!coin.immature, "c41.input-not-spendable", "immature coinbase output selected", in.prevout.ToString(), "depth", coin.depth);
            VCHECK(!locked.count(in.prevout), "c41.input-not-spendable", "locked coin selected", in.prevout.ToString());
            VCHECK(coin.depth >= cc.m_min_depth && coin.depth <= cc.m_max_depth, "c41.input-not-spendable", "coin outside the requested depth range", in.prevout.ToString(), "depth", coin.depth);
            VCHECK(coin.trusted || cc.m_include_unsafe_inputs, "c41.input-not-spendable", "untrusted unconfirmed coin selected although unsafe inputs were not allowed", in.prevout.ToString());
            if (coin.depth == 0) st.cls("spends-unconfirmed-coin");
            if (auto info = ws.ModelScriptInfo(coin.spk)) in_types.insert(info->type);
            in_value += coin.value;
        }
        // O3/O4 outputs
        const bool has_change = res->change_pos.has_value();
        VCHECK(tx.vout.size() == rcp.size() + (has_change ? 1 : 0), "c41.outputs", "output count", tx.vout.size(), "recipients", rcp.size(), "change", has_change);
        if (has_change) {
            VCHECK(*res->change_pos < tx.vout.size(), "c41.outputs", "change position out of range");
            const CTxOut& ch = tx.vout[*res->change_pos];
            VCHECK(ws.ModelIsMine(ch.scriptPubKey), "c41.change-not-ours", "change output does not pay a script of the wallet's descriptors");
            if (change_pos) VCHECK(*res->change_pos == *change_pos, "c41.outputs", "change not at the requested position", *res->change_pos, *change_pos);
        }
        CAmount out_value = 0;
        for (auto& out : tx.vout) out_value += out.nValue;
        const CAmount fee = in_value - out_value;
        VCHECK(fee == res->fee, "c41.fee", "reported fee", res->fee, "!= inputs - outputs", fee);
        unsigned nsffo = 0;
        for (auto& r : rcp) nsffo += r.fSubtractFeeFromAmount;
        CAmount R = 0;
        std::vector<CAmount> reduced;
        for (size_t i = 0, pos = 0; i < rcp.size(); ++i, ++pos) {
            if (has_change && pos == *res->change_pos) ++pos;
            const CTxOut& out = tx.vout[pos];
            VCHECK(out.scriptPubKey == rcp_spk[i], "c41.recipient", "recipient", i, "script differs");
            if (!rcp[i].fSubtractFeeFromAmount) {
                VCHECK(out.nValue == rcp[i].nAmount, "c41.recipient", "recipient", i, "requested", rcp[i].nAmount, "paid", out.nValue);
            } else {
                reduced.push_back(rcp[i].nAmount - out.nValue);
                R += rcp[i].nAmount - out.nValue;
            }
        }
        if (nsffo) {
            VCHECK(R <= fee, "c41.sffo-split", "recipients were reduced by", R, "in total, more than the fee", fee);
            if (R < 0) {
                // excess input value that cannot become change is added to the recipients: see c41_sffo_literal / SENSITIVITY.md
                st.cls("sffo-recipients-get-more-than-requested");
                VCHECK(!literal, "c41.sffo-negative-share", "subtract-fee recipients receive", -R, "more than requested in total; fee", fee);
            } else {
                for (size_t j = 0; j < reduced.size(); ++j) {
                    CAmount want = R / nsffo + (j == 0 ? R % nsffo : 0);
                    VCHECK(reduced[j] == want, "c41.sffo-split", "subtract-fee recipient", j, "reduced by", reduced[j], "expected", want, "R", R, "n", nsffo);
                }
            }
            st.cls("subtract-fee");
            if (nsffo >= 2) st.cls("subtract-fee-multi");
        }
        // O5 fee bounds
        const int64_t vsize = own_vsize(tx);
        VCHECK((__int128)fee * 1000 >= (__int128)rate * vsize, "c41.fee-too-low", "fee", fee, "< requested", rate, "sat/kvB x", vsize, "vB");
        VCHECK(fee <= ws.w->m_default_max_tx_fee, "c41.fee-too-high", "fee", fee, "> max tx fee", ws.w->m_default_max_tx_fee);
        // O6 node test-accept
        // every generated recipient script is of a standard type and the wallet refuses dust recipients, so all recipients are standard here
        bool accept_claimed = all_standard && rate >= 1000;
        if (accept_claimed) {
            auto ta = ws.Submit(MakeTransactionRef(tx), /*test_accept=*/true);
            VCHECK(ta.m_result_type == MempoolAcceptResult::ResultType::VALID, "c41.test-accept", "node rejects the created transaction:", ta.m_state.ToString(), "rate", rate, "vsize", vsize, "fee", fee);
            st.cls("test-accepted");
        }
        if (has_change) { ok_change = true; st.cls("with-change"); } else st.cls("changeless");
        if (nsffo) ok_sffo = true;
        if (tx.vin.size() >= 2) { ok_multi_in = true; st.cls("multi-input"); }
        if (in_types.size() >= 2) st.cls("mixed-input-types");
        if (has_external) st.cls("external-input");
        st.mix(uint64_t(tx.vin.size())); st.mix(uint64_t(has_change)); st.mix(uint64_t(nsffo));
        st.note("create#", c, " rate=", rate, " nr=", nr, " sffo=", nsffo, " in=", tx.vin.size(), " change=", has_change, " fee=", fee, " vsize=", vsize, " R=", R);
        // sometimes broadcast it so that the next creation sees unconfirmed change / spent coins; sometimes confirm
        if (accept_claimed && !has_external && s.chance(150)) { // (CWallet::CommitTransaction requires every input's parent in the wallet)
            CTransactionRef ptx = MakeTransactionRef(tx);
            ws.w->CommitTransaction(ptx);
            auto r2 = ws.Submit(ptx);
            if (r2.m_result_type == MempoolAcceptResult::ResultType::VALID) {
                for (auto& in : tx.vin) locked.erase(in.prevout); // the wallet unlocks coins it sees spent
                st.cls("committed");
                if (s.chance(100)) { L = ws.Ledger(); auto m = ws.Mine(sim.TipHash(), L.mempool_txs, {}, 300 + c, &L.chain_utxo); VCHECK(m.delivery.processed, "c41.harness", "block rejected"); }
            } else {
                ws.AbandonFloating();
            }
        }
    }
    st.nontrivial = ok_change && ok_sffo && ok_multi_in;
    wsp.reset();
    simp.reset();
    SetMockTime(0);
}

} // namespace

VERIF_TARGET(c41_createtx, nullptr, 96, 700,
             "a descriptor wallet on a regtest node (coinbases at 100/99/98 confirmations) is funded by 1-4 generated transactions (1-5 outputs each over 4 "
             "output types, amounts from dust-adjacent to 2.5 BTC, reused addresses; confirmed, or left unconfirmed = untrusted), optional extra blocks, locked "
             "coins; then 1-5 CreateTransaction calls with 1-6 recipients (foreign/own scripts, amounts around balance/n, dust-adjacent), subtract-fee flags on any "
             "subset, feerates 0..5000 sat/vB, coin control (preset wallet inputs, an external input with solving data, allow_other_inputs, unsafe inputs, "
             "min/max depth, change type, avoid partial spends, change position, locktime, max weight); successful results are sometimes committed+broadcast / "
             "mined so that later calls see unconfirmed change. non-trivial = the case has successful creations with change, with a subtract-fee recipient and "
             "with >=2 inputs; distinct = funding shape + per-call (success, recipients, inputs, change, subtract count)")
{
    run_case(s, st, /*literal=*/false);
}

// Not registered in bin/props.d/C41.py: same generator, additionally asserting that subtract-fee recipients are never paid MORE than requested.
VERIF_TARGET(c41_sffo_literal, nullptr, 96, 700,
             "same generator as c41_createtx; additionally fails when the subtract-fee recipients together receive more than requested (negative share)")
{
    run_case(s, st, /*literal=*/true);
}
